(* C02 - the container code as it stood at the pinned commit does NOT keep the
   invariant.  Each witness was replayed against the implementation before the
   repairs of handoff/C02-fix-*.diff (harness/props/c02.py CORPUS holds the
   same histories; they now end in a rejected call). *)
From CfdmV Require Import Common.Base C02.Model C02.Run.
Open Scope string_scope.
Open Scope Z_scope.

Definition ax (n : Z) := SetConstruct VField DomainAxis (PAxis n) None None.
Definition arr (t : ctype) (sh : list Z) (a : list key) :=
  SetConstruct VField t (PArr (Some sh) true None) None (Some a).

Definition base58 : cstate :=
  run [ax 5; ax 8; SetData [5; 8] (Some ["domainaxis0"; "domainaxis1"]);
       arr DimCoord [5] ["domainaxis0"]].

(* F02a: delete the coordinate, then the axis - the cfdm.Field route skipped
   the core guard; the field data still span the axis, repr/str/dump fail. *)
Theorem C02_old_field_route_deletes_spanned_axis_refuted :
  exists s, let s1 := fst (del_construct_old VField "dimensioncoordinate0" s) in
            let r := del_construct_old VField "domainaxis0" s1 in
    snd r = Done /\ faxes (fst r) = Some ["domainaxis0"; "domainaxis1"] /\
    axis_size (cons (fst r)) "domainaxis0" = None /\ describe_ok (fst r) = false.
Proof. exists base58. vm_compute. repeat split; reflexivity. Qed.

(* the same through the domain view, which cannot see the field's data ... *)
Theorem C02_old_domain_view_deletes_axis_of_data_refuted :
  exists s, let r := del_construct_old VDomain "domainaxis1" s in
    snd r = Done /\ describe_ok (fst r) = false.
Proof. exists base58. vm_compute. split; reflexivity. Qed.

(* ... nor field ancillaries or cell methods *)
Theorem C02_old_domain_view_deletes_axis_of_hidden_constructs_refuted :
  exists s, let r := del_construct_old VDomain "domainaxis0" s in
    snd r = Done /\
    assoc "fieldancillary0" (caxes (fst r)) = Some ["domainaxis0"] /\
    cget CellMethod "cellmethod0" (cons (fst r)) = Some (PCm ["domainaxis0"]) /\
    axis_size (cons (fst r)) "domainaxis0" = None.
Proof.
  exists (run [ax 5; arr FieldAnc [5] ["domainaxis0"];
               SetConstruct VField CellMethod (PCm ["domainaxis0"]) None None]).
  vm_compute. repeat split; reflexivity.
Qed.

(* F02b: an explicit key owned by a construct of another type is registered twice *)
Theorem C02_old_key_under_two_types_refuted :
  exists s, let r := set_construct_old VField CellMeasure (PArr (Some [5]) true None)
                       (Some "dimensioncoordinate0") (Some ["domainaxis0"]) s in
    snd r = Done /\ assoc "dimensioncoordinate0" (ctys (fst r)) = Some CellMeasure /\
    cget DimCoord "dimensioncoordinate0" (cons (fst r)) <> None /\
    cget CellMeasure "dimensioncoordinate0" (cons (fst r)) <> None.
Proof. exists base58. vm_compute. repeat split; discriminate. Qed.

(* ... and a generated identifier could collide with a key given earlier *)
Theorem C02_old_generated_key_collides_refuted :
  exists s, new_identifier_old s CellMeasure = Some "cellmeasure0" /\
            assoc "cellmeasure0" (ctys s) = Some DimCoord.
Proof.
  exists (run [ax 5; SetConstruct VField DimCoord (PArr (Some [5]) true None)
                       (Some "cellmeasure0") (Some ["domainaxis0"])]).
  vm_compute. split; reflexivity.
Qed.

(* replacing a construct under its key kept the recorded axes without a check *)
Theorem C02_old_replace_keeps_axes_unchecked_refuted :
  exists s, let r := set_construct_old VField DimCoord (PArr (Some [7]) true None)
                       (Some "dimensioncoordinate0") None s in
    snd r = Done /\ assoc "dimensioncoordinate0" (caxes (fst r)) = Some ["domainaxis0"] /\
    check_axes (cons (fst r)) (PArr (Some [7]) true None) ["domainaxis0"] = false.
Proof. exists base58. vm_compute. repeat split; reflexivity. Qed.

(* replacing a spanned domain axis by one of another size was accepted *)
Theorem C02_old_resize_spanned_axis_refuted :
  exists s, let r := set_construct_old VField DomainAxis (PAxis 7) (Some "domainaxis0") None s in
    snd r = Done /\ check_field_axes (cons (fst r)) (fshape (fst r)) ["domainaxis0"; "domainaxis1"] = false.
Proof. exists base58. vm_compute. split; reflexivity. Qed.

(* data axes could be recorded for a construct that cannot have data *)
Theorem C02_old_axes_for_non_array_refuted :
  exists s, let r := set_data_axes_old VField ["domainaxis0"] (Some "domainaxis0") s in
    snd r = Done /\ assoc "domainaxis0" (caxes (fst r)) = Some ["domainaxis0"].
Proof. exists base58. vm_compute. split; reflexivity. Qed.

(* without data the field's data axes were not checked for existence: repr fails *)
Theorem C02_old_field_axes_unchecked_without_data_refuted :
  exists s, let r := set_data_axes_old VField ["nope0"] None s in
    snd r = Done /\ describe_ok (fst r) = false.
Proof. exists (run [ax 5]). vm_compute. split; reflexivity. Qed.

(* insert_dimension(position=-1, inplace=True): the axes list and the data
   disagree about the position; the call is rejected and the data keep the
   new dimension *)
Theorem C02_old_insert_negative_position_refuted :
  exists s, let r := insert_dimension_old "domainaxis2" (-1) s in
    snd r = Rejected ValueErr /\ fshape (fst r) = Some [5; 8; 1] /\
    faxes (fst r) = Some ["domainaxis0"; "domainaxis1"].
Proof.
  exists (run [ax 5; ax 8; ax 1; SetData [5; 8] (Some ["domainaxis0"; "domainaxis1"])]).
  vm_compute. repeat split; reflexivity.
Qed.

(* str/dump looked up data_axes()[key] for every construct: a construct inserted
   without axes (a call that completes) made them raise (F19a) *)
Theorem C02_old_describe_needs_axes_refuted :
  exists s, describe_ok s = true /\ describe_ok_old s = false.
Proof.
  exists (run [ax 5; SetConstruct VField AuxCoord (PArr (Some [5]) true None) None None]).
  vm_compute. split; reflexivity.
Qed.
