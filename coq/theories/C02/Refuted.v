(* C02 - the container code as it stood at the pinned commit does NOT keep the
   invariant.  Each witness was replayed against the implementation before the
   repairs of handoff/C02-fix-*.diff (harness/props/c02.py CORPUS holds the
   same histories; they now end in a rejected call). *)
From CfdmV Require Import Common.Base C02.Model C02.Run.
Open Scope string_scope.
Open Scope Z_scope.

Definition ax (n : Z) := SetConstruct VField DomainAxis (PAxis n) None None.
Definition arr (t : ctype) (sh : list Z) (a : list key) :=
  SetConstruct VField t (PArr (Some sh) true None) None (Some a).

Definition base58 : cstate :=
  run [ax 5; ax 8; SetData [5; 8] (Some ["domainaxis0"; "domainaxis1"]);
       arr DimCoord [5] ["domainaxis0"]].

(* F02a: delete the coordinate, then the axis - the cfdm.Field route skipped
   the core guard; the field data still span the axis, repr/str/dump fail. *)
Theorem C02_old_field_route_deletes_spanned_axis_refuted :
  exists s, let s1 := fst (del_construct_old VField "dimensioncoordinate0" s) in
            let r := del_construct_old VField "domainaxis0" s1 in
    snd r = Done /\ faxes (fst r) = Some ["domainaxis0"; "domainaxis1"] /\
    axis_size (cons (fst r)) "domainaxis0" = None /\ describe_ok (fst r) = false.
Proof. exists base58. vm_compute. repeat split; reflexivity. Qed.

(* the same through the domain view, which cannot see the field's data ... *)
Theorem C02_old_domain_view_deletes_axis_of_data_refuted :
  exists s, let r := del_construct_old VDomain "domainaxis1" s in
    snd r = Done /\ describe_ok (fst r) = false.
Proof. exists base58. vm_compute. split; reflexivity. Qed.

(* ... nor field ancillaries or cell methods *)
Theorem C02_old_domain_view_deletes_axis_of_hidden_constructs_refuted :
  exists s, let r := del_construct_old VDomain "domainaxis0" s in
    snd r = Done /\
    assoc "fieldancillary0" (caxes (fst r)) = Some ["domainaxis0"] /\
    cget CellMethod "cellmethod0" (cons (fst r)) = Some (PCm ["domainaxis0"]) /\
    axis_size (cons (fst r)) "domainaxis0" = None.
Proof.
  exists (run [ax 5; arr FieldAnc [5] ["domainaxis0"];
               SetConstruct VField CellMethod (PCm ["domainaxis0"]) None None]).
  vm_compute. repeat split; reflexivity.
Qed.

(* F02b: an explicit key owned by a construct of another type is registered twice *)
Theorem C02_old_key_under_two_types_refuted :
  exists s, let r := set_construct_old VField CellMeasure (PArr (Some [5]) true None)
                       (Some "dimensioncoordinate0") (Some ["domainaxis0"]) s in
    snd r = Done /\ assoc "dimensioncoordinate0" (ctys (fst r)) = Some CellMeasure /\
    cget DimCoord "dimensioncoordinate0" (cons (fst r)) <> None /\
    cget CellMeasure "dimensioncoordinate0" (cons (fst r)) <> None.
Proof. exists base58. vm_compute. repeat split; discriminate. Qed.

(* ... and a generated identifier could collide with a key given earlier *)
Theorem C02_old_generated_key_collides_refuted :
  exists s, new_identifier_old s CellMeasure = Some "cellmeasure0" /\
            assoc "cellmeasure0" (ctys s) = Some DimCoord.
Proof.
  exists (run [ax 5; SetConstruct VField DimCoord (PArr (Some [5]) true None)
                       (Some "cellmeasure0") (Some ["domainaxis0"])]).
  vm_compute. split; reflexivity.
Qed.

(* replacing a construct under its key kept the recorded axes without a check *)
Theorem C02_old_replace_keeps_axes_unchecked_refuted :
  exists s, let r := set_construct_old VField DimCoord (PArr (Some [7]) true None)
                       (Some "dimensioncoordinate0") None s in
    snd r = Done /\ assoc "dimensioncoordinate0" (caxes (fst r)) = Some ["domainaxis0"] /\
    check_axes (cons (fst r)) (PArr (Some [7]) true None) ["domainaxis0"] = false.
Proof. exists base58. vm_compute. repeat split; reflexivity. Qed.

(* replacing a spanned domain axis by one of another size was accepted *)
Theorem C02_old_resize_spanned_axis_refuted :
  exists s, let r := set_construct_old VField DomainAxis (PAxis 7) (Some "domainaxis0") None s in
    snd r = Done /\ check_field_axes (cons (fst r)) (fshape (fst r)) ["domainaxis0"; "domainaxis1"] = false.
Proof. exists base58. vm_compute. split; reflexivity. Qed.

(* data axes could be recorded for a construct that cannot have data *)
Theorem C02_old_axes_for_non_array_refuted :
  exists s, let r := set_data_axes_old VField ["domainaxis0"] (Some "domainaxis0") s in
    snd r = Done /\ assoc "domainaxis0" (caxes (fst r)) = Some ["domainaxis0"].
Proof. exists base58. vm_compute. split; reflexivity. Qed.

(* without data the field's data axes were not checked for existence: repr fails *)
Theorem C02_old_field_axes_unchecked_without_data_refuted :
  exists s, let r := set_data_axes_old VField ["nope0"] None s in
    snd r = Done /\ describe_ok (fst r) = false.
Proof. exists (run [ax 5]). vm_compute. split; reflexivity. Qed.

(* insert_dimension(position=-1, inplace=True): the axes list and the data
   disagree about the position; the call is rejected and the data keep the
   new dimension *)
Theorem C02_old_insert_negative_position_refuted :
  exists s, let r := insert_dimension_old "domainaxis2" (-1) s in
    snd r = Rejected ValueErr /\ fshape (fst r) = Some [5; 8; 1] /\
    faxes (fst r) = Some ["domainaxis0"; "domainaxis1"].
Proof.
  exists (run [ax 5; ax 8; ax 1; SetData [5; 8] (Some ["domainaxis0"; "domainaxis1"])]).
  vm_compute. repeat split; reflexivity.
Qed.

(* str/dump looked up data_axes()[key] for every construct: a construct inserted
   without axes (a call that completes) made them raise (F19a) *)
Theorem C02_old_describe_needs_axes_refuted :
  exists s, describe_ok s = true /\ describe_ok_old s = false.
Proof.
  exists (run [ax 5; SetConstruct VField AuxCoord (PArr (Some [5]) true None) None None]).
  vm_compute. split; reflexivity.
Qed.

(* ------------------------------------------------------------------ *)
(* A view that records its immediate source as _view_source instead of the
   source's own _view_source ("self._view_source = source"): a view of a view
   then consults the intermediate view's stale _field_data_axes attribute, so
   an axis that only the field's data span can be deleted, or replaced by one
   of another size, through the nested domain.  The same calls through the
   first-level view are refused. *)
Definition rule_immediate : src_rule := fun parent _ => parent.

Definition nested_prefix : list wop :=
  [ Plain (SetConstruct VField DomainAxis (PAxis 4) None None);
    Plain (SetData [4] (Some ["domainaxis0"]));
    Plain (InsertDimension None 0 false true []);
    TakeView 0 RFromConstructs;
    TakeView 1 RFromConstructs ].

Definition wrun_with (rule : src_rule) (ops : list wop) : wstate :=
  fold_left (fun w o => fst (wstep_with rule w o)) ops winit.

Theorem C02_view_source_immediate_refuted :
  let w := wrun_with rule_immediate nested_prefix in
  (* through the first-level view: refused *)
  snd (wstep_with rule_immediate w (Through 1 (DelConstruct VDomain "domainaxis1"))) = Rejected ValueErr /\
  (* through the view of the view: accepted, and the field is broken *)
  snd (wstep_with rule_immediate w (Through 2 (DelConstruct VDomain "domainaxis1"))) = Done /\
  describe_ok (root (fst (wstep_with rule_immediate w (Through 2 (DelConstruct VDomain "domainaxis1"))))) = false /\
  snd (wstep_with rule_immediate w
         (Through 2 (SetConstruct VDomain DomainAxis (PAxis 3) (Some "domainaxis1") None))) = Done /\
  (let s' := root (fst (wstep_with rule_immediate w
                 (Through 2 (SetConstruct VDomain DomainAxis (PAxis 3) (Some "domainaxis1") None)))) in
   match faxes s' with Some ax => check_field_axes (cons s') (fshape s') ax | None => true end = false) /\
  (* the code as it is: both refused *)
  (let w0 := wrun nested_prefix in
   snd (wstep w0 (Through 2 (DelConstruct VDomain "domainaxis1"))) = Rejected ValueErr /\
   snd (wstep w0 (Through 2 (SetConstruct VDomain DomainAxis (PAxis 3) (Some "domainaxis1") None))) = Rejected ValueErr).
Proof. repeat split; vm_compute; reflexivity. Qed.

(* ------------------------------------------------------------------ *)
(* convert(full_domain=True) that skips coordinates whose axes tuple is empty
   ("if not axes: continue" for "if axes is None: continue") but still carries
   the references that name them: the derived field has a coordinate reference
   naming a coordinate it does not hold.  The code as it is carries the scalar
   coordinate. *)
Definition conv_keep_nonempty (s : cstate) (dax : list key) (e : centry) : bool :=
  conv_keep s dax e &&
  match assoc (snd (fst e)) (caxes s) with Some (_ :: _) => true | _ => false end.

Definition scalar_history : list op :=
  [ ax 3;
    SetConstruct VField DimCoord (PArr (Some [3]) true None) None (Some ["domainaxis0"]);
    SetConstruct VField AuxCoord (PArr (Some []) true None) None (Some []);
    SetConstruct VField CoordRef (PRef ["auxiliarycoordinate0"; "dimensioncoordinate0"] []) None None ].

Theorem C02_convert_drops_scalar_coordinate_refuted :
  let s := run scalar_history in
  let bad := convert_with conv_keep_nonempty "dimensioncoordinate0" true s in
  let good := convert "dimensioncoordinate0" true s in
  snd bad = Done /\
  cget CoordRef "coordinatereference0" (cons (fst bad))
    = Some (PRef ["auxiliarycoordinate0"; "dimensioncoordinate0"] []) /\
  assoc "auxiliarycoordinate0" (ctys (fst bad)) = None /\
  snd good = Done /\
  assoc "auxiliarycoordinate0" (ctys (fst good)) = Some AuxCoord /\
  assoc "auxiliarycoordinate0" (caxes (fst good)) = Some [].
Proof. vm_compute. repeat split; reflexivity. Qed.

(* ------------------------------------------------------------------ *)
(* Field(source=f, copy=False) as it stood: the new field g was given f's
   constructs container itself.  The container records one _field_data_axes;
   g.del_data_axes() clears it (and g's own data axes), after which
   g.del_construct(axis) deletes, from the collection f uses, an axis that only
   f's data span.  With the repair (C02-fix3-1) g has its own container:
   Model.OnSibling leaves the root's collection alone. *)
Definition sibling_delete_old (k : key) (s : cstate) : cstate * outcome :=
  let (s', out) := del_construct VField k (with_field s (fshape s) None) in
  (mkS (cons s') (ctys s') (caxes s') (fshape s) (faxes s), out).

Theorem C02_shared_container_refuted :
  let s := run [ax 5; SetData [5] (Some ["domainaxis0"]); InsertDimension None 0 false true []] in
  faxes s = Some ["domainaxis1"; "domainaxis0"] /\
  snd (sibling_delete_old "domainaxis1" s) = Done /\
  describe_ok (fst (sibling_delete_old "domainaxis1" s)) = false /\
  root (fst (wstep (mkW s []) (OnSibling []))) = s.
Proof. vm_compute. repeat split; reflexivity. Qed.

(* ------------------------------------------------------------------ *)
(* insert_dimension(constructs=True) as it stood: the new axis was inserted
   into dimension coordinates as well, leaving one with 2-d data - a state in
   which it, and the field that holds it, cannot be copied (copy, f[...],
   every inplace=False method raise ValueError).  The code as it is leaves the
   dimension coordinate and its data axes alone. *)
Definition insert_entry_old (axis : key) (position : Z) (data_axes0 : list key)
           (cax : list (key * list key)) (e : centry)
  : option (centry * option (key * list key)) :=
  match e with
  | (t, k, PArr (Some sh) true bnd) =>
      if is_array t then
        match assoc k cax with
        | None => None
        | Some ca =>
            if memb axis ca then Some (e, None)
            else
              let cpos := fold_left (fun c a => if memb a ca then c else c - 1) data_axes0 position in
              let cpos := if cpos <? 0 then 0 else cpos in
              if Z.of_nat (length sh) <? cpos then None else
              Some ((t, k, PArr (Some (insert_at cpos 1 sh)) true bnd), Some (k, insert_at cpos axis ca))
        end
      else Some (e, None)
  | _ => Some (e, None)
  end.

Theorem C02_insert_dimension_2d_dimcoord_refuted :
  let e := (DimCoord, "dimensioncoordinate0", PArr (Some [5]) true None) in
  let cax := [("dimensioncoordinate0", ["domainaxis0"])] in
  insert_entry_old "domainaxis1" 0 ["domainaxis0"] cax e
    = Some ((DimCoord, "dimensioncoordinate0", PArr (Some [1; 5]) true None),
            Some ("dimensioncoordinate0", ["domainaxis1"; "domainaxis0"])) /\
  copyable_entry (DimCoord, "dimensioncoordinate0", PArr (Some [1; 5]) true None) = false /\
  insert_entry "domainaxis1" 0 ["domainaxis0"] cax e = Some (e, None).
Proof. vm_compute. repeat split; reflexivity. Qed.
