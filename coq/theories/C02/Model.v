(* C02 - executable model of the construct container of a cfdm Field and of the
   operations that mutate or derive it.  Definitions only.

   Transcribed from (cfdm 1.11.2.0 with the repairs of handoff/C02-fix-*.diff):
     cfdm/core/constructs.py   Constructs._set_construct, _set_construct_data_axes,
                               _del_construct, _domain_axis_spanned_by, _pop,
                               new_identifier, _check_construct_type, get_data_axes
     cfdm/constructs.py        Constructs._set_construct / _del_construct (no abstract effect added)
     cfdm/core/field.py        Field.del_construct, set_data, set_data_axes, del_data_axes
     cfdm/core/domain.py       Domain.del_construct, fromconstructs (the live view)
     cfdm/core/mixin/fielddomain.py  set_construct, set_data_axes, del_data_axes
     cfdm/mixin/fielddomain.py FieldDomain.del_construct (the route cfdm.Field takes)
     cfdm/field.py             Field.__getitem__, squeeze, transpose, insert_dimension, convert
   The behaviour of the code as it stood at the pinned commit is kept in the
   [..._old] definitions at the end (witnesses in Refuted.v). *)
From CfdmV Require Import Common.Base.
Open Scope string_scope.
Open Scope Z_scope.

(* ------------------------------------------------------------------ *)
(* Vocabulary                                                          *)
(* ------------------------------------------------------------------ *)
Inductive ctype :=
| DomainAxis | DimCoord | AuxCoord | DomainAnc | FieldAnc | CellMeasure
| CoordRef | CellMethod.

Definition ctype_eqb (a b : ctype) : bool :=
  match a, b with
  | DomainAxis, DomainAxis | DimCoord, DimCoord | AuxCoord, AuxCoord
  | DomainAnc, DomainAnc | FieldAnc, FieldAnc | CellMeasure, CellMeasure
  | CoordRef, CoordRef | CellMethod, CellMethod => true
  | _, _ => false
  end.

(* Constructs._array_constructs *)
Definition is_array (t : ctype) : bool :=
  match t with
  | DimCoord | AuxCoord | DomainAnc | FieldAnc | CellMeasure => true
  | _ => false
  end.

(* the types hidden by the domain view: Domain.fromconstructs,
   _view(ignore=("cell_method", "field_ancillary")) *)
Definition ignored (t : ctype) : bool :=
  match t with FieldAnc | CellMethod => true | _ => false end.

(* Field._construct_key_base *)
Definition key_base (t : ctype) : string :=
  match t with
  | DomainAxis => "domainaxis" | DimCoord => "dimensioncoordinate"
  | AuxCoord => "auxiliarycoordinate" | DomainAnc => "domainancillary"
  | FieldAnc => "fieldancillary" | CellMeasure => "cellmeasure"
  | CoordRef => "coordinatereference" | CellMethod => "cellmethod"
  end.

Definition key := string.

(* What the container needs to know about a construct. *)
Inductive payload :=
| PAxis (size : Z)                                   (* DomainAxis.get_size() *)
| PArr (shape : option (list Z)) (hasdata : bool) (bnd : option Z)
    (* construct.shape (None: AttributeError, neither data nor bounds);
       has_data(); trailing size of the bounds data if any *)
| PRef (coords : list key) (ancs : list (string * option key))
    (* CoordinateReference.coordinates(), coordinate_conversion.domain_ancillaries() *)
| PCm (axes : list key).
    (* CellMethod.get_axes() restricted to domain axis identifiers *)

Definition pshape (p : payload) : option (list Z) :=
  match p with PArr sh _ _ => sh | _ => None end.

Definition phasdata (p : payload) : bool :=
  match p with PArr _ h _ => h | _ => false end.

Definition kind_ok (t : ctype) (p : payload) : bool :=
  match t, p with
  | DomainAxis, PAxis _ => true
  | CoordRef, PRef _ _ => true
  | CellMethod, PCm _ => true
  | _, PArr _ _ _ => is_array t
  | _, _ => false
  end.

Definition centry := (ctype * key * payload)%type.

Record cstate := mkS {
  cons : list centry;            (* Constructs._constructs : type -> key -> construct *)
  ctys : list (key * ctype);     (* Constructs._construct_type *)
  caxes : list (key * list key); (* Constructs._construct_axes *)
  fshape : option (list Z);      (* shape of the field's data *)
  faxes : option (list key)      (* the field's 'data_axes' component
                                    (= Constructs._field_data_axes) *)
}.

Definition init : cstate := mkS [] [] [] None None.

Inductive via := VField | VDomain | VCore.

Inductive op :=
| SetConstruct (v : via) (t : ctype) (p : payload) (k : option key) (axes : option (list key))
| DelConstruct (v : via) (k : key)
| SetData (shape : list Z) (axes : option (list key))
| DelData
| SetDataAxes (v : via) (axes : list key) (k : option key)
| DelDataAxes (v : via) (k : option key)
| Copy
| Subspace (sel : list (option Z))
| Squeeze (axes : option (list Z)) (inplace : bool)
| Transpose (axes : option (list Z)) (constructs inplace : bool) (done : list key)
| InsertDimension (axis : option key) (pos : Z) (constructs inplace : bool) (done : list key)
    (* [done]: only read when constructs=True and the loop over the metadata
       constructs raises part-way: the keys of the constructs that the loop had
       already dealt with.  The loop runs over a python set of type names, so
       the order is not a function of the abstract state; every choice of
       [done] is a possible behaviour and the theorems hold for all of them *)
| Convert (k : key) (full : bool).

(* outcome of a call *)
Inductive outcome := Done | Rejected (e : errk) | OutOfModel.

(* ------------------------------------------------------------------ *)
(* association-list helpers (python dict operations)                   *)
(* ------------------------------------------------------------------ *)
Definition aremove {A} (k : key) (l : list (key * A)) : list (key * A) :=
  filter (fun e => negb (String.eqb k (fst e))) l.

Definition aset {A} (k : key) (v : A) (l : list (key * A)) : list (key * A) :=
  (k, v) :: aremove k l.

Definition same_entry (t : ctype) (k : key) (e : centry) : bool :=
  ctype_eqb t (fst (fst e)) && String.eqb k (snd (fst e)).

Fixpoint cget (t : ctype) (k : key) (l : list centry) : option payload :=
  match l with
  | [] => None
  | e :: r => if same_entry t k e then Some (snd e) else cget t k r
  end.

Definition cdel (t : ctype) (k : key) (l : list centry) : list centry :=
  filter (fun e => negb (same_entry t k e)) l.

Definition cset (t : ctype) (k : key) (p : payload) (l : list centry) : list centry :=
  (t, k, p) :: cdel t k l.

Definition of_type (t : ctype) (l : list centry) : list centry :=
  filter (fun e => ctype_eqb t (fst (fst e))) l.

Definition memb (k : key) (l : list key) : bool := existsb (String.eqb k) l.

(* ------------------------------------------------------------------ *)
(* domain axes and shapes                                              *)
(* ------------------------------------------------------------------ *)
Definition axis_size (c : list centry) (a : key) : option Z :=
  match cget DomainAxis a c with Some (PAxis n) => Some n | _ => None end.

Fixpoint axes_sizes (c : list centry) (axs : list key) : option (list Z) :=
  match axs with
  | [] => Some []
  | a :: r =>
      match axis_size c a, axes_sizes c r with
      | Some n, Some ns => Some (n :: ns)
      | _, _ => None
      end
  end.

Definition zlist_eqb := list_eqb Z.eqb.

(* Constructs._set_construct_data_axes: every axis exists, and the shape of
   the construct (when it has one) equals the axis sizes *)
Definition check_axes (c : list centry) (p : payload) (axs : list key) : bool :=
  match axes_sizes c axs with
  | None => false
  | Some szs => match pshape p with Some sh => zlist_eqb sh szs | None => true end
  end.

(* Field.set_data_axes: every axis exists and, when there is a data shape,
   the sizes equal it *)
Definition check_field_axes (c : list centry) (sh : option (list Z)) (axs : list key) : bool :=
  match axes_sizes c axs with
  | None => false
  | Some szs => match sh with Some s => zlist_eqb s szs | None => true end
  end.

(* Constructs._domain_axis_spanned_by *)
Definition spanned_by_construct (s : cstate) (a : key) : bool :=
  existsb (fun e => match assoc (fst e) (caxes s) with
                    | Some axs => memb a axs | None => false end) (caxes s).

(* "key in (source._field_data_axes or ())" for a constructs container whose
   _field_data_axes attribute holds [fda] *)
Definition fda_spans (fda : option (list key)) (a : key) : bool :=
  match fda with Some ax => memb a ax | None => false end.

Definition spanned_by_field (s : cstate) (a : key) : bool := fda_spans (faxes s) a.

Definition cm_names (a : key) (e : centry) : bool :=
  match e with (CellMethod, _, PCm axs) => memb a axs | _ => false end.

(* A field can be copied only if each of its dimension coordinates with data
   is 1-d (DimensionCoordinate.set_data refuses anything else; insert_dimension
   with constructs=True makes them 2-d in place, after which Field.copy raises) *)
Definition copyable_entry (e : centry) : bool :=
  match e with
  | (DimCoord, _, PArr (Some sh) true _) => Nat.eqb (length sh) 1
  | _ => true
  end.

Definition copyable (s : cstate) : bool := forallb copyable_entry (cons s).

(* ------------------------------------------------------------------ *)
(* new_identifier                                                      *)
(* ------------------------------------------------------------------ *)
Definition digit (n : nat) : ascii := ascii_of_nat (48 + n).

Fixpoint dec (fuel n : nat) (acc : string) : string :=
  match fuel with
  | O => acc
  | S f => let acc' := String (digit (Nat.modulo n 10)) acc in
           if Nat.eqb (Nat.div n 10) 0 then acc' else dec f (Nat.div n 10) acc'
  end.

Definition nat_str (n : nat) : string := dec 8 n "".

(* "while key in self._construct_type: n += 1".  The loop ends after at most
   len(_construct_type)+1 rounds; the fuel is that bound (None = fuel exhausted,
   which the step function reports as out of the model) *)
Fixpoint fresh (fuel n : nat) (base : string) (taken : list key) : option key :=
  match fuel with
  | O => None
  | S f => let k := base ++ nat_str n in
           if memb k taken then fresh f (S n) base taken else Some k
  end.

Definition new_identifier (s : cstate) (t : ctype) : option key :=
  fresh (S (S (length (ctys s)))) (length (of_type t (cons s))) (key_base t) (map fst (ctys s)).

(* ------------------------------------------------------------------ *)
(* set_construct                                                       *)
(* ------------------------------------------------------------------ *)
Definition is_view (v : via) : bool := match v with VDomain => true | _ => false end.

Definition psize (p : payload) : option Z := match p with PAxis n => Some n | _ => None end.

(* [fda]: the _field_data_axes attribute of the container that
   _domain_axis_spanned_by consults - getattr(self, "_view_source", self): the
   container itself for a field, the container a view is (transitively) a view
   of otherwise *)
Definition set_construct_g (fda : option (list key)) (v : via) (t : ctype) (p : payload) (k : option key)
           (axes : option (list key)) (s : cstate) : cstate * outcome :=
  if negb (kind_ok t p) then (s, OutOfModel) else
  (* a dimension coordinate with data of another rank cannot be created:
     DimensionCoordinate.set_data raises before the container is reached *)
  if negb (copyable_entry (t, EmptyString, p)) then (s, Rejected ValueErr) else
  (* _check_construct_type *)
  if is_view v && ignored t then (s, Rejected ValueErr) else
  match (match k with Some k => Some k | None => new_identifier s t end) with
  | None => (s, OutOfModel)
  | Some key =>
  (* identifier in use by a construct of another type *)
  let clash := match k with
               | Some k => match assoc k (ctys s) with
                           | Some t' => negb (ctype_eqb t t') | None => false end
               | None => false end in
  if clash then (s, Rejected ValueErr) else
  (* a spanned domain axis may not change size *)
  let resize := match t, cget DomainAxis key (cons s) with
                | DomainAxis, Some old =>
                    negb (option_eqb Z.eqb (psize old) (psize p)) &&
                    (spanned_by_construct s key || fda_spans fda key)
                | _, _ => false end in
  if resize then (s, Rejected ValueErr) else
  if is_array t then
    let axes' := match axes with Some a => Some a | None => assoc key (caxes s) end in
    match axes' with
    | Some a =>
        if check_axes (cons s) p a then
          (mkS (cset t key p (cons s)) (aset key t (ctys s)) (aset key a (caxes s))
               (fshape s) (faxes s), Done)
        else (s, Rejected ValueErr)
    | None =>
        (mkS (cset t key p (cons s)) (aset key t (ctys s)) (caxes s) (fshape s) (faxes s), Done)
    end
  else
    match axes with
    | Some _ => (s, Rejected ValueErr)
    | None =>
        (mkS (cset t key p (cons s)) (aset key t (ctys s)) (caxes s) (fshape s) (faxes s), Done)
    end
  end.

(* through the field, the core route, or a view whose source is the field's
   own container (what Constructs.__init__ arranges for every view) *)
Definition set_construct (v : via) (t : ctype) (p : payload) (k : option key)
           (axes : option (list key)) (s : cstate) : cstate * outcome :=
  set_construct_g (faxes s) v t p k axes s.

(* ------------------------------------------------------------------ *)
(* del_construct                                                       *)
(* ------------------------------------------------------------------ *)
(* Constructs.construct_type(key): the view hides ignored types *)
Definition visible_type (v : via) (s : cstate) (k : key) : option ctype :=
  match assoc k (ctys s) with
  | Some t => if is_view v && ignored t then None else Some t
  | None => None
  end.

Definition clean_ref (k : key) (e : centry) : centry :=
  match e with
  | (CoordRef, rk, PRef cs ancs) =>
      (CoordRef, rk,
       PRef (filter (fun c => negb (String.eqb k c)) cs)
            (map (fun ta => match snd ta with
                            | Some a => if String.eqb k a then (fst ta, None) else ta
                            | None => ta end) ancs))
  | _ => e
  end.

(* Constructs._del_construct followed by _pop *)
Definition del_construct_core_g (fda : option (list key)) (v : via) (k : key) (s : cstate)
  : cstate * outcome :=
  match cget DomainAxis k (cons s) with
  | Some _ =>
      if spanned_by_construct s k || (is_view v && fda_spans fda k)
      then (s, Rejected ValueErr)
      else if existsb (cm_names k) (cons s) then (s, Rejected ValueErr)
      else
        match visible_type v s k with
        | Some t => (mkS (cdel t k (cons s)) (aremove k (ctys s)) (aremove k (caxes s))
                         (fshape s) (faxes s), Done)
        | None => (s, Rejected ValueErr)
        end
  | None =>
      let c' := map (clean_ref k) (cons s) in
      match visible_type v s k with
      | Some t => (mkS (cdel t k c') (aremove k (ctys s)) (aremove k (caxes s))
                       (fshape s) (faxes s), Done)
      | None => (mkS c' (ctys s) (caxes s) (fshape s) (faxes s), Rejected ValueErr)
      end
  end.

Definition del_construct_core (v : via) (k : key) (s : cstate) : cstate * outcome :=
  del_construct_core_g (faxes s) v k s.

Definition del_construct_g (fda : option (list key)) (v : via) (k : key) (s : cstate)
  : cstate * outcome :=
  match v with
  | VCore =>
      (* core Field.del_construct *)
      match cget DomainAxis k (cons s) with
      | Some _ => if spanned_by_field s k then (s, Rejected ValueErr)
                  else del_construct_core_g fda v k s
      | None => del_construct_core_g fda v k s
      end
  | _ =>
      (* mixin FieldDomain.del_construct: construct_key(identity) first *)
      match visible_type v s k with
      | None => (s, Rejected ValueErr)
      | Some _ =>
          match v, cget DomainAxis k (cons s) with
          | VField, Some _ => if spanned_by_field s k then (s, Rejected ValueErr)
                              else del_construct_core_g fda v k s
          | _, _ => del_construct_core_g fda v k s
          end
      end
  end.

Definition del_construct (v : via) (k : key) (s : cstate) : cstate * outcome :=
  del_construct_g (faxes s) v k s.

(* ------------------------------------------------------------------ *)
(* field data and data axes                                            *)
(* ------------------------------------------------------------------ *)
Definition set_field_axes (sh : option (list Z)) (axs : list key) (s : cstate) : cstate * outcome :=
  if check_field_axes (cons s) sh axs
  then (mkS (cons s) (ctys s) (caxes s) (fshape s) (Some axs), Done)
  else (s, Rejected ValueErr).

Definition set_data (sh : list Z) (axes : option (list key)) (s : cstate) : cstate * outcome :=
  let axes' := match axes with Some a => Some a | None => faxes s end in
  match axes' with
  | Some a =>
      match set_field_axes (Some sh) a s with
      | (s', Done) => (mkS (cons s') (ctys s') (caxes s') (Some sh) (faxes s'), Done)
      | r => r
      end
  | None => (mkS (cons s) (ctys s) (caxes s) (Some sh) (faxes s), Done)
  end.

Definition del_data (s : cstate) : cstate * outcome :=
  match fshape s with
  | Some _ => (mkS (cons s) (ctys s) (caxes s) None (faxes s), Done)
  | None => (s, Rejected ValueErr)
  end.

Definition set_data_axes (v : via) (axs : list key) (k : option key) (s : cstate) : cstate * outcome :=
  match k with
  | None => set_field_axes (fshape s) axs s
  | Some k =>
      match visible_type v s k with
      | None => (s, Rejected ValueErr)
      | Some t =>
          match cget t k (cons s) with
          | None => (s, Rejected KeyErr)
          | Some p =>
              if negb (is_array t) then (s, Rejected ValueErr)
              else if check_axes (cons s) p axs
              then (mkS (cons s) (ctys s) (aset k axs (caxes s)) (fshape s) (faxes s), Done)
              else (s, Rejected ValueErr)
          end
      end
  end.

Definition del_data_axes (v : via) (k : option key) (s : cstate) : cstate * outcome :=
  match k with
  | None =>
      match faxes s with
      | Some _ => (mkS (cons s) (ctys s) (caxes s) (fshape s) None, Done)
      | None => (s, Rejected ValueErr)
      end
  | Some k =>
      match assoc k (caxes s) with
      | None => (s, Rejected ValueErr)
      | Some _ =>
          let hidden := match assoc k (ctys s) with
                        | Some t => is_view v && ignored t | None => false end in
          if hidden then (s, Rejected ValueErr)
          else (mkS (cons s) (ctys s) (aremove k (caxes s)) (fshape s) (faxes s), Done)
      end
  end.

Fixpoint nodupk (l : list key) : bool :=
  match l with [] => true | a :: r => negb (memb a r) && nodupk r end.

(* no axis occurs twice in the field's data axes or in a construct's axes *)
Definition dup_free (s : cstate) : bool :=
  match faxes s with Some ax => nodupk ax | None => true end &&
  forallb (fun ka => nodupk (snd ka)) (caxes s).

(* ------------------------------------------------------------------ *)
(* squeeze / transpose / insert_dimension                              *)
(* ------------------------------------------------------------------ *)
Fixpoint parse_axes (ndim : Z) (axs : list Z) : option (list Z) :=
  match axs with
  | [] => Some []
  | a :: r =>
      let a' := if (0 <=? a) && (a <? ndim) then Some a
                else if (- ndim <=? a) && (a <? 0) then Some (a + ndim) else None in
      match a', parse_axes ndim r with
      | Some x, Some xs => Some (x :: xs)
      | _, _ => None
      end
  end.

Definition zmem (a : Z) (l : list Z) : bool := existsb (Z.eqb a) l.

Fixpoint nodupb (l : list Z) : bool :=
  match l with [] => true | a :: r => negb (zmem a r) && nodupb r end.

Fixpoint positions_of {A} (i : Z) (l : list A) : list (Z * A) :=
  match l with [] => [] | x :: r => (i, x) :: positions_of (i + 1) r end.

(* keep the elements whose position is not in [drop] *)
Fixpoint drop_from {A} (i : Z) (drop : list Z) (l : list A) : list A :=
  match l with
  | [] => []
  | x :: r => if zmem i drop then drop_from (i + 1) drop r else x :: drop_from (i + 1) drop r
  end.

Definition drop_positions {A} (drop : list Z) (l : list A) : list A := drop_from 0 drop l.

Definition nthZ {A} (l : list A) (i : Z) : option A :=
  if i <? 0 then None else nth_error l (Z.to_nat i).

Fixpoint permute {A} (l : list A) (perm : list Z) : option (list A) :=
  match perm with
  | [] => Some []
  | i :: r => match nthZ l i, permute l r with
              | Some x, Some xs => Some (x :: xs) | _, _ => None end
  end.

Definition with_field (s : cstate) (sh : option (list Z)) (ax : option (list key)) : cstate :=
  mkS (cons s) (ctys s) (caxes s) sh ax.

Definition squeeze (axes : option (list Z)) (inplace : bool) (s : cstate) : cstate * outcome :=
  if negb inplace && negb (copyable s) then (s, Rejected ValueErr) else
  match fshape s with
  | None => (s, Rejected ValueErr)
  | Some sh =>
      let ndim := Z.of_nat (length sh) in
      let iaxes := match axes with
                   | None => Some (map fst (filter (fun ix => Z.eqb (snd ix) 1) (positions_of 0 sh)))
                   | Some a => match parse_axes ndim a with
                               | Some a' => if nodupb a' then Some a' else None
                               | None => None end
                   end in
      match iaxes with
      | None => (s, Rejected ValueErr)
      | Some ia =>
          if negb (forallb (fun i => match nthZ sh i with Some 1 => true | _ => false end) ia)
          then (s, Rejected ValueErr)
          else
            let sh' := drop_positions ia sh in
            match faxes s with
            | None => (with_field s (Some sh') None, Done)
            | Some ax =>
                let ax' := drop_positions ia ax in
                if Nat.eqb (length ax) (length sh) && check_field_axes (cons s) (Some sh') ax'
                then (with_field s (Some sh') (Some ax'), Done)
                else ((if inplace then with_field s (Some sh') (Some ax) else s),
                      Rejected (if Nat.ltb (length ax) (length sh) then IndexErr else ValueErr))
            end
      end
  end.

Fixpoint iota (n : nat) (from : Z) : list Z :=
  match n with O => [] | S m => from :: iota m (from + 1) end.

(* constructs=True: every construct that has data and at least two
   dimensions is transposed to the order of the new field data axes *)
Definition new_construct_axes (new_data_axes cax : list key) : list key :=
  let first := filter (fun a => memb a cax) new_data_axes in
  (* axes of the construct that the field data does not span keep their position *)
  fold_left (fun acc ia => if memb (snd ia) acc then acc
                           else (firstn (Z.to_nat (fst ia)) acc ++ [snd ia] ++ skipn (Z.to_nat (fst ia)) acc)%list)
            (positions_of 0 cax) first.

Fixpoint index_of (a : key) (l : list key) (i : Z) : option Z :=
  match l with [] => None | x :: r => if String.eqb a x then Some i else index_of a r (i + 1) end.

Fixpoint mapM {A B} (f : A -> option B) (l : list A) : option (list B) :=
  match l with
  | [] => Some []
  | x :: r => match f x, mapM f r with Some y, Some ys => Some (y :: ys) | _, _ => None end
  end.

Definition transpose_entry (nda : list key) (cax : list (key * list key)) (e : centry)
  : option (centry * option (key * list key)) :=
  match e with
  | (t, k, PArr (Some sh) true bnd) =>
      if is_array t && (2 <=? length sh)%nat then
        match assoc k cax with
        | None => None                       (* get_data_axes(key) raises mid-loop *)
        | Some ca =>
            let nca := new_construct_axes nda ca in
            match mapM (fun a => index_of a ca 0) nca with
            | Some perm =>
                (* Data._parse_axes / transpose: duplicate axis, wrong count *)
                if negb (nodupb perm && Nat.eqb (length perm) (length sh)) then None else
                match permute sh perm with
                | Some sh' => Some ((t, k, PArr (Some sh') true bnd), Some (k, nca))
                | None => None
                end
            | None => None
            end
        end
      else Some (e, None)
  | _ => Some (e, None)
  end.

Fixpoint apply_updates (ups : list (option (key * list key))) (cax : list (key * list key)) :=
  match ups with
  | [] => cax
  | Some (k, a) :: r => apply_updates r (aset k a cax)
  | None :: r => apply_updates r cax
  end.

(* "for key, construct in f.constructs.filter_by_data(todict=True).items(): ..."
   [f e = None]: the body raises for construct e.  When no body raises every
   construct is dealt with; otherwise the ones in [done] that do not raise
   have been dealt with when the exception leaves the loop (second component
   false). *)
Definition entry_fn := centry -> option (centry * option (key * list key)).

Definition partial_entry (f : entry_fn) (done : list key) (e : centry)
  : centry * option (key * list key) :=
  if memb (snd (fst e)) done
  then match f e with Some r => r | None => (e, None) end
  else (e, None).

Definition loop_constructs (f : entry_fn) (done : list key) (c : list centry)
           (cax : list (key * list key)) : list centry * list (key * list key) * bool :=
  match mapM f c with
  | Some res => (map fst res, apply_updates (map snd res) cax, true)
  | None => let res := map (partial_entry f done) c in
            (map fst res, apply_updates (map snd res) cax, false)
  end.

Definition transpose (axes : option (list Z)) (constructs inplace : bool) (done : list key)
           (s : cstate) : cstate * outcome :=
  if negb inplace && negb (copyable s) then (s, Rejected ValueErr) else
  match fshape s with
  | None => (s, Rejected ValueErr)
  | Some sh =>
      let n := length sh in
      let ndim := Z.of_nat n in
      let iaxes := match axes with
                   | None => Some (rev (iota n 0))
                   | Some a => match parse_axes ndim a with
                               | Some a' => if nodupb a' && Nat.eqb (length a') n then Some a' else None
                               | None => None end
                   end in
      match iaxes with
      | None => (s, Rejected ValueErr)
      | Some ia =>
          match permute sh ia with
          | None => (s, Rejected ValueErr)
          | Some sh' =>
              match faxes s with
              | None =>
                  (* constructs=True without field data axes: the first construct
                     with 2-d data ends the loop - ValueError from get_data_axes(key)
                     when it has no axes, NameError (new_data_axes was never bound)
                     when it has; the data have been transposed by then *)
                  let twod := filter (fun e => match e with
                                               | (t, _, PArr (Some shc) true _) =>
                                                   is_array t && (2 <=? length shc)%nat
                                               | _ => false end) (cons s) in
                  let has_axes (e : centry) := match assoc (snd (fst e)) (caxes s) with
                                               | Some _ => true | None => false end in
                  if constructs && negb (Nat.eqb (length twod) 0)
                  then
                    let back := if inplace then with_field s (Some sh') None else s in
                    if forallb has_axes twod then (back, Rejected OtherErr)
                    else if forallb (fun e => negb (has_axes e)) twod then (back, Rejected ValueErr)
                    else (s, OutOfModel)
                  else (with_field s (Some sh') None, Done)
              | Some ax =>
                  match permute ax ia with
                  | None => ((if inplace then with_field s (Some sh') (Some ax) else s), Rejected IndexErr)
                  | Some ax' =>
                      if negb (check_field_axes (cons s) (Some sh') ax')
                      then ((if inplace then with_field s (Some sh') (Some ax) else s), Rejected ValueErr)
                      else if negb constructs then (with_field s (Some sh') (Some ax'), Done)
                      else
                        match loop_constructs (transpose_entry ax' (caxes s)) done (cons s) (caxes s) with
                        | (c', cax', true) => (mkS c' (ctys s) cax' (Some sh') (Some ax'), Done)
                        | (c', cax', false) =>
                            ((if inplace then mkS c' (ctys s) cax' (Some sh') (Some ax') else s),
                             Rejected ValueErr)
                        end
                  end
              end
          end
      end
  end.

Definition insert_at {A} (pos : Z) (x : A) (l : list A) : list A :=
  (firstn (Z.to_nat pos) l ++ [x] ++ skipn (Z.to_nat pos) l)%list.

Definition insert_entry (axis : key) (position : Z) (data_axes0 : list key)
           (cax : list (key * list key)) (e : centry)
  : option (centry * option (key * list key)) :=
  match e with
  | (t, k, PArr (Some sh) true bnd) =>
      (* "if construct.construct_type == 'dimension_coordinate': continue" - a
         dimension coordinate always has 1-dimensional data: neither it nor its
         data axes are touched *)
      if is_array t && negb (ctype_eqb t DimCoord) then
        match assoc k cax with
        | None => None                       (* get_data_axes(key) raises mid-loop *)
        | Some ca =>
            if memb axis ca then Some (e, None)
            else
              let cpos := fold_left (fun c a => if memb a ca then c else c - 1) data_axes0 position in
              let cpos := if cpos <? 0 then 0 else cpos in
              (* construct.insert_dimension(c_position) raises mid-loop when the
                 position exceeds the construct's rank (possible without field data) *)
              if Z.of_nat (length sh) <? cpos then None else
              Some ((t, k, PArr (Some (insert_at cpos 1 sh)) true bnd), Some (k, insert_at cpos axis ca))
        end
      else Some (e, None)
  | _ => Some (e, None)
  end.

Definition norm_pos (pos n : Z) : option Z :=
  if (- n - 1 <=? pos) && (pos <? 0) then Some (pos + n + 1)
  else if (0 <=? pos) && (pos <=? n) then Some pos else None.

Definition insert_dimension (axis : option key) (pos : Z) (constructs inplace : bool)
           (done : list key) (s : cstate) : cstate * outcome :=
  if negb inplace && negb (copyable s) then (s, Rejected ValueErr) else
  (* the axis: a new size-1 domain axis, or an existing one of size 1 *)
  let r := match axis with
           | None => match set_construct VField DomainAxis (PAxis 1) None None s, new_identifier s DomainAxis with
                     | (s1, Done), Some a => inl (s1, a)
                     | (_, Done), None => inr OutOfModel
                     | (_, o), _ => inr o end
           | Some a => match axis_size (cons s) a with
                       | Some 1 => inl (s, a)
                       | _ => inr (Rejected ValueErr) end
           end in
  match r with
  | inr o => (s, o)
  | inl (s1, a) =>
      let back := if inplace then s1 else s in
      (* the field's data axes; a negative position is interpreted as the data do *)
      let dax := match faxes s1 with
                 | Some ax =>
                     if memb a ax then None
                     else
                       let nd := Z.of_nat (length ax) in
                       let pos1 := if (- nd - 1 <=? pos) && (pos <? 0) then pos + nd + 1 else pos in
                       Some (Some (insert_at pos1 a ax), pos1, ax)
                 | None => Some (None, pos, [])
                 end in
      match dax with
      | None => (back, Rejected ValueErr)
      | Some (ax', pos1, ax0) =>
          (* the data: Data.insert_dimension *)
          let dsh := match fshape s1 with
                     | None => Some None
                     | Some sh => match norm_pos pos1 (Z.of_nat (length sh)) with
                                  | Some p => Some (Some (insert_at p 1 sh))
                                  | None => None end
                     end in
          match dsh with
          | None => (back, Rejected ValueErr)
          | Some sh' =>
              let okaxes := match ax' with
                            | Some a' => check_field_axes (cons s1) sh' a' | None => true end in
              if negb okaxes
              then ((if inplace then with_field s1 sh' (faxes s1) else s), Rejected ValueErr)
              else if negb constructs then (with_field s1 sh' ax', Done)
              else
                let cpos := match ax' with Some _ => pos1 | None => 0 end in
                match loop_constructs (insert_entry a cpos ax0 (caxes s1)) done (cons s1) (caxes s1) with
                | (c', cax', true) => (mkS c' (ctys s1) cax' sh' ax', Done)
                | (c', cax', false) =>
                    ((if inplace then mkS c' (ctys s1) cax' sh' ax' else s), Rejected ValueErr)
                end
          end
      end
  end.

(* ------------------------------------------------------------------ *)
(* subspace: f[indices]                                                *)
(* ------------------------------------------------------------------ *)
(* [sel]: for every dimension of the field data the size that the index
   selects there (None: the index is invalid for that dimension); computed by
   numpy in the harness - index semantics are property C03's subject *)
Fixpoint zip {A B} (l1 : list A) (l2 : list B) : list (A * B) :=
  match l1, l2 with x :: r1, y :: r2 => (x, y) :: zip r1 r2 | _, _ => [] end.

Definition resize_axes (c : list centry) (ups : list (key * Z)) : list centry :=
  fold_left (fun c ks => match cget DomainAxis (fst ks) c with
                         | Some _ => cset DomainAxis (fst ks) (PAxis (snd ks)) c
                         | None => c end) ups c.

Definition sub_entry (fax : list key) (newsz : list Z) (cax : list (key * list key)) (e : centry)
  : option centry :=
  match e with
  | (t, k, PArr sh hd bnd) =>
      match assoc k cax with
      | None => Some e
      | Some ca =>
          if negb (existsb (fun a => memb a fax) ca) then Some e
          else
            match sh with
            | None => None        (* construct[...] on a construct without data or bounds *)
            | Some shp =>
                if negb (Nat.eqb (length shp) (length ca)) then None else
                Some (t, k, PArr (Some (map (fun as_ => match index_of (fst as_) fax 0 with
                                                         | Some i => match nthZ newsz i with
                                                                     | Some n => n | None => snd as_ end
                                                         | None => snd as_ end)
                                             (zip ca shp))) hd bnd)
            end
      end
  | _ => Some e
  end.

Definition all_fit (c : list centry) (cax : list (key * list key)) : bool :=
  forallb (fun ka => match assoc (fst ka) (map (fun e => (snd (fst e), snd e)) c) with
                     | Some p => check_axes c p (snd ka)
                     | None => true end) cax.

Definition subspace (sel : list (option Z)) (s : cstate) : cstate * outcome :=
  if negb (copyable s) then (s, Rejected ValueErr) else
  match fshape s with
  | None => (s, Rejected ValueErr)
  | Some sh =>
      if negb (Nat.eqb (length sel) (length sh)) then (s, OutOfModel) else
      match faxes s with
      | None => (s, Rejected ValueErr)
      | Some fax =>
          match mapM (fun x => x) sel with
          | None => (s, Rejected IndexErr)
          | Some newsz =>
              if existsb (Z.eqb 0) newsz then (s, Rejected IndexErr) else
              if negb (Nat.eqb (length fax) (length sh)) then (s, OutOfModel) else
              match axes_sizes (cons s) fax with
              | None => (s, Rejected KeyErr)
              | Some _ =>
                  let c1 := resize_axes (cons s) (zip fax newsz) in
                  (* an axis that occurs twice in the data axes and is given two
                     sizes: the second set_construct(domain_axis) is a resize of a
                     spanned axis *)
                  if negb (check_field_axes c1 (Some newsz) fax) then (s, Rejected ValueErr) else
                  match mapM (sub_entry fax newsz (caxes s)) c1 with
                  | None => (s, Rejected OtherErr)
                  | Some c2 =>
                      if all_fit c2 (caxes s) && check_field_axes c2 (Some newsz) fax
                      then (mkS c2 (ctys s) (caxes s) (Some newsz) (Some fax), Done)
                      else (s, Rejected ValueErr)
                  end
              end
          end
      end
  end.

(* ------------------------------------------------------------------ *)
(* convert                                                             *)
(* ------------------------------------------------------------------ *)
Definition subset (l1 l2 : list key) : bool := forallb (fun a => memb a l2) l1.

(* setting the same construct under the same key twice leaves one *)
Fixpoint dedup_entries (l : list centry) : list centry :=
  match l with
  | [] => []
  | e :: r => if existsb (same_entry (fst (fst e)) (snd (fst e))) r
              then dedup_entries r else e :: dedup_entries r
  end.

(* "for ccid in ...domain_ancillaries().values(): axes = constructs_data_axes[ccid];
    if not subset: ok = False; break" - scanned in order.  None: KeyError on a
   term that is None or names a construct without data axes *)
Definition anc_scan (cax : list (key * list key)) (dax : list key)
           (ancs : list (string * option key)) : option bool :=
  fold_left (fun (st : option bool) ta =>
               match st with
               | Some true =>
                   match snd ta with
                   | Some a => match assoc a cax with
                               | Some aax => Some (subset aax dax)
                               | None => None end
                   | None => None end
               | other => other end) ancs (Some true).

(* what one coordinate reference contributes to the new field: itself with
   the coordinates that lie inside the new domain, and its domain
   ancillaries.  None: constructs_data_axes[ccid] raises KeyError *)
Definition conv_ref (s : cstate) (dax : list key) (e : centry) : option (list centry) :=
  match e with
  | (CoordRef, rk, PRef cs ancs) =>
      match mapM (fun c => assoc c (caxes s)) cs with
      | None => None
      | Some caxs =>
          let newc := map fst (filter (fun ca => subset (snd ca) dax) (zip cs caxs)) in
          match newc with
          | [] => Some []
          | _ =>
              match anc_scan (caxes s) dax ancs with
              | None => None
              | Some false => Some []
              | Some true =>
                  Some ((CoordRef, rk, PRef newc ancs) ::
                        flat_map (fun ta => match snd ta with
                                            | Some a => match cget DomainAnc a (cons s) with
                                                        | Some pa => [(DomainAnc, a, pa)]
                                                        | None => [] end
                                            | None => [] end) ancs)
              end
          end
      end
  | _ => Some []
  end.

(* dimension / auxiliary coordinates and cell measures inside the axes *)
Definition conv_keep (s : cstate) (dax : list key) (e : centry) : bool :=
  (match fst (fst e) with DimCoord | AuxCoord | CellMeasure => true | _ => false end)
  && match assoc (snd (fst e)) (caxes s) with
     | Some a => subset a dax | None => false end.

Definition ref_coords (e : centry) : list key :=
  match e with (CoordRef, _, PRef cs _) => cs | _ => [] end.

(* [keep]: which dimension / auxiliary coordinates and cell measures the new
   field receives (the code: conv_keep) *)
Definition convert_with (keep : cstate -> list key -> centry -> bool)
           (k : key) (full : bool) (s : cstate) : cstate * outcome :=
  match assoc k (ctys s) with
  | None => (s, Rejected ValueErr)
  | Some t =>
      if negb (is_array t) then (s, Rejected ValueErr) else
      match cget t k (cons s) with
      | None => (s, Rejected KeyErr)
      | Some p =>
          if negb (copyable_entry (t, k, p)) then (s, Rejected ValueErr) else
          match phasdata p, pshape p with
          | false, _ => (s, Rejected ValueErr)          (* c.del_data() *)
          | true, None => (s, OutOfModel)               (* no such construct *)
          | true, Some sh =>
              match assoc k (caxes s) with
              | None =>
                  (* no data axes: a field with properties only (the data are
                     not set either).  With full_domain every subset test
                     against data_axes=None raises TypeError, every look-up
                     of the axes of a coordinate that has none KeyError *)
                  if negb full then (mkS [] [] [] None None, Done) else
                  let has_axes (c : key) := match assoc c (caxes s) with
                                            | Some _ => true | None => false end in
                  if existsb (fun e => (match fst (fst e) with
                                        | DimCoord | AuxCoord | CellMeasure => true | _ => false end)
                                       && has_axes (snd (fst e))) (cons s)
                  then (s, Rejected TypeErr)
                  else
                    let named := flat_map ref_coords (cons s) in
                    if Nat.eqb (length named) 0 then (mkS [] [] [] None None, Done)
                    else if forallb (fun c => negb (has_axes c)) named then (s, Rejected KeyErr)
                    else if forallb has_axes named then (s, Rejected TypeErr)
                    else (s, OutOfModel)      (* depends on the order of a python set *)
              | Some dax =>
                  match axes_sizes (cons s) dax with
                  | None => (s, Rejected KeyErr)
                  | Some szs =>
                      if negb (zlist_eqb sh szs) then (s, Rejected ValueErr) else
                      let axes_c := map (fun a => (DomainAxis, a, PAxis (match axis_size (cons s) a with
                                                                           | Some n => n | None => 0 end)))
                                        (nodup string_dec dax) in
                      if negb full
                      then (mkS axes_c (map (fun e => (snd (fst e), fst (fst e))) axes_c) []
                                (Some sh) (Some dax), Done)
                      else
                        let kept := filter (keep s dax) (cons s) in
                        if negb (forallb copyable_entry kept) then (s, Rejected ValueErr) else
                        match mapM (conv_ref s dax) (cons s) with
                        | None => (s, Rejected KeyErr)
                        | Some contrib =>
                            (* setting the same construct under the same key twice leaves one *)
                            let rd := dedup_entries (concat contrib) in
                            let allc := (axes_c ++ kept ++ rd)%list in
                            let with_axes (e : centry) :=
                                match fst (fst e) with CoordRef | DomainAxis => false | _ => true end in
                            let keys := map (fun e => snd (fst e)) (filter with_axes allc) in
                            (mkS allc (map (fun e => (snd (fst e), fst (fst e))) allc)
                                 (filter (fun ka => memb (fst ka) keys) (caxes s))
                                 (Some sh) (Some dax), Done)
                        end
                  end
              end
          end
      end
  end.

Definition convert (k : key) (full : bool) (s : cstate) : cstate * outcome :=
  convert_with conv_keep k full s.

(* ------------------------------------------------------------------ *)
(* the step function                                                   *)
(* ------------------------------------------------------------------ *)
Definition step (s : cstate) (o : op) : cstate * outcome :=
  match o with
  | SetConstruct v t p k axes => set_construct v t p k axes s
  | DelConstruct v k => del_construct v k s
  | SetData sh axes => set_data sh axes s
  | DelData => del_data s
  | SetDataAxes v axs k => set_data_axes v axs k s
  | DelDataAxes v k => del_data_axes v k s
  | Copy => if copyable s then (s, Done) else (s, Rejected ValueErr)
  | Subspace sel => subspace sel s
  | Squeeze a i => squeeze a i s
  | Transpose a c i d => transpose a c i d s
  | InsertDimension a p c i d => insert_dimension a p c i d s
  | Convert k full => convert k full s
  end.

Definition run (ops : list op) : cstate := fold_left (fun s o => fst (step s o)) ops init.

(* ------------------------------------------------------------------ *)
(* registers: the field and the views taken of it, of any depth        *)
(* ------------------------------------------------------------------ *)
(* A view (Constructs.__init__ with _view=True) is a new Constructs object
   whose __dict__ is a copy of its source's: it shares the source's
   _constructs / _construct_type / _construct_axes dictionaries, so every
   mutation through it acts on them, but it has its OWN _field_data_axes
   attribute - the value the source's attribute had when the view was taken
   (set to None by Domain.fromconstructs) - which nothing keeps up to date.
   What _domain_axis_spanned_by consults is therefore the attribute of
   _view_source = getattr(source, "_view_source", source): the container the
   source is itself a view of, or the source when it is not a view.
     f.domain, f.get_domain(), Domain.fromconstructs(x.constructs)   RFromConstructs
     Domain(source=x, copy=False)                                    RSource
   with x the field or any view register. *)
Inductive vroute := RFromConstructs | RSource.

Record vrec := mkV {
  vparent : nat;                  (* the register it was taken of *)
  vsrc : nat;                     (* _view_source, as a register (0 = the field's own container) *)
  vfda : option (list key)        (* its own _field_data_axes attribute *)
}.

(* register 0 is the field; register i+1 is the i-th view *)
Record wstate := mkW { root : cstate; views : list vrec }.

Definition winit : wstate := mkW init [].

Definition reg_valid (w : wstate) (r : nat) : bool :=
  match r with O => true | S i => Nat.ltb i (length (views w)) end.

(* the _field_data_axes attribute of the container of register r *)
Definition reg_fda (w : wstate) (r : nat) : option (list key) :=
  match r with
  | O => faxes (root w)
  | S i => match nth_error (views w) i with Some v => vfda v | None => None end
  end.

(* getattr(container of r, "_view_source", container of r) *)
Definition reg_src (w : wstate) (r : nat) : nat :=
  match r with
  | O => O
  | S i => match nth_error (views w) i with Some v => vsrc v | None => O end
  end.

(* [rule parent parent's_source]: what Constructs.__init__ stores in
   _view_source.  The code: getattr(source, "_view_source", source) *)
Definition src_rule := nat -> nat -> nat.
Definition rule_head : src_rule := fun _ psrc => psrc.

Definition take_view (rule : src_rule) (w : wstate) (r : nat) (route : vroute) : wstate :=
  let v := mkV r (rule r (reg_src w r))
               (match route with RFromConstructs => None | RSource => reg_fda w r end) in
  mkW (root w) (views w ++ [v]).

Inductive wop :=
| Plain (o : op)                          (* on the field (or on f.domain taken on the spot) *)
| TakeView (r : nat) (route : vroute)     (* a new register: a view of register r *)
| Through (r : nat) (o : op)              (* a container operation issued through view register r *)
| OnSibling (cleaned : list (key * key)).
    (* g = Field(source=f, copy=False), then container-level calls on g (set /
       delete constructs, set / delete data axes, set / delete data, also through
       g.domain).  g has its own container, so none of that reaches this
       field's collection; but g shares the construct OBJECTS (that is what
       copy=False asks for), and deleting a construct from g removes its name
       from the coordinate reference objects g still holds: [cleaned] = the
       (reference key, name) pairs so removed, as observed (any list is a
       possible behaviour) *)

(* a name removed in place from one coordinate reference *)
Definition clean_in (rk k : key) (e : centry) : centry :=
  if String.eqb rk (snd (fst e)) then clean_ref k e else e.

Definition clean_names (ks : list (key * key)) (s : cstate) : cstate :=
  fold_left (fun s rkk => mkS (map (clean_in (fst rkk) (snd rkk)) (cons s)) (ctys s) (caxes s) (fshape s) (faxes s))
            ks s.

(* what a Domain offers: set / delete a construct, set / delete a construct's data axes *)
Definition viewable (o : op) : bool :=
  match o with
  | SetConstruct VDomain _ _ _ _ | DelConstruct VDomain _
  | SetDataAxes VDomain _ (Some _) | DelDataAxes VDomain (Some _) => true
  | _ => false
  end.

(* the calls that bind the field variable to a new field when they complete
   (the registers then hold views of the old field and are dropped) *)
Definition rebinds (o : op) : bool :=
  match o with
  | Copy | Subspace _ | Convert _ _ | Squeeze _ false | Transpose _ _ false _
  | InsertDimension _ _ _ false _ => true
  | _ => false
  end.

(* one call with the container's source attribute given explicitly *)
Definition step_g (fda : option (list key)) (s : cstate) (o : op) : cstate * outcome :=
  match o with
  | SetConstruct v t p k axes => set_construct_g fda v t p k axes s
  | DelConstruct v k => del_construct_g fda v k s
  | _ => step s o
  end.

Definition wstep_with (rule : src_rule) (w : wstate) (wo : wop) : wstate * outcome :=
  match wo with
  | Plain o =>
      let (s', out) := step (root w) o in
      (mkW s' (match out with Done => if rebinds o then [] else views w | _ => views w end), out)
  | TakeView r route =>
      if reg_valid w r then (take_view rule w r route, Done) else (w, OutOfModel)
  | OnSibling ks => (mkW (clean_names ks (root w)) (views w), Done)
  | Through r o =>
      match r with
      | O => (w, OutOfModel)
      | S i =>
          match nth_error (views w) i with
          | None => (w, OutOfModel)
          | Some v =>
              if viewable o
              then let (s', out) := step_g (reg_fda w (vsrc v)) (root w) o in (mkW s' (views w), out)
              else (w, OutOfModel)
          end
      end
  end.

Definition wstep := wstep_with rule_head.

Definition wrun (ops : list wop) : wstate := fold_left (fun w o => fst (wstep w o)) ops winit.

(* ------------------------------------------------------------------ *)
(* what str / repr / dump look up                                      *)
(* ------------------------------------------------------------------ *)
(* Field.__repr__/_one_line_description: axis_names[axis] for the field data
   axes; Field.__str__/dump and Domain.__str__/dump (repaired): for every
   construct with recorded data axes, axis_names[axis] for each of them *)
Definition describe_ok (s : cstate) : bool :=
  match faxes s with
  | Some ax => match axes_sizes (cons s) ax with Some _ => true | None => false end
  | None => true
  end &&
  forallb (fun ka => match assoc (fst ka) (caxes s) with
                     | Some axs => match axes_sizes (cons s) axs with Some _ => true | None => false end
                     | None => true end)
          (caxes s).

(* as it stood at the pinned commit: data_axes()[key] for every field
   ancillary, coordinate, cell measure and domain ancillary *)
Definition describe_ok_old (s : cstate) : bool :=
  describe_ok s &&
  forallb (fun e => negb (is_array (fst (fst e))) ||
                    match assoc (snd (fst e)) (caxes s) with Some _ => true | None => false end)
          (cons s).

(* the domain view: Domain.fromconstructs *)
Definition domain_view (s : cstate) : list centry :=
  filter (fun e => negb (ignored (fst (fst e)))) (cons s).

(* ------------------------------------------------------------------ *)
(* the code as it stood at the pinned commit (superseded)              *)
(* ------------------------------------------------------------------ *)
Definition new_identifier_old (s : cstate) (t : ctype) : option key :=
  fresh (S (S (length (cons s)))) (length (of_type t (cons s))) (key_base t)
        (map (fun e => snd (fst e)) (of_type t (cons s))).

(* no clash test, no resize test, the axes of a replaced construct are kept
   without a check *)
Definition set_construct_old (v : via) (t : ctype) (p : payload) (k : option key)
           (axes : option (list key)) (s : cstate) : cstate * outcome :=
  if negb (kind_ok t p) then (s, OutOfModel) else
  if is_view v && ignored t then (s, Rejected ValueErr) else
  match (match k with Some k => Some k | None => new_identifier_old s t end) with
  | None => (s, OutOfModel)
  | Some key =>
  if is_array t then
    match axes with
    | Some a =>
        if check_axes (cons s) p a then
          (mkS (cset t key p (cons s)) (aset key t (ctys s)) (aset key a (caxes s))
               (fshape s) (faxes s), Done)
        else (s, Rejected ValueErr)
    | None =>
        (mkS (cset t key p (cons s)) (aset key t (ctys s)) (caxes s) (fshape s) (faxes s), Done)
    end
  else
    match axes with
    | Some _ => (s, Rejected ValueErr)
    | None =>
        (mkS (cset t key p (cons s)) (aset key t (ctys s)) (caxes s) (fshape s) (faxes s), Done)
    end
  end.

(* data_axes() and the cell methods as the (possibly ignoring) view sees
   them; no test against the field's data on the cfdm and domain routes *)
Definition del_construct_old (v : via) (k : key) (s : cstate) : cstate * outcome :=
  let hidden (x : key) := match assoc x (ctys s) with
                          | Some t => is_view v && ignored t | None => false end in
  let go :=
    match cget DomainAxis k (cons s) with
    | Some _ =>
        if existsb (fun e => negb (hidden (fst e)) && memb k (snd e)) (caxes s)
        then (s, Rejected ValueErr)
        else if negb (is_view v) && existsb (cm_names k) (cons s) then (s, Rejected ValueErr)
        else match visible_type v s k with
             | Some t => (mkS (cdel t k (cons s)) (aremove k (ctys s)) (aremove k (caxes s))
                              (fshape s) (faxes s), Done)
             | None => (s, Rejected ValueErr)
             end
    | None =>
        let c' := map (clean_ref k) (cons s) in
        match visible_type v s k with
        | Some t => (mkS (cdel t k c') (aremove k (ctys s)) (aremove k (caxes s))
                         (fshape s) (faxes s), Done)
        | None => (mkS c' (ctys s) (caxes s) (fshape s) (faxes s), Rejected ValueErr)
        end
    end in
  match v with
  | VCore => match cget DomainAxis k (cons s) with
             | Some _ => if spanned_by_field s k then (s, Rejected ValueErr) else go
             | None => go end
  | _ => match visible_type v s k with None => (s, Rejected ValueErr) | Some _ => go end
  end.

(* Field.set_data_axes: existence tested only when there is a data shape *)
Definition set_field_axes_old (sh : option (list Z)) (axs : list key) (s : cstate) : cstate * outcome :=
  match sh with
  | None => (mkS (cons s) (ctys s) (caxes s) (fshape s) (Some axs), Done)
  | Some _ => set_field_axes sh axs s
  end.

(* _set_construct_data_axes: any construct type *)
Definition set_data_axes_old (v : via) (axs : list key) (k : option key) (s : cstate) : cstate * outcome :=
  match k with
  | None => set_field_axes_old (fshape s) axs s
  | Some k =>
      match visible_type v s k with
      | None => (s, Rejected ValueErr)
      | Some t =>
          match cget t k (cons s) with
          | None => (s, Rejected KeyErr)
          | Some p =>
              if check_axes (cons s) p axs
              then (mkS (cons s) (ctys s) (aset k axs (caxes s)) (fshape s) (faxes s), Done)
              else (s, Rejected ValueErr)
          end
      end
  end.

(* Field.insert_dimension: list.insert(position) with a negative position
   counts from the end differently from Data.insert_dimension *)
Definition py_insert {A} (pos : Z) (x : A) (l : list A) : list A :=
  let n := Z.of_nat (length l) in
  let p := if pos <? 0 then Z.max 0 (pos + n) else Z.min pos n in
  insert_at p x l.

Definition insert_dimension_old (a : key) (pos : Z) (s : cstate) : cstate * outcome :=
  match axis_size (cons s) a, faxes s, fshape s with
  | Some 1, Some ax, Some sh =>
      if memb a ax then (s, Rejected ValueErr) else
      let ax' := py_insert pos a ax in
      let n := Z.of_nat (length sh) in
      let p := if (- n - 1 <=? pos) && (pos <? 0) then Some (pos + n + 1)
               else if (0 <=? pos) && (pos <=? n) then Some pos else None in
      match p with
      | None => (s, Rejected ValueErr)
      | Some p =>
          let sh' := insert_at p 1 sh in
          if check_field_axes (cons s) (Some sh') ax'
          then (with_field s (Some sh') (Some ax'), Done)
          else (with_field s (Some sh') (Some ax), Rejected ValueErr)   (* inplace *)
      end
  | _, _, _ => (s, OutOfModel)
  end.
