(* C02 - evaluation entry points for the correspondence harness. *)
From CfdmV Require Import Common.Base C02.Model.
Open Scope string_scope.
Open Scope Z_scope.

(* short form of the usual construct identifiers in generated cases
   (a string literal elaborates to a large term) *)
Definition K (t : ctype) (n : nat) : key := key_base t ++ nat_str n.

(* the abstract state as read back from the live object *)
Definition ostate := (list centry * list (key * ctype) * list (key * list key)
                      * option (list Z) * option (list key))%type.

Inductive obs := Same | St (o : ostate).

Definition keys_eqb := list_eqb String.eqb.

Definition set_eqb {A} (eqb : A -> A -> bool) (l1 l2 : list A) : bool :=
  Nat.eqb (length l1) (length l2) &&
  forallb (fun x => existsb (eqb x) l2) l1 && forallb (fun y => existsb (eqb y) l1) l2.

Definition anc_eqb (a b : string * option key) : bool :=
  String.eqb (fst a) (fst b) && option_eqb String.eqb (snd a) (snd b).

Definition payload_eqb (p q : payload) : bool :=
  match p, q with
  | PAxis n, PAxis m => Z.eqb n m
  | PArr s1 h1 b1, PArr s2 h2 b2 =>
      option_eqb zlist_eqb s1 s2 && Bool.eqb h1 h2 && option_eqb Z.eqb b1 b2
  | PRef c1 a1, PRef c2 a2 => set_eqb String.eqb c1 c2 && set_eqb anc_eqb a1 a2
  | PCm a1, PCm a2 => keys_eqb a1 a2
  | _, _ => false
  end.

Definition centry_eqb (a b : centry) : bool :=
  ctype_eqb (fst (fst a)) (fst (fst b)) && String.eqb (snd (fst a)) (snd (fst b)) &&
  payload_eqb (snd a) (snd b).

Definition kt_eqb (a b : key * ctype) : bool :=
  String.eqb (fst a) (fst b) && ctype_eqb (snd a) (snd b).

Definition ka_eqb (a b : key * list key) : bool :=
  String.eqb (fst a) (fst b) && keys_eqb (snd a) (snd b).

Definition state_eqb (s : cstate) (o : ostate) : bool :=
  let '(c, t, a, fs, fa) := o in
  set_eqb centry_eqb (cons s) c && set_eqb kt_eqb (ctys s) t && set_eqb ka_eqb (caxes s) a &&
  option_eqb zlist_eqb (fshape s) fs && option_eqb keys_eqb (faxes s) fa.

Definition outcome_matches (o : outcome) (e : option errk) : bool :=
  match o, e with
  | Done, None => true
  | Rejected a, Some b => errk_eqb a b
  | _, _ => false
  end.

Definition empty_obs : ostate := ([], [], [], None, None).

(* a case: the history in the register language (the field, views of it, views
   of views ...), with what the implementation showed after every step (the
   outcome class and the abstract state of the field).  The model is folded
   from the empty field; every step must agree.  A step the model declares out
   of its scope ends the comparison of that history (counted by the harness). *)
Fixpoint check_steps (w : wstate) (last : ostate) (l : list (wop * option errk * obs)) : bool :=
  match l with
  | [] => true
  | (o, e, ob) :: r =>
      let (w', out) := wstep w o in
      match out with
      | OutOfModel => true
      | _ =>
          let cur := match ob with Same => last | St x => x end in
          outcome_matches out e && state_eqb (root w') cur && check_steps w' cur r
      end
  end.

Definition check_case (l : list (wop * option errk * obs)) : bool := check_steps winit empty_obs l.

(* diagnostics: index of the first disagreeing step (None = agree) *)
Fixpoint first_bad (w : wstate) (last : ostate) (i : nat) (l : list (wop * option errk * obs)) : option nat :=
  match l with
  | [] => None
  | (o, e, ob) :: r =>
      let (w', out) := wstep w o in
      match out with
      | OutOfModel => None
      | _ =>
          let cur := match ob with Same => last | St x => x end in
          if outcome_matches out e && state_eqb (root w') cur then first_bad w' cur (S i) r else Some i
      end
  end.

Definition first_bad_case (l : list (wop * option errk * obs)) := first_bad winit empty_obs 0 l.

(* number of steps before the model leaves its scope (= length if never) *)
Fixpoint in_model_steps_from (w : wstate) (l : list wop) : nat :=
  match l with
  | [] => O
  | o :: r => let (w', out) := wstep w o in
              match out with OutOfModel => O | _ => S (in_model_steps_from w' r) end
  end.

Definition in_model_steps (l : list wop) : nat := in_model_steps_from winit l.

(* the model state and outcome after a history (for diagnostics) *)
Definition model_after (l : list wop) : wstate * list outcome :=
  fold_left (fun acc o => let (w', out) := wstep (fst acc) o in (w', (snd acc ++ [out])%list)) l (winit, []).
