(* C02 - proofs: the invariant of the construct container is preserved by
   every operation, completed or rejected. *)
From CfdmV Require Import Common.Base C02.Model.
Open Scope string_scope.
Open Scope Z_scope.

Ltac splits := repeat match goal with |- _ /\ _ => split end.

(* ------------------------------------------------------------------ *)
(* basic facts                                                         *)
(* ------------------------------------------------------------------ *)
Lemma ctype_eqb_eq a b : ctype_eqb a b = true <-> a = b.
Proof. destruct a, b; simpl; split; intro H; try reflexivity; try discriminate. Qed.

Lemma ctype_eqb_refl a : ctype_eqb a a = true.
Proof. apply ctype_eqb_eq; reflexivity. Qed.

Lemma ctype_eqb_neq a b : ctype_eqb a b = false <-> a <> b.
Proof.
  split; intro H.
  - intro E; subst. rewrite ctype_eqb_refl in H; discriminate.
  - destruct (ctype_eqb a b) eqn:E; [apply ctype_eqb_eq in E; contradiction|reflexivity].
Qed.

Lemma same_entry_true t k e : same_entry t k e = true <-> fst (fst e) = t /\ snd (fst e) = k.
Proof.
  unfold same_entry. rewrite andb_true_iff, ctype_eqb_eq, String.eqb_eq. intuition congruence.
Qed.

Lemma same_entry_refl t k p : same_entry t k (t, k, p) = true.
Proof. apply same_entry_true; auto. Qed.

(* assoc / aset / aremove *)
Lemma assoc_aset {A} k (v : A) l k' :
  assoc k' (aset k v l) = if String.eqb k' k then Some v else assoc k' (aremove k l).
Proof. reflexivity. Qed.

Lemma assoc_aremove {A} k (l : list (key * A)) k' :
  assoc k' (aremove k l) = if String.eqb k' k then None else assoc k' l.
Proof.
  induction l as [|[a v] r IH]; simpl.
  - destruct (String.eqb k' k); reflexivity.
  - destruct (String.eqb k a) eqn:E; simpl.
    + apply String.eqb_eq in E; subst a. rewrite IH.
      destruct (String.eqb k' k) eqn:E2; reflexivity.
    + rewrite IH. destruct (String.eqb k' a) eqn:E3.
      * apply String.eqb_eq in E3; subst a.
        rewrite String.eqb_sym in E. rewrite E. reflexivity.
      * reflexivity.
Qed.

Lemma assoc_aset_full {A} k (v : A) l k' :
  assoc k' (aset k v l) = if String.eqb k' k then Some v else assoc k' l.
Proof.
  rewrite assoc_aset, assoc_aremove. destruct (String.eqb k' k); reflexivity.
Qed.

Lemma assoc_In {A} k (v : A) l : assoc k l = Some v -> In (k, v) l.
Proof.
  induction l as [|[a w] r IH]; simpl; [discriminate|].
  destruct (String.eqb k a) eqn:E.
  - intro H; inversion H; subst. apply String.eqb_eq in E; subst. auto.
  - auto.
Qed.

(* cget / cset / cdel *)
Lemma cget_cdel t k l t' k' :
  cget t' k' (cdel t k l) = if ctype_eqb t' t && String.eqb k' k then None else cget t' k' l.
Proof.
  induction l as [|e r IH]; simpl.
  - destruct (ctype_eqb t' t && String.eqb k' k); reflexivity.
  - destruct (same_entry t k e) eqn:E; simpl.
    + rewrite IH. destruct (ctype_eqb t' t && String.eqb k' k) eqn:E2; [reflexivity|].
      destruct (same_entry t' k' e) eqn:E3; [|reflexivity].
      apply same_entry_true in E as [E1 E1']. apply same_entry_true in E3 as [E3 E3']. subst.
      rewrite ctype_eqb_refl, String.eqb_refl in E2. discriminate.
    + destruct (same_entry t' k' e) eqn:E3.
      * destruct (ctype_eqb t' t && String.eqb k' k) eqn:E2; [|reflexivity].
        apply andb_true_iff in E2 as [Ea Eb]. apply ctype_eqb_eq in Ea. apply String.eqb_eq in Eb. subst.
        congruence.
      * exact IH.
Qed.

Lemma cget_cset t k p l t' k' :
  cget t' k' (cset t k p l) = if ctype_eqb t' t && String.eqb k' k then Some p else cget t' k' l.
Proof.
  unfold cset. simpl. unfold same_entry at 1. simpl.
  destruct (ctype_eqb t' t && String.eqb k' k) eqn:E; [reflexivity|].
  rewrite cget_cdel, E. reflexivity.
Qed.

Lemma In_cdel e t k l : In e (cdel t k l) <-> In e l /\ same_entry t k e = false.
Proof. unfold cdel. rewrite filter_In, negb_true_iff. tauto. Qed.

Lemma In_cset e t k p l :
  In e (cset t k p l) <-> e = (t, k, p) \/ (In e l /\ same_entry t k e = false).
Proof. unfold cset. simpl. rewrite In_cdel. intuition. Qed.

Lemma cget_In t k l p : cget t k l = Some p -> In (t, k, p) l.
Proof.
  induction l as [|e r IH]; simpl; [discriminate|].
  destruct (same_entry t k e) eqn:E.
  - intro H; inversion H; subst. apply same_entry_true in E as [E1 E2].
    destruct e as [[a b] c]; simpl in *; subst. auto.
  - auto.
Qed.

Lemma cget_map_clean k t k' l :
  t <> CoordRef -> cget t k' (map (clean_ref k) l) = cget t k' l.
Proof.
  intro Ht. induction l as [|e r IH]; simpl; [reflexivity|].
  destruct e as [[a b] c].
  assert (Hs : same_entry t k' (clean_ref k (a, b, c)) = same_entry t k' (a, b, c)).
  { destruct a; simpl; try reflexivity. destruct c; reflexivity. }
  rewrite Hs. destruct (same_entry t k' (a, b, c)) eqn:E; [|exact IH].
  apply same_entry_true in E as [E1 E2]; simpl in *; subst a.
  destruct t; try reflexivity. contradiction.
Qed.

(* ------------------------------------------------------------------ *)
(* axis sizes are framed by most updates                               *)
(* ------------------------------------------------------------------ *)
Lemma axis_size_cset_other t k p l a :
  t <> DomainAxis -> axis_size (cset t k p l) a = axis_size l a.
Proof.
  intro H. unfold axis_size. rewrite cget_cset.
  destruct t; try contradiction; reflexivity.
Qed.

Lemma axis_size_cset_axis k p l a :
  axis_size (cset DomainAxis k p l) a =
  if String.eqb a k then match p with PAxis n => Some n | _ => None end else axis_size l a.
Proof. unfold axis_size. rewrite cget_cset. simpl. destruct (String.eqb a k); reflexivity. Qed.

Lemma axis_size_cdel_other t k l a :
  t <> DomainAxis -> axis_size (cdel t k l) a = axis_size l a.
Proof.
  intro H. unfold axis_size. rewrite cget_cdel. destruct t; try contradiction; reflexivity.
Qed.

Lemma axis_size_cdel_axis k l a :
  axis_size (cdel DomainAxis k l) a = if String.eqb a k then None else axis_size l a.
Proof. unfold axis_size. rewrite cget_cdel. simpl. destruct (String.eqb a k); reflexivity. Qed.

Lemma axis_size_clean k l a : axis_size (map (clean_ref k) l) a = axis_size l a.
Proof. unfold axis_size. rewrite cget_map_clean; [reflexivity|discriminate]. Qed.

Lemma axes_sizes_ext c c' axs :
  (forall a, In a axs -> axis_size c' a = axis_size c a) -> axes_sizes c' axs = axes_sizes c axs.
Proof.
  induction axs as [|a r IH]; intro H; simpl; [reflexivity|].
  rewrite (H a (or_introl eq_refl)), IH; [reflexivity|]. intros; apply H; right; assumption.
Qed.

Lemma axes_sizes_some_in c axs szs a :
  axes_sizes c axs = Some szs -> In a axs -> exists n, axis_size c a = Some n.
Proof.
  revert szs; induction axs as [|x r IH]; intros szs H Hin; [contradiction|].
  simpl in H. destruct (axis_size c x) eqn:E; [|discriminate].
  destruct (axes_sizes c r) eqn:E2; [|discriminate].
  destruct Hin as [->|Hin]; [eauto|]. eapply IH; eauto.
Qed.

Lemma memb_true k l : memb k l = true <-> In k l.
Proof.
  unfold memb. rewrite existsb_exists. split.
  - intros [x [H1 H2]]. apply String.eqb_eq in H2; subst; assumption.
  - intro H; exists k; split; [assumption|apply String.eqb_refl].
Qed.

Lemma memb_false k l : memb k l = false <-> ~ In k l.
Proof.
  rewrite <- memb_true. destruct (memb k l); split; intro H; try reflexivity; try discriminate.
  exfalso; apply H; reflexivity.
Qed.

Lemma check_axes_ext c c' p axs :
  (forall a, In a axs -> axis_size c' a = axis_size c a) -> check_axes c' p axs = check_axes c p axs.
Proof. intro H. unfold check_axes. rewrite (axes_sizes_ext c c' axs H). reflexivity. Qed.

Lemma check_field_axes_ext c c' sh axs :
  (forall a, In a axs -> axis_size c' a = axis_size c a) ->
  check_field_axes c' sh axs = check_field_axes c sh axs.
Proof. intro H. unfold check_field_axes. rewrite (axes_sizes_ext c c' axs H). reflexivity. Qed.

Lemma check_axes_in c p axs a : check_axes c p axs = true -> In a axs -> exists n, axis_size c a = Some n.
Proof.
  unfold check_axes. destruct (axes_sizes c axs) eqn:E; [|discriminate].
  intros _ Hin. eapply axes_sizes_some_in; eauto.
Qed.

Lemma check_field_axes_in c sh axs a :
  check_field_axes c sh axs = true -> In a axs -> exists n, axis_size c a = Some n.
Proof.
  unfold check_field_axes. destruct (axes_sizes c axs) eqn:E; [|discriminate].
  intros _ Hin. eapply axes_sizes_some_in; eauto.
Qed.

(* ------------------------------------------------------------------ *)
(* the invariant                                                       *)
(* ------------------------------------------------------------------ *)
Definition ckey (e : centry) : key := snd (fst e).
Definition ctyp (e : centry) : ctype := fst (fst e).

(* a name held by a coordinate reference resolves to a construct of the right
   sort: a coordinate for [coordinates()], a domain ancillary for a term of the
   coordinate conversion *)
Definition is_coord (t : ctype) : bool := match t with DimCoord | AuxCoord => true | _ => false end.
Definition is_danc (t : ctype) : bool := match t with DomainAnc => true | _ => false end.

Definition names_construct (ok : ctype -> bool) (tys : list (key * ctype)) (c : key) : Prop :=
  exists t, assoc c tys = Some t /\ ok t = true.

Record Inv (s : cstate) : Prop := mkInv {
  (* (i) every held construct is registered under its own type, has the
     payload kind of that type, and is the only construct under its key *)
  inv_held : forall t k p, In (t, k, p) (cons s) ->
             assoc k (ctys s) = Some t /\ kind_ok t p = true /\ cget t k (cons s) = Some p;
  (* (i) every registered key holds a construct of the registered type *)
  inv_typed : forall k t, assoc k (ctys s) = Some t -> exists p, cget t k (cons s) = Some p;
  (* (ii) recorded data axes belong to an array construct, name existing
     domain axes, and their sizes equal the construct's shape *)
  inv_axes : forall k axs, assoc k (caxes s) = Some axs ->
             exists t p, assoc k (ctys s) = Some t /\ is_array t = true /\
                         cget t k (cons s) = Some p /\ check_axes (cons s) p axs = true;
  (* (iii) the field's data axes exist and match the data shape *)
  inv_field : forall ax, faxes s = Some ax -> check_field_axes (cons s) (fshape s) ax = true;
  (* (iv) coordinate references name existing (non-axis) constructs *)
  inv_refs : forall rk cs ancs, In (CoordRef, rk, PRef cs ancs) (cons s) ->
             (forall c, In c cs -> names_construct is_coord (ctys s) c) /\
             (forall term a, In (term, Some a) ancs -> names_construct is_danc (ctys s) a);
  (* (iv) cell methods name existing domain axes *)
  inv_cms : forall ck axs, In (CellMethod, ck, PCm axs) (cons s) ->
            forall a, In a axs -> axis_size (cons s) a <> None
}.

Lemma inv_init : Inv init.
Proof.
  constructor; simpl; intros; try contradiction; try discriminate.
Qed.

(* what the caller supplies: an inserted coordinate reference or cell method
   names constructs / axes that exist at the time of the call *)
Definition payload_ok (s : cstate) (p : payload) : Prop :=
  match p with
  | PRef cs ancs => (forall c, In c cs -> names_construct is_coord (ctys s) c) /\
                    (forall term a, In (term, Some a) ancs -> names_construct is_danc (ctys s) a)
  | PCm axs => forall a, In a axs -> axis_size (cons s) a <> None
  | _ => True
  end.

(* the invariant implies that everything repr/str/dump look up exists (vi) *)
Lemma inv_describe s : Inv s -> describe_ok s = true.
Proof.
  intros I. unfold describe_ok. apply andb_true_iff; split.
  - destruct (faxes s) eqn:E; [|reflexivity].
    pose proof (inv_field s I l E) as H. unfold check_field_axes in H.
    destruct (axes_sizes (cons s) l); [reflexivity|discriminate].
  - apply forallb_forall. intros [k axs0] _. simpl.
    destruct (assoc k (caxes s)) as [axs|] eqn:E; [|reflexivity].
    destruct (inv_axes s I k axs E) as [t [p [_ [_ [_ Hc]]]]].
    unfold check_axes in Hc. destruct (axes_sizes (cons s) axs); [reflexivity|discriminate].
Qed.

(* ------------------------------------------------------------------ *)
(* frame lemmas for the invariant                                      *)
(* ------------------------------------------------------------------ *)
Lemma inv_with_field s fs fa :
  Inv s -> (forall ax, fa = Some ax -> check_field_axes (cons s) fs ax = true) ->
  Inv (mkS (cons s) (ctys s) (caxes s) fs fa).
Proof.
  intros I H. destruct I. constructor; simpl; auto.
Qed.

Lemma inv_caxes s cax' :
  Inv s ->
  (forall k axs, assoc k cax' = Some axs ->
     assoc k (caxes s) = Some axs \/
     exists t p, assoc k (ctys s) = Some t /\ is_array t = true /\
                 cget t k (cons s) = Some p /\ check_axes (cons s) p axs = true) ->
  Inv (mkS (cons s) (ctys s) cax' (fshape s) (faxes s)).
Proof.
  intros I H. destruct I. constructor; simpl; auto.
  intros k axs Hk. destruct (H k axs Hk) as [Ho|Hn]; auto.
Qed.

Lemma spanned_by_construct_true s k' axs key :
  assoc k' (caxes s) = Some axs -> In key axs -> spanned_by_construct s key = true.
Proof.
  intros H Hin. unfold spanned_by_construct. apply existsb_exists.
  exists (k', axs). split; [apply assoc_In; assumption|]. simpl. rewrite H. apply memb_true; assumption.
Qed.

Lemma spanned_by_construct_inv s key :
  spanned_by_construct s key = true ->
  exists k' axs, assoc k' (caxes s) = Some axs /\ In key axs.
Proof.
  unfold spanned_by_construct. intro H. apply existsb_exists in H as [[k' a0] [_ Hm]]. simpl in Hm.
  destruct (assoc k' (caxes s)) as [axs|] eqn:E; [|discriminate].
  exists k', axs. split; [exact E|apply memb_true; assumption].
Qed.

Lemma spanned_by_field_true s ax key :
  faxes s = Some ax -> In key ax -> spanned_by_field s key = true.
Proof. intros H Hin. unfold spanned_by_field. rewrite H. apply memb_true; assumption. Qed.

Lemma kind_ok_axis p : kind_ok DomainAxis p = true -> exists n, p = PAxis n.
Proof. destruct p; simpl; intro H; try discriminate; eauto. Qed.

(* inserting or replacing a construct *)
Lemma inv_cset s t key p cax' :
  Inv s ->
  kind_ok t p = true ->
  payload_ok s p ->
  (assoc key (ctys s) = None \/ assoc key (ctys s) = Some t) ->
  (t = DomainAxis ->
   spanned_by_construct s key = true \/ spanned_by_field s key = true ->
   axis_size (cons s) key = psize p) ->
  (forall k' axs, assoc k' cax' = Some axs ->
     (k' <> key /\ assoc k' (caxes s) = Some axs) \/
     (k' = key /\ is_array t = true /\ check_axes (cons s) p axs = true)) ->
  Inv (mkS (cset t key p (cons s)) (aset key t (ctys s)) cax' (fshape s) (faxes s)).
Proof.
  intros I Hk Hp Hty Hsz Hcax.
  (* sizes of the axes that anything refers to are unchanged *)
  assert (Hpres : forall a,
             (a <> key \/ t <> DomainAxis \/
              spanned_by_construct s key = true \/ spanned_by_field s key = true) ->
             axis_size (cset t key p (cons s)) a = axis_size (cons s) a).
  { intros a Ha. destruct (ctype_eqb t DomainAxis) eqn:Et.
    - apply ctype_eqb_eq in Et. subst t. rewrite axis_size_cset_axis.
      destruct (String.eqb a key) eqn:Ea; [|reflexivity].
      apply String.eqb_eq in Ea. subst a.
      destruct Ha as [Ha|[Ha|Ha]]; try congruence.
      rewrite (Hsz eq_refl Ha). destruct (kind_ok_axis p Hk) as [n ->]. reflexivity.
    - apply ctype_eqb_neq in Et. apply axis_size_cset_other; assumption. }
  assert (Hmono : forall ok k0, names_construct ok (ctys s) k0 -> names_construct ok (aset key t (ctys s)) k0).
  { intros ok k0 [t0 [H0 H1]]. unfold names_construct. rewrite assoc_aset_full.
    destruct (String.eqb k0 key) eqn:E0; [|eauto].
    apply String.eqb_eq in E0. subst k0.
    destruct Hty as [Hty|Hty]; rewrite Hty in H0; [discriminate|]. inversion H0; subst. eauto. }
  constructor; cbn [cons ctys caxes fshape faxes].
  - (* held *)
    intros t0 k0 p0 Hin. apply In_cset in Hin. destruct Hin as [Heq|[Hin Hne]].
    + inversion Heq; subst. rewrite assoc_aset_full, String.eqb_refl, cget_cset,
        ctype_eqb_refl, String.eqb_refl. auto.
    + destruct (inv_held s I t0 k0 p0 Hin) as [H1 [H2 H3]].
      rewrite assoc_aset_full, cget_cset.
      destruct (String.eqb k0 key) eqn:Ek.
      * apply String.eqb_eq in Ek. subst k0.
        destruct Hty as [Hty|Hty]; rewrite Hty in H1; [discriminate|].
        inversion H1; subst t0. rewrite same_entry_refl in Hne. discriminate.
      * rewrite andb_false_r. auto.
  - (* typed *)
    intros k0 t0 H0. rewrite assoc_aset_full in H0. rewrite cget_cset.
    destruct (String.eqb k0 key) eqn:Ek.
    + inversion H0; subst t0. rewrite ctype_eqb_refl. simpl. eauto.
    + rewrite andb_false_r. apply (inv_typed s I); assumption.
  - (* axes *)
    intros k0 axs H0. destruct (Hcax k0 axs H0) as [[Hne Hold]|[Heq [Harr Hchk]]].
    + destruct (inv_axes s I k0 axs Hold) as [t0 [p0 [H1 [H2 [H3 H4]]]]].
      exists t0, p0. rewrite assoc_aset_full, cget_cset.
      assert (Ek : String.eqb k0 key = false) by (apply String.eqb_neq; assumption).
      rewrite Ek, andb_false_r. splits; auto.
      rewrite <- H4. apply check_axes_ext. intros a Ha. apply Hpres.
      destruct (String.eqb a key) eqn:Ea.
      * apply String.eqb_eq in Ea. subst a. right; right; left.
        eapply spanned_by_construct_true; eauto.
      * left. apply String.eqb_neq; assumption.
    + subst k0. exists t, p. rewrite assoc_aset_full, String.eqb_refl, cget_cset,
        ctype_eqb_refl, String.eqb_refl. splits; auto.
      rewrite <- Hchk. apply check_axes_ext. intros a Ha. apply Hpres.
      right; left. intro; subst t; discriminate.
  - (* field *)
    intros ax Hax. rewrite <- (inv_field s I ax Hax). apply check_field_axes_ext.
    intros a Ha. apply Hpres. destruct (String.eqb a key) eqn:Ea.
    + apply String.eqb_eq in Ea. subst a. right; right; right.
      eapply spanned_by_field_true; eauto.
    + left. apply String.eqb_neq; assumption.
  - (* refs *)
    intros rk cs ancs Hin. apply In_cset in Hin. destruct Hin as [Heq|[Hin _]].
    + inversion Heq; subst. simpl in Hp. destruct Hp as [Hp1 Hp2]. split.
      * intros c Hc. apply Hmono. apply Hp1; assumption.
      * intros term a Ha. apply Hmono. eapply Hp2; eauto.
    + destruct (inv_refs s I rk cs ancs Hin) as [H1 H2]. split.
      * intros c Hc. apply Hmono. apply H1; assumption.
      * intros term a Ha. apply Hmono. eapply H2; eauto.
  - (* cell methods *)
    assert (Hex : forall a, axis_size (cons s) a <> None -> axis_size (cset t key p (cons s)) a <> None).
    { intros a Ha. destruct (ctype_eqb t DomainAxis) eqn:Et.
      - apply ctype_eqb_eq in Et. subst t. rewrite axis_size_cset_axis.
        destruct (String.eqb a key); [|assumption].
        destruct (kind_ok_axis p Hk) as [n ->]. discriminate.
      - apply ctype_eqb_neq in Et. rewrite axis_size_cset_other; assumption. }
    intros ck axs Hin a Ha. apply In_cset in Hin. destruct Hin as [Heq|[Hin _]].
    + inversion Heq; subst. simpl in Hp. apply Hex. apply Hp; assumption.
    + apply Hex. eapply (inv_cms s I); eauto.
Qed.

(* ------------------------------------------------------------------ *)
(* set_construct                                                       *)
(* ------------------------------------------------------------------ *)
Lemma fresh_not_taken fuel n base taken k :
  fresh fuel n base taken = Some k -> memb k taken = false.
Proof.
  revert n; induction fuel as [|f IH]; intros n H; simpl in H; [discriminate|].
  destruct (memb (base ++ nat_str n) taken) eqn:E.
  - eapply IH; eauto.
  - inversion H; subst; assumption.
Qed.

Lemma assoc_none_not_in {A} k (l : list (key * A)) : memb k (map fst l) = false -> assoc k l = None.
Proof.
  induction l as [|[a v] r IH]; simpl; [reflexivity|].
  intro H. apply orb_false_iff in H as [H1 H2]. rewrite H1. auto.
Qed.

Lemma new_identifier_fresh s t k : new_identifier s t = Some k -> assoc k (ctys s) = None.
Proof.
  unfold new_identifier. intro H. apply fresh_not_taken in H. apply assoc_none_not_in; assumption.
Qed.

(* the resize test of the repaired _set_construct gives what inv_cset needs *)
Lemma resize_ok s key p :
  Inv s ->
  match cget DomainAxis key (cons s) with
  | Some old => negb (option_eqb Z.eqb (psize old) (psize p)) &&
                (spanned_by_construct s key || spanned_by_field s key)
  | None => false
  end = false ->
  kind_ok DomainAxis p = true ->
  spanned_by_construct s key = true \/ spanned_by_field s key = true ->
  axis_size (cons s) key = psize p.
Proof.
  intros I H Hk Hsp. destruct (kind_ok_axis p Hk) as [n ->]. unfold axis_size.
  destruct (cget DomainAxis key (cons s)) as [old|] eqn:E.
  - apply cget_In in E. destruct (inv_held s I _ _ _ E) as [_ [Hko _]].
    destruct (kind_ok_axis old Hko) as [m ->]. simpl in *.
    assert (Hs : spanned_by_construct s key || spanned_by_field s key = true).
    { apply orb_true_iff; assumption. }
    rewrite Hs, andb_true_r in H. apply negb_false_iff in H. apply Z.eqb_eq in H. subst; reflexivity.
  - (* a key that is not an axis cannot be spanned *)
    exfalso. destruct Hsp as [Hsp|Hsp].
    + apply spanned_by_construct_inv in Hsp as [k' [axs [Ha Hin]]].
      destruct (inv_axes s I k' axs Ha) as [t0 [p0 [_ [_ [_ Hc]]]]].
      destruct (check_axes_in _ _ _ _ Hc Hin) as [m Hm]. unfold axis_size in Hm.
      rewrite E in Hm. discriminate.
    + unfold spanned_by_field in Hsp. destruct (faxes s) as [ax|] eqn:Ef; [|discriminate].
      apply memb_true in Hsp. pose proof (inv_field s I ax Ef) as Hc.
      destruct (check_field_axes_in _ _ _ _ Hc Hsp) as [m Hm]. unfold axis_size in Hm.
      rewrite E in Hm. discriminate.
Qed.

Lemma set_construct_inv v t p k axes s :
  Inv s -> payload_ok s p -> Inv (fst (set_construct v t p k axes s)).
Proof.
  intros I Hp. unfold set_construct, set_construct_g. fold (spanned_by_field s).
  destruct (negb (kind_ok t p)) eqn:Ek; [exact I|]. apply negb_false_iff in Ek.
  destruct (negb (copyable_entry (t, EmptyString, p))); [exact I|].
  destruct (is_view v && ignored t); [exact I|].
  destruct (match k with Some k0 => Some k0 | None => new_identifier s t end) as [key|] eqn:Ekey;
    [|exact I].
  match goal with |- context [if ?c then (s, Rejected ValueErr) else _] => destruct c eqn:Eclash end;
    [exact I|].
  assert (Hty : assoc key (ctys s) = None \/ assoc key (ctys s) = Some t).
  { destruct k as [k0|].
    - inversion Ekey; subst k0. destruct (assoc key (ctys s)) as [t'|]; [|auto].
      apply negb_false_iff, ctype_eqb_eq in Eclash. subst; auto.
    - left. apply new_identifier_fresh with t; assumption. }
  match goal with |- context [if ?c then (s, Rejected ValueErr) else _] => destruct c eqn:Eres end;
    [exact I|].
  assert (Hsz : t = DomainAxis ->
                spanned_by_construct s key = true \/ spanned_by_field s key = true ->
                axis_size (cons s) key = psize p).
  { intros -> Hsp. apply resize_ok; assumption. }
  destruct (is_array t) eqn:Earr.
  - destruct (match axes with Some a => Some a | None => assoc key (caxes s) end) as [a|] eqn:Eax.
    + destruct (check_axes (cons s) p a) eqn:Ec; [|exact I].
      cbn [fst]. apply inv_cset; auto.
      intros k' axs H. rewrite assoc_aset_full in H. destruct (String.eqb k' key) eqn:E.
      * apply String.eqb_eq in E. inversion H; subst. right; auto.
      * left. split; [apply String.eqb_neq; assumption|assumption].
    + cbn [fst]. apply inv_cset; auto.
      intros k' axs H. destruct (String.eqb k' key) eqn:E.
      * apply String.eqb_eq in E. subst k'. destruct axes; [discriminate|]. congruence.
      * left. split; [apply String.eqb_neq; assumption|assumption].
  - destruct axes; [exact I|].
    cbn [fst]. apply inv_cset; auto.
    intros k' axs H. destruct (String.eqb k' key) eqn:E.
    + apply String.eqb_eq in E. subst k'.
      destruct (inv_axes s I key axs H) as [t0 [p0 [H1 [H2 _]]]].
      destruct Hty as [Hty|Hty]; rewrite Hty in H1; [discriminate|]. inversion H1; subst. congruence.
    + left. split; [apply String.eqb_neq; assumption|assumption].
Qed.

(* ------------------------------------------------------------------ *)
(* del_construct                                                       *)
(* ------------------------------------------------------------------ *)
Definition clean_payload (k : key) (t : ctype) (p : payload) : payload :=
  snd (clean_ref k (t, EmptyString, p)).

Lemma clean_ref_shape k t k' p : clean_ref k (t, k', p) = (t, k', clean_payload k t p).
Proof. unfold clean_payload. destruct t; try reflexivity. destruct p; reflexivity. Qed.

Lemma cget_map_clean_full k t k' l :
  cget t k' (map (clean_ref k) l) =
  match cget t k' l with Some p => Some (clean_payload k t p) | None => None end.
Proof.
  induction l as [|[[a b] c] r IH]; [reflexivity|].
  cbn [map]. rewrite clean_ref_shape. cbn [cget].
  assert (Hs : same_entry t k' (a, b, clean_payload k a c) = same_entry t k' (a, b, c)) by reflexivity.
  rewrite Hs. destruct (same_entry t k' (a, b, c)) eqn:E; [|exact IH].
  apply same_entry_true in E as [E1 E2]; simpl in *; subst. reflexivity.
Qed.

Lemma clean_payload_id k t p : t <> CoordRef -> clean_payload k t p = p.
Proof. intro H. unfold clean_payload. destruct t; try reflexivity. contradiction. Qed.

Lemma kind_ok_clean k t p : kind_ok t (clean_payload k t p) = kind_ok t p.
Proof. unfold clean_payload. destruct t; try reflexivity. destruct p; reflexivity. Qed.

Lemma In_map_clean k e l :
  In e (map (clean_ref k) l) -> exists p0, In (ctyp e, ckey e, p0) l /\ snd e = clean_payload k (ctyp e) p0.
Proof.
  intro H. apply in_map_iff in H as [[[a b] c] [H1 H2]]. rewrite clean_ref_shape in H1. subst e.
  exists c. auto.
Qed.

Lemma cm_names_true a ck axs l :
  In (CellMethod, ck, PCm axs) l -> In a axs -> existsb (cm_names a) l = true.
Proof.
  intros H Ha. apply existsb_exists. exists (CellMethod, ck, PCm axs). split; [assumption|].
  simpl. apply memb_true; assumption.
Qed.

(* removing a construct that is not a domain axis, cleaning the references *)
Lemma inv_del_other s t k :
  Inv s -> assoc k (ctys s) = Some t -> t <> DomainAxis ->
  Inv (mkS (cdel t k (map (clean_ref k) (cons s))) (aremove k (ctys s)) (aremove k (caxes s))
           (fshape s) (faxes s)).
Proof.
  intros I Hk Ht.
  assert (Hsz : forall a, axis_size (cdel t k (map (clean_ref k) (cons s))) a = axis_size (cons s) a).
  { intro a. rewrite axis_size_cdel_other by assumption. apply axis_size_clean. }
  assert (Hnm : forall ok c, c <> k -> names_construct ok (ctys s) c -> names_construct ok (aremove k (ctys s)) c).
  { intros ok c Hc [t0 [H0 H1]]. exists t0. rewrite assoc_aremove.
    apply String.eqb_neq in Hc. rewrite Hc. auto. }
  constructor; cbn [cons ctys caxes fshape faxes].
  - intros t0 k0 p0 Hin. apply In_cdel in Hin as [Hin Hne].
    apply In_map_clean in Hin as [q [Hin Hq]]. cbn [ctyp ckey fst snd] in *. subst p0.
    destruct (inv_held s I t0 k0 q Hin) as [H1 [H2 H3]].
    rewrite assoc_aremove, cget_cdel, cget_map_clean_full, H3, kind_ok_clean.
    destruct (String.eqb k0 k) eqn:Ek.
    + apply String.eqb_eq in Ek. subst k0. rewrite Hk in H1. inversion H1; subst t0.
      rewrite same_entry_refl in Hne. discriminate.
    + rewrite andb_false_r. auto.
  - intros k0 t0 H0. rewrite assoc_aremove in H0. destruct (String.eqb k0 k) eqn:Ek; [discriminate|].
    destruct (inv_typed s I k0 t0 H0) as [p0 Hp0].
    rewrite cget_cdel, Ek, andb_false_r, cget_map_clean_full, Hp0. eauto.
  - intros k0 axs H0. rewrite assoc_aremove in H0. destruct (String.eqb k0 k) eqn:Ek; [discriminate|].
    destruct (inv_axes s I k0 axs H0) as [t0 [p0 [H1 [H2 [H3 H4]]]]].
    exists t0, p0. rewrite assoc_aremove, Ek, cget_cdel, Ek, andb_false_r, cget_map_clean_full, H3.
    rewrite clean_payload_id by (intro; subst; discriminate). splits; auto.
    rewrite <- H4. apply check_axes_ext. intros; apply Hsz.
  - intros ax Hax. rewrite <- (inv_field s I ax Hax). apply check_field_axes_ext. intros; apply Hsz.
  - intros rk cs ancs Hin. apply In_cdel in Hin as [Hin _].
    apply In_map_clean in Hin as [q [Hin Hq]]. cbn [ctyp ckey fst snd] in *.
    destruct (inv_held s I _ _ _ Hin) as [_ [Hko _]].
    destruct q; simpl in Hko; try discriminate.
    destruct (inv_refs s I rk coords ancs0 Hin) as [R1 R2].
    unfold clean_payload in Hq. simpl in Hq. inversion Hq; subst. split.
    + intros c Hc. apply filter_In in Hc as [Hc Hne]. apply negb_true_iff, String.eqb_neq in Hne.
      apply Hnm; [congruence|auto].
    + intros term a Ha. apply in_map_iff in Ha as [[tm oa] [Heq Ha0]]. simpl in Heq.
      destruct oa as [a'|]; [|inversion Heq].
      destruct (String.eqb k a') eqn:Eka; [inversion Heq|].
      inversion Heq; subst. apply String.eqb_neq in Eka.
      apply Hnm; [congruence|eapply R2; eauto].
  - intros ck axs Hin a Ha. apply In_cdel in Hin as [Hin _].
    apply In_map_clean in Hin as [q [Hin Hq]]. cbn [ctyp ckey fst snd] in *.
    rewrite clean_payload_id in Hq by discriminate. subst q.
    rewrite Hsz. eapply (inv_cms s I); eauto.
Qed.

(* removing a domain axis that nothing spans or names *)
Lemma inv_del_axis s k :
  Inv s -> assoc k (ctys s) = Some DomainAxis ->
  spanned_by_construct s k = false -> spanned_by_field s k = false ->
  existsb (cm_names k) (cons s) = false ->
  Inv (mkS (cdel DomainAxis k (cons s)) (aremove k (ctys s)) (aremove k (caxes s))
           (fshape s) (faxes s)).
Proof.
  intros I Hk Hsc Hsf Hcm.
  assert (Hsz : forall a, a <> k -> axis_size (cdel DomainAxis k (cons s)) a = axis_size (cons s) a).
  { intros a Ha. rewrite axis_size_cdel_axis. apply String.eqb_neq in Ha. rewrite Ha. reflexivity. }
  constructor; cbn [cons ctys caxes fshape faxes].
  - intros t0 k0 p0 Hin. apply In_cdel in Hin as [Hin Hne].
    destruct (inv_held s I t0 k0 p0 Hin) as [H1 [H2 H3]].
    rewrite assoc_aremove, cget_cdel, H3.
    destruct (String.eqb k0 k) eqn:Ek.
    + apply String.eqb_eq in Ek. subst k0. rewrite Hk in H1. inversion H1; subst t0.
      rewrite same_entry_refl in Hne. discriminate.
    + rewrite andb_false_r. auto.
  - intros k0 t0 H0. rewrite assoc_aremove in H0. destruct (String.eqb k0 k) eqn:Ek; [discriminate|].
    destruct (inv_typed s I k0 t0 H0) as [p0 Hp0].
    rewrite cget_cdel, Ek, andb_false_r. eauto.
  - intros k0 axs H0. rewrite assoc_aremove in H0. destruct (String.eqb k0 k) eqn:Ek; [discriminate|].
    destruct (inv_axes s I k0 axs H0) as [t0 [p0 [H1 [H2 [H3 H4]]]]].
    exists t0, p0. rewrite assoc_aremove, Ek, cget_cdel, Ek, andb_false_r. splits; auto.
    rewrite <- H4. apply check_axes_ext. intros a Ha. apply Hsz. intro; subst a.
    rewrite (spanned_by_construct_true s k0 axs k H0 Ha) in Hsc. discriminate.
  - intros ax Hax. rewrite <- (inv_field s I ax Hax). apply check_field_axes_ext.
    intros a Ha. apply Hsz. intro; subst a.
    rewrite (spanned_by_field_true s ax k Hax Ha) in Hsf. discriminate.
  - intros rk cs ancs Hin. apply In_cdel in Hin as [Hin _].
    destruct (inv_refs s I rk cs ancs Hin) as [R1 R2].
    assert (Hnm : forall ok c, ok DomainAxis = false ->
                  names_construct ok (ctys s) c -> names_construct ok (aremove k (ctys s)) c).
    { intros ok c Hok [t0 [H0 H1]]. exists t0. rewrite assoc_aremove.
      destruct (String.eqb c k) eqn:Ec; [|auto].
      apply String.eqb_eq in Ec. subst c. rewrite Hk in H0. inversion H0; subst. congruence. }
    split; [intros; apply Hnm; auto|intros; apply Hnm; [reflexivity|eapply R2; eauto]].
  - intros ck axs Hin a Ha. apply In_cdel in Hin as [Hin _].
    rewrite Hsz; [eapply (inv_cms s I); eauto|].
    intro; subst a. rewrite (cm_names_true k ck axs (cons s) Hin Ha) in Hcm. discriminate.
Qed.

(* a rejected deletion of a non-existent key has cleaned the references: harmless *)
Lemma inv_clean_only s k :
  Inv s -> assoc k (ctys s) = None \/ (exists t, assoc k (ctys s) = Some t) ->
  Inv (mkS (map (clean_ref k) (cons s)) (ctys s) (caxes s) (fshape s) (faxes s)).
Proof.
  intros I _.
  assert (Hsz : forall a, axis_size (map (clean_ref k) (cons s)) a = axis_size (cons s) a)
    by (intro; apply axis_size_clean).
  constructor; cbn [cons ctys caxes fshape faxes].
  - intros t0 k0 p0 Hin. apply In_map_clean in Hin as [q [Hin Hq]]. cbn [ctyp ckey fst snd] in *.
    subst p0. destruct (inv_held s I t0 k0 q Hin) as [H1 [H2 H3]].
    rewrite cget_map_clean_full, H3, kind_ok_clean. auto.
  - intros k0 t0 H0. destruct (inv_typed s I k0 t0 H0) as [p0 Hp0].
    rewrite cget_map_clean_full, Hp0. eauto.
  - intros k0 axs H0. destruct (inv_axes s I k0 axs H0) as [t0 [p0 [H1 [H2 [H3 H4]]]]].
    exists t0, p0. rewrite cget_map_clean_full, H3.
    rewrite clean_payload_id by (intro; subst; discriminate). splits; auto.
    rewrite <- H4. apply check_axes_ext. intros; apply Hsz.
  - intros ax Hax. rewrite <- (inv_field s I ax Hax). apply check_field_axes_ext. intros; apply Hsz.
  - intros rk cs ancs Hin. apply In_map_clean in Hin as [q [Hin Hq]]. cbn [ctyp ckey fst snd] in *.
    destruct (inv_held s I _ _ _ Hin) as [_ [Hko _]].
    destruct q; simpl in Hko; try discriminate.
    destruct (inv_refs s I rk coords ancs0 Hin) as [R1 R2].
    unfold clean_payload in Hq. simpl in Hq. inversion Hq; subst. split.
    + intros c Hc. apply filter_In in Hc as [Hc _]. auto.
    + intros term a Ha. apply in_map_iff in Ha as [[tm oa] [Heq Ha0]]. simpl in Heq.
      destruct oa as [a'|]; [|inversion Heq].
      destruct (String.eqb k a') eqn:Eka; [inversion Heq|].
      inversion Heq; subst. eapply R2; eauto.
  - intros ck axs Hin a Ha. apply In_map_clean in Hin as [q [Hin Hq]]. cbn [ctyp ckey fst snd] in *.
    rewrite clean_payload_id in Hq by discriminate. subst q.
    rewrite Hsz. eapply (inv_cms s I); eauto.
Qed.

Lemma visible_type_some v s k t : visible_type v s k = Some t -> assoc k (ctys s) = Some t.
Proof.
  unfold visible_type. destruct (assoc k (ctys s)) as [t0|]; [|discriminate].
  destruct (is_view v && ignored t0); [discriminate|]. intro H; inversion H; reflexivity.
Qed.

Lemma del_construct_core_inv v k s :
  Inv s ->
  (is_view v = false -> cget DomainAxis k (cons s) <> None -> spanned_by_field s k = false) ->
  Inv (fst (del_construct_core v k s)).
Proof.
  intros I Hf. unfold del_construct_core, del_construct_core_g. fold (spanned_by_field s k).
  destruct (cget DomainAxis k (cons s)) as [q|] eqn:Eq.
  - destruct (spanned_by_construct s k || (is_view v && spanned_by_field s k)) eqn:Esp; [exact I|].
    apply orb_false_iff in Esp as [Esc Esf].
    destruct (existsb (cm_names k) (cons s)) eqn:Ecm; [exact I|].
    destruct (visible_type v s k) as [t|] eqn:Ev; [|exact I].
    apply visible_type_some in Ev.
    apply cget_In in Eq. destruct (inv_held s I _ _ _ Eq) as [Hty _].
    rewrite Hty in Ev. inversion Ev; subst t. cbn [fst].
    apply inv_del_axis; auto.
    destruct (is_view v) eqn:Eview; [exact Esf|]. apply Hf; [reflexivity|].
    intro Hc. apply cget_In in Hc || idtac. congruence.
  - destruct (visible_type v s k) as [t|] eqn:Ev; cbn [fst].
    + apply visible_type_some in Ev. apply inv_del_other; auto.
      intro; subst t. destruct (inv_typed s I k DomainAxis Ev) as [p Hp]. congruence.
    + apply inv_clean_only; auto.
      destruct (assoc k (ctys s)); eauto.
Qed.

Lemma del_construct_inv v k s : Inv s -> Inv (fst (del_construct v k s)).
Proof.
  intros I. unfold del_construct, del_construct_g. fold (del_construct_core VField k s) (del_construct_core VDomain k s) (del_construct_core VCore k s). destruct v.
  - (* cfdm.Field route *)
    destruct (visible_type VField s k); [|exact I].
    destruct (cget DomainAxis k (cons s)) eqn:Eq.
    + destruct (spanned_by_field s k) eqn:Ef; [exact I|].
      apply del_construct_core_inv; auto.
    + apply del_construct_core_inv; auto. intros _ H; congruence.
  - (* the domain view *)
    destruct (visible_type VDomain s k); [|exact I].
    assert (H : Inv (fst (del_construct_core VDomain k s))).
    { apply del_construct_core_inv; auto. intro; discriminate. }
    destruct (cget DomainAxis k (cons s)); exact H.
  - (* core Field route *)
    destruct (cget DomainAxis k (cons s)) eqn:Eq.
    + destruct (spanned_by_field s k) eqn:Ef; [exact I|].
      apply del_construct_core_inv; auto.
    + apply del_construct_core_inv; auto. intros _ H; congruence.
Qed.

(* ------------------------------------------------------------------ *)
(* field data and data axes                                            *)
(* ------------------------------------------------------------------ *)
Lemma set_data_inv sh axes s : Inv s -> Inv (fst (set_data sh axes s)).
Proof.
  intros I. unfold set_data.
  destruct (match axes with Some a => Some a | None => faxes s end) as [a|] eqn:Ea.
  - unfold set_field_axes. destruct (check_field_axes (cons s) (Some sh) a) eqn:E; [|exact I].
    cbn [fst cons ctys caxes fshape faxes].
    apply (inv_with_field s (Some sh) (Some a) I). intros ax Hax. inversion Hax; subst. exact E.
  - cbn [fst]. apply (inv_with_field s (Some sh) (faxes s) I).
    intros ax Hax. destruct axes; [discriminate|]. congruence.
Qed.

Lemma check_field_axes_none c sh ax :
  check_field_axes c sh ax = true -> check_field_axes c None ax = true.
Proof.
  unfold check_field_axes. destruct (axes_sizes c ax); [reflexivity|discriminate].
Qed.

Lemma del_data_inv s : Inv s -> Inv (fst (del_data s)).
Proof.
  intros I. unfold del_data. destruct (fshape s) eqn:E; [|exact I].
  cbn [fst]. apply (inv_with_field s None (faxes s) I).
  intros ax Hax. eapply check_field_axes_none. apply (inv_field s I ax Hax).
Qed.

Lemma set_data_axes_inv v axs k s : Inv s -> Inv (fst (set_data_axes v axs k s)).
Proof.
  intros I. unfold set_data_axes. destruct k as [k|].
  - destruct (visible_type v s k) as [t|] eqn:Ev; [|exact I].
    apply visible_type_some in Ev.
    destruct (cget t k (cons s)) as [p|] eqn:Ep; [|exact I].
    destruct (negb (is_array t)) eqn:Ea; [exact I|]. apply negb_false_iff in Ea.
    destruct (check_axes (cons s) p axs) eqn:Ec; [|exact I].
    cbn [fst]. apply (inv_caxes s _ I). intros k0 ax0 H0.
    rewrite assoc_aset_full in H0. destruct (String.eqb k0 k) eqn:E.
    + apply String.eqb_eq in E. subst k0. inversion H0; subst ax0. right. exists t, p. auto.
    + left; assumption.
  - unfold set_field_axes. destruct (check_field_axes (cons s) (fshape s) axs) eqn:E; [|exact I].
    cbn [fst]. apply (inv_with_field s (fshape s) (Some axs) I).
    intros ax Hax. inversion Hax; subst. exact E.
Qed.

Lemma del_data_axes_inv v k s : Inv s -> Inv (fst (del_data_axes v k s)).
Proof.
  intros I. unfold del_data_axes. destruct k as [k|].
  - destruct (assoc k (caxes s)); [|exact I].
    match goal with |- context [if ?c then _ else _] => destruct c end; [exact I|].
    cbn [fst]. apply (inv_caxes s _ I). intros k0 ax0 H0.
    rewrite assoc_aremove in H0. destruct (String.eqb k0 k); [discriminate|]. left; assumption.
  - destruct (faxes s); [|exact I]. cbn [fst].
    apply (inv_with_field s (fshape s) None I). intros; discriminate.
Qed.

(* ------------------------------------------------------------------ *)
(* squeeze / transpose / insert_dimension keep axes and shape in step  *)
(* ------------------------------------------------------------------ *)
Lemma zlist_eqb_eq a b : zlist_eqb a b = true <-> a = b.
Proof. unfold zlist_eqb. apply list_eqb_eq. intros; apply Z.eqb_eq. Qed.

Lemma zlist_eqb_refl a : zlist_eqb a a = true.
Proof. apply zlist_eqb_eq; reflexivity. Qed.

Lemma check_field_some c sh ax :
  check_field_axes c (Some sh) ax = true <-> axes_sizes c ax = Some sh.
Proof.
  unfold check_field_axes. destruct (axes_sizes c ax) as [szs|]; split; intro H; try discriminate.
  - apply zlist_eqb_eq in H. congruence.
  - inversion H; subst. apply zlist_eqb_refl.
Qed.

Lemma axes_sizes_length c ax szs : axes_sizes c ax = Some szs -> length szs = length ax.
Proof.
  revert szs; induction ax as [|a r IH]; intros szs H; simpl in H.
  - inversion H; reflexivity.
  - destruct (axis_size c a); [|discriminate]. destruct (axes_sizes c r) eqn:E; [|discriminate].
    inversion H; subst. simpl. f_equal. apply IH; reflexivity.
Qed.

Lemma axes_sizes_drop c d ax szs :
  axes_sizes c ax = Some szs -> forall i, axes_sizes c (drop_from i d ax) = Some (drop_from i d szs).
Proof.
  revert szs; induction ax as [|a r IH]; intros szs H i; simpl in H.
  - inversion H; reflexivity.
  - destruct (axis_size c a) eqn:Ea; [|discriminate]. destruct (axes_sizes c r) eqn:E; [|discriminate].
    inversion H; subst. simpl. destruct (zmem i d).
    + apply IH; reflexivity.
    + simpl. rewrite Ea, (IH l eq_refl (i + 1)). reflexivity.
Qed.

Lemma axes_sizes_nth c ax szs i n :
  axes_sizes c ax = Some szs -> nth_error szs i = Some n ->
  exists a, nth_error ax i = Some a /\ axis_size c a = Some n.
Proof.
  revert szs i; induction ax as [|a r IH]; intros szs i H Hn; simpl in H.
  - inversion H; subst. destruct i; discriminate.
  - destruct (axis_size c a) eqn:Ea; [|discriminate]. destruct (axes_sizes c r) eqn:E; [|discriminate].
    inversion H; subst. destruct i; simpl in *.
    + inversion Hn; subst. eauto.
    + eapply IH; eauto.
Qed.

Lemma axes_sizes_permute c ax szs ia sh' :
  axes_sizes c ax = Some szs -> permute szs ia = Some sh' ->
  exists ax', permute ax ia = Some ax' /\ axes_sizes c ax' = Some sh'.
Proof.
  intro H. revert sh'; induction ia as [|i r IH]; intros sh' Hp; simpl in *.
  - inversion Hp; subst. exists []. auto.
  - unfold nthZ in *. destruct (i <? 0); [discriminate|].
    destruct (nth_error szs (Z.to_nat i)) eqn:En; [|discriminate].
    destruct (permute szs r) eqn:Er; [|discriminate]. inversion Hp; subst.
    destruct (axes_sizes_nth c ax szs _ _ H En) as [a [Ha Hs]].
    destruct (IH l eq_refl) as [ax1 [H1 H2]]. rewrite Ha, H1. exists (a :: ax1). split; [reflexivity|].
    simpl. rewrite Hs, H2. reflexivity.
Qed.

Lemma axes_sizes_app c l1 l2 :
  axes_sizes c (l1 ++ l2) =
  match axes_sizes c l1, axes_sizes c l2 with Some a, Some b => Some (a ++ b)%list | _, _ => None end.
Proof.
  induction l1 as [|a r IH]; simpl.
  - destruct (axes_sizes c l2); reflexivity.
  - destruct (axis_size c a); [|reflexivity]. rewrite IH.
    destruct (axes_sizes c r); [|reflexivity]. destruct (axes_sizes c l2); reflexivity.
Qed.

Lemma axes_sizes_firstn c ax szs n :
  axes_sizes c ax = Some szs -> axes_sizes c (firstn n ax) = Some (firstn n szs).
Proof.
  revert szs n; induction ax as [|a r IH]; intros szs n H; simpl in H.
  - inversion H; subst. destruct n; reflexivity.
  - destruct (axis_size c a) eqn:Ea; [|discriminate]. destruct (axes_sizes c r) eqn:E; [|discriminate].
    inversion H; subst. destruct n; simpl; [reflexivity|]. rewrite Ea, (IH l n eq_refl). reflexivity.
Qed.

Lemma axes_sizes_skipn c ax szs n :
  axes_sizes c ax = Some szs -> axes_sizes c (skipn n ax) = Some (skipn n szs).
Proof.
  revert szs n; induction ax as [|a r IH]; intros szs n H; simpl in H.
  - inversion H; subst. destruct n; reflexivity.
  - destruct (axis_size c a) eqn:Ea; [|discriminate]. destruct (axes_sizes c r) eqn:E; [|discriminate].
    inversion H; subst. destruct n; simpl; [rewrite Ea, E; reflexivity|]. apply IH; reflexivity.
Qed.

Lemma axes_sizes_insert c ax szs p a n :
  axes_sizes c ax = Some szs -> axis_size c a = Some n ->
  axes_sizes c (insert_at p a ax) = Some (insert_at p n szs).
Proof.
  intros H Ha. unfold insert_at. rewrite axes_sizes_app, (axes_sizes_firstn c ax szs _ H).
  rewrite axes_sizes_app. simpl. rewrite Ha, (axes_sizes_skipn c ax szs _ H). reflexivity.
Qed.

Lemma squeeze_inv axes inplace s : Inv s -> Inv (fst (squeeze axes inplace s)).
Proof.
  intros I. unfold squeeze.
  destruct (negb inplace && negb (copyable s)); [exact I|].
  destruct (fshape s) as [sh|] eqn:Esh; [|exact I].
  match goal with |- context [match ?x with Some ia => _ | None => (s, Rejected ValueErr) end] =>
    destruct x as [ia|] end; [|exact I].
  match goal with |- context [if ?c then (s, Rejected ValueErr) else _] => destruct c end; [exact I|].
  destruct (faxes s) as [ax|] eqn:Eax.
  - pose proof (inv_field s I ax Eax) as Hf. rewrite Esh in Hf. apply check_field_some in Hf.
    pose proof (axes_sizes_drop (cons s) ia ax sh Hf 0) as Hd.
    assert (Hc : check_field_axes (cons s) (Some (drop_positions ia sh)) (drop_positions ia ax) = true)
      by (apply check_field_some; exact Hd).
    rewrite Hc, <- (axes_sizes_length _ _ _ Hf), Nat.eqb_refl. cbn [andb fst].
    unfold with_field. apply (inv_with_field s _ _ I). intros a Ha. inversion Ha; subst. exact Hc.
  - cbn [fst]. unfold with_field. apply (inv_with_field s _ _ I). intros; discriminate.
Qed.

Lemma transpose_inv axes inplace done s : Inv s -> Inv (fst (transpose axes false inplace done s)).
Proof.
  intros I. unfold transpose.
  destruct (negb inplace && negb (copyable s)); [exact I|].
  destruct (fshape s) as [sh|] eqn:Esh; [|exact I].
  match goal with |- context [match ?x with Some ia => _ | None => (s, Rejected ValueErr) end] =>
    destruct x as [ia|] end; [|exact I].
  destruct (permute sh ia) as [sh'|] eqn:Ep; [|exact I].
  destruct (faxes s) as [ax|] eqn:Eax.
  - pose proof (inv_field s I ax Eax) as Hf. rewrite Esh in Hf. apply check_field_some in Hf.
    destruct (axes_sizes_permute (cons s) ax sh ia sh' Hf Ep) as [ax' [H1 H2]].
    rewrite H1. apply check_field_some in H2. rewrite H2. cbn [negb fst].
    unfold with_field. apply (inv_with_field s _ _ I). intros a Ha. inversion Ha; subst. exact H2.
  - cbn [fst]. unfold with_field. apply (inv_with_field s _ _ I). intros; discriminate.
Qed.

Lemma not_registered_not_held s k t :
  Inv s -> assoc k (ctys s) = None -> cget t k (cons s) = None.
Proof.
  intros I H. destruct (cget t k (cons s)) eqn:E; [|reflexivity].
  apply cget_In in E. destruct (inv_held s I _ _ _ E) as [H1 _]. congruence.
Qed.

Lemma set_new_axis s a :
  Inv s -> new_identifier s DomainAxis = Some a ->
  set_construct VField DomainAxis (PAxis 1) None None s =
  (mkS (cset DomainAxis a (PAxis 1) (cons s)) (aset a DomainAxis (ctys s)) (caxes s)
       (fshape s) (faxes s), Done).
Proof.
  intros I H. unfold set_construct, set_construct_g. cbn [kind_ok copyable_entry negb orb is_view andb].
  rewrite H. rewrite (not_registered_not_held s a DomainAxis I (new_identifier_fresh s _ a H)).
  reflexivity.
Qed.

Lemma norm_pos_same pos n p :
  let pos1 := if (- n - 1 <=? pos) && (pos <? 0) then pos + n + 1 else pos in
  0 <= n -> norm_pos pos1 n = Some p -> p = pos1 /\ 0 <= pos1.
Proof.
  intros pos1 Hn. unfold norm_pos. subst pos1.
  destruct ((- n - 1 <=? pos) && (pos <? 0)) eqn:E1.
  - apply andb_true_iff in E1 as [A B]. apply Z.leb_le in A. apply Z.ltb_lt in B.
    destruct ((- n - 1 <=? pos + n + 1) && (pos + n + 1 <? 0)) eqn:E2.
    + apply andb_true_iff in E2 as [_ C]. apply Z.ltb_lt in C. lia.
    + destruct ((0 <=? pos + n + 1) && (pos + n + 1 <=? n)); intro H; inversion H; lia.
  - rewrite E1. destruct ((0 <=? pos) && (pos <=? n)) eqn:E3; intro H; inversion H; subst.
    apply andb_true_iff in E3 as [A _]. apply Z.leb_le in A. lia.
Qed.

Lemma insert_dimension_inv axis pos inplace done s :
  Inv s -> Inv (fst (insert_dimension axis pos false inplace done s)).
Proof.
  intros I. unfold insert_dimension.
  destruct (negb inplace && negb (copyable s)); [exact I|].
  (* the axis *)
  assert (Hr : forall r, r = (match axis with
           | None => match set_construct VField DomainAxis (PAxis 1) None None s, new_identifier s DomainAxis with
                     | (s1, Done), Some a => inl (s1, a)
                     | (_, Done), None => inr OutOfModel
                     | (_, o), _ => inr o end
           | Some a => match axis_size (cons s) a with
                       | Some 1 => inl (s, a)
                       | _ => inr (Rejected ValueErr) end
           end) ->
           match r with
           | inr _ => True
           | inl (s1, a) => Inv s1 /\ axis_size (cons s1) a = Some 1
           end).
  { intros r ->. destruct axis as [a|].
    - destruct (axis_size (cons s) a) as [[|[| |]|]|] eqn:E; auto.
    - destruct (new_identifier s DomainAxis) as [a|] eqn:En.
      + rewrite (set_new_axis s a I En). split.
        * pose proof (set_construct_inv VField DomainAxis (PAxis 1) None None s I Coq.Init.Logic.I) as H.
          rewrite (set_new_axis s a I En) in H. exact H.
        * cbn [cons]. rewrite axis_size_cset_axis, String.eqb_refl. reflexivity.
      + destruct (set_construct VField DomainAxis (PAxis 1) None None s) as [s1 [| |]]; exact Coq.Init.Logic.I. }
  match goal with |- context [match ?x with inl _ => _ | inr _ => _ end] =>
    specialize (Hr x eq_refl); destruct x as [[s1 a]|o] end; [|exact I].
  destruct Hr as [I1 Ha].
  assert (Hback : Inv (if inplace then s1 else s)) by (destruct inplace; assumption).
  destruct (faxes s1) as [ax|] eqn:Eax.
  - destruct (memb a ax); [exact Hback|].
    cbv zeta.
    set (nd := Z.of_nat (length ax)).
    set (pos1 := if (- nd - 1 <=? pos) && (pos <? 0) then pos + nd + 1 else pos).
    pose proof (inv_field s1 I1 ax Eax) as Hf.
    destruct (fshape s1) as [sh|] eqn:Esh.
    + apply check_field_some in Hf.
      assert (Hlen : Z.of_nat (length sh) = nd).
      { unfold nd. rewrite (axes_sizes_length _ _ _ Hf). reflexivity. }
      rewrite Hlen.
      destruct (norm_pos pos1 nd) as [p|] eqn:Enp; [|exact Hback].
      destruct (norm_pos_same pos nd p (Zle_0_nat _) Enp) as [Hp _]. fold pos1 in Hp. subst p.
      assert (Hc : check_field_axes (cons s1) (Some (insert_at pos1 1 sh)) (insert_at pos1 a ax) = true).
      { apply check_field_some. apply axes_sizes_insert; assumption. }
      rewrite Hc. cbn [negb fst]. unfold with_field.
      apply (inv_with_field s1 _ _ I1). intros x Hx. inversion Hx; subst. exact Hc.
    + assert (Hc : check_field_axes (cons s1) None (insert_at pos1 a ax) = true).
      { unfold check_field_axes in *. destruct (axes_sizes (cons s1) ax) as [szs|] eqn:E; [|discriminate].
        rewrite (axes_sizes_insert _ _ _ pos1 a 1 E Ha). reflexivity. }
      rewrite Hc. cbn [negb fst]. unfold with_field.
      apply (inv_with_field s1 _ _ I1). intros x Hx. inversion Hx; subst. exact Hc.
  - destruct (fshape s1) as [sh|] eqn:Esh.
    + destruct (norm_pos pos (Z.of_nat (length sh))); [|exact Hback].
      cbn [negb fst]. unfold with_field. apply (inv_with_field s1 _ _ I1). intros; discriminate.
    + cbn [negb fst]. unfold with_field. apply (inv_with_field s1 _ _ I1). intros; discriminate.
Qed.

(* ------------------------------------------------------------------ *)
(* a loop over the metadata constructs (constructs=True)               *)
(* ------------------------------------------------------------------ *)
Definition functional (l : list centry) : Prop :=
  forall t k p, In (t, k, p) l -> cget t k l = Some p.

Lemma inv_functional s : Inv s -> functional (cons s).
Proof. intros I t k p H. apply (inv_held s I t k p H). Qed.

Lemma In_cget_some t k p l : In (t, k, p) l -> cget t k l <> None.
Proof.
  induction l as [|e r IH]; simpl; [contradiction|].
  intros [->|H]; [rewrite same_entry_refl; discriminate|].
  destruct (same_entry t k e); [discriminate|auto].
Qed.

(* a key-preserving map over the constructs *)
Lemma cget_map_keyed (g : centry -> centry) t k l :
  (forall e, In e l -> ctyp (g e) = ctyp e /\ ckey (g e) = ckey e) ->
  cget t k (map g l) = match cget t k l with Some p => Some (snd (g (t, k, p))) | None => None end.
Proof.
  induction l as [|e r IH]; intro H; [reflexivity|].
  cbn [map cget].
  assert (Hs : same_entry t k (g e) = same_entry t k e).
  { destruct (H e (or_introl eq_refl)) as [A B]. unfold same_entry, ctyp, ckey in *. rewrite A, B. reflexivity. }
  rewrite Hs. destruct (same_entry t k e) eqn:E.
  - apply same_entry_true in E as [E1 E2]. destruct e as [[a b] c]; simpl in *; subst. reflexivity.
  - apply IH. intros; apply H; right; assumption.
Qed.

Definition g_full (f : entry_fn) (e : centry) : centry * option (key * list key) :=
  match f e with Some r => r | None => (e, None) end.

Lemma mapM_g_full (f : entry_fn) l res : mapM f l = Some res -> res = map (g_full f) l.
Proof.
  revert res; induction l as [|e r IH]; intros res H; simpl in H.
  - inversion H; reflexivity.
  - unfold g_full at 1. destruct (f e) eqn:E; [|discriminate].
    destruct (mapM f r) eqn:E2; [|discriminate]. inversion H; subst. simpl. rewrite E.
    f_equal. apply IH; reflexivity.
Qed.

(* the loop gives, for some choice function g that either leaves a construct
   alone or applies the body to it, the image of the constructs under g *)
Lemma loop_constructs_spec f done c cax :
  exists g b, (forall e, g e = (e, None) \/ f e = Some (g e)) /\
    loop_constructs f done c cax =
    (map (fun e => fst (g e)) c, apply_updates (map (fun e => snd (g e)) c) cax, b).
Proof.
  unfold loop_constructs. destruct (mapM f c) as [res|] eqn:E.
  - exists (g_full f), true. split.
    + intro e. unfold g_full. destruct (f e); auto.
    + rewrite (mapM_g_full f c res E), !map_map. reflexivity.
  - exists (partial_entry f done), false. split.
    + intro e. unfold partial_entry. destruct (memb (snd (fst e)) done); auto.
      destruct (f e); auto.
    + rewrite !map_map. reflexivity.
Qed.

Lemma apply_updates_assoc ups : forall cax k a,
  assoc k (apply_updates ups cax) = Some a ->
  In (Some (k, a)) ups \/ (assoc k cax = Some a /\ forall a', ~ In (Some (k, a')) ups).
Proof.
  induction ups as [|[[k' a']|] r IH]; intros cax k a H; simpl in H.
  - right. split; [assumption|]. intros a' [].
  - destruct (IH _ _ _ H) as [Hin|[Ha Hno]].
    + left; right; assumption.
    + rewrite assoc_aset_full in Ha. destruct (String.eqb k k') eqn:E.
      * apply String.eqb_eq in E. subst k'. inversion Ha; subst. left; left; reflexivity.
      * right. split; [assumption|]. intros a'' [Heq|Hin]; [|eapply Hno; eauto].
        inversion Heq; subst. rewrite String.eqb_refl in E. discriminate.
  - destruct (IH _ _ _ H) as [Hin|[Ha Hno]].
    + left; right; assumption.
    + right. split; [assumption|]. intros a'' [Heq|Hin]; [discriminate|eapply Hno; eauto].
Qed.

(* what the body of such a loop must satisfy *)
Definition entry_good (s : cstate) (f : entry_fn) : Prop :=
  forall t k p e' u, In (t, k, p) (cons s) -> f (t, k, p) = Some (e', u) ->
    exists p', e' = (t, k, p') /\ kind_ok t p' = true /\
      match u with
      | None => p' = p
      | Some (k', a) => k' = k /\ is_array t = true /\ check_axes (cons s) p' a = true
      end.

Lemma loop_inv s f g fs fa :
  Inv s -> entry_good s f ->
  (forall e, g e = (e, None) \/ f e = Some (g e)) ->
  (forall ax, fa = Some ax -> check_field_axes (cons s) fs ax = true) ->
  Inv (mkS (map (fun e => fst (g e)) (cons s)) (ctys s)
           (apply_updates (map (fun e => snd (g e)) (cons s)) (caxes s)) fs fa).
Proof.
  intros I Hgood Hg Hfield.
  set (g1 := fun e => fst (g e)).
  (* every construct keeps its type and key; what else happens to it *)
  assert (Hent : forall t k p, In (t, k, p) (cons s) ->
            exists p', g1 (t, k, p) = (t, k, p') /\ kind_ok t p' = true /\
              match snd (g (t, k, p)) with
              | None => p' = p
              | Some (k', a) => k' = k /\ is_array t = true /\ check_axes (cons s) p' a = true
              end).
  { intros t k p Hin. unfold g1. destruct (Hg (t, k, p)) as [H|H].
    - rewrite H. exists p. simpl. destruct (inv_held s I t k p Hin) as [_ [Hk _]]. auto.
    - destruct (g (t, k, p)) as [e' u] eqn:E. apply (Hgood t k p e' u Hin H). }
  assert (Hkey : forall e, In e (cons s) -> ctyp (g1 e) = ctyp e /\ ckey (g1 e) = ckey e).
  { intros [[t k] p] Hin. destruct (Hent t k p Hin) as [p' [H _]]. rewrite H. auto. }
  assert (Hcget : forall t k, cget t k (map g1 (cons s)) =
            match cget t k (cons s) with Some p => Some (snd (g1 (t, k, p))) | None => None end).
  { intros. apply cget_map_keyed. exact Hkey. }
  (* constructs that are not arrays are not touched *)
  assert (Hnon : forall t k p, In (t, k, p) (cons s) -> is_array t = false -> g1 (t, k, p) = (t, k, p)).
  { intros t k p Hin Ht. destruct (Hent t k p Hin) as [p' [H [_ Hu]]]. rewrite H.
    destruct (snd (g (t, k, p))) as [[k' a]|]; [|subst; reflexivity].
    destruct Hu as [_ [Hu _]]. congruence. }
  assert (Hsz : forall a, axis_size (map g1 (cons s)) a = axis_size (cons s) a).
  { intro a. unfold axis_size. rewrite Hcget. destruct (cget DomainAxis a (cons s)) as [p|] eqn:E; [|reflexivity].
    apply cget_In in E. rewrite (Hnon _ _ _ E eq_refl). reflexivity. }
  constructor; cbn [cons ctys caxes fshape faxes]; fold g1.
  - intros t k p' Hin. apply in_map_iff in Hin as [[[t0 k0] p] [Heq Hin]].
    destruct (Hent t0 k0 p Hin) as [q [H [Hk _]]]. rewrite H in Heq. inversion Heq; subst.
    destruct (inv_held s I t k p Hin) as [A [_ C]]. splits; auto.
    rewrite Hcget, C, H. reflexivity.
  - intros k t H. destruct (inv_typed s I k t H) as [p Hp]. rewrite Hcget, Hp. eauto.
  - intros k axs H. apply apply_updates_assoc in H as [Hin|[Hold Hno]].
    + apply in_map_iff in Hin as [[[t0 k0] p] [Heq Hin]].
      destruct (Hent t0 k0 p Hin) as [q [H [Hk Hu]]]. rewrite Heq in Hu. destruct Hu as [-> [Harr Hc]].
      destruct (inv_held s I t0 k0 p Hin) as [A [_ C]].
      exists t0, q. splits; auto.
      * rewrite Hcget, C, H. reflexivity.
      * rewrite <- Hc. apply check_axes_ext. intros; apply Hsz.
    + destruct (inv_axes s I k axs Hold) as [t [p [A [B [C D]]]]].
      pose proof (cget_In _ _ _ _ C) as Hin.
      destruct (Hent t k p Hin) as [q [H [Hk Hu]]].
      assert (q = p).
      { match type of Hu with match ?x with _ => _ end => destruct x as [[k' a]|] eqn:E end; [|assumption].
        destruct Hu as [-> _]. exfalso. apply (Hno a). apply in_map_iff. exists (t, k, p). auto. }
      subst q. exists t, p. splits; auto.
      * rewrite Hcget, C, H. reflexivity.
      * rewrite <- D. apply check_axes_ext. intros; apply Hsz.
  - intros ax Hax. rewrite <- (Hfield ax Hax). apply check_field_axes_ext. intros; apply Hsz.
  - intros rk cs ancs Hin. apply in_map_iff in Hin as [[[t0 k0] p] [Heq Hin]].
    destruct (Hkey _ Hin) as [Ht _]. rewrite Heq in Ht. cbn in Ht. subst t0.
    rewrite (Hnon _ _ _ Hin eq_refl) in Heq. inversion Heq; subst.
    apply (inv_refs s I rk cs ancs Hin).
  - intros ck axs Hin a Ha. apply in_map_iff in Hin as [[[t0 k0] p] [Heq Hin]].
    destruct (Hkey _ Hin) as [Ht _]. rewrite Heq in Ht. cbn in Ht. subst t0.
    rewrite (Hnon _ _ _ Hin eq_refl) in Heq. inversion Heq; subst.
    rewrite Hsz. eapply (inv_cms s I); eauto.
Qed.

(* the recorded axes of a held construct fit its shape *)
Lemma held_axes_fit s t k p ca :
  Inv s -> In (t, k, p) (cons s) -> assoc k (caxes s) = Some ca ->
  is_array t = true /\ check_axes (cons s) p ca = true.
Proof.
  intros I Hin Ha. destruct (inv_axes s I k ca Ha) as [t0 [p0 [A [B [C D]]]]].
  destruct (inv_held s I t k p Hin) as [A' [_ C']].
  assert (t0 = t) by congruence. subst. assert (p0 = p) by congruence. subst. auto.
Qed.

Lemma check_axes_some c sh h b ax :
  check_axes c (PArr (Some sh) h b) ax = true <-> axes_sizes c ax = Some sh.
Proof.
  unfold check_axes. simpl. destruct (axes_sizes c ax) as [szs|]; split; intro H; try discriminate.
  - apply zlist_eqb_eq in H. congruence.
  - inversion H; subst. apply zlist_eqb_refl.
Qed.

Lemma index_of_nth a l : forall j i, index_of a l j = Some i ->
  j <= i /\ nth_error l (Z.to_nat (i - j)) = Some a.
Proof.
  induction l as [|x r IH]; intros j i H; simpl in H; [discriminate|].
  destruct (String.eqb a x) eqn:E.
  - inversion H; subst. apply String.eqb_eq in E. subst. rewrite Z.sub_diag. split; [lia|reflexivity].
  - destruct (IH _ _ H) as [A B]. split; [lia|].
    replace (Z.to_nat (i - j)) with (S (Z.to_nat (i - (j + 1)))) by lia. exact B.
Qed.

Lemma axes_sizes_nth' c ax szs i a :
  axes_sizes c ax = Some szs -> nth_error ax i = Some a ->
  exists n, nth_error szs i = Some n /\ axis_size c a = Some n.
Proof.
  revert szs i; induction ax as [|x r IH]; intros szs i H Hn; simpl in H.
  - destruct i; discriminate.
  - destruct (axis_size c x) eqn:Ea; [|discriminate]. destruct (axes_sizes c r) eqn:E; [|discriminate].
    inversion H; subst. destruct i; simpl in *.
    + inversion Hn; subst. eauto.
    + eapply IH; eauto.
Qed.

(* permuting a shape by the positions of the new axes in the old ones *)
Lemma axes_sizes_reorder c ca sh : axes_sizes c ca = Some sh ->
  forall nca perm sh', mapM (fun a => index_of a ca 0) nca = Some perm ->
  permute sh perm = Some sh' -> axes_sizes c nca = Some sh'.
Proof.
  intro H. induction nca as [|a r IH]; intros perm sh' Hm Hp; simpl in Hm.
  - inversion Hm; subst. simpl in Hp. inversion Hp; reflexivity.
  - destruct (index_of a ca 0) as [i|] eqn:Ei; [|discriminate].
    destruct (mapM (fun a0 => index_of a0 ca 0) r) as [pr|] eqn:Er; [|discriminate].
    inversion Hm; subst. simpl in Hp. unfold nthZ in Hp.
    destruct (index_of_nth _ _ _ _ Ei) as [Hi Hn]. rewrite Z.sub_0_r in Hn.
    destruct (i <? 0); [discriminate|].
    destruct (nth_error sh (Z.to_nat i)) as [n|] eqn:En; [|discriminate].
    destruct (permute sh pr) as [shr|] eqn:Epr; [|discriminate]. inversion Hp; subst.
    destruct (axes_sizes_nth' c ca sh _ _ H Hn) as [m [Hm' Hs]].
    assert (m = n) by congruence. subst. simpl. rewrite Hs, (IH pr shr eq_refl Epr). reflexivity.
Qed.

Lemma transpose_entry_good s nda : Inv s -> entry_good s (transpose_entry nda (caxes s)).
Proof.
  intros I t k p e' u Hin H. destruct (inv_held s I t k p Hin) as [_ [Hk _]].
  unfold transpose_entry in H.
  destruct p as [n|sh hd bnd|cs ancs|axs];
    try (inversion H; subst; exists (PAxis n); auto; fail);
    try (inversion H; subst; eexists; split; [reflexivity|]; split; [assumption|reflexivity]; fail).
  destruct sh as [sh|]; [|inversion H; subst; eexists; split; [reflexivity|]; auto].
  destruct hd; [|inversion H; subst; eexists; split; [reflexivity|]; auto].
  destruct (is_array t && (2 <=? length sh)%nat) eqn:Ea;
    [|inversion H; subst; eexists; split; [reflexivity|]; auto].
  apply andb_true_iff in Ea as [Ea _].
  destruct (assoc k (caxes s)) as [ca|] eqn:Eca; [|discriminate].
  destruct (mapM (fun a => index_of a ca 0) (new_construct_axes nda ca)) as [perm|] eqn:Em; [|discriminate].
  destruct (negb (nodupb perm && Nat.eqb (length perm) (length sh))); [discriminate|].
  destruct (permute sh perm) as [sh'|] eqn:Ep; [|discriminate]. inversion H; subst.
  eexists; split; [reflexivity|]. split; [exact Hk|]. splits; auto.
  destruct (held_axes_fit s t k _ ca I Hin Eca) as [_ Hc]. apply check_axes_some in Hc.
  apply check_axes_some. eapply axes_sizes_reorder; eauto.
Qed.

Lemma insert_entry_good s a cpos ax0 :
  Inv s -> axis_size (cons s) a = Some 1 -> entry_good s (insert_entry a cpos ax0 (caxes s)).
Proof.
  intros I Ha t k p e' u Hin H. destruct (inv_held s I t k p Hin) as [_ [Hk _]].
  unfold insert_entry in H.
  destruct p as [n|sh hd bnd|cs ancs|axs];
    try (inversion H; subst; eexists; split; [reflexivity|]; split; [assumption|reflexivity]; fail).
  destruct sh as [sh|]; [|inversion H; subst; eexists; split; [reflexivity|]; auto].
  destruct hd; [|inversion H; subst; eexists; split; [reflexivity|]; auto].
  destruct (is_array t && negb (ctype_eqb t DimCoord)) eqn:Ea;
    [|inversion H; subst; eexists; split; [reflexivity|]; auto].
  apply andb_true_iff in Ea as [Ea Edc].
  destruct (assoc k (caxes s)) as [ca|] eqn:Eca; [|discriminate].
  destruct (memb a ca); [inversion H; subst; eexists; split; [reflexivity|]; auto|].
  cbv zeta in H.
  match type of H with (if ?c then None else _) = _ => destruct c; [discriminate|] end.
  inversion H; subst. eexists; split; [reflexivity|]. split; [exact Hk|]. splits; auto.
  destruct (held_axes_fit s t k _ ca I Hin Eca) as [_ Hc]. apply check_axes_some in Hc.
  apply check_axes_some. apply axes_sizes_insert; assumption.
Qed.

(* the loop as used by transpose / insert_dimension: whatever it returns is consistent *)
Lemma loop_constructs_inv s f done fs fa c' cax' b :
  Inv s -> entry_good s f ->
  (forall ax, fa = Some ax -> check_field_axes (cons s) fs ax = true) ->
  loop_constructs f done (cons s) (caxes s) = (c', cax', b) ->
  Inv (mkS c' (ctys s) cax' fs fa).
Proof.
  intros I Hgood Hf H.
  destruct (loop_constructs_spec f done (cons s) (caxes s)) as [g [b' [Hg Heq]]].
  rewrite Heq in H. inversion H; subst. apply loop_inv with f; assumption.
Qed.

Lemma transpose_inv_full axes c inplace done s : Inv s -> Inv (fst (transpose axes c inplace done s)).
Proof.
  intros I. unfold transpose.
  destruct (negb inplace && negb (copyable s)); [exact I|].
  destruct (fshape s) as [sh|] eqn:Esh; [|exact I].
  match goal with |- context [match ?x with Some ia => _ | None => (s, Rejected ValueErr) end] =>
    destruct x as [ia|] end; [|exact I].
  destruct (permute sh ia) as [sh'|] eqn:Ep; [|exact I].
  assert (Hnone : Inv (with_field s (Some sh') None)).
  { unfold with_field. apply (inv_with_field s _ _ I). intros; discriminate. }
  destruct (faxes s) as [ax|] eqn:Eax.
  - pose proof (inv_field s I ax Eax) as Hf. rewrite Esh in Hf. apply check_field_some in Hf.
    destruct (axes_sizes_permute (cons s) ax sh ia sh' Hf Ep) as [ax' [H1 H2]].
    rewrite H1. apply check_field_some in H2. rewrite H2. cbn [negb].
    destruct c; cbn [negb].
    + destruct (loop_constructs (transpose_entry ax' (caxes s)) done (cons s) (caxes s)) as [[c' cax'] b] eqn:El.
      assert (Hl : Inv (mkS c' (ctys s) cax' (Some sh') (Some ax'))).
      { eapply loop_constructs_inv; eauto.
        - apply transpose_entry_good; assumption.
        - intros a Ha. inversion Ha; subst. exact H2. }
      destruct b; cbn [fst]; [exact Hl|]. destruct inplace; assumption.
    + cbn [fst]. unfold with_field. apply (inv_with_field s _ _ I). intros a Ha. inversion Ha; subst. exact H2.
  - cbv zeta.
    match goal with |- context [if ?c then _ else (with_field s (Some sh') None, Done)] => destruct c end;
      [|exact Hnone].
    assert (Hb : Inv (if inplace then with_field s (Some sh') None else s)) by (destruct inplace; assumption).
    repeat match goal with |- context [if ?c then _ else _] => destruct c end; cbn [fst]; assumption.
Qed.

Lemma insert_dimension_inv_full axis pos c inplace done s :
  Inv s -> Inv (fst (insert_dimension axis pos c inplace done s)).
Proof.
  intros I. unfold insert_dimension.
  destruct (negb inplace && negb (copyable s)); [exact I|].
  (* the axis *)
  assert (Hr : forall r, r = (match axis with
           | None => match set_construct VField DomainAxis (PAxis 1) None None s, new_identifier s DomainAxis with
                     | (s1, Done), Some a => inl (s1, a)
                     | (_, Done), None => inr OutOfModel
                     | (_, o), _ => inr o end
           | Some a => match axis_size (cons s) a with
                       | Some 1 => inl (s, a)
                       | _ => inr (Rejected ValueErr) end
           end) ->
           match r with
           | inr _ => True
           | inl (s1, a) => Inv s1 /\ axis_size (cons s1) a = Some 1
           end).
  { intros r ->. destruct axis as [a|].
    - destruct (axis_size (cons s) a) as [[|[| |]|]|] eqn:E; auto.
    - destruct (new_identifier s DomainAxis) as [a|] eqn:En.
      + rewrite (set_new_axis s a I En). split.
        * pose proof (set_construct_inv VField DomainAxis (PAxis 1) None None s I Coq.Init.Logic.I) as H.
          rewrite (set_new_axis s a I En) in H. exact H.
        * cbn [cons]. rewrite axis_size_cset_axis, String.eqb_refl. reflexivity.
      + destruct (set_construct VField DomainAxis (PAxis 1) None None s) as [s1 [| |]]; exact Coq.Init.Logic.I. }
  match goal with |- context [match ?x with inl _ => _ | inr _ => _ end] =>
    specialize (Hr x eq_refl); destruct x as [[s1 a]|o] end; [|exact I].
  destruct Hr as [I1 Ha].
  assert (Hback : Inv (if inplace then s1 else s)) by (destruct inplace; assumption).
  (* the end of every branch: with or without the loop over the constructs *)
  assert (Hend : forall sh' ax' cpos ax0,
            (forall x, ax' = Some x -> check_field_axes (cons s1) sh' x = true) ->
            Inv (fst (if negb c then (with_field s1 sh' ax', Done)
                      else match loop_constructs (insert_entry a cpos ax0 (caxes s1)) done (cons s1) (caxes s1) with
                           | (c', cax', true) => (mkS c' (ctys s1) cax' sh' ax', Done)
                           | (c', cax', false) =>
                               ((if inplace then mkS c' (ctys s1) cax' sh' ax' else s), Rejected ValueErr)
                           end))).
  { intros sh' ax' cpos ax0 Hc. destruct c; cbn [negb].
    - destruct (loop_constructs (insert_entry a cpos ax0 (caxes s1)) done (cons s1) (caxes s1)) as [[c' cax'] b] eqn:El.
      assert (Hl : Inv (mkS c' (ctys s1) cax' sh' ax')).
      { eapply loop_constructs_inv; eauto. apply insert_entry_good; assumption. }
      destruct b; cbn [fst]; [exact Hl|]. destruct inplace; assumption.
    - cbn [fst]. unfold with_field. apply (inv_with_field s1 _ _ I1). exact Hc. }
  destruct (faxes s1) as [ax|] eqn:Eax.
  - destruct (memb a ax); [exact Hback|].
    cbv zeta.
    set (nd := Z.of_nat (length ax)).
    set (pos1 := if (- nd - 1 <=? pos) && (pos <? 0) then pos + nd + 1 else pos).
    pose proof (inv_field s1 I1 ax Eax) as Hf.
    destruct (fshape s1) as [sh|] eqn:Esh.
    + apply check_field_some in Hf.
      assert (Hlen : Z.of_nat (length sh) = nd).
      { unfold nd. rewrite (axes_sizes_length _ _ _ Hf). reflexivity. }
      rewrite Hlen.
      destruct (norm_pos pos1 nd) as [p|] eqn:Enp; [|exact Hback].
      destruct (norm_pos_same pos nd p (Zle_0_nat _) Enp) as [Hp _]. fold pos1 in Hp. subst p.
      assert (Hc : check_field_axes (cons s1) (Some (insert_at pos1 1 sh)) (insert_at pos1 a ax) = true).
      { apply check_field_some. apply axes_sizes_insert; assumption. }
      rewrite Hc. cbn [negb]. apply Hend. intros x Hx. inversion Hx; subst. exact Hc.
    + assert (Hc : check_field_axes (cons s1) None (insert_at pos1 a ax) = true).
      { unfold check_field_axes in *. destruct (axes_sizes (cons s1) ax) as [szs|] eqn:E; [|discriminate].
        rewrite (axes_sizes_insert _ _ _ pos1 a 1 E Ha). reflexivity. }
      rewrite Hc. cbn [negb]. apply Hend. intros x Hx. inversion Hx; subst. exact Hc.
  - destruct (fshape s1) as [sh|] eqn:Esh.
    + destruct (norm_pos pos (Z.of_nat (length sh))); [|exact Hback].
      cbn [negb]. apply Hend. intros; discriminate.
    + cbn [negb]. apply Hend. intros; discriminate.
Qed.

(* ------------------------------------------------------------------ *)
(* subspace                                                            *)
(* ------------------------------------------------------------------ *)
(* what resizing domain axes and slicing constructs do to the collection:
   same types and keys, same coordinate references and cell methods *)
Definition similar (t : ctype) (p p' : payload) : Prop :=
  (kind_ok t p = true -> kind_ok t p' = true) /\
  (kind_ok t p = true -> t = CoordRef \/ t = CellMethod -> p' = p).

Record Rel (c c' : list centry) : Prop := mkRel {
  rel_back : forall t k p', In (t, k, p') c' -> exists p, In (t, k, p) c /\ similar t p p';
  rel_keep : forall t k, cget t k c <> None -> cget t k c' <> None;
  rel_fun : functional c'
}.

Lemma similar_refl t p : similar t p p.
Proof. split; auto. Qed.

Lemma Rel_refl c : functional c -> Rel c c.
Proof. intro F. constructor; auto. intros t k p H. exists p. split; [assumption|apply similar_refl]. Qed.

Lemma Rel_trans c1 c2 c3 : Rel c1 c2 -> Rel c2 c3 -> Rel c1 c3.
Proof.
  intros [B1 K1 F1] [B2 K2 F2]. constructor; auto.
  intros t k p3 H. destruct (B2 _ _ _ H) as [p2 [H2 [S2 S2']]]. destruct (B1 _ _ _ H2) as [p1 [H1 [S1 S1']]].
  exists p1. split; [assumption|]. split; [auto|]. intros Hk Ht.
  rewrite (S2' (S1 Hk) Ht). auto.
Qed.

Lemma functional_cset t k p c : functional c -> functional (cset t k p c).
Proof.
  intros F t0 k0 p0 H. apply In_cset in H as [Heq|[Hin Hne]].
  - inversion Heq; subst. rewrite cget_cset, ctype_eqb_refl, String.eqb_refl. reflexivity.
  - rewrite cget_cset. destruct (ctype_eqb t0 t && String.eqb k0 k) eqn:E; [|auto].
    apply andb_true_iff in E as [E1 E2]. apply ctype_eqb_eq in E1. apply String.eqb_eq in E2. subst.
    rewrite same_entry_refl in Hne. discriminate.
Qed.

Lemma Rel_cset_axis c k n old :
  functional c -> cget DomainAxis k c = Some old -> Rel c (cset DomainAxis k (PAxis n) c).
Proof.
  intros F Ho. constructor.
  - intros t k0 p' H. apply In_cset in H as [Heq|[Hin _]].
    + inversion Heq; subst. exists old. split; [apply cget_In; assumption|].
      split; [reflexivity|]. intros _ [H|H]; discriminate.
    + exists p'. split; [assumption|apply similar_refl].
  - intros t k0 H. rewrite cget_cset. destruct (ctype_eqb t DomainAxis && String.eqb k0 k); [discriminate|assumption].
  - apply functional_cset; assumption.
Qed.

Lemma Rel_resize ups : forall c, functional c -> Rel c (resize_axes c ups).
Proof.
  induction ups as [|[a n] r IH]; intros c F; [apply Rel_refl; assumption|].
  unfold resize_axes in *. cbn [fold_left fst snd].
  destruct (cget DomainAxis a c) as [old|] eqn:E.
  - pose proof (Rel_cset_axis c a n old F E) as R1.
    eapply Rel_trans; [exact R1|]. apply IH. apply (rel_fun _ _ R1).
  - apply IH; assumption.
Qed.

Lemma mapM_In {A B} (f : A -> option B) l l' y :
  mapM f l = Some l' -> In y l' -> exists x, In x l /\ f x = Some y.
Proof.
  revert l'; induction l as [|x r IH]; intros l' H Hin; simpl in H.
  - inversion H; subst. contradiction.
  - destruct (f x) eqn:E; [|discriminate]. destruct (mapM f r) eqn:E2; [|discriminate].
    inversion H; subst. destruct Hin as [->|Hin]; [exists x; split; [left; reflexivity|assumption]|].
    destruct (IH _ eq_refl Hin) as [x0 [A1 A2]]. exists x0. split; [right; assumption|assumption].
Qed.

Lemma mapM_all {A B} (f : A -> option B) l l' x :
  mapM f l = Some l' -> In x l -> exists y, f x = Some y /\ In y l'.
Proof.
  revert l'; induction l as [|a r IH]; intros l' H Hin; [contradiction|]. simpl in H.
  destruct (f a) eqn:E; [|discriminate]. destruct (mapM f r) eqn:E2; [|discriminate].
  inversion H; subst. destruct Hin as [->|Hin]; [exists b; split; [assumption|left; reflexivity]|].
  destruct (IH _ eq_refl Hin) as [y [A1 A2]]. exists y. split; [assumption|right; assumption].
Qed.

Lemma cget_mapM (f : centry -> option centry) t k : forall c c',
  mapM f c = Some c' ->
  (forall e e', f e = Some e' -> ctyp e' = ctyp e /\ ckey e' = ckey e) ->
  cget t k c' = match cget t k c with
                | Some p => match f (t, k, p) with Some e' => Some (snd e') | None => None end
                | None => None end.
Proof.
  induction c as [|e r IH]; intros c' H Hk; simpl in H.
  - inversion H; reflexivity.
  - destruct (f e) as [e'|] eqn:E; [|discriminate]. destruct (mapM f r) as [r'|] eqn:E2; [|discriminate].
    inversion H; subst. cbn [cget].
    assert (Hs : same_entry t k e' = same_entry t k e).
    { destruct (Hk _ _ E) as [A B]. unfold same_entry, ctyp, ckey in *. rewrite A, B. reflexivity. }
    rewrite Hs. destruct (same_entry t k e) eqn:Es.
    + apply same_entry_true in Es as [E1 E2']. destruct e as [[a b] q]; simpl in *; subst. rewrite E. reflexivity.
    + apply IH; auto.
Qed.

Lemma Rel_mapM (f : centry -> option centry) c c' :
  functional c -> mapM f c = Some c' ->
  (forall t k p e', f (t, k, p) = Some e' -> exists p', e' = (t, k, p') /\ similar t p p') ->
  Rel c c'.
Proof.
  intros F H Hf.
  assert (Hk : forall e e', f e = Some e' -> ctyp e' = ctyp e /\ ckey e' = ckey e).
  { intros [[t k] p] e' E. destruct (Hf _ _ _ _ E) as [p' [-> _]]. auto. }
  constructor.
  - intros t k p' Hin. destruct (mapM_In f c c' _ H Hin) as [[[t0 k0] p] [A B]].
    destruct (Hf _ _ _ _ B) as [q [Heq S]]. inversion Heq; subst. eauto.
  - intros t k Hn. rewrite (cget_mapM f t k c c' H Hk).
    destruct (cget t k c) as [p|] eqn:E; [|congruence].
    destruct (mapM_all f c c' _ H (cget_In _ _ _ _ E)) as [y [A _]]. rewrite A. discriminate.
  - intros t k p' Hin. destruct (mapM_In f c c' _ H Hin) as [[[t0 k0] p] [A B]].
    destruct (Hf _ _ _ _ B) as [q [Heq S]]. inversion Heq; subst.
    rewrite (cget_mapM f _ _ c c' H Hk), (F _ _ _ A), B. reflexivity.
Qed.

Lemma sub_entry_similar fax newsz cax t k p e' :
  sub_entry fax newsz cax (t, k, p) = Some e' -> exists p', e' = (t, k, p') /\ similar t p p'.
Proof.
  unfold sub_entry. destruct p as [n|sh hd bnd|cs ancs|axs];
    try (intro H; inversion H; subst; eexists; split; [reflexivity|apply similar_refl]).
  destruct (assoc k cax) as [ca|]; [|intro H; inversion H; subst; eexists; split; [reflexivity|apply similar_refl]].
  destruct (negb (existsb (fun a => memb a fax) ca));
    [intro H; inversion H; subst; eexists; split; [reflexivity|apply similar_refl]|].
  destruct sh as [shp|]; [|discriminate].
  destruct (negb (Nat.eqb (length shp) (length ca))); [discriminate|].
  intro H; inversion H; subst. eexists; split; [reflexivity|]. split; [auto|].
  intros Hk [->| ->]; discriminate.
Qed.

Lemma assoc_map_first (l : list centry) k :
  match assoc k (map (fun e => (snd (fst e), snd e)) l) with
  | Some p => exists t, In (t, k, p) l
  | None => forall t p, ~ In (t, k, p) l
  end.
Proof.
  induction l as [|[[t0 k0] p0] r IH]; simpl; [intros t p []|].
  destruct (String.eqb k k0) eqn:E.
  - apply String.eqb_eq in E. subst. eauto.
  - destruct (assoc k (map (fun e => (snd (fst e), snd e)) r)) as [p|].
    + destruct IH as [t Ht]. eauto.
    + intros t p [Heq|Hin]; [inversion Heq; subst; rewrite String.eqb_refl in E; discriminate|].
      eapply IH; eauto.
Qed.

Lemma inv_rel s c2 fs fa :
  Inv s -> Rel (cons s) c2 -> all_fit c2 (caxes s) = true ->
  (forall ax, fa = Some ax -> check_field_axes c2 fs ax = true) ->
  Inv (mkS c2 (ctys s) (caxes s) fs fa).
Proof.
  intros I [B K F] Hfit Hf. constructor; cbn [cons ctys caxes fshape faxes].
  - intros t k p' Hin. destruct (B _ _ _ Hin) as [p [Hp [S _]]].
    destruct (inv_held s I t k p Hp) as [A [Hk _]]. splits; auto.
  - intros k t H. destruct (inv_typed s I k t H) as [p Hp].
    destruct (cget t k c2) eqn:E; [eauto|]. exfalso. apply (K t k); congruence.
  - intros k axs H. destruct (inv_axes s I k axs H) as [t [p [A [Harr [C D]]]]].
    destruct (cget t k c2) as [p'|] eqn:E; [|exfalso; apply (K t k); congruence].
    exists t, p'. splits; auto.
    unfold all_fit in Hfit. rewrite forallb_forall in Hfit. specialize (Hfit (k, axs) (assoc_In _ _ _ H)).
    cbn [fst snd] in Hfit. pose proof (assoc_map_first c2 k) as Hm.
    destruct (assoc k (map (fun e => (snd (fst e), snd e)) c2)) as [p''|].
    + destruct Hm as [t'' Hin]. destruct (B _ _ _ Hin) as [q [Hq _]].
      destruct (inv_held s I t'' k q Hq) as [A' _]. assert (t'' = t) by congruence. subst.
      rewrite (F _ _ _ Hin) in E. inversion E; subst. exact Hfit.
    + exfalso. apply (Hm t p'). apply cget_In; assumption.
  - exact Hf.
  - intros rk cs ancs Hin. destruct (B _ _ _ Hin) as [p [Hp [S1 S2]]].
    destruct (inv_held s I _ _ _ Hp) as [_ [Hk _]]. rewrite (S2 Hk (or_introl eq_refl)) in Hin.
    assert (p = PRef cs ancs) by (symmetry; apply (S2 Hk); auto). subst.
    apply (inv_refs s I rk cs ancs Hp).
  - intros ck axs Hin a Ha. destruct (B _ _ _ Hin) as [p [Hp [S1 S2]]].
    destruct (inv_held s I _ _ _ Hp) as [_ [Hk _]].
    assert (p = PCm axs) by (symmetry; apply (S2 Hk); auto). subst.
    pose proof (inv_cms s I ck axs Hp a Ha) as Hs. unfold axis_size in *.
    destruct (cget DomainAxis a (cons s)) as [q|] eqn:E; [|congruence].
    destruct (cget DomainAxis a c2) as [q'|] eqn:E'; [|exfalso; apply (K DomainAxis a); congruence].
    apply cget_In in E'. destruct (B _ _ _ E') as [q0 [Hq0 [S _]]].
    destruct (inv_held s I _ _ _ Hq0) as [_ [Hk0 _]]. destruct (kind_ok_axis q' (S Hk0)) as [n ->]. discriminate.
Qed.

Lemma subspace_inv sel s : Inv s -> Inv (fst (subspace sel s)).
Proof.
  intros I. unfold subspace.
  destruct (negb (copyable s)); [exact I|].
  destruct (fshape s) as [sh|]; [|exact I].
  destruct (negb (Nat.eqb (length sel) (length sh))); [exact I|].
  destruct (faxes s) as [fax|]; [|exact I].
  destruct (mapM (fun x => x) sel) as [newsz|]; [|exact I].
  destruct (existsb (Z.eqb 0) newsz); [exact I|].
  destruct (negb (Nat.eqb (length fax) (length sh))); [exact I|].
  destruct (axes_sizes (cons s) fax); [|exact I].
  cbv zeta.
  destruct (negb (check_field_axes (resize_axes (cons s) (zip fax newsz)) (Some newsz) fax)); [exact I|].
  destruct (mapM (sub_entry fax newsz (caxes s)) (resize_axes (cons s) (zip fax newsz))) as [c2|] eqn:Em; [|exact I].
  destruct (all_fit c2 (caxes s) && check_field_axes c2 (Some newsz) fax) eqn:Ec; [|exact I].
  apply andb_true_iff in Ec as [Ec1 Ec2]. cbn [fst].
  apply inv_rel; auto.
  - pose proof (Rel_resize (zip fax newsz) (cons s) (inv_functional s I)) as R1.
    eapply Rel_trans; [exact R1|].
    eapply Rel_mapM; [apply (rel_fun _ _ R1)|exact Em|].
    intros; eapply sub_entry_similar; eauto.
  - intros ax Hax. inversion Hax; subst. exact Ec2.
Qed.

(* ------------------------------------------------------------------ *)
(* convert                                                             *)
(* ------------------------------------------------------------------ *)
Definition kt_of (l : list centry) : list (key * ctype) := map (fun e => (snd (fst e), fst (fst e))) l.

Lemma assoc_kt_backed tys l t k p :
  (forall t0 k0 p0, In (t0, k0, p0) l -> assoc k0 tys = Some t0) ->
  In (t, k, p) l -> assoc k (kt_of l) = Some t.
Proof.
  intros Hb Hin. induction l as [|[[t0 k0] p0] r IH]; [contradiction|].
  cbn [kt_of map assoc fst snd]. destruct (String.eqb k k0) eqn:E.
  - apply String.eqb_eq in E. subst k0.
    pose proof (Hb t0 k p0 (or_introl eq_refl)) as H1. pose proof (Hb t k p Hin) as H2. congruence.
  - destruct Hin as [Heq|Hin]; [inversion Heq; subst; rewrite String.eqb_refl in E; discriminate|].
    apply IH; [|assumption]. intros t1 k1 p1 H1; apply (Hb t1 k1 p1); right; assumption.
Qed.

Lemma assoc_kt_In l k t : assoc k (kt_of l) = Some t -> exists p, In (t, k, p) l.
Proof.
  intro H. apply assoc_In in H. apply in_map_iff in H as [[[t0 k0] p0] [Heq Hin]].
  inversion Heq; subst. eauto.
Qed.

Lemma assoc_filter_key {A} (P : key -> bool) (l : list (key * A)) k :
  assoc k (filter (fun ka => P (fst ka)) l) = if P k then assoc k l else None.
Proof.
  induction l as [|[a v] r IH]; simpl; [destruct (P k); reflexivity|].
  destruct (P a) eqn:Ea; simpl.
  - destruct (String.eqb k a) eqn:E; [apply String.eqb_eq in E; subst; rewrite Ea; reflexivity|exact IH].
  - destruct (String.eqb k a) eqn:E; [|exact IH].
    apply String.eqb_eq in E. subst. rewrite IH, Ea. reflexivity.
Qed.

Lemma subset_In l1 l2 a : subset l1 l2 = true -> In a l1 -> In a l2.
Proof.
  unfold subset. rewrite forallb_forall. intros H Hin. apply memb_true. apply H; assumption.
Qed.

Lemma dedup_In e l : In e (dedup_entries l) -> In e l.
Proof.
  induction l as [|x r IH]; simpl; [auto|].
  destruct (existsb (same_entry (fst (fst x)) (snd (fst x))) r); [auto|].
  intros [->|H]; auto.
Qed.

Lemma dedup_keeps l : forall e, In e l ->
  exists e', In e' (dedup_entries l) /\ ctyp e' = ctyp e /\ ckey e' = ckey e.
Proof.
  induction l as [|x r IH]; intros e Hin; [contradiction|]. destruct Hin as [->|Hin]; simpl.
  - destruct (existsb (same_entry (fst (fst e)) (snd (fst e))) r) eqn:E.
    + apply existsb_exists in E as [y [Hy Hs]]. apply same_entry_true in Hs as [A B].
      destruct (IH y Hy) as [e' [H1 [H2 H3]]]. exists e'. unfold ctyp, ckey in *. splits; auto; congruence.
    + exists e. splits; auto. left; reflexivity.
  - destruct (IH e Hin) as [e' [H1 H23]].
    destruct (existsb (same_entry (fst (fst x)) (snd (fst x))) r); exists e'; split; auto. right; assumption.
Qed.

Lemma anc_scan_true cax dax ancs : anc_scan cax dax ancs = Some true ->
  forall ta, In ta ancs -> exists a aax, snd ta = Some a /\ assoc a cax = Some aax /\ subset aax dax = true.
Proof.
  unfold anc_scan.
  assert (G : forall st, fold_left (fun (st : option bool) ta =>
               match st with
               | Some true =>
                   match snd ta with
                   | Some a => match assoc a cax with
                               | Some aax => Some (subset aax dax)
                               | None => None end
                   | None => None end
               | other => other end) ancs st = Some true ->
             st = Some true /\
             forall ta, In ta ancs -> exists a aax, snd ta = Some a /\ assoc a cax = Some aax /\ subset aax dax = true).
  { induction ancs as [|x r IH]; intros st H; simpl in H; [split; [assumption|intros ta []]|].
    destruct (IH _ H) as [Hst Hall].
    destruct st as [[|]|]; try discriminate. split; [reflexivity|]. cbv beta iota in Hst.
    match type of Hst with match ?y with _ => _ end = _ => destruct y as [a|] eqn:Ex end; [|discriminate].
    match type of Hst with match ?y with _ => _ end = _ => destruct y as [aax|] eqn:Ea end; [|discriminate].
    injection Hst as Hs.
    intros ta [<-|Hin]; [exists a, aax; splits; auto|apply Hall; assumption]. }
  intro H. apply (G _ H).
Qed.

Lemma zip_mapM {A B} (g : A -> option B) cs : forall ys c y,
  mapM g cs = Some ys -> In (c, y) (zip cs ys) -> In c cs /\ g c = Some y.
Proof.
  induction cs as [|x r IH]; intros ys c y H Hin; simpl in H.
  - inversion H; subst. contradiction.
  - destruct (g x) eqn:E; [|discriminate]. destruct (mapM g r) eqn:E2; [|discriminate].
    inversion H; subst. simpl in Hin. destruct Hin as [Heq|Hin].
    + inversion Heq; subst. split; [left; reflexivity|assumption].
    + destruct (IH _ _ _ eq_refl Hin). split; [right; assumption|assumption].
Qed.

(* where a construct of the converted field comes from *)
Definition conv_member (s : cstate) (dax : list key) (e : centry) : Prop :=
  (exists a n, e = (DomainAxis, a, PAxis n) /\ In a dax /\ axis_size (cons s) a = Some n) \/
  (In e (cons s) /\ conv_keep s dax e = true) \/
  (exists rk cs ancs caxs,
     In (CoordRef, rk, PRef cs ancs) (cons s) /\
     mapM (fun c => assoc c (caxes s)) cs = Some caxs /\
     anc_scan (caxes s) dax ancs = Some true /\
     (e = (CoordRef, rk, PRef (map fst (filter (fun ca => subset (snd ca) dax) (zip cs caxs))) ancs) \/
      exists term a pa, In (term, Some a) ancs /\ cget DomainAnc a (cons s) = Some pa /\ e = (DomainAnc, a, pa))).

Lemma conv_ref_member s dax e0 l e :
  In e0 (cons s) -> conv_ref s dax e0 = Some l -> In e l -> conv_member s dax e.
Proof.
  intros Hin0 H Hin. unfold conv_ref in H.
  destruct e0 as [[[] rk] p]; try (inversion H; subst; contradiction).
  destruct p as [|?|cs ancs|]; try (inversion H; subst; contradiction).
  destruct (mapM (fun c => assoc c (caxes s)) cs) as [caxs|] eqn:Em; [|discriminate].
  destruct (map fst (filter (fun ca => subset (snd ca) dax) (zip cs caxs))) as [|c0 cr] eqn:En;
    [inversion H; subst; contradiction|].
  destruct (anc_scan (caxes s) dax ancs) as [[|]|] eqn:Es; try discriminate;
    [|inversion H; subst; contradiction].
  inversion H; subst. right; right. exists rk, cs, ancs, caxs. splits; auto.
  destruct Hin as [<-|Hin]; [left; rewrite En; reflexivity|right].
  apply in_flat_map in Hin as [[term oa] [Hta Hin]]. cbn [snd] in Hin.
  destruct oa as [a|]; [|contradiction].
  destruct (cget DomainAnc a (cons s)) as [pa|] eqn:Ec; [|contradiction].
  destruct Hin as [<-|[]]. exists term, a, pa. auto.
Qed.

(* the payload of a member is determined by its type and key *)
Definition conv_F (s : cstate) (dax : list key) (t : ctype) (p0 : payload) : payload :=
  match t, p0 with
  | CoordRef, PRef cs ancs =>
      match mapM (fun c => assoc c (caxes s)) cs with
      | Some caxs => PRef (map fst (filter (fun ca => subset (snd ca) dax) (zip cs caxs))) ancs
      | None => p0 end
  | _, _ => p0
  end.

Lemma conv_member_origin s dax t k p :
  Inv s -> conv_member s dax (t, k, p) ->
  exists p0, cget t k (cons s) = Some p0 /\ p = conv_F s dax t p0.
Proof.
  intros I [[a [n [Heq [Ha Hs]]]]|[[Hin Hk]|[rk [cs [ancs [caxs [Hin [Hm [Hs [Heq|[term [a [pa [Ha [Hc Heq]]]]]]]]]]]]]]].
  - inversion Heq; subst. unfold axis_size in Hs.
    destruct (cget DomainAxis a (cons s)) as [[m| | |]|] eqn:E; try discriminate.
    inversion Hs; subst. exists (PAxis n). auto.
  - exists p. split; [apply (inv_functional s I); assumption|].
    unfold conv_keep in Hk. cbn [fst snd] in Hk. destruct t; try discriminate; reflexivity.
  - inversion Heq; subst. exists (PRef cs ancs). split; [apply (inv_functional s I); assumption|].
    cbn [conv_F]. rewrite Hm. reflexivity.
  - inversion Heq; subst. exists pa. auto.
Qed.

Lemma conv_member_axes s dax t k p axs :
  Inv s -> conv_member s dax (t, k, p) -> t <> CoordRef -> t <> DomainAxis ->
  assoc k (caxes s) = Some axs -> subset axs dax = true.
Proof.
  intros I [[a [n [Heq _]]]|[[Hin Hk]|[rk [cs [ancs [caxs [Hin [Hm [Hs [Heq|[term [a [pa [Ha [Hc Heq]]]]]]]]]]]]]]] H1 H2 Hx.
  - inversion Heq; subst. contradiction.
  - unfold conv_keep in Hk. cbn [fst snd] in Hk. rewrite Hx in Hk. apply andb_true_iff in Hk as [_ Hk]. exact Hk.
  - inversion Heq; subst. contradiction.
  - inversion Heq; subst. destruct (anc_scan_true _ _ _ Hs _ Ha) as [a' [aax [E1 [E2 E3]]]].
    cbn [snd] in E1. inversion E1; subst. congruence.
Qed.

Lemma convert_inv k full s : Inv s -> Inv (fst (convert k full s)).
Proof.
  intros I. unfold convert, convert_with.
  destruct (assoc k (ctys s)) as [t|]; [|exact I].
  destruct (negb (is_array t)); [exact I|].
  destruct (cget t k (cons s)) as [p|]; [|exact I].
  destruct (negb (copyable_entry (t, k, p))); [exact I|].
  destruct (phasdata p); [|exact I].
  destruct (pshape p) as [sh|]; [|exact I].
  destruct (assoc k (caxes s)) as [dax|].
  2:{ destruct (negb full); [exact inv_init|]. cbv zeta.
      repeat match goal with |- context [if ?c then _ else _] => destruct c end;
        first [exact I|exact inv_init]. }
  destruct (axes_sizes (cons s) dax) as [szs|] eqn:Esz; [|exact I].
  destruct (negb (zlist_eqb sh szs)) eqn:Esh; [exact I|].
  apply negb_false_iff, zlist_eqb_eq in Esh. subst szs.
  cbv zeta.
  set (axes_c := map (fun a => (DomainAxis, a, PAxis (match axis_size (cons s) a with
                                                     | Some n => n | None => 0 end)))
                     (nodup string_dec dax)).
  assert (Hax : forall e, In e axes_c -> conv_member s dax e).
  { intros e He. unfold axes_c in He. apply in_map_iff in He as [a [<- Ha]]. apply nodup_In in Ha.
    destruct (axes_sizes_some_in _ _ _ _ Esz Ha) as [n Hn]. left. exists a, n. rewrite Hn. auto. }
  assert (Haxin : forall a, In a dax -> exists n, axis_size (cons s) a = Some n /\ In (DomainAxis, a, PAxis n) axes_c).
  { intros a Ha. destruct (axes_sizes_some_in _ _ _ _ Esz Ha) as [n Hn]. exists n. split; [assumption|].
    unfold axes_c. apply in_map_iff. exists a. rewrite Hn. split; [reflexivity|apply nodup_In; assumption]. }
  (* everything follows from: the constructs of the new field are members,
     and the members that must be there are there *)
  assert (Hmain : forall allc cax',
            (forall e, In e allc -> conv_member s dax e) ->
            (forall e, In e axes_c -> In e allc) ->
            (forall k0 axs, assoc k0 cax' = Some axs ->
               assoc k0 (caxes s) = Some axs /\
               exists t0 p0, In (t0, k0, p0) allc /\ t0 <> CoordRef /\ t0 <> DomainAxis) ->
            (forall rk cs ancs caxs, In (CoordRef, rk, PRef cs ancs) (cons s) ->
               In (CoordRef, rk, PRef (map fst (filter (fun ca => subset (snd ca) dax) (zip cs caxs))) ancs) allc ->
               mapM (fun c => assoc c (caxes s)) cs = Some caxs ->
               (forall e, In e (cons s) -> conv_keep s dax e = true -> In e allc) /\
               (forall term a pa, In (term, Some a) ancs -> cget DomainAnc a (cons s) = Some pa ->
                                  exists pa', In (DomainAnc, a, pa') allc)) ->
            Inv (mkS allc (kt_of allc) cax' (Some sh) (Some dax))).
  { intros allc cax' Hmem Hhasax Hcax Hrefs.
    assert (Horig : forall t0 k0 p0, In (t0, k0, p0) allc ->
              exists q, cget t0 k0 (cons s) = Some q /\ p0 = conv_F s dax t0 q).
    { intros. apply conv_member_origin; auto. }
    assert (Hback : forall t0 k0 p0, In (t0, k0, p0) allc -> assoc k0 (ctys s) = Some t0).
    { intros t0 k0 p0 H. destruct (Horig _ _ _ H) as [q [Hq _]]. apply cget_In in Hq.
      apply (inv_held s I _ _ _ Hq). }
    assert (Hfun : functional allc).
    { intros t0 k0 p0 H. destruct (cget t0 k0 allc) as [p1|] eqn:E; [|exfalso; eapply In_cget_some; eauto].
      pose proof (cget_In _ _ _ _ E) as H1.
      destruct (Horig _ _ _ H) as [q [Hq ->]]. destruct (Horig _ _ _ H1) as [q1 [Hq1 ->]]. congruence. }
    assert (Hsz : forall a, In a dax -> axis_size allc a = axis_size (cons s) a).
    { intros a Ha. destruct (Haxin a Ha) as [n [Hn Hin]]. unfold axis_size at 1.
      rewrite (Hfun _ _ _ (Hhasax _ Hin)). congruence. }
    constructor; cbn [cons ctys caxes fshape faxes].
    - intros t0 k0 p0 H. splits; [eapply assoc_kt_backed; eauto|
                                  |apply Hfun; assumption].
      destruct (Horig _ _ _ H) as [q [Hq ->]]. apply cget_In in Hq.
      destruct (inv_held s I _ _ _ Hq) as [_ [Hk _]].
      unfold conv_F. destruct t0; try exact Hk. destruct q; try exact Hk.
      destruct (mapM (fun c => assoc c (caxes s)) coords); exact Hk.
    - intros k0 t0 H. destruct (assoc_kt_In _ _ _ H) as [p0 Hin]. rewrite (Hfun _ _ _ Hin). eauto.
    - intros k0 axs H. destruct (Hcax _ _ H) as [Hold [t0 [p0 [Hin [Hn1 Hn2]]]]].
      destruct (inv_axes s I k0 axs Hold) as [t1 [p1 [A [B [C D]]]]].
      assert (t0 = t1) by (pose proof (Hback _ _ _ Hin); congruence). subst t1.
      destruct (Horig _ _ _ Hin) as [q [Hq Hp0]]. assert (q = p1) by congruence. subst q.
      assert (Hpp : conv_F s dax t0 p1 = p1) by (unfold conv_F; destruct t0; try reflexivity; contradiction).
      rewrite Hpp in Hp0. subst p0. exists t0, p1.
      splits; [eapply assoc_kt_backed; eauto | exact B | apply Hfun; exact Hin | ].
      rewrite <- D. apply check_axes_ext. intros a Ha. apply Hsz.
      eapply subset_In; [|exact Ha]. eapply conv_member_axes; eauto.
    - intros ax Hx. inversion Hx; subst. apply check_field_some.
      rewrite <- Esz. apply axes_sizes_ext. exact Hsz.
    - intros rk cs' ancs' Hin.
      destruct (Hmem _ Hin) as [Hm1|[Hm2|Hm3]];
        [destruct Hm1 as [a [n [Heq _]]]; discriminate|destruct Hm2 as [_ Hk]; cbn in Hk; discriminate|].
      destruct Hm3 as [rk0 [cs [ancs [caxs [Hin0 [Hm [Hs Hor]]]]]]].
      destruct Hor as [Heq|[term [a [pa [_ [_ Heq]]]]]]; [|discriminate].
      injection Heq as <- -> ->.
      destruct (Hrefs _ _ _ _ Hin0 Hin Hm) as [Hkept Hdas].
      destruct (inv_refs s I rk cs ancs Hin0) as [R1 R2]. split.
      + intros c Hc. apply in_map_iff in Hc as [[c' cax_c] [Heq Hc]]. cbn in Heq. subst c'.
        apply filter_In in Hc as [Hz Hsub]. cbn [snd] in Hsub.
        destruct (zip_mapM _ _ _ _ _ Hm Hz) as [Hcin Hca].
        destruct (R1 c Hcin) as [tc [Htc Hok]].
        destruct (inv_typed s I c tc Htc) as [pc Hpc]. apply cget_In in Hpc.
        exists tc. split; [|assumption]. eapply assoc_kt_backed; [exact Hback|].
        apply Hkept; [exact Hpc|]. unfold conv_keep. cbn [fst snd]. rewrite Hca, Hsub.
        destruct tc; try discriminate; reflexivity.
      + intros term a Ha. destruct (R2 term a Ha) as [ta [Hta Hok]].
        assert (ta = DomainAnc) by (destruct ta; try discriminate; reflexivity). subst ta.
        destruct (inv_typed s I a DomainAnc Hta) as [pa Hpa].
        destruct (Hdas term a pa Ha Hpa) as [pa' Hin']. exists DomainAnc. split; [|reflexivity].
        eapply assoc_kt_backed; eauto.
    - intros ck axs Hin.
      destruct (Hmem _ Hin) as [Hm1|[Hm2|Hm3]];
        [destruct Hm1 as [a [n [Heq _]]]; discriminate|destruct Hm2 as [_ Hk]; cbn in Hk; discriminate|].
      destruct Hm3 as [rk0 [cs [ancs [caxs [_ [_ [_ Hor]]]]]]].
      destruct Hor as [Heq|[term [a [pa [_ [_ Heq]]]]]]; discriminate. }
  destruct (negb full).
  - (* only the domain axes *)
    cbn [fst]. apply Hmain; auto.
    + intros k0 axs H; discriminate.
    + intros rk cs ancs caxs _ Hin.
      exfalso. unfold axes_c in Hin. apply in_map_iff in Hin as [a [Heq _]]. discriminate.
  - set (kept := filter (conv_keep s dax) (cons s)).
    destruct (negb (forallb copyable_entry kept)); [exact I|].
    destruct (mapM (conv_ref s dax) (cons s)) as [contrib|] eqn:Em; [|exact I].
    cbn [fst]. apply Hmain.
    + intros e He. apply in_app_or in He as [He|He]; [auto|].
      apply in_app_or in He as [He|He].
      * unfold kept in He. apply filter_In in He. right; left. exact He.
      * apply dedup_In in He. apply in_concat in He as [l [Hl He]].
        destruct (mapM_In _ _ _ _ Em Hl) as [e0 [He0 Hc]]. eapply conv_ref_member; eauto.
    + intros e He. apply in_or_app; left; assumption.
    + intros k0 axs H. rewrite (assoc_filter_key (fun x => memb x _)) in H.
      match type of H with (if memb k0 ?ks then _ else _) = _ => destruct (memb k0 ks) eqn:Ek end; [|discriminate].
      split; [assumption|]. apply memb_true in Ek. apply in_map_iff in Ek as [[[t0 k1] p0] [Heq Hin]].
      cbn in Heq. subst k1. apply filter_In in Hin as [Hin Ht]. cbn [fst] in Ht.
      exists t0, p0. split; [assumption|]. split; intro; subst; discriminate.
    + intros rk cs ancs caxs Hin0 Hin Hm. split.
      * intros e He Hk. apply in_or_app; right. apply in_or_app; left. unfold kept. apply filter_In; auto.
      * intros term a pa Ha Hpa.
        (* the reference was kept, so its ancillaries were contributed *)
        apply in_app_or in Hin as [Hin|Hin];
          [exfalso; unfold axes_c in Hin; apply in_map_iff in Hin as [? [Heq _]]; discriminate|].
        apply in_app_or in Hin as [Hin|Hin];
          [exfalso; unfold kept in Hin; apply filter_In in Hin as [_ Hk]; discriminate|].
        apply dedup_In in Hin. apply in_concat in Hin as [l [Hl Hin]].
        destruct (mapM_In _ _ _ _ Em Hl) as [e0 [He0 Hc]].
        assert (He0' : e0 = (CoordRef, rk, PRef cs ancs)).
        { (* e0 is the reference held under rk *)
          unfold conv_ref in Hc. destruct e0 as [[[] rk1] p1]; try (inversion Hc; subst; contradiction).
          destruct p1 as [|?|cs1 ancs1|]; try (inversion Hc; subst; contradiction).
          destruct (mapM (fun c => assoc c (caxes s)) cs1) as [caxs1|]; [|discriminate].
          destruct (map fst (filter (fun ca => subset (snd ca) dax) (zip cs1 caxs1))); [inversion Hc; subst; contradiction|].
          destruct (anc_scan (caxes s) dax ancs1) as [[|]|]; try discriminate; [|inversion Hc; subst; contradiction].
          inversion Hc; subst l. destruct Hin as [Heq1|Hin].
          - inversion Heq1; subst.
            pose proof (inv_functional s I _ _ _ He0) as F1. pose proof (inv_functional s I _ _ _ Hin0) as F2.
            congruence.
          - exfalso. apply in_flat_map in Hin as [[tm oa] [_ Hin]]. cbn [snd] in Hin.
            destruct oa as [a0|]; [|contradiction].
            destruct (cget DomainAnc a0 (cons s)); [|contradiction]. destruct Hin as [Heq1|[]]. discriminate. }
        subst e0.
        assert (Hda : In (DomainAnc, a, pa) l).
        { unfold conv_ref in Hc. rewrite Hm in Hc.
          destruct (map fst (filter (fun ca => subset (snd ca) dax) (zip cs caxs))); [inversion Hc; subst; contradiction|].
          destruct (anc_scan (caxes s) dax ancs) as [[|]|]; try discriminate; [|inversion Hc; subst; contradiction].
          inversion Hc; subst l. right. apply in_flat_map. exists (term, Some a). split; [assumption|].
          cbn [snd]. rewrite Hpa. left; reflexivity. }
        assert (Hcc : In (DomainAnc, a, pa) (concat contrib)) by (apply in_concat; eauto).
        destruct (dedup_keeps _ _ Hcc) as [[[t' k'] p'] [Hd [Ht Hk]]]. cbn in Ht, Hk. subst.
        exists p'. apply in_or_app; right. apply in_or_app; right. exact Hd.
Qed.

(* ------------------------------------------------------------------ *)
(* every step, every history                                           *)
(* ------------------------------------------------------------------ *)
(* What is asked of the caller: an inserted coordinate reference names
   coordinate constructs (as coordinates) and domain ancillary constructs (as
   terms) that exist at the time of the call, an inserted cell method names
   existing domain axes (payload_ok): the container does not validate caller
   data.  Nothing else: every operation, with every argument choice. *)
Definition op_ok (s : cstate) (o : op) : Prop :=
  match o with
  | SetConstruct _ _ p _ _ => payload_ok s p
  | _ => True
  end.

Lemma step_inv s o : Inv s -> op_ok s o -> Inv (fst (step s o)).
Proof.
  intros I Hok. destruct o; cbn [step op_ok] in *.
  - apply set_construct_inv; assumption.
  - apply del_construct_inv; assumption.
  - apply set_data_inv; assumption.
  - apply del_data_inv; assumption.
  - apply set_data_axes_inv; assumption.
  - apply del_data_axes_inv; assumption.
  - destruct (copyable s); exact I.
  - apply subspace_inv; assumption.
  - apply squeeze_inv; assumption.
  - apply transpose_inv_full; assumption.
  - apply insert_dimension_inv_full; assumption.
  - apply convert_inv; assumption.
Qed.

Fixpoint ops_ok (s : cstate) (ops : list op) : Prop :=
  match ops with
  | [] => True
  | o :: r => op_ok s o /\ ops_ok (fst (step s o)) r
  end.

Lemma run_inv_from ops : forall s, Inv s -> ops_ok s ops ->
  Inv (fold_left (fun s o => fst (step s o)) ops s).
Proof.
  induction ops as [|o r IH]; intros s I H; simpl in *; [exact I|].
  destruct H as [H1 H2]. apply IH; [apply step_inv; assumption|assumption].
Qed.

Lemma run_inv ops : ops_ok init ops -> Inv (run ops).
Proof. intro H. apply run_inv_from; [apply inv_init|assumption]. Qed.

(* every state along the way as well *)
Lemma run_inv_prefix ops n : ops_ok init ops -> Inv (run (firstn n ops)).
Proof.
  intro H. apply run_inv.
  revert n H. generalize init. induction ops as [|o r IH]; intros s n H; destruct n; simpl in *; auto.
  destruct H; split; auto.
Qed.

(* clause (i): a key belongs to one construct of one type *)
Lemma key_unique s t t' k p p' :
  Inv s -> In (t, k, p) (cons s) -> In (t', k, p') (cons s) -> t = t' /\ p = p'.
Proof.
  intros I H1 H2. destruct (inv_held s I _ _ _ H1) as [A [_ B]].
  destruct (inv_held s I _ _ _ H2) as [A' [_ B']].
  assert (t = t') by congruence. subst. split; [reflexivity|congruence].
Qed.

(* clause (ii) spelled out *)
Lemma shapes_match s k axs :
  Inv s -> assoc k (caxes s) = Some axs ->
  exists t p, In (t, k, p) (cons s) /\ is_array t = true /\
    (exists szs, axes_sizes (cons s) axs = Some szs /\
                 forall sh, pshape p = Some sh -> sh = szs).
Proof.
  intros I H. destruct (inv_axes s I k axs H) as [t [p [H1 [H2 [H3 H4]]]]].
  exists t, p. splits; auto. { apply cget_In; assumption. }
  unfold check_axes in H4. destruct (axes_sizes (cons s) axs) as [szs|]; [|discriminate].
  exists szs. split; [reflexivity|]. intros sh Hs. rewrite Hs in H4. apply zlist_eqb_eq; assumption.
Qed.

(* clause (iii) spelled out *)
Lemma field_matches s ax sh :
  Inv s -> faxes s = Some ax -> fshape s = Some sh -> axes_sizes (cons s) ax = Some sh.
Proof.
  intros I H1 H2. pose proof (inv_field s I ax H1) as H. rewrite H2 in H.
  apply check_field_some; assumption.
Qed.

(* clause (v): the domain view shows exactly the constructs of the types it
   does not ignore, and they are the field's own *)
Lemma domain_view_spec s e :
  In e (domain_view s) <-> In e (cons s) /\ ignored (fst (fst e)) = false.
Proof. unfold domain_view. rewrite filter_In, negb_true_iff. tauto. Qed.

(* a rejected insertion, data or data-axes call changes nothing *)
Lemma rejected_unchanged s o e :
  match o with
  | SetConstruct _ _ _ _ _ | SetData _ _ | DelData | SetDataAxes _ _ _ | DelDataAxes _ _ | Copy => True
  | _ => False
  end ->
  snd (step s o) = Rejected e -> fst (step s o) = s.
Proof.
  destruct o; intro H; try contradiction; cbn [step].
  - unfold set_construct, set_construct_g.
    repeat match goal with
           | |- context [if ?c then _ else _] => destruct c
           | |- context [match ?x with Some _ => _ | None => _ end] => destruct x
           end; simpl; intro; try reflexivity; discriminate.
  - unfold set_data, set_field_axes.
    repeat match goal with
           | |- context [if ?c then _ else _] => destruct c
           | |- context [match ?x with Some _ => _ | None => _ end] => destruct x
           end; simpl; intro; try reflexivity; discriminate.
  - unfold del_data. destruct (fshape s); simpl; intro; try reflexivity; discriminate.
  - unfold set_data_axes, set_field_axes.
    repeat match goal with
           | |- context [if ?c then _ else _] => destruct c
           | |- context [match ?x with Some _ => _ | None => _ end] => destruct x
           end; simpl; intro; try reflexivity; discriminate.
  - unfold del_data_axes.
    repeat match goal with
           | |- context [if ?c then _ else _] => destruct c
           | |- context [match ?x with Some _ => _ | None => _ end] => destruct x
           end; simpl; intro; try reflexivity; discriminate.
  - destruct (copyable s); simpl; intro; reflexivity.
Qed.

(* the guard on inserted references is exact: without it the invariant can be
   broken by a call that completes (the container does not validate the
   contents of a coordinate reference - by design) *)
Lemma unguarded_refuted :
  exists s o, Inv s /\ snd (step s o) = Done /\ ~ Inv (fst (step s o)).
Proof.
  exists init, (SetConstruct VField CoordRef (PRef ["nope0"] []) None None).
  split; [apply inv_init|]. split; [reflexivity|].
  intro I. destruct (inv_refs _ I "coordinatereference0" ["nope0"] []) as [H _].
  { vm_compute. left; reflexivity. }
  destruct (H "nope0" (or_introl eq_refl)) as [t [Ht _]]. vm_compute in Ht. discriminate.
Qed.

(* non-vacuity: a history that exercises guards, the view and a rejected call,
   whose every operation meets op_ok *)
Definition example_history : list op :=
  [ SetConstruct VField DomainAxis (PAxis 5) None None;
    SetConstruct VField DomainAxis (PAxis 1) None None;
    SetData [5] (Some ["domainaxis0"]);
    SetConstruct VField DimCoord (PArr (Some [5]) true (Some 2)) None (Some ["domainaxis0"]);
    SetConstruct VDomain DomainAnc (PArr (Some [5]) true None) None (Some ["domainaxis0"]);
    SetConstruct VField CoordRef (PRef ["dimensioncoordinate0"] [("a", Some "domainancillary0")]) None None;
    SetConstruct VField CellMethod (PCm ["domainaxis0"]) None None;
    DelConstruct VField "dimensioncoordinate0";
    DelConstruct VDomain "domainaxis0";
    InsertDimension (Some "domainaxis1") (-1) false true [];
    Squeeze None false;
    DelConstruct VField "domainancillary0";
    SetConstruct VField AuxCoord (PArr (Some [5; 1]) true None) None (Some ["domainaxis0"; "domainaxis1"]);
    InsertDimension (Some "domainaxis1") 0 false true [];
    Transpose None true true [];
    Subspace [Some 2; Some 1];
    Convert "auxiliarycoordinate0" true ].

(* a decidable form of the guards, for the example and for the harness *)
Definition namesb (ok : ctype -> bool) (tys : list (key * ctype)) (c : key) : bool :=
  match assoc c tys with Some t => ok t | None => false end.

Definition payload_okb (s : cstate) (p : payload) : bool :=
  match p with
  | PRef cs ancs => forallb (namesb is_coord (ctys s)) cs &&
                    forallb (fun ta => match snd ta with Some a => namesb is_danc (ctys s) a | None => true end) ancs
  | PCm axs => forallb (fun a => match axis_size (cons s) a with Some _ => true | None => false end) axs
  | _ => true
  end.

Definition op_okb (s : cstate) (o : op) : bool :=
  match o with
  | SetConstruct _ _ p _ _ => payload_okb s p
  | _ => true
  end.

Fixpoint ops_okb (s : cstate) (ops : list op) : bool :=
  match ops with
  | [] => true
  | o :: r => op_okb s o && ops_okb (fst (step s o)) r
  end.

Lemma namesb_ok ok tys c : namesb ok tys c = true -> names_construct ok tys c.
Proof.
  unfold namesb, names_construct. destruct (assoc c tys) as [t|]; [|discriminate].
  intro H. exists t. split; [reflexivity|assumption].
Qed.

Lemma payload_okb_ok s p : payload_okb s p = true -> payload_ok s p.
Proof.
  destruct p; simpl; auto.
  - intro H. apply andb_true_iff in H as [H1 H2]. split.
    + intros c Hc. apply namesb_ok. eapply forallb_forall in H1; eauto.
    + intros term a Ha. eapply forallb_forall in H2; eauto. simpl in H2. apply namesb_ok; assumption.
  - intros H a Ha. eapply forallb_forall in H; eauto. simpl in H.
    destruct (axis_size (cons s) a); [discriminate|discriminate].
Qed.

Lemma op_okb_ok s o : op_okb s o = true -> op_ok s o.
Proof.
  destruct o; simpl; auto. apply payload_okb_ok.
Qed.

Lemma ops_okb_ok ops : forall s, ops_okb s ops = true -> ops_ok s ops.
Proof.
  induction ops as [|o r IH]; intros s H; simpl in *; [exact Coq.Init.Logic.I|].
  apply andb_true_iff in H as [H1 H2]. split; [apply op_okb_ok; assumption|apply IH; assumption].
Qed.

Lemma example_ok : ops_ok init example_history /\
  snd (step (run (firstn 8 example_history)) (DelConstruct VDomain "domainaxis0")) = Rejected ValueErr /\
  cget CoordRef "coordinatereference0" (cons (run (firstn 12 example_history))) = Some (PRef [] [("a", None)]) /\
  axis_size (cons (run (firstn 12 example_history))) "domainaxis0" = Some 5 /\
  map (fun n => snd (step (run (firstn n example_history)) (nth n example_history Copy))) [12; 13; 14; 15; 16]%nat
    = [Done; Done; Done; Done; Done] /\
  fshape (run example_history) = Some [2; 1] /\
  cget AuxCoord "auxiliarycoordinate0" (cons (run example_history)) = Some (PArr (Some [2; 1]) true None).
Proof.
  split; [apply ops_okb_ok; vm_compute; reflexivity|].
  repeat split; vm_compute; reflexivity.
Qed.

(* The typing of the names held by a coordinate reference is needed: a
   reference whose coordinates() names an existing construct that is not a
   coordinate (here a field ancillary) is carried by convert() into a field
   that does not hold that construct.  Every call below completes. *)
Definition untyped_history : list op :=
  [ SetConstruct VField DomainAxis (PAxis 3) None None;
    SetConstruct VField FieldAnc (PArr (Some [3]) true None) None (Some ["domainaxis0"]);
    SetConstruct VField CoordRef (PRef ["fieldancillary0"] []) None None;
    Convert "fieldancillary0" true ].

Lemma untyped_reference_refuted :
  map (fun n => snd (step (run (firstn n untyped_history)) (nth n untyped_history Copy))) [0; 1; 2; 3]%nat
    = [Done; Done; Done; Done] /\
  assoc "fieldancillary0" (ctys (run (firstn 3 untyped_history))) = Some FieldAnc /\
  cget CoordRef "coordinatereference0" (cons (run untyped_history)) = Some (PRef ["fieldancillary0"] []) /\
  assoc "fieldancillary0" (ctys (run untyped_history)) = None.
Proof. repeat split; vm_compute; reflexivity. Qed.

(* clause (v): the domain view and the field see the same constructs - the
   view is the field's collection minus the two ignored types, and everything
   it shows is held and registered in the field *)
Lemma domain_view_same s :
  Inv s ->
  (forall t k p, In (t, k, p) (domain_view s) <-> In (t, k, p) (cons s) /\ ignored t = false) /\
  (forall t k p, In (t, k, p) (domain_view s) ->
     assoc k (ctys s) = Some t /\ cget t k (cons s) = Some p /\
     (forall axs, assoc k (caxes s) = Some axs -> exists szs, axes_sizes (cons s) axs = Some szs)).
Proof.
  intro I. split.
  - intros t k p. apply (domain_view_spec s (t, k, p)).
  - intros t k p H. apply (domain_view_spec s (t, k, p)) in H as [H _].
    destruct (inv_held s I t k p H) as [A [_ C]]. splits; auto.
    intros axs Ha. destruct (inv_axes s I k axs Ha) as [t0 [p0 [_ [_ [_ D]]]]].
    unfold check_axes in D. destruct (axes_sizes (cons s) axs) as [szs|]; [eauto|discriminate].
Qed.

(* clauses (v) and (vi) in every reachable state *)
Lemma reachable_view_describe ops :
  ops_ok init ops ->
  describe_ok (run ops) = true /\
  (forall t k p, In (t, k, p) (domain_view (run ops)) <-> In (t, k, p) (cons (run ops)) /\ ignored t = false) /\
  (forall t k p, In (t, k, p) (domain_view (run ops)) ->
     assoc k (ctys (run ops)) = Some t /\ cget t k (cons (run ops)) = Some p).
Proof.
  intro H. pose proof (run_inv ops H) as I. split; [apply inv_describe; assumption|].
  destruct (domain_view_same (run ops) I) as [A B]. split; [exact A|].
  intros t k p Hin. destruct (B t k p Hin) as [X [Y _]]. auto.
Qed.

(* ------------------------------------------------------------------ *)
(* views of views: every register acts on, and is checked against, the root *)
(* ------------------------------------------------------------------ *)
(* every view's _view_source is the field's own container *)
Definition wf (w : wstate) : Prop := Forall (fun v => vsrc v = O) (views w).

Lemma wf_init : wf winit.
Proof. constructor. Qed.

Lemma wf_reg_src w r : wf w -> reg_src w r = O.
Proof.
  intro H. destruct r as [|i]; [reflexivity|]. simpl.
  destruct (nth_error (views w) i) as [v|] eqn:E; [|reflexivity].
  unfold wf in H. rewrite Forall_forall in H. apply H. eapply nth_error_In; eauto.
Qed.

Lemma step_g_root s o : step_g (faxes s) s o = step s o.
Proof. destruct o; reflexivity. Qed.

Lemma wstep_wf w wo : wf w -> wf (fst (wstep w wo)).
Proof.
  intro H. destruct wo as [o|r route|r o|n]; unfold wstep, wstep_with; [| | |exact H].
  - destruct (step (root w) o) as [s' out]. cbn [fst views].
    destruct out; try exact H. destruct (rebinds o); [constructor|exact H].
  - destruct (reg_valid w r); [|exact H]. cbn [fst]. unfold take_view, wf. cbn [views].
    apply Forall_app. split; [exact H|]. constructor; [|constructor]. cbn [vsrc].
    unfold rule_head. apply wf_reg_src; assumption.
  - destruct r as [|i]; [exact H|]. destruct (nth_error (views w) i) as [v|]; [|exact H].
    destruct (viewable o); [|exact H].
    destruct (step_g (reg_fda w (vsrc v)) (root w) o) as [s' out]. exact H.
Qed.

Lemma wrun_wf_from ops : forall w, wf w -> wf (fold_left (fun w o => fst (wstep w o)) ops w).
Proof. induction ops as [|o r IH]; intros w H; simpl; [exact H|]. apply IH. apply wstep_wf; assumption. Qed.

Lemma wrun_wf ops : wf (wrun ops).
Proof. apply wrun_wf_from. apply wf_init. Qed.

(* a call through a view register, whatever the nesting of the view, is the
   call on the root: it mutates the root's collection and every guard is
   evaluated against the root (in particular against the field's data axes) *)
Lemma through_root w i v o :
  wf w -> nth_error (views w) i = Some v -> viewable o = true ->
  wstep w (Through (S i) o) = (mkW (fst (step (root w) o)) (views w), snd (step (root w) o)).
Proof.
  intros H Hn Hv. unfold wstep, wstep_with. rewrite Hn, Hv.
  assert (Hs : vsrc v = O).
  { unfold wf in H. rewrite Forall_forall in H. apply H. eapply nth_error_In; eauto. }
  rewrite Hs. cbn [reg_fda]. rewrite step_g_root. destruct (step (root w) o); reflexivity.
Qed.

Lemma through_any_depth ops i j vi vj o :
  nth_error (views (wrun ops)) i = Some vi -> nth_error (views (wrun ops)) j = Some vj ->
  viewable o = true ->
  wstep (wrun ops) (Through (S i) o) = wstep (wrun ops) (Through (S j) o) /\
  root (fst (wstep (wrun ops) (Through (S i) o))) = fst (step (root (wrun ops)) o) /\
  snd (wstep (wrun ops) (Through (S i) o)) = snd (step (root (wrun ops)) o).
Proof.
  intros Hi Hj Hv. pose proof (wrun_wf ops) as H.
  rewrite (through_root _ _ _ _ H Hi Hv), (through_root _ _ _ _ H Hj Hv). auto.
Qed.

(* the caller-data guard, for the register language *)
Definition wop_ok (w : wstate) (wo : wop) : Prop :=
  match wo with
  | Plain o | Through _ o => op_ok (root w) o
  | TakeView _ _ | OnSibling _ => True
  end.

Lemma clean_in_shape rk k t k' p :
  exists p', clean_in rk k (t, k', p) = (t, k', p') /\ (p' = p \/ p' = clean_payload k t p).
Proof.
  unfold clean_in. cbn [fst snd]. destruct (String.eqb rk k').
  - rewrite clean_ref_shape. eauto.
  - eauto.
Qed.

(* removing a name from one coordinate reference: harmless *)
Lemma inv_clean_in s rk k :
  Inv s -> Inv (mkS (map (clean_in rk k) (cons s)) (ctys s) (caxes s) (fshape s) (faxes s)).
Proof.
  intros I. set (g := clean_in rk k).
  assert (Hkey : forall e, In e (cons s) -> ctyp (g e) = ctyp e /\ ckey (g e) = ckey e).
  { intros [[t k'] p] _. destruct (clean_in_shape rk k t k' p) as [p' [H _]]. unfold g. rewrite H. auto. }
  assert (Hcget : forall t k', cget t k' (map g (cons s)) =
            match cget t k' (cons s) with Some p => Some (snd (g (t, k', p))) | None => None end).
  { intros. apply cget_map_keyed. exact Hkey. }
  assert (Hid : forall t k' p, t <> CoordRef -> g (t, k', p) = (t, k', p)).
  { intros t k' p Ht. destruct (clean_in_shape rk k t k' p) as [p' [H [->| ->]]]; unfold g; rewrite H;
      [reflexivity|rewrite clean_payload_id by assumption; reflexivity]. }
  assert (Hsz : forall a, axis_size (map g (cons s)) a = axis_size (cons s) a).
  { intro a. unfold axis_size. rewrite Hcget. destruct (cget DomainAxis a (cons s)); [|reflexivity].
    rewrite Hid by discriminate. reflexivity. }
  constructor; cbn [cons ctys caxes fshape faxes].
  - intros t k' p' Hin. apply in_map_iff in Hin as [[[t0 k0] p] [Heq Hin]].
    destruct (clean_in_shape rk k t0 k0 p) as [q [H Hq]]. fold g in H. rewrite H in Heq. inversion Heq; subst.
    destruct (inv_held s I t k' p Hin) as [A [B C]]. splits; auto.
    + destruct Hq as [->| ->]; [assumption|rewrite kind_ok_clean; assumption].
    + rewrite Hcget, C, H. reflexivity.
  - intros k' t H. destruct (inv_typed s I k' t H) as [p Hp]. rewrite Hcget, Hp. eauto.
  - intros k' axs H. destruct (inv_axes s I k' axs H) as [t [p [A [B [C D]]]]].
    exists t, p. splits; auto.
    + rewrite Hcget, C, Hid by (intro; subst; discriminate). reflexivity.
    + rewrite <- D. apply check_axes_ext. intros; apply Hsz.
  - intros ax Hax. rewrite <- (inv_field s I ax Hax). apply check_field_axes_ext. intros; apply Hsz.
  - intros rk' cs ancs Hin. apply in_map_iff in Hin as [[[t0 k0] p] [Heq Hin]].
    destruct (clean_in_shape rk k t0 k0 p) as [q [H Hq]]. fold g in H. rewrite H in Heq. inversion Heq; subst.
    destruct (inv_held s I _ _ _ Hin) as [_ [Hko _]].
    destruct p; simpl in Hko; try discriminate.
    destruct (inv_refs s I rk' coords ancs0 Hin) as [R1 R2].
    destruct Hq as [Hq|Hq]; [inversion Hq; subst; auto|].
    unfold clean_payload in Hq. simpl in Hq. inversion Hq; subst. split.
    + intros c Hc. apply filter_In in Hc as [Hc _]. auto.
    + intros term a Ha. apply in_map_iff in Ha as [[tm oa] [Heq' Ha0]]. simpl in Heq'.
      destruct oa as [a'|]; [|inversion Heq'].
      destruct (String.eqb k a') eqn:Eka; [inversion Heq'|].
      inversion Heq'; subst. eapply R2; eauto.
  - intros ck axs Hin a Ha. apply in_map_iff in Hin as [[[t0 k0] p] [Heq Hin]].
    destruct (Hkey _ Hin) as [Ht _]. rewrite Heq in Ht. cbn in Ht. subst t0.
    rewrite Hid in Heq by discriminate. inversion Heq; subst.
    rewrite Hsz. eapply (inv_cms s I); eauto.
Qed.

Lemma clean_names_inv ks : forall s, Inv s -> Inv (clean_names ks s).
Proof.
  unfold clean_names. induction ks as [|[rk k] r IH]; intros s I; simpl; [exact I|].
  apply IH. apply inv_clean_in. exact I.
Qed.

Lemma cget_map_clean_in rk k t k' l :
  t <> CoordRef -> cget t k' (map (clean_in rk k) l) = cget t k' l.
Proof.
  intro Ht. induction l as [|[[a b] c] r IH]; simpl; [reflexivity|].
  destruct (clean_in_shape rk k a b c) as [p' [H Hp]]. rewrite H.
  assert (Hs : same_entry t k' (a, b, p') = same_entry t k' (a, b, c)) by reflexivity.
  rewrite Hs. destruct (same_entry t k' (a, b, c)) eqn:E; [|exact IH].
  apply same_entry_true in E as [E1 E2]; simpl in *; subst a.
  destruct Hp as [->| ->]; [reflexivity|rewrite clean_payload_id by assumption; reflexivity].
Qed.

Lemma clean_names_frame ks : forall s,
  ctys (clean_names ks s) = ctys s /\ caxes (clean_names ks s) = caxes s /\
  fshape (clean_names ks s) = fshape s /\ faxes (clean_names ks s) = faxes s /\
  (forall t k, t <> CoordRef -> cget t k (cons (clean_names ks s)) = cget t k (cons s)).
Proof.
  unfold clean_names. induction ks as [|[rk k] r IH]; intros s; simpl; [auto|].
  destruct (IH (mkS (map (clean_in rk k) (cons s)) (ctys s) (caxes s) (fshape s) (faxes s))) as [A [B [C [D E]]]].
  cbn [ctys caxes fshape faxes cons] in *. splits; auto.
  intros t k0 Ht. rewrite (E t k0 Ht). apply cget_map_clean_in; assumption.
Qed.

Lemma wstep_inv w wo : wf w -> Inv (root w) -> wop_ok w wo -> Inv (root (fst (wstep w wo))).
Proof.
  intros H I Hok. destruct wo as [o|r route|r o|n]; [| | |apply clean_names_inv; exact I].
  - unfold wstep, wstep_with. pose proof (step_inv (root w) o I Hok) as H1.
    destruct (step (root w) o) as [s' out]. exact H1.
  - unfold wstep, wstep_with. destruct (reg_valid w r); exact I.
  - destruct r as [|i]; [exact I|].
    destruct (nth_error (views w) i) as [v|] eqn:Hn; [|unfold wstep, wstep_with; rewrite Hn; exact I].
    destruct (viewable o) eqn:Hv; [|unfold wstep, wstep_with; rewrite Hn, Hv; exact I].
    rewrite (through_root w i v o H Hn Hv). cbn [fst root]. apply step_inv; assumption.
Qed.

Fixpoint wops_ok (w : wstate) (ops : list wop) : Prop :=
  match ops with
  | [] => True
  | o :: r => wop_ok w o /\ wops_ok (fst (wstep w o)) r
  end.

Lemma wrun_inv_from ops : forall w, wf w -> Inv (root w) -> wops_ok w ops ->
  Inv (root (fold_left (fun w o => fst (wstep w o)) ops w)).
Proof.
  induction ops as [|o r IH]; intros w H I Hok; simpl in *; [exact I|].
  destruct Hok as [H1 H2]. apply IH; [apply wstep_wf; assumption|apply wstep_inv; assumption|assumption].
Qed.

Lemma wrun_inv ops : wops_ok winit ops -> Inv (root (wrun ops)).
Proof. intro H. apply wrun_inv_from; [apply wf_init|apply inv_init|assumption]. Qed.

(* non-vacuity and the guard at depth 3: the field's data span an axis that
   no construct spans; views of views of views refuse to delete or resize it *)
Definition nested_history : list wop :=
  [ Plain (SetConstruct VField DomainAxis (PAxis 4) None None);
    Plain (SetData [4] (Some ["domainaxis0"]));
    TakeView 0 RSource;
    Plain (InsertDimension None 0 false true []);
    TakeView 1 RFromConstructs;
    TakeView 2 RSource;
    Through 3 (DelConstruct VDomain "domainaxis1");
    Through 2 (SetConstruct VDomain DomainAxis (PAxis 2) (Some "domainaxis1") None);
    Through 3 (SetConstruct VDomain AuxCoord (PArr (Some [1; 4]) true None) None
                 (Some ["domainaxis1"; "domainaxis0"])) ].

Lemma nested_example :
  map (fun n => snd (wstep (wrun (firstn n nested_history)) (nth n nested_history (TakeView 0 RSource))))
      [6; 7; 8]%nat = [Rejected ValueErr; Rejected ValueErr; Done] /\
  map vsrc (views (wrun nested_history)) = [O; O; O] /\
  map vparent (views (wrun nested_history)) = [0; 1; 2]%nat /\
  faxes (root (wrun nested_history)) = Some ["domainaxis1"; "domainaxis0"] /\
  cget AuxCoord "auxiliarycoordinate0" (cons (root (wrun nested_history))) = Some (PArr (Some [1; 4]) true None).
Proof. repeat split; vm_compute; reflexivity. Qed.

(* what a coordinate reference of a consistent field names is held by the field *)
Lemma refs_resolve s rk cs ancs :
  Inv s -> In (CoordRef, rk, PRef cs ancs) (cons s) ->
  (forall c, In c cs -> exists t p, In (t, c, p) (cons s) /\ is_coord t = true) /\
  (forall term a, In (term, Some a) ancs -> exists p, In (DomainAnc, a, p) (cons s)).
Proof.
  intros I Hin. destruct (inv_refs s I rk cs ancs Hin) as [R1 R2]. split.
  - intros c Hc. destruct (R1 c Hc) as [t [Ht Hok]]. destruct (inv_typed s I c t Ht) as [p Hp].
    exists t, p. split; [apply cget_In; assumption|assumption].
  - intros term a Ha. destruct (R2 term a Ha) as [t [Ht Hok]].
    assert (t = DomainAnc) by (destruct t; try discriminate; reflexivity). subst.
    destruct (inv_typed s I a DomainAnc Ht) as [p Hp]. exists p. apply cget_In; assumption.
Qed.

Lemma convert_carries_named s k full rk cs ancs :
  Inv s -> In (CoordRef, rk, PRef cs ancs) (cons (fst (convert k full s))) ->
  (forall c, In c cs -> exists t p, In (t, c, p) (cons (fst (convert k full s))) /\ is_coord t = true) /\
  (forall term a, In (term, Some a) ancs -> exists p, In (DomainAnc, a, p) (cons (fst (convert k full s)))).
Proof. intros I. apply refs_resolve. apply convert_inv; assumption. Qed.

(* ------------------------------------------------------------------ *)
(* every dimension coordinate has 1-dimensional data and spans one axis *)
(* ------------------------------------------------------------------ *)
Definition Dim1 (s : cstate) : Prop :=
  forall k sh b, In (DimCoord, k, PArr (Some sh) true b) (cons s) -> length sh = 1%nat.

Lemma dim1_init : Dim1 init.
Proof. intros k sh b []. Qed.

Lemma dim1_copyable s : Dim1 s <-> copyable s = true.
Proof.
  unfold Dim1, copyable. rewrite forallb_forall. split.
  - intros H [[t k] p] Hin. destruct t; try reflexivity. destruct p as [|[sh|] [|] b| |]; try reflexivity.
    simpl. apply Nat.eqb_eq. eapply H; eauto.
  - intros H k sh b Hin. specialize (H _ Hin). simpl in H. apply Nat.eqb_eq; assumption.
Qed.

(* the dimension coordinates of c' are among those of c *)
Definition dim_sub (c c' : list centry) : Prop :=
  forall k p, In (DimCoord, k, p) c' -> In (DimCoord, k, p) c.

Lemma dim1_sub s s' : Dim1 s -> dim_sub (cons s) (cons s') -> Dim1 s'.
Proof. intros H Hs k sh b Hin. eapply H. apply Hs. exact Hin. Qed.

Lemma dim_sub_refl c : dim_sub c c.
Proof. intros k p H; exact H. Qed.

Lemma dim_sub_cdel t k c : dim_sub c (cdel t k c).
Proof. intros k0 p H. apply In_cdel in H as [H _]. exact H. Qed.

Lemma dim_sub_clean k c : dim_sub c (map (clean_ref k) c).
Proof.
  intros k0 p H. apply In_map_clean in H as [p0 [Hin Hp]]. cbn [ctyp ckey fst snd] in *.
  rewrite clean_payload_id in Hp by discriminate. subst. exact Hin.
Qed.

Lemma dim_sub_clean_in rk k c : dim_sub c (map (clean_in rk k) c).
Proof.
  intros k0 p H. apply in_map_iff in H as [[[t0 k1] p0] [Heq Hin]].
  destruct (clean_in_shape rk k t0 k1 p0) as [q [Hs Hq]]. rewrite Hs in Heq. inversion Heq; subst.
  destruct Hq as [->| ->]; [exact Hin|]. rewrite clean_payload_id by discriminate. exact Hin.
Qed.

Lemma dim_sub_trans c1 c2 c3 : dim_sub c1 c2 -> dim_sub c2 c3 -> dim_sub c1 c3.
Proof. intros A B k p H. apply A, B, H. Qed.

Lemma dim1_with s c' cty cax fs fa : Dim1 s -> dim_sub (cons s) c' -> Dim1 (mkS c' cty cax fs fa).
Proof. intros H Hs. apply (dim1_sub s); assumption. Qed.

Lemma dim1_cset s t key p cty cax fs fa :
  Dim1 s -> copyable_entry (t, EmptyString, p) = true -> Dim1 (mkS (cset t key p (cons s)) cty cax fs fa).
Proof.
  intros H Hc k sh b Hin. cbn [cons] in Hin. apply In_cset in Hin as [Heq|[Hin _]].
  - inversion Heq; subst. simpl in Hc. apply Nat.eqb_eq; assumption.
  - eapply H; eauto.
Qed.

Lemma set_construct_g_dim1 fda v t p k axes s : Dim1 s -> Dim1 (fst (set_construct_g fda v t p k axes s)).
Proof.
  intro H. unfold set_construct_g.
  destruct (negb (kind_ok t p)); [exact H|].
  destruct (negb (copyable_entry (t, EmptyString, p))) eqn:Ec; [exact H|]. apply negb_false_iff in Ec.
  repeat match goal with
         | |- Dim1 (fst (if ?c then _ else _)) => destruct c
         | |- Dim1 (fst (match ?x with Some _ => _ | None => _ end)) => destruct x
         | |- Dim1 (fst (_, _)) => cbn [fst]
         end; try exact H; apply dim1_cset; assumption.
Qed.

Lemma del_construct_core_g_dim1 fda v k s : Dim1 s -> Dim1 (fst (del_construct_core_g fda v k s)).
Proof.
  intro H. unfold del_construct_core_g.
  repeat match goal with
         | |- Dim1 (fst (if ?c then _ else _)) => destruct c
         | |- Dim1 (fst (match ?x with Some _ => _ | None => _ end)) => destruct x
         | |- Dim1 (fst (_, _)) => cbn [fst]
         end; try exact H; apply (dim1_with s); auto.
  - apply dim_sub_cdel.
  - eapply dim_sub_trans; [apply dim_sub_clean|apply dim_sub_cdel].
  - apply dim_sub_clean.
Qed.

Lemma del_construct_g_dim1 fda v k s : Dim1 s -> Dim1 (fst (del_construct_g fda v k s)).
Proof.
  intro H. unfold del_construct_g.
  repeat match goal with
         | |- Dim1 (fst (if ?c then _ else _)) => destruct c
         | |- Dim1 (fst (match ?x with _ => _ end)) => destruct x
         end; try exact H; apply del_construct_core_g_dim1; assumption.
Qed.

(* operations that do not touch the constructs *)
Lemma dim1_same_cons s s' : Dim1 s -> cons s' = cons s -> Dim1 s'.
Proof. intros H E k sh b Hin. rewrite E in Hin. eapply H; eauto. Qed.

Ltac same_cons H :=
  repeat match goal with
         | |- context [if ?c then _ else _] => destruct c
         | |- context [match ?x with Some _ => _ | None => _ end] => destruct x
         end;
  cbn [fst]; try exact H; try (apply (dim1_same_cons _ _ H); reflexivity).

Lemma set_data_dim1 sh axes s : Dim1 s -> Dim1 (fst (set_data sh axes s)).
Proof. intro H. unfold set_data, set_field_axes. same_cons H. Qed.

Lemma del_data_dim1 s : Dim1 s -> Dim1 (fst (del_data s)).
Proof. intro H. unfold del_data. same_cons H. Qed.

Lemma set_data_axes_dim1 v axs k s : Dim1 s -> Dim1 (fst (set_data_axes v axs k s)).
Proof. intro H. unfold set_data_axes, set_field_axes. same_cons H. Qed.

Lemma del_data_axes_dim1 v k s : Dim1 s -> Dim1 (fst (del_data_axes v k s)).
Proof. intro H. unfold del_data_axes. same_cons H. Qed.

Lemma squeeze_dim1 a i s : Dim1 s -> Dim1 (fst (squeeze a i s)).
Proof. intro H. unfold squeeze, with_field. same_cons H. Qed.

(* a loop over the constructs whose body keeps dimension coordinates 1-d *)
Definition entry_dim1 (f : entry_fn) : Prop :=
  forall k p e' u, f (DimCoord, k, p) = Some (e', u) -> copyable_entry (DimCoord, k, p) = true ->
    exists p', e' = (DimCoord, k, p') /\ copyable_entry (DimCoord, k, p') = true.

Lemma copyable_entry_dim1 s k p : Dim1 s -> In (DimCoord, k, p) (cons s) -> copyable_entry (DimCoord, k, p) = true.
Proof.
  intros H Hin. destruct p as [|[sh|] [|] b| |]; try reflexivity. simpl. apply Nat.eqb_eq. eapply H; eauto.
Qed.

Lemma loop_constructs_dim1 s f done c' cax' b cty fs fa :
  Inv s -> Dim1 s -> entry_good s f -> entry_dim1 f ->
  loop_constructs f done (cons s) (caxes s) = (c', cax', b) -> Dim1 (mkS c' cty cax' fs fa).
Proof.
  intros I H Hgood Hd Hl.
  destruct (loop_constructs_spec f done (cons s) (caxes s)) as [g [b' [Hg Heq]]].
  rewrite Heq in Hl. inversion Hl; subst. intros k sh bb Hin. cbn [cons] in Hin.
  apply in_map_iff in Hin as [[[t0 k0] p0] [Heq' Hin0]].
  destruct (Hg (t0, k0, p0)) as [E|E].
  - rewrite E in Heq'. cbn in Heq'. inversion Heq'; subst. eapply H; eauto.
  - destruct (g (t0, k0, p0)) as [e' u] eqn:Eg. cbn in Heq'. subst e'.
    destruct (Hgood t0 k0 p0 _ u Hin0 E) as [p' [Hp' _]]. inversion Hp'; subst.
    destruct (Hd k0 p0 _ u E (copyable_entry_dim1 s k0 p0 H Hin0)) as [q [Hq Hc]]. inversion Hq; subst.
    simpl in Hc. apply Nat.eqb_eq; assumption.
Qed.

Lemma transpose_entry_dim1 nda cax : entry_dim1 (transpose_entry nda cax).
Proof.
  intros k p e' u H Hc. unfold transpose_entry in H.
  destruct p as [n|sh hd bnd|cs ancs|axs]; try (inversion H; subst; eauto; fail).
  destruct sh as [sh|]; [|inversion H; subst; eauto].
  destruct hd; [|inversion H; subst; eauto].
  simpl in Hc. apply Nat.eqb_eq in Hc.
  replace (2 <=? length sh)%nat with false in H by (rewrite Hc; reflexivity).
  rewrite andb_false_r in H. inversion H; subst. exists (PArr (Some sh) true bnd). split; [reflexivity|].
  simpl. rewrite Hc. reflexivity.
Qed.

Lemma insert_entry_dim1 a cpos ax0 cax : entry_dim1 (insert_entry a cpos ax0 cax).
Proof.
  intros k p e' u H Hc. unfold insert_entry in H.
  destruct p as [n|sh hd bnd|cs ancs|axs]; try (inversion H; subst; eauto; fail).
  destruct sh as [sh|]; [|inversion H; subst; eauto].
  destruct hd; [|inversion H; subst; eauto].
  cbn [is_array ctype_eqb negb andb] in H. inversion H; subst. eauto.
Qed.

Lemma transpose_dim1 axes c inplace done s : Inv s -> Dim1 s -> Dim1 (fst (transpose axes c inplace done s)).
Proof.
  intros I H. unfold transpose, with_field.
  repeat match goal with
         | |- Dim1 (fst (if ?c then _ else _)) => destruct c
         | |- Dim1 (fst (match loop_constructs ?f ?d ?c0 ?x with _ => _ end)) =>
             let El := fresh "El" in destruct (loop_constructs f d c0 x) as [[c' cax'] b] eqn:El;
             assert (Dim1 (mkS c' (ctys s) cax' (fshape s) (faxes s)))
               by (eapply loop_constructs_dim1; eauto;
                   [apply transpose_entry_good; assumption|apply transpose_entry_dim1]);
             destruct b
         | |- Dim1 (fst (match ?x with _ => _ end)) => destruct x
         | |- Dim1 (fst (_, _)) => cbn [fst]
         | |- Dim1 (if ?c then _ else _) => destruct c
         end; try exact H; try (apply (dim1_same_cons _ _ H); reflexivity);
    match goal with Hl : Dim1 (mkS ?c' _ _ _ _) |- _ => apply (dim1_same_cons _ _ Hl); reflexivity end.
Qed.

Lemma insert_dimension_dim1 axis pos c inplace done s :
  Inv s -> Dim1 s -> Dim1 (fst (insert_dimension axis pos c inplace done s)).
Proof.
  intros I H. unfold insert_dimension.
  destruct (negb inplace && negb (copyable s)); [exact H|].
  assert (Hr : forall r, r = (match axis with
           | None => match set_construct VField DomainAxis (PAxis 1) None None s, new_identifier s DomainAxis with
                     | (s1, Done), Some a => inl (s1, a)
                     | (_, Done), None => inr OutOfModel
                     | (_, o), _ => inr o end
           | Some a => match axis_size (cons s) a with
                       | Some 1 => inl (s, a)
                       | _ => inr (Rejected ValueErr) end
           end) ->
           match r with
           | inr _ => True
           | inl (s1, a) => Inv s1 /\ Dim1 s1 /\ axis_size (cons s1) a = Some 1
           end).
  { intros r ->. destruct axis as [a|].
    - destruct (axis_size (cons s) a) as [[|[| |]|]|] eqn:E; auto.
    - destruct (new_identifier s DomainAxis) as [a|] eqn:En.
      + rewrite (set_new_axis s a I En). splits.
        * pose proof (set_construct_inv VField DomainAxis (PAxis 1) None None s I Coq.Init.Logic.I) as H1.
          rewrite (set_new_axis s a I En) in H1. exact H1.
        * apply dim1_cset; [exact H|reflexivity].
        * cbn [cons]. rewrite axis_size_cset_axis, String.eqb_refl. reflexivity.
      + destruct (set_construct VField DomainAxis (PAxis 1) None None s) as [s1 [| |]]; exact Coq.Init.Logic.I. }
  match goal with |- context [match ?x with inl _ => _ | inr _ => _ end] =>
    specialize (Hr x eq_refl); destruct x as [[s1 a]|o] end; [|exact H].
  destruct Hr as [I1 [H1 Ha]].
  assert (Hback : Dim1 (if inplace then s1 else s)) by (destruct inplace; assumption).
  cbv zeta.
  repeat match goal with
         | |- Dim1 (fst (match loop_constructs ?f ?d ?c0 ?x with _ => _ end)) =>
             let El := fresh "El" in destruct (loop_constructs f d c0 x) as [[c' cax'] b] eqn:El;
             assert (Dim1 (mkS c' (ctys s1) cax' (fshape s1) (faxes s1)))
               by (eapply loop_constructs_dim1; eauto;
                   [apply insert_entry_good; assumption|apply insert_entry_dim1]);
             destruct b
         | |- Dim1 (fst (if ?c then _ else _)) => destruct c
         | |- Dim1 (fst (match ?x with _ => _ end)) => destruct x
         | |- Dim1 (fst (_, _)) => cbn [fst]
         | |- Dim1 (if ?c then _ else _) => destruct c
         end; unfold with_field;
    try exact H; try exact H1; try exact Hback;
    try (apply (dim1_same_cons _ _ H1); reflexivity);
    match goal with Hl : Dim1 (mkS ?c' _ _ _ _) |- _ => apply (dim1_same_cons _ _ Hl); reflexivity end.
Qed.

(* subspace keeps the rank of every construct *)
Lemma zip_length {A B} (l1 : list A) (l2 : list B) : length l1 = length l2 -> length (zip l1 l2) = length l2.
Proof.
  revert l2; induction l1 as [|x r IH]; intros [|y r2] H; simpl in *; try discriminate; auto.
Qed.

Lemma resize_axes_dim_sub ups : forall c, dim_sub c (resize_axes c ups).
Proof.
  induction ups as [|[a n] r IH]; intros c; [apply dim_sub_refl|].
  unfold resize_axes in *. cbn [fold_left fst snd].
  destruct (cget DomainAxis a c); [|apply IH].
  eapply dim_sub_trans; [|apply IH]. intros k0 p0 Hin. apply In_cset in Hin as [Heq|[Hin _]]; [discriminate|exact Hin].
Qed.

Lemma subspace_dim1 sel s : Dim1 s -> Dim1 (fst (subspace sel s)).
Proof.
  intros H. unfold subspace.
  destruct (negb (copyable s)); [exact H|].
  destruct (fshape s) as [sh|]; [|exact H].
  destruct (negb (Nat.eqb (length sel) (length sh))); [exact H|].
  destruct (faxes s) as [fax|]; [|exact H].
  destruct (mapM (fun x => x) sel) as [newsz|]; [|exact H].
  destruct (existsb (Z.eqb 0) newsz); [exact H|].
  destruct (negb (Nat.eqb (length fax) (length sh))); [exact H|].
  destruct (axes_sizes (cons s) fax); [|exact H].
  cbv zeta.
  destruct (negb (check_field_axes (resize_axes (cons s) (zip fax newsz)) (Some newsz) fax)); [exact H|].
  destruct (mapM (sub_entry fax newsz (caxes s)) (resize_axes (cons s) (zip fax newsz))) as [c2|] eqn:Em; [|exact H].
  destruct (all_fit c2 (caxes s) && check_field_axes c2 (Some newsz) fax); [|exact H].
  cbn [fst]. intros k sh' b Hin. cbn [cons] in Hin.
  destruct (mapM_In _ _ _ _ Em Hin) as [[[t0 k0] p0] [Hin0 Hs]].
  unfold sub_entry in Hs.
  destruct p0 as [n|sh0 hd bnd|cs ancs|axs]; try (inversion Hs; fail).
  assert (Hold : forall sh1, (t0, k0, PArr sh0 hd bnd) = (DimCoord, k, PArr (Some sh1) true b) -> length sh1 = 1%nat).
  { intros sh1 Heq. inversion Heq; subst. eapply H. eapply resize_axes_dim_sub. exact Hin0. }
  destruct (assoc k0 (caxes s)) as [ca|]; [|inversion Hs; subst; apply Hold; reflexivity].
  destruct (negb (existsb (fun a => memb a fax) ca)); [inversion Hs; subst; apply Hold; reflexivity|].
  destruct sh0 as [shp|]; [|discriminate].
  destruct (negb (Nat.eqb (length shp) (length ca))) eqn:El; [discriminate|].
  apply negb_false_iff, Nat.eqb_eq in El.
  inversion Hs; subst. rewrite map_length, zip_length by (symmetry; exact El).
  apply (Hold shp). reflexivity.
Qed.

Lemma convert_dim1 k full s : Dim1 s -> Dim1 (fst (convert k full s)).
Proof.
  intros H. unfold convert, convert_with.
  destruct (assoc k (ctys s)) as [t|]; [|exact H].
  destruct (negb (is_array t)); [exact H|].
  destruct (cget t k (cons s)) as [p|]; [|exact H].
  destruct (negb (copyable_entry (t, k, p))); [exact H|].
  destruct (phasdata p); [|exact H].
  destruct (pshape p) as [sh|]; [|exact H].
  destruct (assoc k (caxes s)) as [dax|].
  2:{ destruct (negb full); [exact dim1_init|]. cbv zeta.
      repeat match goal with |- context [if ?c then _ else _] => destruct c end;
        first [exact H|exact dim1_init]. }
  destruct (axes_sizes (cons s) dax) as [szs|]; [|exact H].
  destruct (negb (zlist_eqb sh szs)); [exact H|].
  cbv zeta.
  assert (Hax : forall a k0 p0, ~ In (DimCoord, k0, p0)
            (map (fun a0 => (DomainAxis, a0, PAxis (match axis_size (cons s) a0 with Some n => n | None => 0 end))) a)).
  { intros a k0 p0 Hin. apply in_map_iff in Hin as [a0 [Heq _]]. discriminate. }
  destruct (negb full).
  - cbn [fst]. apply (dim1_with s); auto. intros k0 p0 Hin. exfalso. eapply Hax; eauto.
  - destruct (negb (forallb copyable_entry (filter (conv_keep s dax) (cons s)))); [exact H|].
    destruct (mapM (conv_ref s dax) (cons s)) as [contrib|] eqn:Em; [|exact H].
    cbn [fst]. apply (dim1_with s); auto. intros k0 p0 Hin.
    apply in_app_or in Hin as [Hin|Hin]; [exfalso; eapply Hax; eauto|].
    apply in_app_or in Hin as [Hin|Hin]; [apply filter_In in Hin as [Hin _]; exact Hin|].
    exfalso. apply dedup_In in Hin. apply in_concat in Hin as [l [Hl Hin]].
    destruct (mapM_In _ _ _ _ Em Hl) as [e0 [He0 Hc]].
    unfold conv_ref in Hc. destruct e0 as [[[] rk] p1]; try (inversion Hc; subst; contradiction).
    destruct p1 as [|?|cs1 ancs1|]; try (inversion Hc; subst; contradiction).
    destruct (mapM (fun c => assoc c (caxes s)) cs1) as [caxs1|]; [|discriminate].
    destruct (map fst (filter (fun ca => subset (snd ca) dax) (zip cs1 caxs1))); [inversion Hc; subst; contradiction|].
    destruct (anc_scan (caxes s) dax ancs1) as [[|]|]; try discriminate; [|inversion Hc; subst; contradiction].
    inversion Hc; subst l. destruct Hin as [Heq|Hin]; [discriminate|].
    apply in_flat_map in Hin as [[tm oa] [_ Hin]]. cbn [snd] in Hin.
    destruct oa as [a0|]; [|contradiction].
    destruct (cget DomainAnc a0 (cons s)); [|contradiction]. destruct Hin as [Heq|[]]. discriminate.
Qed.

Lemma step_g_dim1 fda s o : Inv s -> Dim1 s -> Dim1 (fst (step_g fda s o)).
Proof.
  intros I H. destruct o; cbn [step_g step].
  - apply set_construct_g_dim1; assumption.
  - apply del_construct_g_dim1; assumption.
  - apply set_data_dim1; assumption.
  - apply del_data_dim1; assumption.
  - apply set_data_axes_dim1; assumption.
  - apply del_data_axes_dim1; assumption.
  - destruct (copyable s); exact H.
  - apply subspace_dim1; assumption.
  - apply squeeze_dim1; assumption.
  - apply transpose_dim1; assumption.
  - apply insert_dimension_dim1; assumption.
  - apply convert_dim1; assumption.
Qed.

Lemma step_dim1 s o : Inv s -> Dim1 s -> Dim1 (fst (step s o)).
Proof. intros I H. rewrite <- step_g_root. apply step_g_dim1; assumption. Qed.

Lemma clean_names_dim1 ks : forall s, Dim1 s -> Dim1 (clean_names ks s).
Proof.
  unfold clean_names. induction ks as [|[rk k] r IH]; intros s H; simpl; [exact H|].
  apply IH. apply (dim1_with s); [exact H|apply dim_sub_clean_in].
Qed.

Lemma wstep_dim1 w wo : wf w -> Inv (root w) -> Dim1 (root w) -> Dim1 (root (fst (wstep w wo))).
Proof.
  intros Hw I H. destruct wo as [o|r route|r o|ks].
  - unfold wstep, wstep_with. pose proof (step_dim1 (root w) o I H) as H1.
    destruct (step (root w) o) as [s' out]. exact H1.
  - unfold wstep, wstep_with. destruct (reg_valid w r); exact H.
  - unfold wstep, wstep_with. destruct r as [|i]; [exact H|].
    destruct (nth_error (views w) i) as [v|]; [|exact H]. destruct (viewable o); [|exact H].
    pose proof (step_g_dim1 (reg_fda w (vsrc v)) (root w) o I H) as H1.
    destruct (step_g (reg_fda w (vsrc v)) (root w) o) as [s' out]. exact H1.
  - apply clean_names_dim1. exact H.
Qed.

Lemma wrun_inv_dim1_from ops : forall w, wf w -> Inv (root w) -> Dim1 (root w) -> wops_ok w ops ->
  Inv (root (fold_left (fun w o => fst (wstep w o)) ops w)) /\
  Dim1 (root (fold_left (fun w o => fst (wstep w o)) ops w)).
Proof.
  induction ops as [|o r IH]; intros w Hw I H Hok; simpl in *; [auto|].
  destruct Hok as [H1 H2].
  apply IH; [apply wstep_wf|apply wstep_inv|apply wstep_dim1|]; assumption.
Qed.

(* in a consistent state with 1-d dimension coordinates every dimension
   coordinate that has data and recorded axes spans exactly one axis, and
   the field can be copied *)
Lemma dimcoord_one_axis s k sh b axs :
  Inv s -> Dim1 s -> In (DimCoord, k, PArr (Some sh) true b) (cons s) -> assoc k (caxes s) = Some axs ->
  exists a n, axs = [a] /\ sh = [n] /\ axis_size (cons s) a = Some n.
Proof.
  intros I H Hin Ha. pose proof (H k sh b Hin) as Hl.
  destruct (held_axes_fit s _ _ _ axs I Hin Ha) as [_ Hc]. apply check_axes_some in Hc.
  pose proof (axes_sizes_length _ _ _ Hc) as Hlen.
  destruct sh as [|n [|? ?]]; try discriminate. destruct axs as [|a [|? ?]]; try discriminate.
  exists a, n. splits; auto. simpl in Hc. destruct (axis_size (cons s) a); [|discriminate]. congruence.
Qed.

Lemma reachable_dimcoord ops :
  wops_ok winit ops ->
  let s := root (wrun ops) in
  copyable s = true /\
  forall k sh b axs, In (DimCoord, k, PArr (Some sh) true b) (cons s) -> assoc k (caxes s) = Some axs ->
    exists a n, axs = [a] /\ sh = [n] /\ axis_size (cons s) a = Some n.
Proof.
  intro Hok. destruct (wrun_inv_dim1_from ops winit wf_init inv_init dim1_init Hok) as [I H].
  split; [apply dim1_copyable; exact H|]. intros. eapply dimcoord_one_axis; eauto.
Qed.
