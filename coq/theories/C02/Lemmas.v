(* C02 - proofs: the invariant of the construct container is preserved by
   every operation, completed or rejected. *)
From CfdmV Require Import Common.Base C02.Model.
Open Scope string_scope.
Open Scope Z_scope.

Ltac splits := repeat match goal with |- _ /\ _ => split end.

(* ------------------------------------------------------------------ *)
(* basic facts                                                         *)
(* ------------------------------------------------------------------ *)
Lemma ctype_eqb_eq a b : ctype_eqb a b = true <-> a = b.
Proof. destruct a, b; simpl; split; intro H; try reflexivity; try discriminate. Qed.

Lemma ctype_eqb_refl a : ctype_eqb a a = true.
Proof. apply ctype_eqb_eq; reflexivity. Qed.

Lemma ctype_eqb_neq a b : ctype_eqb a b = false <-> a <> b.
Proof.
  split; intro H.
  - intro E; subst. rewrite ctype_eqb_refl in H; discriminate.
  - destruct (ctype_eqb a b) eqn:E; [apply ctype_eqb_eq in E; contradiction|reflexivity].
Qed.

Lemma same_entry_true t k e : same_entry t k e = true <-> fst (fst e) = t /\ snd (fst e) = k.
Proof.
  unfold same_entry. rewrite andb_true_iff, ctype_eqb_eq, String.eqb_eq. intuition congruence.
Qed.

Lemma same_entry_refl t k p : same_entry t k (t, k, p) = true.
Proof. apply same_entry_true; auto. Qed.

(* assoc / aset / aremove *)
Lemma assoc_aset {A} k (v : A) l k' :
  assoc k' (aset k v l) = if String.eqb k' k then Some v else assoc k' (aremove k l).
Proof. reflexivity. Qed.

Lemma assoc_aremove {A} k (l : list (key * A)) k' :
  assoc k' (aremove k l) = if String.eqb k' k then None else assoc k' l.
Proof.
  induction l as [|[a v] r IH]; simpl.
  - destruct (String.eqb k' k); reflexivity.
  - destruct (String.eqb k a) eqn:E; simpl.
    + apply String.eqb_eq in E; subst a. rewrite IH.
      destruct (String.eqb k' k) eqn:E2; reflexivity.
    + rewrite IH. destruct (String.eqb k' a) eqn:E3.
      * apply String.eqb_eq in E3; subst a.
        rewrite String.eqb_sym in E. rewrite E. reflexivity.
      * reflexivity.
Qed.

Lemma assoc_aset_full {A} k (v : A) l k' :
  assoc k' (aset k v l) = if String.eqb k' k then Some v else assoc k' l.
Proof.
  rewrite assoc_aset, assoc_aremove. destruct (String.eqb k' k); reflexivity.
Qed.

Lemma assoc_In {A} k (v : A) l : assoc k l = Some v -> In (k, v) l.
Proof.
  induction l as [|[a w] r IH]; simpl; [discriminate|].
  destruct (String.eqb k a) eqn:E.
  - intro H; inversion H; subst. apply String.eqb_eq in E; subst. auto.
  - auto.
Qed.

(* cget / cset / cdel *)
Lemma cget_cdel t k l t' k' :
  cget t' k' (cdel t k l) = if ctype_eqb t' t && String.eqb k' k then None else cget t' k' l.
Proof.
  induction l as [|e r IH]; simpl.
  - destruct (ctype_eqb t' t && String.eqb k' k); reflexivity.
  - destruct (same_entry t k e) eqn:E; simpl.
    + rewrite IH. destruct (ctype_eqb t' t && String.eqb k' k) eqn:E2; [reflexivity|].
      destruct (same_entry t' k' e) eqn:E3; [|reflexivity].
      apply same_entry_true in E as [E1 E1']. apply same_entry_true in E3 as [E3 E3']. subst.
      rewrite ctype_eqb_refl, String.eqb_refl in E2. discriminate.
    + destruct (same_entry t' k' e) eqn:E3.
      * destruct (ctype_eqb t' t && String.eqb k' k) eqn:E2; [|reflexivity].
        apply andb_true_iff in E2 as [Ea Eb]. apply ctype_eqb_eq in Ea. apply String.eqb_eq in Eb. subst.
        congruence.
      * exact IH.
Qed.

Lemma cget_cset t k p l t' k' :
  cget t' k' (cset t k p l) = if ctype_eqb t' t && String.eqb k' k then Some p else cget t' k' l.
Proof.
  unfold cset. simpl. unfold same_entry at 1. simpl.
  destruct (ctype_eqb t' t && String.eqb k' k) eqn:E; [reflexivity|].
  rewrite cget_cdel, E. reflexivity.
Qed.

Lemma In_cdel e t k l : In e (cdel t k l) <-> In e l /\ same_entry t k e = false.
Proof. unfold cdel. rewrite filter_In, negb_true_iff. tauto. Qed.

Lemma In_cset e t k p l :
  In e (cset t k p l) <-> e = (t, k, p) \/ (In e l /\ same_entry t k e = false).
Proof. unfold cset. simpl. rewrite In_cdel. intuition. Qed.

Lemma cget_In t k l p : cget t k l = Some p -> In (t, k, p) l.
Proof.
  induction l as [|e r IH]; simpl; [discriminate|].
  destruct (same_entry t k e) eqn:E.
  - intro H; inversion H; subst. apply same_entry_true in E as [E1 E2].
    destruct e as [[a b] c]; simpl in *; subst. auto.
  - auto.
Qed.

Lemma cget_map_clean k t k' l :
  t <> CoordRef -> cget t k' (map (clean_ref k) l) = cget t k' l.
Proof.
  intro Ht. induction l as [|e r IH]; simpl; [reflexivity|].
  destruct e as [[a b] c].
  assert (Hs : same_entry t k' (clean_ref k (a, b, c)) = same_entry t k' (a, b, c)).
  { destruct a; simpl; try reflexivity. destruct c; reflexivity. }
  rewrite Hs. destruct (same_entry t k' (a, b, c)) eqn:E; [|exact IH].
  apply same_entry_true in E as [E1 E2]; simpl in *; subst a.
  destruct t; try reflexivity. contradiction.
Qed.

(* ------------------------------------------------------------------ *)
(* axis sizes are framed by most updates                               *)
(* ------------------------------------------------------------------ *)
Lemma axis_size_cset_other t k p l a :
  t <> DomainAxis -> axis_size (cset t k p l) a = axis_size l a.
Proof.
  intro H. unfold axis_size. rewrite cget_cset.
  destruct t; try contradiction; reflexivity.
Qed.

Lemma axis_size_cset_axis k p l a :
  axis_size (cset DomainAxis k p l) a =
  if String.eqb a k then match p with PAxis n => Some n | _ => None end else axis_size l a.
Proof. unfold axis_size. rewrite cget_cset. simpl. destruct (String.eqb a k); reflexivity. Qed.

Lemma axis_size_cdel_other t k l a :
  t <> DomainAxis -> axis_size (cdel t k l) a = axis_size l a.
Proof.
  intro H. unfold axis_size. rewrite cget_cdel. destruct t; try contradiction; reflexivity.
Qed.

Lemma axis_size_cdel_axis k l a :
  axis_size (cdel DomainAxis k l) a = if String.eqb a k then None else axis_size l a.
Proof. unfold axis_size. rewrite cget_cdel. simpl. destruct (String.eqb a k); reflexivity. Qed.

Lemma axis_size_clean k l a : axis_size (map (clean_ref k) l) a = axis_size l a.
Proof. unfold axis_size. rewrite cget_map_clean; [reflexivity|discriminate]. Qed.

Lemma axes_sizes_ext c c' axs :
  (forall a, In a axs -> axis_size c' a = axis_size c a) -> axes_sizes c' axs = axes_sizes c axs.
Proof.
  induction axs as [|a r IH]; intro H; simpl; [reflexivity|].
  rewrite (H a (or_introl eq_refl)), IH; [reflexivity|]. intros; apply H; right; assumption.
Qed.

Lemma axes_sizes_some_in c axs szs a :
  axes_sizes c axs = Some szs -> In a axs -> exists n, axis_size c a = Some n.
Proof.
  revert szs; induction axs as [|x r IH]; intros szs H Hin; [contradiction|].
  simpl in H. destruct (axis_size c x) eqn:E; [|discriminate].
  destruct (axes_sizes c r) eqn:E2; [|discriminate].
  destruct Hin as [->|Hin]; [eauto|]. eapply IH; eauto.
Qed.

Lemma memb_true k l : memb k l = true <-> In k l.
Proof.
  unfold memb. rewrite existsb_exists. split.
  - intros [x [H1 H2]]. apply String.eqb_eq in H2; subst; assumption.
  - intro H; exists k; split; [assumption|apply String.eqb_refl].
Qed.

Lemma memb_false k l : memb k l = false <-> ~ In k l.
Proof.
  rewrite <- memb_true. destruct (memb k l); split; intro H; try reflexivity; try discriminate.
  exfalso; apply H; reflexivity.
Qed.

Lemma check_axes_ext c c' p axs :
  (forall a, In a axs -> axis_size c' a = axis_size c a) -> check_axes c' p axs = check_axes c p axs.
Proof. intro H. unfold check_axes. rewrite (axes_sizes_ext c c' axs H). reflexivity. Qed.

Lemma check_field_axes_ext c c' sh axs :
  (forall a, In a axs -> axis_size c' a = axis_size c a) ->
  check_field_axes c' sh axs = check_field_axes c sh axs.
Proof. intro H. unfold check_field_axes. rewrite (axes_sizes_ext c c' axs H). reflexivity. Qed.

Lemma check_axes_in c p axs a : check_axes c p axs = true -> In a axs -> exists n, axis_size c a = Some n.
Proof.
  unfold check_axes. destruct (axes_sizes c axs) eqn:E; [|discriminate].
  intros _ Hin. eapply axes_sizes_some_in; eauto.
Qed.

Lemma check_field_axes_in c sh axs a :
  check_field_axes c sh axs = true -> In a axs -> exists n, axis_size c a = Some n.
Proof.
  unfold check_field_axes. destruct (axes_sizes c axs) eqn:E; [|discriminate].
  intros _ Hin. eapply axes_sizes_some_in; eauto.
Qed.

(* ------------------------------------------------------------------ *)
(* the invariant                                                       *)
(* ------------------------------------------------------------------ *)
Definition ckey (e : centry) : key := snd (fst e).
Definition ctyp (e : centry) : ctype := fst (fst e).

(* a name held by a coordinate reference resolves to a construct of the right
   sort: a coordinate for [coordinates()], a domain ancillary for a term of the
   coordinate conversion *)
Definition is_coord (t : ctype) : bool := match t with DimCoord | AuxCoord => true | _ => false end.
Definition is_danc (t : ctype) : bool := match t with DomainAnc => true | _ => false end.

Definition names_construct (ok : ctype -> bool) (tys : list (key * ctype)) (c : key) : Prop :=
  exists t, assoc c tys = Some t /\ ok t = true.

Record Inv (s : cstate) : Prop := mkInv {
  (* (i) every held construct is registered under its own type, has the
     payload kind of that type, and is the only construct under its key *)
  inv_held : forall t k p, In (t, k, p) (cons s) ->
             assoc k (ctys s) = Some t /\ kind_ok t p = true /\ cget t k (cons s) = Some p;
  (* (i) every registered key holds a construct of the registered type *)
  inv_typed : forall k t, assoc k (ctys s) = Some t -> exists p, cget t k (cons s) = Some p;
  (* (ii) recorded data axes belong to an array construct, name existing
     domain axes, and their sizes equal the construct's shape *)
  inv_axes : forall k axs, assoc k (caxes s) = Some axs ->
             exists t p, assoc k (ctys s) = Some t /\ is_array t = true /\
                         cget t k (cons s) = Some p /\ check_axes (cons s) p axs = true;
  (* (iii) the field's data axes exist and match the data shape *)
  inv_field : forall ax, faxes s = Some ax -> check_field_axes (cons s) (fshape s) ax = true;
  (* (iv) coordinate references name existing (non-axis) constructs *)
  inv_refs : forall rk cs ancs, In (CoordRef, rk, PRef cs ancs) (cons s) ->
             (forall c, In c cs -> names_construct is_coord (ctys s) c) /\
             (forall term a, In (term, Some a) ancs -> names_construct is_danc (ctys s) a);
  (* (iv) cell methods name existing domain axes *)
  inv_cms : forall ck axs, In (CellMethod, ck, PCm axs) (cons s) ->
            forall a, In a axs -> axis_size (cons s) a <> None
}.

Lemma inv_init : Inv init.
Proof.
  constructor; simpl; intros; try contradiction; try discriminate.
Qed.

(* what the caller supplies: an inserted coordinate reference or cell method
   names constructs / axes that exist at the time of the call *)
Definition payload_ok (s : cstate) (p : payload) : Prop :=
  match p with
  | PRef cs ancs => (forall c, In c cs -> names_construct is_coord (ctys s) c) /\
                    (forall term a, In (term, Some a) ancs -> names_construct is_danc (ctys s) a)
  | PCm axs => forall a, In a axs -> axis_size (cons s) a <> None
  | _ => True
  end.

(* the invariant implies that everything repr/str/dump look up exists (vi) *)
Lemma inv_describe s : Inv s -> describe_ok s = true.
Proof.
  intros I. unfold describe_ok. apply andb_true_iff; split.
  - destruct (faxes s) eqn:E; [|reflexivity].
    pose proof (inv_field s I l E) as H. unfold check_field_axes in H.
    destruct (axes_sizes (cons s) l); [reflexivity|discriminate].
  - apply forallb_forall. intros [k axs0] _. simpl.
    destruct (assoc k (caxes s)) as [axs|] eqn:E; [|reflexivity].
    destruct (inv_axes s I k axs E) as [t [p [_ [_ [_ Hc]]]]].
    unfold check_axes in Hc. destruct (axes_sizes (cons s) axs); [reflexivity|discriminate].
Qed.

(* ------------------------------------------------------------------ *)
(* frame lemmas for the invariant                                      *)
(* ------------------------------------------------------------------ *)
Lemma inv_with_field s fs fa :
  Inv s -> (forall ax, fa = Some ax -> check_field_axes (cons s) fs ax = true) ->
  Inv (mkS (cons s) (ctys s) (caxes s) fs fa).
Proof.
  intros I H. destruct I. constructor; simpl; auto.
Qed.

Lemma inv_caxes s cax' :
  Inv s ->
  (forall k axs, assoc k cax' = Some axs ->
     assoc k (caxes s) = Some axs \/
     exists t p, assoc k (ctys s) = Some t /\ is_array t = true /\
                 cget t k (cons s) = Some p /\ check_axes (cons s) p axs = true) ->
  Inv (mkS (cons s) (ctys s) cax' (fshape s) (faxes s)).
Proof.
  intros I H. destruct I. constructor; simpl; auto.
  intros k axs Hk. destruct (H k axs Hk) as [Ho|Hn]; auto.
Qed.

Lemma spanned_by_construct_true s k' axs key :
  assoc k' (caxes s) = Some axs -> In key axs -> spanned_by_construct s key = true.
Proof.
  intros H Hin. unfold spanned_by_construct. apply existsb_exists.
  exists (k', axs). split; [apply assoc_In; assumption|]. simpl. rewrite H. apply memb_true; assumption.
Qed.

Lemma spanned_by_construct_inv s key :
  spanned_by_construct s key = true ->
  exists k' axs, assoc k' (caxes s) = Some axs /\ In key axs.
Proof.
  unfold spanned_by_construct. intro H. apply existsb_exists in H as [[k' a0] [_ Hm]]. simpl in Hm.
  destruct (assoc k' (caxes s)) as [axs|] eqn:E; [|discriminate].
  exists k', axs. split; [exact E|apply memb_true; assumption].
Qed.

Lemma spanned_by_field_true s ax key :
  faxes s = Some ax -> In key ax -> spanned_by_field s key = true.
Proof. intros H Hin. unfold spanned_by_field. rewrite H. apply memb_true; assumption. Qed.

Lemma kind_ok_axis p : kind_ok DomainAxis p = true -> exists n, p = PAxis n.
Proof. destruct p; simpl; intro H; try discriminate; eauto. Qed.

(* inserting or replacing a construct *)
Lemma inv_cset s t key p cax' :
  Inv s ->
  kind_ok t p = true ->
  payload_ok s p ->
  (assoc key (ctys s) = None \/ assoc key (ctys s) = Some t) ->
  (t = DomainAxis ->
   spanned_by_construct s key = true \/ spanned_by_field s key = true ->
   axis_size (cons s) key = psize p) ->
  (forall k' axs, assoc k' cax' = Some axs ->
     (k' <> key /\ assoc k' (caxes s) = Some axs) \/
     (k' = key /\ is_array t = true /\ check_axes (cons s) p axs = true)) ->
  Inv (mkS (cset t key p (cons s)) (aset key t (ctys s)) cax' (fshape s) (faxes s)).
Proof.
  intros I Hk Hp Hty Hsz Hcax.
  (* sizes of the axes that anything refers to are unchanged *)
  assert (Hpres : forall a,
             (a <> key \/ t <> DomainAxis \/
              spanned_by_construct s key = true \/ spanned_by_field s key = true) ->
             axis_size (cset t key p (cons s)) a = axis_size (cons s) a).
  { intros a Ha. destruct (ctype_eqb t DomainAxis) eqn:Et.
    - apply ctype_eqb_eq in Et. subst t. rewrite axis_size_cset_axis.
      destruct (String.eqb a key) eqn:Ea; [|reflexivity].
      apply String.eqb_eq in Ea. subst a.
      destruct Ha as [Ha|[Ha|Ha]]; try congruence.
      rewrite (Hsz eq_refl Ha). destruct (kind_ok_axis p Hk) as [n ->]. reflexivity.
    - apply ctype_eqb_neq in Et. apply axis_size_cset_other; assumption. }
  assert (Hmono : forall ok k0, names_construct ok (ctys s) k0 -> names_construct ok (aset key t (ctys s)) k0).
  { intros ok k0 [t0 [H0 H1]]. unfold names_construct. rewrite assoc_aset_full.
    destruct (String.eqb k0 key) eqn:E0; [|eauto].
    apply String.eqb_eq in E0. subst k0.
    destruct Hty as [Hty|Hty]; rewrite Hty in H0; [discriminate|]. inversion H0; subst. eauto. }
  constructor; cbn [cons ctys caxes fshape faxes].
  - (* held *)
    intros t0 k0 p0 Hin. apply In_cset in Hin. destruct Hin as [Heq|[Hin Hne]].
    + inversion Heq; subst. rewrite assoc_aset_full, String.eqb_refl, cget_cset,
        ctype_eqb_refl, String.eqb_refl. auto.
    + destruct (inv_held s I t0 k0 p0 Hin) as [H1 [H2 H3]].
      rewrite assoc_aset_full, cget_cset.
      destruct (String.eqb k0 key) eqn:Ek.
      * apply String.eqb_eq in Ek. subst k0.
        destruct Hty as [Hty|Hty]; rewrite Hty in H1; [discriminate|].
        inversion H1; subst t0. rewrite same_entry_refl in Hne. discriminate.
      * rewrite andb_false_r. auto.
  - (* typed *)
    intros k0 t0 H0. rewrite assoc_aset_full in H0. rewrite cget_cset.
    destruct (String.eqb k0 key) eqn:Ek.
    + inversion H0; subst t0. rewrite ctype_eqb_refl. simpl. eauto.
    + rewrite andb_false_r. apply (inv_typed s I); assumption.
  - (* axes *)
    intros k0 axs H0. destruct (Hcax k0 axs H0) as [[Hne Hold]|[Heq [Harr Hchk]]].
    + destruct (inv_axes s I k0 axs Hold) as [t0 [p0 [H1 [H2 [H3 H4]]]]].
      exists t0, p0. rewrite assoc_aset_full, cget_cset.
      assert (Ek : String.eqb k0 key = false) by (apply String.eqb_neq; assumption).
      rewrite Ek, andb_false_r. splits; auto.
      rewrite <- H4. apply check_axes_ext. intros a Ha. apply Hpres.
      destruct (String.eqb a key) eqn:Ea.
      * apply String.eqb_eq in Ea. subst a. right; right; left.
        eapply spanned_by_construct_true; eauto.
      * left. apply String.eqb_neq; assumption.
    + subst k0. exists t, p. rewrite assoc_aset_full, String.eqb_refl, cget_cset,
        ctype_eqb_refl, String.eqb_refl. splits; auto.
      rewrite <- Hchk. apply check_axes_ext. intros a Ha. apply Hpres.
      right; left. intro; subst t; discriminate.
  - (* field *)
    intros ax Hax. rewrite <- (inv_field s I ax Hax). apply check_field_axes_ext.
    intros a Ha. apply Hpres. destruct (String.eqb a key) eqn:Ea.
    + apply String.eqb_eq in Ea. subst a. right; right; right.
      eapply spanned_by_field_true; eauto.
    + left. apply String.eqb_neq; assumption.
  - (* refs *)
    intros rk cs ancs Hin. apply In_cset in Hin. destruct Hin as [Heq|[Hin _]].
    + inversion Heq; subst. simpl in Hp. destruct Hp as [Hp1 Hp2]. split.
      * intros c Hc. apply Hmono. apply Hp1; assumption.
      * intros term a Ha. apply Hmono. eapply Hp2; eauto.
    + destruct (inv_refs s I rk cs ancs Hin) as [H1 H2]. split.
      * intros c Hc. apply Hmono. apply H1; assumption.
      * intros term a Ha. apply Hmono. eapply H2; eauto.
  - (* cell methods *)
    assert (Hex : forall a, axis_size (cons s) a <> None -> axis_size (cset t key p (cons s)) a <> None).
    { intros a Ha. destruct (ctype_eqb t DomainAxis) eqn:Et.
      - apply ctype_eqb_eq in Et. subst t. rewrite axis_size_cset_axis.
        destruct (String.eqb a key); [|assumption].
        destruct (kind_ok_axis p Hk) as [n ->]. discriminate.
      - apply ctype_eqb_neq in Et. rewrite axis_size_cset_other; assumption. }
    intros ck axs Hin a Ha. apply In_cset in Hin. destruct Hin as [Heq|[Hin _]].
    + inversion Heq; subst. simpl in Hp. apply Hex. apply Hp; assumption.
    + apply Hex. eapply (inv_cms s I); eauto.
Qed.

(* ------------------------------------------------------------------ *)
(* set_construct                                                       *)
(* ------------------------------------------------------------------ *)
Lemma fresh_not_taken fuel n base taken k :
  fresh fuel n base taken = Some k -> memb k taken = false.
Proof.
  revert n; induction fuel as [|f IH]; intros n H; simpl in H; [discriminate|].
  destruct (memb (base ++ nat_str n) taken) eqn:E.
  - eapply IH; eauto.
  - inversion H; subst; assumption.
Qed.

Lemma assoc_none_not_in {A} k (l : list (key * A)) : memb k (map fst l) = false -> assoc k l = None.
Proof.
  induction l as [|[a v] r IH]; simpl; [reflexivity|].
  intro H. apply orb_false_iff in H as [H1 H2]. rewrite H1. auto.
Qed.

Lemma new_identifier_fresh s t k : new_identifier s t = Some k -> assoc k (ctys s) = None.
Proof.
  unfold new_identifier. intro H. apply fresh_not_taken in H. apply assoc_none_not_in; assumption.
Qed.

(* the resize test of the repaired _set_construct gives what inv_cset needs *)
Lemma resize_ok s key p :
  Inv s ->
  match cget DomainAxis key (cons s) with
  | Some old => negb (option_eqb Z.eqb (psize old) (psize p)) &&
                (spanned_by_construct s key || spanned_by_field s key)
  | None => false
  end = false ->
  kind_ok DomainAxis p = true ->
  spanned_by_construct s key = true \/ spanned_by_field s key = true ->
  axis_size (cons s) key = psize p.
Proof.
  intros I H Hk Hsp. destruct (kind_ok_axis p Hk) as [n ->]. unfold axis_size.
  destruct (cget DomainAxis key (cons s)) as [old|] eqn:E.
  - apply cget_In in E. destruct (inv_held s I _ _ _ E) as [_ [Hko _]].
    destruct (kind_ok_axis old Hko) as [m ->]. simpl in *.
    assert (Hs : spanned_by_construct s key || spanned_by_field s key = true).
    { apply orb_true_iff; assumption. }
    rewrite Hs, andb_true_r in H. apply negb_false_iff in H. apply Z.eqb_eq in H. subst; reflexivity.
  - (* a key that is not an axis cannot be spanned *)
    exfalso. destruct Hsp as [Hsp|Hsp].
    + apply spanned_by_construct_inv in Hsp as [k' [axs [Ha Hin]]].
      destruct (inv_axes s I k' axs Ha) as [t0 [p0 [_ [_ [_ Hc]]]]].
      destruct (check_axes_in _ _ _ _ Hc Hin) as [m Hm]. unfold axis_size in Hm.
      rewrite E in Hm. discriminate.
    + unfold spanned_by_field in Hsp. destruct (faxes s) as [ax|] eqn:Ef; [|discriminate].
      apply memb_true in Hsp. pose proof (inv_field s I ax Ef) as Hc.
      destruct (check_field_axes_in _ _ _ _ Hc Hsp) as [m Hm]. unfold axis_size in Hm.
      rewrite E in Hm. discriminate.
Qed.

Lemma set_construct_inv v t p k axes s :
  Inv s -> payload_ok s p -> Inv (fst (set_construct v t p k axes s)).
Proof.
  intros I Hp. unfold set_construct.
  destruct (negb (kind_ok t p)) eqn:Ek; [exact I|]. apply negb_false_iff in Ek.
  destruct (negb (copyable_entry (t, EmptyString, p))); [exact I|].
  destruct (is_view v && ignored t); [exact I|].
  destruct (match k with Some k0 => Some k0 | None => new_identifier s t end) as [key|] eqn:Ekey;
    [|exact I].
  match goal with |- context [if ?c then (s, Rejected ValueErr) else _] => destruct c eqn:Eclash end;
    [exact I|].
  assert (Hty : assoc key (ctys s) = None \/ assoc key (ctys s) = Some t).
  { destruct k as [k0|].
    - inversion Ekey; subst k0. destruct (assoc key (ctys s)) as [t'|]; [|auto].
      apply negb_false_iff, ctype_eqb_eq in Eclash. subst; auto.
    - left. apply new_identifier_fresh with t; assumption. }
  match goal with |- context [if ?c then (s, Rejected ValueErr) else _] => destruct c eqn:Eres end;
    [exact I|].
  assert (Hsz : t = DomainAxis ->
                spanned_by_construct s key = true \/ spanned_by_field s key = true ->
                axis_size (cons s) key = psize p).
  { intros -> Hsp. apply resize_ok; assumption. }
  destruct (is_array t) eqn:Earr.
  - destruct (match axes with Some a => Some a | None => assoc key (caxes s) end) as [a|] eqn:Eax.
    + destruct (check_axes (cons s) p a) eqn:Ec; [|exact I].
      cbn [fst]. apply inv_cset; auto.
      intros k' axs H. rewrite assoc_aset_full in H. destruct (String.eqb k' key) eqn:E.
      * apply String.eqb_eq in E. inversion H; subst. right; auto.
      * left. split; [apply String.eqb_neq; assumption|assumption].
    + cbn [fst]. apply inv_cset; auto.
      intros k' axs H. destruct (String.eqb k' key) eqn:E.
      * apply String.eqb_eq in E. subst k'. destruct axes; [discriminate|]. congruence.
      * left. split; [apply String.eqb_neq; assumption|assumption].
  - destruct axes; [exact I|].
    cbn [fst]. apply inv_cset; auto.
    intros k' axs H. destruct (String.eqb k' key) eqn:E.
    + apply String.eqb_eq in E. subst k'.
      destruct (inv_axes s I key axs H) as [t0 [p0 [H1 [H2 _]]]].
      destruct Hty as [Hty|Hty]; rewrite Hty in H1; [discriminate|]. inversion H1; subst. congruence.
    + left. split; [apply String.eqb_neq; assumption|assumption].
Qed.

(* ------------------------------------------------------------------ *)
(* del_construct                                                       *)
(* ------------------------------------------------------------------ *)
Definition clean_payload (k : key) (t : ctype) (p : payload) : payload :=
  snd (clean_ref k (t, EmptyString, p)).

Lemma clean_ref_shape k t k' p : clean_ref k (t, k', p) = (t, k', clean_payload k t p).
Proof. unfold clean_payload. destruct t; try reflexivity. destruct p; reflexivity. Qed.

Lemma cget_map_clean_full k t k' l :
  cget t k' (map (clean_ref k) l) =
  match cget t k' l with Some p => Some (clean_payload k t p) | None => None end.
Proof.
  induction l as [|[[a b] c] r IH]; [reflexivity|].
  cbn [map]. rewrite clean_ref_shape. cbn [cget].
  assert (Hs : same_entry t k' (a, b, clean_payload k a c) = same_entry t k' (a, b, c)) by reflexivity.
  rewrite Hs. destruct (same_entry t k' (a, b, c)) eqn:E; [|exact IH].
  apply same_entry_true in E as [E1 E2]; simpl in *; subst. reflexivity.
Qed.

Lemma clean_payload_id k t p : t <> CoordRef -> clean_payload k t p = p.
Proof. intro H. unfold clean_payload. destruct t; try reflexivity. contradiction. Qed.

Lemma kind_ok_clean k t p : kind_ok t (clean_payload k t p) = kind_ok t p.
Proof. unfold clean_payload. destruct t; try reflexivity. destruct p; reflexivity. Qed.

Lemma In_map_clean k e l :
  In e (map (clean_ref k) l) -> exists p0, In (ctyp e, ckey e, p0) l /\ snd e = clean_payload k (ctyp e) p0.
Proof.
  intro H. apply in_map_iff in H as [[[a b] c] [H1 H2]]. rewrite clean_ref_shape in H1. subst e.
  exists c. auto.
Qed.

Lemma cm_names_true a ck axs l :
  In (CellMethod, ck, PCm axs) l -> In a axs -> existsb (cm_names a) l = true.
Proof.
  intros H Ha. apply existsb_exists. exists (CellMethod, ck, PCm axs). split; [assumption|].
  simpl. apply memb_true; assumption.
Qed.

(* removing a construct that is not a domain axis, cleaning the references *)
Lemma inv_del_other s t k :
  Inv s -> assoc k (ctys s) = Some t -> t <> DomainAxis ->
  Inv (mkS (cdel t k (map (clean_ref k) (cons s))) (aremove k (ctys s)) (aremove k (caxes s))
           (fshape s) (faxes s)).
Proof.
  intros I Hk Ht.
  assert (Hsz : forall a, axis_size (cdel t k (map (clean_ref k) (cons s))) a = axis_size (cons s) a).
  { intro a. rewrite axis_size_cdel_other by assumption. apply axis_size_clean. }
  assert (Hnm : forall ok c, c <> k -> names_construct ok (ctys s) c -> names_construct ok (aremove k (ctys s)) c).
  { intros ok c Hc [t0 [H0 H1]]. exists t0. rewrite assoc_aremove.
    apply String.eqb_neq in Hc. rewrite Hc. auto. }
  constructor; cbn [cons ctys caxes fshape faxes].
  - intros t0 k0 p0 Hin. apply In_cdel in Hin as [Hin Hne].
    apply In_map_clean in Hin as [q [Hin Hq]]. cbn [ctyp ckey fst snd] in *. subst p0.
    destruct (inv_held s I t0 k0 q Hin) as [H1 [H2 H3]].
    rewrite assoc_aremove, cget_cdel, cget_map_clean_full, H3, kind_ok_clean.
    destruct (String.eqb k0 k) eqn:Ek.
    + apply String.eqb_eq in Ek. subst k0. rewrite Hk in H1. inversion H1; subst t0.
      rewrite same_entry_refl in Hne. discriminate.
    + rewrite andb_false_r. auto.
  - intros k0 t0 H0. rewrite assoc_aremove in H0. destruct (String.eqb k0 k) eqn:Ek; [discriminate|].
    destruct (inv_typed s I k0 t0 H0) as [p0 Hp0].
    rewrite cget_cdel, Ek, andb_false_r, cget_map_clean_full, Hp0. eauto.
  - intros k0 axs H0. rewrite assoc_aremove in H0. destruct (String.eqb k0 k) eqn:Ek; [discriminate|].
    destruct (inv_axes s I k0 axs H0) as [t0 [p0 [H1 [H2 [H3 H4]]]]].
    exists t0, p0. rewrite assoc_aremove, Ek, cget_cdel, Ek, andb_false_r, cget_map_clean_full, H3.
    rewrite clean_payload_id by (intro; subst; discriminate). splits; auto.
    rewrite <- H4. apply check_axes_ext. intros; apply Hsz.
  - intros ax Hax. rewrite <- (inv_field s I ax Hax). apply check_field_axes_ext. intros; apply Hsz.
  - intros rk cs ancs Hin. apply In_cdel in Hin as [Hin _].
    apply In_map_clean in Hin as [q [Hin Hq]]. cbn [ctyp ckey fst snd] in *.
    destruct (inv_held s I _ _ _ Hin) as [_ [Hko _]].
    destruct q; simpl in Hko; try discriminate.
    destruct (inv_refs s I rk coords ancs0 Hin) as [R1 R2].
    unfold clean_payload in Hq. simpl in Hq. inversion Hq; subst. split.
    + intros c Hc. apply filter_In in Hc as [Hc Hne]. apply negb_true_iff, String.eqb_neq in Hne.
      apply Hnm; [congruence|auto].
    + intros term a Ha. apply in_map_iff in Ha as [[tm oa] [Heq Ha0]]. simpl in Heq.
      destruct oa as [a'|]; [|inversion Heq].
      destruct (String.eqb k a') eqn:Eka; [inversion Heq|].
      inversion Heq; subst. apply String.eqb_neq in Eka.
      apply Hnm; [congruence|eapply R2; eauto].
  - intros ck axs Hin a Ha. apply In_cdel in Hin as [Hin _].
    apply In_map_clean in Hin as [q [Hin Hq]]. cbn [ctyp ckey fst snd] in *.
    rewrite clean_payload_id in Hq by discriminate. subst q.
    rewrite Hsz. eapply (inv_cms s I); eauto.
Qed.

(* removing a domain axis that nothing spans or names *)
Lemma inv_del_axis s k :
  Inv s -> assoc k (ctys s) = Some DomainAxis ->
  spanned_by_construct s k = false -> spanned_by_field s k = false ->
  existsb (cm_names k) (cons s) = false ->
  Inv (mkS (cdel DomainAxis k (cons s)) (aremove k (ctys s)) (aremove k (caxes s))
           (fshape s) (faxes s)).
Proof.
  intros I Hk Hsc Hsf Hcm.
  assert (Hsz : forall a, a <> k -> axis_size (cdel DomainAxis k (cons s)) a = axis_size (cons s) a).
  { intros a Ha. rewrite axis_size_cdel_axis. apply String.eqb_neq in Ha. rewrite Ha. reflexivity. }
  constructor; cbn [cons ctys caxes fshape faxes].
  - intros t0 k0 p0 Hin. apply In_cdel in Hin as [Hin Hne].
    destruct (inv_held s I t0 k0 p0 Hin) as [H1 [H2 H3]].
    rewrite assoc_aremove, cget_cdel, H3.
    destruct (String.eqb k0 k) eqn:Ek.
    + apply String.eqb_eq in Ek. subst k0. rewrite Hk in H1. inversion H1; subst t0.
      rewrite same_entry_refl in Hne. discriminate.
    + rewrite andb_false_r. auto.
  - intros k0 t0 H0. rewrite assoc_aremove in H0. destruct (String.eqb k0 k) eqn:Ek; [discriminate|].
    destruct (inv_typed s I k0 t0 H0) as [p0 Hp0].
    rewrite cget_cdel, Ek, andb_false_r. eauto.
  - intros k0 axs H0. rewrite assoc_aremove in H0. destruct (String.eqb k0 k) eqn:Ek; [discriminate|].
    destruct (inv_axes s I k0 axs H0) as [t0 [p0 [H1 [H2 [H3 H4]]]]].
    exists t0, p0. rewrite assoc_aremove, Ek, cget_cdel, Ek, andb_false_r. splits; auto.
    rewrite <- H4. apply check_axes_ext. intros a Ha. apply Hsz. intro; subst a.
    rewrite (spanned_by_construct_true s k0 axs k H0 Ha) in Hsc. discriminate.
  - intros ax Hax. rewrite <- (inv_field s I ax Hax). apply check_field_axes_ext.
    intros a Ha. apply Hsz. intro; subst a.
    rewrite (spanned_by_field_true s ax k Hax Ha) in Hsf. discriminate.
  - intros rk cs ancs Hin. apply In_cdel in Hin as [Hin _].
    destruct (inv_refs s I rk cs ancs Hin) as [R1 R2].
    assert (Hnm : forall ok c, ok DomainAxis = false ->
                  names_construct ok (ctys s) c -> names_construct ok (aremove k (ctys s)) c).
    { intros ok c Hok [t0 [H0 H1]]. exists t0. rewrite assoc_aremove.
      destruct (String.eqb c k) eqn:Ec; [|auto].
      apply String.eqb_eq in Ec. subst c. rewrite Hk in H0. inversion H0; subst. congruence. }
    split; [intros; apply Hnm; auto|intros; apply Hnm; [reflexivity|eapply R2; eauto]].
  - intros ck axs Hin a Ha. apply In_cdel in Hin as [Hin _].
    rewrite Hsz; [eapply (inv_cms s I); eauto|].
    intro; subst a. rewrite (cm_names_true k ck axs (cons s) Hin Ha) in Hcm. discriminate.
Qed.

(* a rejected deletion of a non-existent key has cleaned the references: harmless *)
Lemma inv_clean_only s k :
  Inv s -> assoc k (ctys s) = None \/ (exists t, assoc k (ctys s) = Some t) ->
  Inv (mkS (map (clean_ref k) (cons s)) (ctys s) (caxes s) (fshape s) (faxes s)).
Proof.
  intros I _.
  assert (Hsz : forall a, axis_size (map (clean_ref k) (cons s)) a = axis_size (cons s) a)
    by (intro; apply axis_size_clean).
  constructor; cbn [cons ctys caxes fshape faxes].
  - intros t0 k0 p0 Hin. apply In_map_clean in Hin as [q [Hin Hq]]. cbn [ctyp ckey fst snd] in *.
    subst p0. destruct (inv_held s I t0 k0 q Hin) as [H1 [H2 H3]].
    rewrite cget_map_clean_full, H3, kind_ok_clean. auto.
  - intros k0 t0 H0. destruct (inv_typed s I k0 t0 H0) as [p0 Hp0].
    rewrite cget_map_clean_full, Hp0. eauto.
  - intros k0 axs H0. destruct (inv_axes s I k0 axs H0) as [t0 [p0 [H1 [H2 [H3 H4]]]]].
    exists t0, p0. rewrite cget_map_clean_full, H3.
    rewrite clean_payload_id by (intro; subst; discriminate). splits; auto.
    rewrite <- H4. apply check_axes_ext. intros; apply Hsz.
  - intros ax Hax. rewrite <- (inv_field s I ax Hax). apply check_field_axes_ext. intros; apply Hsz.
  - intros rk cs ancs Hin. apply In_map_clean in Hin as [q [Hin Hq]]. cbn [ctyp ckey fst snd] in *.
    destruct (inv_held s I _ _ _ Hin) as [_ [Hko _]].
    destruct q; simpl in Hko; try discriminate.
    destruct (inv_refs s I rk coords ancs0 Hin) as [R1 R2].
    unfold clean_payload in Hq. simpl in Hq. inversion Hq; subst. split.
    + intros c Hc. apply filter_In in Hc as [Hc _]. auto.
    + intros term a Ha. apply in_map_iff in Ha as [[tm oa] [Heq Ha0]]. simpl in Heq.
      destruct oa as [a'|]; [|inversion Heq].
      destruct (String.eqb k a') eqn:Eka; [inversion Heq|].
      inversion Heq; subst. eapply R2; eauto.
  - intros ck axs Hin a Ha. apply In_map_clean in Hin as [q [Hin Hq]]. cbn [ctyp ckey fst snd] in *.
    rewrite clean_payload_id in Hq by discriminate. subst q.
    rewrite Hsz. eapply (inv_cms s I); eauto.
Qed.

Lemma visible_type_some v s k t : visible_type v s k = Some t -> assoc k (ctys s) = Some t.
Proof.
  unfold visible_type. destruct (assoc k (ctys s)) as [t0|]; [|discriminate].
  destruct (is_view v && ignored t0); [discriminate|]. intro H; inversion H; reflexivity.
Qed.

Lemma del_construct_core_inv v k s :
  Inv s ->
  (is_view v = false -> cget DomainAxis k (cons s) <> None -> spanned_by_field s k = false) ->
  Inv (fst (del_construct_core v k s)).
Proof.
  intros I Hf. unfold del_construct_core.
  destruct (cget DomainAxis k (cons s)) as [q|] eqn:Eq.
  - destruct (spanned_by_construct s k || (is_view v && spanned_by_field s k)) eqn:Esp; [exact I|].
    apply orb_false_iff in Esp as [Esc Esf].
    destruct (existsb (cm_names k) (cons s)) eqn:Ecm; [exact I|].
    destruct (visible_type v s k) as [t|] eqn:Ev; [|exact I].
    apply visible_type_some in Ev.
    apply cget_In in Eq. destruct (inv_held s I _ _ _ Eq) as [Hty _].
    rewrite Hty in Ev. inversion Ev; subst t. cbn [fst].
    apply inv_del_axis; auto.
    destruct (is_view v) eqn:Eview; [exact Esf|]. apply Hf; [reflexivity|].
    intro Hc. apply cget_In in Hc || idtac. congruence.
  - destruct (visible_type v s k) as [t|] eqn:Ev; cbn [fst].
    + apply visible_type_some in Ev. apply inv_del_other; auto.
      intro; subst t. destruct (inv_typed s I k DomainAxis Ev) as [p Hp]. congruence.
    + apply inv_clean_only; auto.
      destruct (assoc k (ctys s)); eauto.
Qed.

Lemma del_construct_inv v k s : Inv s -> Inv (fst (del_construct v k s)).
Proof.
  intros I. unfold del_construct. destruct v.
  - (* cfdm.Field route *)
    destruct (visible_type VField s k); [|exact I].
    destruct (cget DomainAxis k (cons s)) eqn:Eq.
    + destruct (spanned_by_field s k) eqn:Ef; [exact I|].
      apply del_construct_core_inv; auto.
    + apply del_construct_core_inv; auto. intros _ H; congruence.
  - (* the domain view *)
    destruct (visible_type VDomain s k); [|exact I].
    assert (H : Inv (fst (del_construct_core VDomain k s))).
    { apply del_construct_core_inv; auto. intro; discriminate. }
    destruct (cget DomainAxis k (cons s)); exact H.
  - (* core Field route *)
    destruct (cget DomainAxis k (cons s)) eqn:Eq.
    + destruct (spanned_by_field s k) eqn:Ef; [exact I|].
      apply del_construct_core_inv; auto.
    + apply del_construct_core_inv; auto. intros _ H; congruence.
Qed.

(* ------------------------------------------------------------------ *)
(* field data and data axes                                            *)
(* ------------------------------------------------------------------ *)
Lemma set_data_inv sh axes s : Inv s -> Inv (fst (set_data sh axes s)).
Proof.
  intros I. unfold set_data.
  destruct (match axes with Some a => Some a | None => faxes s end) as [a|] eqn:Ea.
  - unfold set_field_axes. destruct (check_field_axes (cons s) (Some sh) a) eqn:E; [|exact I].
    cbn [fst cons ctys caxes fshape faxes].
    apply (inv_with_field s (Some sh) (Some a) I). intros ax Hax. inversion Hax; subst. exact E.
  - cbn [fst]. apply (inv_with_field s (Some sh) (faxes s) I).
    intros ax Hax. destruct axes; [discriminate|]. congruence.
Qed.

Lemma check_field_axes_none c sh ax :
  check_field_axes c sh ax = true -> check_field_axes c None ax = true.
Proof.
  unfold check_field_axes. destruct (axes_sizes c ax); [reflexivity|discriminate].
Qed.

Lemma del_data_inv s : Inv s -> Inv (fst (del_data s)).
Proof.
  intros I. unfold del_data. destruct (fshape s) eqn:E; [|exact I].
  cbn [fst]. apply (inv_with_field s None (faxes s) I).
  intros ax Hax. eapply check_field_axes_none. apply (inv_field s I ax Hax).
Qed.

Lemma set_data_axes_inv v axs k s : Inv s -> Inv (fst (set_data_axes v axs k s)).
Proof.
  intros I. unfold set_data_axes. destruct k as [k|].
  - destruct (visible_type v s k) as [t|] eqn:Ev; [|exact I].
    apply visible_type_some in Ev.
    destruct (cget t k (cons s)) as [p|] eqn:Ep; [|exact I].
    destruct (negb (is_array t)) eqn:Ea; [exact I|]. apply negb_false_iff in Ea.
    destruct (check_axes (cons s) p axs) eqn:Ec; [|exact I].
    cbn [fst]. apply (inv_caxes s _ I). intros k0 ax0 H0.
    rewrite assoc_aset_full in H0. destruct (String.eqb k0 k) eqn:E.
    + apply String.eqb_eq in E. subst k0. inversion H0; subst ax0. right. exists t, p. auto.
    + left; assumption.
  - unfold set_field_axes. destruct (check_field_axes (cons s) (fshape s) axs) eqn:E; [|exact I].
    cbn [fst]. apply (inv_with_field s (fshape s) (Some axs) I).
    intros ax Hax. inversion Hax; subst. exact E.
Qed.

Lemma del_data_axes_inv v k s : Inv s -> Inv (fst (del_data_axes v k s)).
Proof.
  intros I. unfold del_data_axes. destruct k as [k|].
  - destruct (assoc k (caxes s)); [|exact I].
    match goal with |- context [if ?c then _ else _] => destruct c end; [exact I|].
    cbn [fst]. apply (inv_caxes s _ I). intros k0 ax0 H0.
    rewrite assoc_aremove in H0. destruct (String.eqb k0 k); [discriminate|]. left; assumption.
  - destruct (faxes s); [|exact I]. cbn [fst].
    apply (inv_with_field s (fshape s) None I). intros; discriminate.
Qed.

(* ------------------------------------------------------------------ *)
(* squeeze / transpose / insert_dimension keep axes and shape in step  *)
(* ------------------------------------------------------------------ *)
Lemma zlist_eqb_eq a b : zlist_eqb a b = true <-> a = b.
Proof. unfold zlist_eqb. apply list_eqb_eq. intros; apply Z.eqb_eq. Qed.

Lemma zlist_eqb_refl a : zlist_eqb a a = true.
Proof. apply zlist_eqb_eq; reflexivity. Qed.

Lemma check_field_some c sh ax :
  check_field_axes c (Some sh) ax = true <-> axes_sizes c ax = Some sh.
Proof.
  unfold check_field_axes. destruct (axes_sizes c ax) as [szs|]; split; intro H; try discriminate.
  - apply zlist_eqb_eq in H. congruence.
  - inversion H; subst. apply zlist_eqb_refl.
Qed.

Lemma axes_sizes_length c ax szs : axes_sizes c ax = Some szs -> length szs = length ax.
Proof.
  revert szs; induction ax as [|a r IH]; intros szs H; simpl in H.
  - inversion H; reflexivity.
  - destruct (axis_size c a); [|discriminate]. destruct (axes_sizes c r) eqn:E; [|discriminate].
    inversion H; subst. simpl. f_equal. apply IH; reflexivity.
Qed.

Lemma axes_sizes_drop c d ax szs :
  axes_sizes c ax = Some szs -> forall i, axes_sizes c (drop_from i d ax) = Some (drop_from i d szs).
Proof.
  revert szs; induction ax as [|a r IH]; intros szs H i; simpl in H.
  - inversion H; reflexivity.
  - destruct (axis_size c a) eqn:Ea; [|discriminate]. destruct (axes_sizes c r) eqn:E; [|discriminate].
    inversion H; subst. simpl. destruct (zmem i d).
    + apply IH; reflexivity.
    + simpl. rewrite Ea, (IH l eq_refl (i + 1)). reflexivity.
Qed.

Lemma axes_sizes_nth c ax szs i n :
  axes_sizes c ax = Some szs -> nth_error szs i = Some n ->
  exists a, nth_error ax i = Some a /\ axis_size c a = Some n.
Proof.
  revert szs i; induction ax as [|a r IH]; intros szs i H Hn; simpl in H.
  - inversion H; subst. destruct i; discriminate.
  - destruct (axis_size c a) eqn:Ea; [|discriminate]. destruct (axes_sizes c r) eqn:E; [|discriminate].
    inversion H; subst. destruct i; simpl in *.
    + inversion Hn; subst. eauto.
    + eapply IH; eauto.
Qed.

Lemma axes_sizes_permute c ax szs ia sh' :
  axes_sizes c ax = Some szs -> permute szs ia = Some sh' ->
  exists ax', permute ax ia = Some ax' /\ axes_sizes c ax' = Some sh'.
Proof.
  intro H. revert sh'; induction ia as [|i r IH]; intros sh' Hp; simpl in *.
  - inversion Hp; subst. exists []. auto.
  - unfold nthZ in *. destruct (i <? 0); [discriminate|].
    destruct (nth_error szs (Z.to_nat i)) eqn:En; [|discriminate].
    destruct (permute szs r) eqn:Er; [|discriminate]. inversion Hp; subst.
    destruct (axes_sizes_nth c ax szs _ _ H En) as [a [Ha Hs]].
    destruct (IH l eq_refl) as [ax1 [H1 H2]]. rewrite Ha, H1. exists (a :: ax1). split; [reflexivity|].
    simpl. rewrite Hs, H2. reflexivity.
Qed.

Lemma axes_sizes_app c l1 l2 :
  axes_sizes c (l1 ++ l2) =
  match axes_sizes c l1, axes_sizes c l2 with Some a, Some b => Some (a ++ b)%list | _, _ => None end.
Proof.
  induction l1 as [|a r IH]; simpl.
  - destruct (axes_sizes c l2); reflexivity.
  - destruct (axis_size c a); [|reflexivity]. rewrite IH.
    destruct (axes_sizes c r); [|reflexivity]. destruct (axes_sizes c l2); reflexivity.
Qed.

Lemma axes_sizes_firstn c ax szs n :
  axes_sizes c ax = Some szs -> axes_sizes c (firstn n ax) = Some (firstn n szs).
Proof.
  revert szs n; induction ax as [|a r IH]; intros szs n H; simpl in H.
  - inversion H; subst. destruct n; reflexivity.
  - destruct (axis_size c a) eqn:Ea; [|discriminate]. destruct (axes_sizes c r) eqn:E; [|discriminate].
    inversion H; subst. destruct n; simpl; [reflexivity|]. rewrite Ea, (IH l n eq_refl). reflexivity.
Qed.

Lemma axes_sizes_skipn c ax szs n :
  axes_sizes c ax = Some szs -> axes_sizes c (skipn n ax) = Some (skipn n szs).
Proof.
  revert szs n; induction ax as [|a r IH]; intros szs n H; simpl in H.
  - inversion H; subst. destruct n; reflexivity.
  - destruct (axis_size c a) eqn:Ea; [|discriminate]. destruct (axes_sizes c r) eqn:E; [|discriminate].
    inversion H; subst. destruct n; simpl; [rewrite Ea, E; reflexivity|]. apply IH; reflexivity.
Qed.

Lemma axes_sizes_insert c ax szs p a n :
  axes_sizes c ax = Some szs -> axis_size c a = Some n ->
  axes_sizes c (insert_at p a ax) = Some (insert_at p n szs).
Proof.
  intros H Ha. unfold insert_at. rewrite axes_sizes_app, (axes_sizes_firstn c ax szs _ H).
  rewrite axes_sizes_app. simpl. rewrite Ha, (axes_sizes_skipn c ax szs _ H). reflexivity.
Qed.

Lemma squeeze_inv axes inplace s : Inv s -> Inv (fst (squeeze axes inplace s)).
Proof.
  intros I. unfold squeeze.
  destruct (negb inplace && negb (copyable s)); [exact I|].
  destruct (fshape s) as [sh|] eqn:Esh; [|exact I].
  match goal with |- context [match ?x with Some ia => _ | None => (s, Rejected ValueErr) end] =>
    destruct x as [ia|] end; [|exact I].
  match goal with |- context [if ?c then (s, Rejected ValueErr) else _] => destruct c end; [exact I|].
  destruct (faxes s) as [ax|] eqn:Eax.
  - pose proof (inv_field s I ax Eax) as Hf. rewrite Esh in Hf. apply check_field_some in Hf.
    pose proof (axes_sizes_drop (cons s) ia ax sh Hf 0) as Hd.
    assert (Hc : check_field_axes (cons s) (Some (drop_positions ia sh)) (drop_positions ia ax) = true)
      by (apply check_field_some; exact Hd).
    rewrite Hc, <- (axes_sizes_length _ _ _ Hf), Nat.eqb_refl. cbn [andb fst].
    unfold with_field. apply (inv_with_field s _ _ I). intros a Ha. inversion Ha; subst. exact Hc.
  - cbn [fst]. unfold with_field. apply (inv_with_field s _ _ I). intros; discriminate.
Qed.

Lemma transpose_inv axes inplace done s : Inv s -> Inv (fst (transpose axes false inplace done s)).
Proof.
  intros I. unfold transpose.
  destruct (negb inplace && negb (copyable s)); [exact I|].
  destruct (fshape s) as [sh|] eqn:Esh; [|exact I].
  match goal with |- context [match ?x with Some ia => _ | None => (s, Rejected ValueErr) end] =>
    destruct x as [ia|] end; [|exact I].
  destruct (permute sh ia) as [sh'|] eqn:Ep; [|exact I].
  destruct (faxes s) as [ax|] eqn:Eax.
  - pose proof (inv_field s I ax Eax) as Hf. rewrite Esh in Hf. apply check_field_some in Hf.
    destruct (axes_sizes_permute (cons s) ax sh ia sh' Hf Ep) as [ax' [H1 H2]].
    rewrite H1. apply check_field_some in H2. rewrite H2. cbn [negb fst].
    unfold with_field. apply (inv_with_field s _ _ I). intros a Ha. inversion Ha; subst. exact H2.
  - cbn [fst]. unfold with_field. apply (inv_with_field s _ _ I). intros; discriminate.
Qed.

Lemma not_registered_not_held s k t :
  Inv s -> assoc k (ctys s) = None -> cget t k (cons s) = None.
Proof.
  intros I H. destruct (cget t k (cons s)) eqn:E; [|reflexivity].
  apply cget_In in E. destruct (inv_held s I _ _ _ E) as [H1 _]. congruence.
Qed.

Lemma set_new_axis s a :
  Inv s -> new_identifier s DomainAxis = Some a ->
  set_construct VField DomainAxis (PAxis 1) None None s =
  (mkS (cset DomainAxis a (PAxis 1) (cons s)) (aset a DomainAxis (ctys s)) (caxes s)
       (fshape s) (faxes s), Done).
Proof.
  intros I H. unfold set_construct. cbn [kind_ok copyable_entry negb orb is_view andb].
  rewrite H. rewrite (not_registered_not_held s a DomainAxis I (new_identifier_fresh s _ a H)).
  reflexivity.
Qed.

Lemma norm_pos_same pos n p :
  let pos1 := if (- n - 1 <=? pos) && (pos <? 0) then pos + n + 1 else pos in
  0 <= n -> norm_pos pos1 n = Some p -> p = pos1 /\ 0 <= pos1.
Proof.
  intros pos1 Hn. unfold norm_pos. subst pos1.
  destruct ((- n - 1 <=? pos) && (pos <? 0)) eqn:E1.
  - apply andb_true_iff in E1 as [A B]. apply Z.leb_le in A. apply Z.ltb_lt in B.
    destruct ((- n - 1 <=? pos + n + 1) && (pos + n + 1 <? 0)) eqn:E2.
    + apply andb_true_iff in E2 as [_ C]. apply Z.ltb_lt in C. lia.
    + destruct ((0 <=? pos + n + 1) && (pos + n + 1 <=? n)); intro H; inversion H; lia.
  - rewrite E1. destruct ((0 <=? pos) && (pos <=? n)) eqn:E3; intro H; inversion H; subst.
    apply andb_true_iff in E3 as [A _]. apply Z.leb_le in A. lia.
Qed.

Lemma insert_dimension_inv axis pos inplace done s :
  Inv s -> Inv (fst (insert_dimension axis pos false inplace done s)).
Proof.
  intros I. unfold insert_dimension.
  destruct (negb inplace && negb (copyable s)); [exact I|].
  (* the axis *)
  assert (Hr : forall r, r = (match axis with
           | None => match set_construct VField DomainAxis (PAxis 1) None None s, new_identifier s DomainAxis with
                     | (s1, Done), Some a => inl (s1, a)
                     | (_, Done), None => inr OutOfModel
                     | (_, o), _ => inr o end
           | Some a => match axis_size (cons s) a with
                       | Some 1 => inl (s, a)
                       | _ => inr (Rejected ValueErr) end
           end) ->
           match r with
           | inr _ => True
           | inl (s1, a) => Inv s1 /\ axis_size (cons s1) a = Some 1
           end).
  { intros r ->. destruct axis as [a|].
    - destruct (axis_size (cons s) a) as [[|[| |]|]|] eqn:E; auto.
    - destruct (new_identifier s DomainAxis) as [a|] eqn:En.
      + rewrite (set_new_axis s a I En). split.
        * pose proof (set_construct_inv VField DomainAxis (PAxis 1) None None s I Coq.Init.Logic.I) as H.
          rewrite (set_new_axis s a I En) in H. exact H.
        * cbn [cons]. rewrite axis_size_cset_axis, String.eqb_refl. reflexivity.
      + destruct (set_construct VField DomainAxis (PAxis 1) None None s) as [s1 [| |]]; exact Coq.Init.Logic.I. }
  match goal with |- context [match ?x with inl _ => _ | inr _ => _ end] =>
    specialize (Hr x eq_refl); destruct x as [[s1 a]|o] end; [|exact I].
  destruct Hr as [I1 Ha].
  assert (Hback : Inv (if inplace then s1 else s)) by (destruct inplace; assumption).
  destruct (faxes s1) as [ax|] eqn:Eax.
  - destruct (memb a ax); [exact Hback|].
    cbv zeta.
    set (nd := Z.of_nat (length ax)).
    set (pos1 := if (- nd - 1 <=? pos) && (pos <? 0) then pos + nd + 1 else pos).
    pose proof (inv_field s1 I1 ax Eax) as Hf.
    destruct (fshape s1) as [sh|] eqn:Esh.
    + apply check_field_some in Hf.
      assert (Hlen : Z.of_nat (length sh) = nd).
      { unfold nd. rewrite (axes_sizes_length _ _ _ Hf). reflexivity. }
      rewrite Hlen.
      destruct (norm_pos pos1 nd) as [p|] eqn:Enp; [|exact Hback].
      destruct (norm_pos_same pos nd p (Zle_0_nat _) Enp) as [Hp _]. fold pos1 in Hp. subst p.
      assert (Hc : check_field_axes (cons s1) (Some (insert_at pos1 1 sh)) (insert_at pos1 a ax) = true).
      { apply check_field_some. apply axes_sizes_insert; assumption. }
      rewrite Hc. cbn [negb fst]. unfold with_field.
      apply (inv_with_field s1 _ _ I1). intros x Hx. inversion Hx; subst. exact Hc.
    + assert (Hc : check_field_axes (cons s1) None (insert_at pos1 a ax) = true).
      { unfold check_field_axes in *. destruct (axes_sizes (cons s1) ax) as [szs|] eqn:E; [|discriminate].
        rewrite (axes_sizes_insert _ _ _ pos1 a 1 E Ha). reflexivity. }
      rewrite Hc. cbn [negb fst]. unfold with_field.
      apply (inv_with_field s1 _ _ I1). intros x Hx. inversion Hx; subst. exact Hc.
  - destruct (fshape s1) as [sh|] eqn:Esh.
    + destruct (norm_pos pos (Z.of_nat (length sh))); [|exact Hback].
      cbn [negb fst]. unfold with_field. apply (inv_with_field s1 _ _ I1). intros; discriminate.
    + cbn [negb fst]. unfold with_field. apply (inv_with_field s1 _ _ I1). intros; discriminate.
Qed.

