(* C01 - round trip proof, part 1: names and attribute strings. *)
From Coq Require Import DecimalString DecimalNat.
From CfdmV Require Import Common.Base C01.Model C01.Lemmas.
Open Scope string_scope.
Open Scope list_scope.

(* ------------------------------------------------------------------ nice names *)
(* CF-style names: non-empty, without blank, colon or at-sign (the reader's labels of scalar
   coordinate axes start with "@"). *)
Definition okcb (c : ascii) : bool :=
  negb (Ascii.eqb c " ") && negb (Ascii.eqb c ":") && negb (Ascii.eqb c "@").
Fixpoint goodb (s : string) : bool :=
  match s with EmptyString => true | String c r => okcb c && goodb r end.
Definition nice (s : string) : Prop := s <> EmptyString /\ goodb s = true.
Definition nice_opt (o : option string) : Prop := match o with Some s => nice s | None => True end.

Lemma okcb_spec : forall c, okcb c = true -> c <> " "%char /\ c <> ":"%char /\ c <> "@"%char.
Proof.
  intros c H. unfold okcb in H. apply andb_true_iff in H as [H H3]. apply andb_true_iff in H as [H1 H2].
  repeat split; intro E; subst; discriminate.
Qed.

Lemma goodb_no_space : forall s, goodb s = true -> no_space s.
Proof.
  induction s as [|c r IH]; simpl; intros H; [exact I|].
  apply andb_true_iff in H as [Hc Hr]. split; [apply okcb_spec in Hc; tauto|apply IH; exact Hr].
Qed.

Lemma goodb_app : forall a b, goodb (a +++ b) = goodb a && goodb b.
Proof. induction a as [|c a IH]; simpl; intros b; [reflexivity|]. rewrite IH, andb_assoc. reflexivity. Qed.

Lemma goodb_digits : forall d, goodb (NilEmpty.string_of_uint d) = true.
Proof. induction d; simpl; try reflexivity; exact IHd. Qed.

Lemma goodb_cand : forall base k, goodb base = true -> goodb (cand base k) = true.
Proof.
  intros base k H. unfold cand. rewrite goodb_app, H. simpl. unfold nat_str. apply goodb_digits.
Qed.

Lemma nice_token : forall s, nice s -> token s.
Proof. intros s [H1 H2]. split; [exact H1|apply goodb_no_space; exact H2]. Qed.

Lemma netcdf_name_cases : forall base used, no_space base ->
  netcdf_name base used = base \/ exists k, netcdf_name base used = cand base k.
Proof.
  intros base used Hns. unfold netcdf_name. destruct (mem base used).
  - right. destruct (first_free_form base used (length used) 1) as [j Ej]. exists j. rewrite Ej.
    apply despace_id. apply cand_no_space; exact Hns.
  - left. apply despace_id; exact Hns.
Qed.

Lemma cand_nonempty : forall base k, base <> EmptyString -> cand base k <> EmptyString.
Proof. intros base k H. destruct base; [contradiction|]. unfold cand; simpl. discriminate. Qed.

Lemma netcdf_name_nice : forall base used, nice base -> nice (netcdf_name base used).
Proof.
  intros base used [Hne Hg].
  destruct (netcdf_name_cases base used (goodb_no_space _ Hg)) as [E|[k E]]; rewrite E.
  - split; assumption.
  - split; [apply cand_nonempty; exact Hne|apply goodb_cand; exact Hg].
Qed.

(* names with an underscore are never set names in the guarded theorem *)
Fixpoint noundb (s : string) : bool :=
  match s with EmptyString => true | String c r => negb (Ascii.eqb c "_") && noundb r end.

Lemma noundb_app : forall a b, noundb (a +++ b) = noundb a && noundb b.
Proof. induction a as [|c a IH]; simpl; intros b; [reflexivity|]. rewrite IH, andb_assoc. reflexivity. Qed.

Lemma cand_und : forall base k, noundb (cand base k) = false.
Proof. intros. unfold cand. rewrite noundb_app. simpl. apply andb_false_r. Qed.

(* ------------------------------------------------------------------ append *)
Lemma sapp_assoc : forall a b c, (a +++ b) +++ c = a +++ (b +++ c).
Proof. induction a as [|x a IH]; simpl; intros; [reflexivity|rewrite IH; reflexivity]. Qed.

Lemma slength_app : forall a b, String.length (a +++ b) = (String.length a + String.length b)%nat.
Proof. induction a as [|x a IH]; simpl; intros; [reflexivity|rewrite IH; reflexivity]. Qed.

(* ------------------------------------------------------------------ colon handling *)
Lemma prefix_colon : forall c r, prefix ":" (String c r) = Ascii.eqb ":" c.
Proof.
  intros c r. cbn [prefix]. destruct (ascii_dec ":" c) as [E|E].
  - subst. destruct r; reflexivity.
  - symmetry. apply Ascii.eqb_neq. exact E.
Qed.

Lemma index0_cons : forall s1 b r, index 0 s1 (String b r) =
  if prefix s1 (String b r) then Some 0%nat else match index 0 s1 r with Some n => Some (S n) | None => None end.
Proof. reflexivity. Qed.

Lemma okcb_colon : forall c, okcb c = true -> Ascii.eqb ":" c = false.
Proof. intros c H. apply okcb_spec in H. apply Ascii.eqb_neq. intro E. subst. tauto. Qed.

Lemma index_colon_none : forall s, goodb s = true -> index 0 ":" s = None.
Proof.
  induction s as [|c r IH]; intros H; [reflexivity|].
  cbn [goodb] in H. apply andb_true_iff in H as [Hc Hr].
  rewrite index0_cons, prefix_colon, (okcb_colon c Hc), (IH Hr). reflexivity.
Qed.

Lemma index_colon_app : forall s, goodb s = true -> index 0 ":" (s +++ ":") = Some (String.length s).
Proof.
  induction s as [|c r IH]; intros H; [reflexivity|].
  cbn [goodb] in H. apply andb_true_iff in H as [Hc Hr].
  change (String c r +++ ":") with (String c (r +++ ":")).
  rewrite index0_cons, prefix_colon, (okcb_colon c Hc), (IH Hr). reflexivity.
Qed.

Lemma substring_prefix : forall s t, substring 0 (String.length s) (s +++ t) = s.
Proof.
  induction s as [|c r IH]; intros t; simpl.
  - destruct t; reflexivity.
  - rewrite IH. reflexivity.
Qed.

Lemma strip_colon_app : forall s, goodb s = true -> strip_colon (s +++ ":") = s.
Proof. intros s H. unfold strip_colon. rewrite (index_colon_app s H). apply substring_prefix. Qed.

Lemma strip_colon_good : forall s, goodb s = true -> strip_colon s = s.
Proof. intros s H. unfold strip_colon. rewrite (index_colon_none s H). reflexivity. Qed.

Lemma ends_colon_app : forall s, goodb s = true -> ends_colon (s +++ ":") = true.
Proof.
  intros s H. unfold ends_colon. rewrite (index_colon_app s H), slength_app.
  replace (String.length s + String.length ":")%nat with (S (String.length s)) by (simpl; lia).
  apply Nat.eqb_refl.
Qed.

Lemma ends_colon_good : forall s, goodb s = true -> ends_colon s = false.
Proof. intros s H. unfold ends_colon. rewrite (index_colon_none s H). reflexivity. Qed.

Lemma nice_colon_token : forall s, nice s -> token (s +++ ":").
Proof.
  intros s [Hne Hg]. split.
  - destruct s; [contradiction|discriminate].
  - apply no_space_app; [apply goodb_no_space; exact Hg|simpl; split; [discriminate|exact I]].
Qed.

(* ------------------------------------------------------------------ joined lists *)
Lemma join_sp_cons2 : forall x y l, join_sp (x :: y :: l) = x +++ " " +++ join_sp (y :: l).
Proof. reflexivity. Qed.

Lemma join_app : forall l1 l2, l1 <> [] -> l2 <> [] -> join_sp (l1 ++ l2) = join_sp l1 +++ " " +++ join_sp l2.
Proof.
  induction l1 as [|x l1 IH]; intros l2 H1 H2; [contradiction|].
  destruct l1 as [|x' l1].
  - destruct l2 as [|y l2]; [contradiction|]. reflexivity.
  - change ((x :: x' :: l1) ++ l2) with (x :: x' :: (l1 ++ l2)).
    rewrite join_sp_cons2. change (x' :: l1 ++ l2) with ((x' :: l1) ++ l2).
    rewrite IH by (try discriminate; exact H2). rewrite join_sp_cons2. rewrite !sapp_assoc. reflexivity.
Qed.

Lemma join_concat : forall L, Forall (fun l => l <> []) L -> join_sp (map join_sp L) = join_sp (concat L).
Proof.
  induction L as [|l L IH]; intros H; [reflexivity|].
  inversion H as [|l' L' Hl HL]; subst. destruct L as [|l2 L].
  - simpl. rewrite app_nil_r. reflexivity.
  - change (map join_sp (l :: l2 :: L)) with (join_sp l :: join_sp l2 :: map join_sp L).
    rewrite join_sp_cons2. change (join_sp l2 :: map join_sp L) with (map join_sp (l2 :: L)).
    rewrite (IH HL). change (concat (l :: l2 :: L)) with (l ++ concat (l2 :: L)).
    rewrite join_app; [reflexivity|exact Hl|].
    inversion HL; subst. simpl. destruct l2; [contradiction|discriminate].
Qed.

Lemma tokens_concat : forall L, Forall (fun l => l <> [] /\ Forall token l) L ->
  split_ws (join_sp (map join_sp L)) = concat L.
Proof.
  intros L H. rewrite join_concat.
  - apply split_join. apply Forall_concat. eapply Forall_impl; [|exact H]. intros l [_ Hl]; exact Hl.
  - eapply Forall_impl; [|exact H]. intros l [Hl _]; exact Hl.
Qed.

(* ------------------------------------------------------------------ cell_measures *)
Lemma measure_item : forall m n, m +++ ": " +++ n = join_sp [m +++ ":"; n].
Proof. intros. unfold join_sp; simpl. rewrite sapp_assoc. reflexivity. Qed.

Lemma pairs_of_flat : forall (ps : list (string * string)),
  pairs_of (concat (map (fun p => [fst p +++ ":"; snd p]) ps)) = map (fun p => (fst p +++ ":", snd p)) ps.
Proof. induction ps as [|p ps IH]; [reflexivity|]. simpl. rewrite IH. reflexivity. Qed.

Lemma measures_tokens : forall ps, Forall (fun p => nice (fst p) /\ nice (snd p)) ps ->
  pairs_of (split_ws (join_sp (map (fun p => fst p +++ ": " +++ snd p) ps))) =
  map (fun p => (fst p +++ ":", snd p)) ps.
Proof.
  intros ps H.
  replace (map (fun p => fst p +++ ": " +++ snd p) ps)
     with (map join_sp (map (fun p => [fst p +++ ":"; snd p]) ps)).
  - rewrite tokens_concat; [apply pairs_of_flat|].
    apply Forall_map. eapply Forall_impl; [|exact H]. intros p [H1 H2]. split; [discriminate|].
    constructor; [apply nice_colon_token; exact H1|]. constructor; [apply nice_token; exact H2|constructor].
  - rewrite map_map. apply map_ext. intros p. symmetry. apply measure_item.
Qed.

(* ------------------------------------------------------------------ cell_methods *)
Lemma concat_empty_cons : forall x l, String.concat "" (x :: l) = x +++ String.concat "" l.
Proof. intros x [|y l]; simpl; [rewrite append_empty_r; reflexivity|reflexivity]. Qed.

Lemma cm_item : forall (ns : list string) meth,
  String.concat "" (map (fun n => n +++ ": ") ns) +++ meth = join_sp (map (fun n => n +++ ":") ns ++ [meth]).
Proof.
  induction ns as [|n ns IH]; intros meth; [reflexivity|].
  change (map (fun n0 => n0 +++ ": ") (n :: ns)) with ((n +++ ": ") :: map (fun n0 => n0 +++ ": ") ns).
  rewrite concat_empty_cons, sapp_assoc, IH.
  change (map (fun n0 => n0 +++ ":") (n :: ns) ++ [meth]) with ((n +++ ":") :: (map (fun n0 => n0 +++ ":") ns ++ [meth])).
  destruct (map (fun n0 => n0 +++ ":") ns ++ [meth]) as [|y l] eqn:E.
  - destruct (map (fun n0 => n0 +++ ":") ns); discriminate.
  - rewrite join_sp_cons2. rewrite !sapp_assoc. reflexivity.
Qed.

Lemma parse_cms_item : forall ns meth rest cur,
  Forall (fun n => goodb n = true) ns -> goodb meth = true ->
  parse_cms ((map (fun n => n +++ ":") ns ++ [meth]) ++ rest) cur = (cur ++ ns, meth) :: parse_cms rest [].
Proof.
  induction ns as [|n ns IH]; intros meth rest cur Hns Hm.
  - simpl. rewrite (ends_colon_good meth Hm), app_nil_r. reflexivity.
  - inversion Hns; subst.
    change ((map (fun n0 => n0 +++ ":") (n :: ns) ++ [meth]) ++ rest)
      with ((n +++ ":") :: ((map (fun n0 => n0 +++ ":") ns ++ [meth]) ++ rest)).
    cbn [parse_cms]. rewrite (ends_colon_app n) by assumption.
    rewrite (strip_colon_app n) by assumption.
    rewrite (IH meth rest (cur ++ [n])) by assumption.
    rewrite <- app_assoc. reflexivity.
Qed.

Lemma parse_cms_all : forall (ms : list (list string * string)),
  Forall (fun m => Forall (fun n => goodb n = true) (fst m) /\ goodb (snd m) = true) ms ->
  parse_cms (concat (map (fun m => map (fun n => n +++ ":") (fst m) ++ [snd m]) ms)) [] = ms.
Proof.
  induction ms as [|m ms IH]; intros H; [reflexivity|].
  inversion H as [|m' ms' [H1 H2] Hr]; subst. simpl.
  rewrite parse_cms_item by assumption. rewrite (IH Hr). destruct m; reflexivity.
Qed.

Lemma cms_tokens : forall (ms : list (list string * string)),
  Forall (fun m => Forall nice (fst m) /\ nice (snd m)) ms ->
  parse_cms (split_ws (join_sp (map (fun m => String.concat "" (map (fun n => n +++ ": ") (fst m)) +++ snd m) ms))) [] = ms.
Proof.
  intros ms H.
  replace (map (fun m => String.concat "" (map (fun n => n +++ ": ") (fst m)) +++ snd m) ms)
     with (map join_sp (map (fun m => map (fun n => n +++ ":") (fst m) ++ [snd m]) ms)).
  - rewrite tokens_concat.
    + apply parse_cms_all. eapply Forall_impl; [|exact H]. intros m [H1 H2]. split; [|apply H2].
      eapply Forall_impl; [|exact H1]. intros n Hn; apply Hn.
    + apply Forall_map. eapply Forall_impl; [|exact H]. intros m [H1 H2]. split.
      * destruct (map (fun n => n +++ ":") (fst m)); discriminate.
      * apply Forall_app. split.
        -- apply Forall_map. eapply Forall_impl; [|exact H1]. intros n Hn. apply nice_colon_token; exact Hn.
        -- constructor; [apply nice_token; exact H2|constructor].
  - rewrite map_map. apply map_ext. intros m. symmetry. apply cm_item.
Qed.

(* ------------------------------------------------------------------ lookups *)
Lemma assoc_app_some : forall {A} k (l l' : list (string * A)) v, assoc k l = Some v -> assoc k (l ++ l') = Some v.
Proof.
  induction l as [|[k' x] l IH]; simpl; intros l' v H; [discriminate|].
  destruct (String.eqb k k'); [exact H|apply IH; exact H].
Qed.

Lemma assoc_app_none : forall {A} k (l l' : list (string * A)), ~ In k (map fst l) -> assoc k (l ++ l') = assoc k l'.
Proof.
  induction l as [|[k' x] l IH]; simpl; intros l' H; [reflexivity|].
  destruct (String.eqb k k') eqn:E.
  - apply String.eqb_eq in E. subst. exfalso. apply H. left; reflexivity.
  - apply IH. intro Hin. apply H. right; exact Hin.
Qed.

Lemma assoc_in : forall {A} k (l : list (string * A)) v, assoc k l = Some v -> In k (map fst l).
Proof.
  induction l as [|[k' x] l IH]; simpl; intros v H; [discriminate|].
  destruct (String.eqb k k') eqn:E; [apply String.eqb_eq in E; left; congruence|right; eapply IH; exact H].
Qed.

Lemma at_inj : forall a b, "@" +++ a = "@" +++ b -> a = b.
Proof. intros a b H. inversion H. reflexivity. Qed.

Lemma good_not_at : forall s n, goodb s = true -> s <> "@" +++ n.
Proof. intros s n H E. subst. discriminate H. Qed.
