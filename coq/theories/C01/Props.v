(* C01 - the property theorems, nothing else.

   The skeleton mapping of the core fragment (wf, C01.RtSteps): one field; domain axes; data over some of them; per
   axis at most one dimension coordinate (coordinate variable, or scalar coordinate variable on a size-1 axis
   the data do not span); auxiliary coordinates over data axes, numeric or string valued; bounds; cell
   measures; field ancillaries; cell methods; netCDF names set or unset; every write option.

   C01_exactly_one and C01_roundtrip_core are proved for EVERY well-formed skeleton and EVERY option record by
   induction over the axis list / the construct lists with an invariant of the writer state
   (RtWriter, RtSteps, RtAxis, RtPhases, RtSummary) and a reading of the resulting dataset (RtReader).

   Names kept (second deepening pass, RtNames.v): the invariant "a set name is unused when it is requested" is
   KInv R w - every name in use contains an underscore or is one of the underscore-free bases R requested so far
   (the allocator only ever returns  base  or  base_k).  It is proved to be preserved by every primitive of the
   writer state and used for (a) request histories of any length (C01_names_kept_in_any_run, exact guard:
   C01_names_kept_twice_refuted) and (b) the cell-measure / field-ancillary phases of write_skel
   (C01_names_kept_measures_ancillaries: every set name is the name of the variable written and of the attribute
   entry at the construct's position).  Still NOT proved: KInv threaded through the axis loop / bounds /
   auxiliary-coordinate loop of write_skel (the step lemmas alloc_K, add_dim_K, ... are there; missing is the
   bookkeeping of role dimensions), hence the whole-skeleton statement C01_names_kept; the oracle checks the names
   of every case.  The dimension name of bounds is kept since C01-fix3-3 (superseded code: Refuted.v,
   C01_bounds_dimension_name_old_refuted).

   Third pass (RtClass.v): the model has the storage kind of a variable (numeric / char / netCDF string, decided by
   fmt and string: vlen, skind), the writer's scalar coordinate branch for a 1-d auxiliary coordinate on an axis the
   data do not span (write_aux, scalar_axis), the reader's rule for scalar coordinate variables (scalar_class) and
   the reader's implied (uncompressed) dimensions for data compressed by gathering (implied, compress_of,
   coord_candidates; the census counts list variables as referenced).  C01_scalar_coordinate_classification,
   C01_scalar_coordinates_option_grid, C01_coordinates_skip_implied_dimensions and C01_gathered_coordinates_example
   say that written-then-read classification is the identity there; the two seeded variants are refuted in
   Refuted.v (C01_scalar_class_char_only_refuted, C01_coordinates_own_dimensions_refuted) with their exact guards.
   The induction proofs (wf) still require auxiliary coordinates over data axes: the scalar string branch is covered
   by the two theorems above and evaluated case by case (Run.check_types), not by C01_roundtrip_core. *)
From CfdmV Require Import Common.Base C01.Model C01.Lemmas C01.RtStrings C01.RtWriter C01.RtSteps C01.RtAxis
  C01.RtPhases C01.RtSummary C01.RtReader C01.Run C01.RtGuard C01.RtNames C01.RtClass.

Open Scope string_scope.
Open Scope list_scope.

(* NetCDFWrite._netcdf_name: for every base name without blanks and every set of names in use
   (of any size), the name returned is not in use. *)
Theorem C01_name_allocator_fresh :
  forall base used, no_space base -> ~ In (netcdf_name base used) used.
Proof. exact netcdf_name_fresh. Qed.
Print Assumptions C01_name_allocator_fresh.

(* ... and a name that is free is kept as it is: a netCDF name that had been set survives. *)
Theorem C01_name_allocator_keeps_free_name :
  forall base used, no_space base -> ~ In base used -> netcdf_name base used = base.
Proof. exact netcdf_name_keeps_unused. Qed.
Print Assumptions C01_name_allocator_keeps_free_name.

(* Blanks are replaced after the uniqueness test, so with a blank the guarantee is lost. *)
Theorem C01_name_allocator_blank_refuted :
  exists base used, In (netcdf_name base used) used.
Proof. exact netcdf_name_space_refuted. Qed.
Print Assumptions C01_name_allocator_blank_refuted.

(* One allocation step of the writer: the name is new, it is recorded, names in use stay in
   use, and no variable or dimension is touched. *)
Theorem C01_alloc_step :
  forall base w n w', no_space base -> alloc base w = (n, w') ->
  ~ In n (used w) /\ In n (used w') /\ incl (used w) (used w') /\ w_vars w' = w_vars w /\ w_dims w' = w_dims w.
Proof. exact alloc_fresh. Qed.
Print Assumptions C01_alloc_step.

(* coordinates / ancillary_variables / cell_measures / dimensions attributes: splitting the
   blank-joined list of names gives back exactly the names, for every list of non-empty blank-free
   names (the allocator only produces such names). *)
Theorem C01_attribute_tokens_roundtrip :
  forall l, Forall token l -> split_ws (join_sp l) = l.
Proof. exact split_join. Qed.
Print Assumptions C01_attribute_tokens_roundtrip.

(* String data stored as characters with a trailing string-length dimension read back unchanged,
   for every width at least the longest string. *)
Theorem C01_char_codec :
  forall w l, Forall (fun s => no_nul s /\ (String.length s <= w)%nat) l ->
  chartostring (stringtochar l w) = l.
Proof. exact char_codec. Qed.
Print Assumptions C01_char_codec.

Theorem C01_char_codec_trailing_nul_refuted :
  exists w l, chartostring (stringtochar l w) <> l.
Proof. exact char_codec_trailing_nul_refuted. Qed.
Print Assumptions C01_char_codec_trailing_nul_refuted.

(* compress, shuffle, fletcher32, endian, hdf5_chunks do not occur in the data-model mapping, and fmt / string
   only through "are strings stored as netCDF strings" (vlen): two option records that agree on `coordinates' and
   on vlen give the same dataset skeleton. *)
Theorem C01_options_irrelevant :
  forall o o' f, o_coordinates o = o_coordinates o' -> vlen o = vlen o' -> write_skel o f = write_skel o' f.
Proof. exact options_irrelevant. Qed.
Print Assumptions C01_options_irrelevant.

(* ------------------------------------------------------------------ the round trip of the core fragment *)

(* The reader's reference census of the dataset written for any well-formed skeleton leaves exactly
   one variable unreferenced, and it is the data variable (written last, over the data axes, no bounds):
   exactly one field construct is read. *)
Theorem C01_exactly_one :
  forall o f, wf f ->
  exists vs dvar, d_vars (write_skel o f) = vs ++ [dvar] /\ data_vars (write_skel o f) = [dvar] /\
                  length (v_dims dvar) = length (f_data_axes f) /\ attr "bounds" dvar = None.
Proof. exact exactly_one_core. Qed.
Print Assumptions C01_exactly_one.

(* read_skel (write_skel o f) is one construct r, and r is f up to names: there is an injective labelling
   lab of the axes of f such that (iso) the data of r span lab of the data axes in the same order, the
   axes of r are the labelled axes of f with their sizes and unlimited flags (spanned axes first, then
   the size-1 axes of the scalar coordinates), the metadata constructs of r are, one for one (Forall2,
   in the order expected_cons), those of f with the same type, the same axes under lab, bounds present
   exactly when f has them, the same measure, and the cell methods are those of f over the labelled axes. *)
Theorem C01_roundtrip_core :
  forall o f, wf f ->
  exists r lab, read_skel (write_skel o f) = [r] /\ iso f lab r /\
    (forall a a', a < naxes f -> a' < naxes f -> lab a = lab a' -> a = a').
Proof. exact roundtrip_core. Qed.
Print Assumptions C01_roundtrip_core.

(* expected_cons lists every metadata construct of f (and nothing else) when no two dimension
   coordinates share an axis: no construct is dropped or invented by the round trip. *)
Theorem C01_every_construct_read_back :
  forall f, wf f -> dim_unique f -> forall c, In c (f_cons f) <-> In c (expected_cons f).
Proof. exact every_construct_expected. Qed.
Print Assumptions C01_every_construct_read_back.

(* non-vacuity: a skeleton with an unlimited coordinate variable with bounds, a scalar coordinate, a 2-d
   auxiliary coordinate with bounds, a string-valued auxiliary coordinate, a cell measure, a field
   ancillary and two cell methods is well formed *)
Theorem C01_wellformed_example : wf ex_skel /\ dim_unique ex_skel.
Proof. exact ex_skel_wf. Qed.
Print Assumptions C01_wellformed_example.

(* ------------------------------------------------------------------ names kept *)

(* "A set name is unused when it is requested", for ANY history of name requests from ANY writer state whose names
   in use contain an underscore or belong to R: the i-th request is answered with its base b itself when b has no
   underscore, is not in R and was not requested earlier in the history. *)
Theorem C01_names_kept_in_any_run :
  forall bs R w, KInv R w -> Forall nice bs ->
  forall i b, nth_error bs i = Some b -> noundb b = true -> ~ In b R -> ~ In b (firstn i bs) ->
  nth_error (fst (alloc_all bs w)) i = Some b.
Proof. exact names_kept_in_any_run. Qed.
Print Assumptions C01_names_kept_in_any_run.

(* the guard is exact: a base requested a second time comes back with a suffix *)
Theorem C01_names_kept_twice_refuted :
  exists bs i b, nth_error bs i = Some b /\ noundb b = true /\ nth_error (fst (alloc_all bs w0)) i <> Some b.
Proof. exact names_kept_twice_refuted. Qed.
Print Assumptions C01_names_kept_twice_refuted.

(* one step: the invariant is re-established by an allocation, and a new underscore-free base is returned as it is *)
Theorem C01_names_invariant_step :
  forall R base w n w', KInv R w -> nice base -> alloc base w = (n, w') ->
  KInv (base :: R) w' /\ (noundb base = true -> ~ In base R -> n = base).
Proof.
  intros R base w n w' HK Hb Ha. split.
  - eapply alloc_K; [exact HK|exact Hb|exact Ha|intros x Hx; right; exact Hx|right; left; reflexivity].
  - intros Hu Hn. eapply alloc_keep; eassumption.
Qed.
Print Assumptions C01_names_invariant_step.

(* The cell-measure and the field-ancillary loops of write_skel (fold_left (write_plain d) cs), for a list of
   constructs of any length, from any state satisfying the invariant: when the set netCDF variable names are
   pairwise different, underscore-free and not among the bases R requested before (which contain the default name d
   and the standard names), every construct that has a set name n is written as a variable named n, and the entry of
   the cell_measures / ancillary_variables attribute at its position is built from n. *)
Theorem C01_names_kept_measures_ancillaries :
  forall d cs R w l, KInv R w -> nice d -> In d R ->
  (forall c, In c cs -> nice_opt (c_std c) /\ nice_opt (c_ncvar c) /\ incl (oset (c_std c)) R) ->
  NoDup (flat_map (fun c => oset (c_ncvar c)) cs) ->
  (forall n, In n (flat_map (fun c => oset (c_ncvar c)) cs) -> noundb n = true /\ ~ In n R) ->
  let r := fold_left (write_plain d) cs (w, l) in
  KInv (rev (flat_map (fun c => oset (c_ncvar c)) cs) ++ R) (fst r) /\
  exists ents, snd r = l ++ ents /\ length ents = length cs /\
    forall i c n, nth_error cs i = Some c -> c_ncvar c = Some n ->
      nth_error ents i = Some (named_entry c n) /\ In n (map v_name (w_vars (fst r))).
Proof. exact write_plain_names. Qed.
Print Assumptions C01_names_kept_measures_ancillaries.

(* The same under the executable guard C01.Run.check_wf, which the harness evaluates on every in-fragment case
   the implementation ran on (so the cases compared with cfdm lie inside the domain of the theorems):
   one construct, isomorphic, injective labelling, and every construct of f is among those read. *)
Theorem C01_roundtrip_checked :
  forall o f, check_wf (o, f) = true ->
  exists r lab, read_skel (write_skel o f) = [r] /\ iso f lab r /\
    (forall a a', a < naxes f -> a' < naxes f -> lab a = lab a' -> a = a') /\
    (forall c, In c (f_cons f) <-> In c (expected_cons f)).
Proof. exact roundtrip_checked. Qed.
Print Assumptions C01_roundtrip_checked.

(* ------------------------------------------------------------------ third pass: the reader's classification rules *)

(* A 1-d auxiliary coordinate on a size-1 axis that the data do not span is written as a scalar coordinate variable
   (for ANY writer state, options, skeleton): one new variable, named in `coordinates', registered for its axis, and
   the reader's rule for scalar coordinate variables (numeric -> dimension coordinate, char or netCDF string ->
   auxiliary coordinate) classifies it as an auxiliary coordinate exactly when it is string valued - under every
   format and string option.  So string-valued scalar coordinates keep their construct type; numeric auxiliary ones
   do not (open finding unspanned-size1-axis:auxiliary-becomes-dimension-coordinate). *)
Theorem C01_scalar_coordinate_classification :
  forall o f w c a, scalar_axis f c = Some a ->
  exists v, In v (w_vars (write_aux o f w c)) /\ In (v_name v) (w_coords (write_aux o f w c)) /\
    nat_assoc a (w_axscalar (write_aux o f w c)) = Some (v_name v) /\
    scalar_class (v_kind v) = match c_strlen c with Some _ => CAux | None => CDim end.
Proof. exact scalar_coordinate_classification. Qed.
Print Assumptions C01_scalar_coordinate_classification.

(* the same through the whole model, for the six formats x string in {T, F}: a string-valued auxiliary coordinate
   and a numeric dimension coordinate, each alone on a size-1 axis the data do not span, are read back as an
   auxiliary and a dimension coordinate on axes of their own *)
Theorem C01_scalar_coordinates_option_grid :
  forall o, In o option_grid ->
  types_read o sc_skel = [[(CDim, "longitude", ["longitude"]); (CDim, "height", ["@height"]);
                           (CAux, "platform_name", ["@platform_name"])]].
Proof. exact scalar_grid. Qed.
Print Assumptions C01_scalar_coordinates_option_grid.

(* The names of the `coordinates' attribute that are read as auxiliary / scalar coordinates are exactly those that
   are not IMPLIED dimensions of the data variable; a dimension replaced by a list dimension (compression by
   gathering) is implied, so its coordinate variable is never read a second time as an auxiliary coordinate -
   whatever the attribute lists (write option coordinates=True). *)
Theorem C01_coordinates_skip_implied_dimensions :
  forall d v,
  (forall n, In n (coord_candidates d v) <-> In n (tokens "coordinates" v) /\ ~ In n (implied d (v_dims v))) /\
  (forall x l n, In x (v_dims v) -> compress_of d x = Some l -> In n l -> ~ In n (coord_candidates d v)) /\
  (forall x, In x (v_dims v) -> compress_of d x = None -> ~ In x (coord_candidates d v)).
Proof.
  intros d v. split; [intros n; apply coord_candidates_spec|split].
  - intros x l n. apply implied_dimension_not_candidate.
  - intros x. apply own_dimension_not_candidate.
Qed.
Print Assumptions C01_coordinates_skip_implied_dimensions.

(* a gathered field as cfdm writes it with coordinates=True: tas(time, landpoint), landpoint:compress = "lat lon",
   coordinates = "time lat lon aux0": read as data over (time, lat, lon) with three dimension coordinates and the
   gathered auxiliary coordinate over (lat, lon) - nothing else *)
Theorem C01_gathered_coordinates_example :
  implied gathered_ds (v_dims gathered_tas) = ["time"; "lat"; "lon"] /\
  coord_candidates gathered_ds gathered_tas = ["aux0"] /\
  coord_candidates_own gathered_ds gathered_tas = ["lat"; "lon"; "aux0"] /\
  map (fun r => (rs_data_axes r, map (fun c => (r_type c, r_ncvar c, r_axes c)) (rs_cons r))) (read_skel gathered_ds) =
    [(["time"; "lat"; "lon"], [(CDim, "time", ["time"]); (CDim, "lat", ["lat"]); (CDim, "lon", ["lon"]);
                               (CAux, "aux0", ["lat"; "lon"])])].
Proof. exact gathered_example. Qed.
Print Assumptions C01_gathered_coordinates_example.
