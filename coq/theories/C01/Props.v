(* C01 - the property theorems, nothing else.

   The skeleton mapping of the core fragment (wf, C01.RtSteps): one field; domain axes; data over some of them; per
   axis at most one dimension coordinate (coordinate variable, or scalar coordinate variable on a size-1 axis
   the data do not span); auxiliary coordinates over data axes, numeric or string valued; bounds; cell
   measures; field ancillaries; cell methods; netCDF names set or unset; every write option.

   C01_exactly_one and C01_roundtrip_core are proved for EVERY well-formed skeleton and EVERY option record by
   induction over the axis list / the construct lists with an invariant of the writer state
   (RtWriter, RtSteps, RtAxis, RtPhases, RtSummary) and a reading of the resulting dataset (RtReader).

   Still NOT proved: that every netCDF name that had been set is the name read back
   (C01_names_kept: needs "a set name is unused when it is requested", i.e. set names pairwise distinct
   and different from every default name; C01_name_allocator_keeps_free_name is the step lemma).  For the
   netCDF dimension name of bounds the full statement is false of the faithful model:
   C01_bounds_dimension_name_refuted (known finding bounds-dimension-name-shared-by-size); exact guard:
   no bounds construct written earlier has the same number of vertices. *)
From CfdmV Require Import Common.Base C01.Model C01.Lemmas C01.RtStrings C01.RtWriter C01.RtSteps C01.RtAxis
  C01.RtPhases C01.RtSummary C01.RtReader C01.Run C01.RtGuard.

Open Scope string_scope.
Open Scope list_scope.

(* NetCDFWrite._netcdf_name: for every base name without blanks and every set of names in use
   (of any size), the name returned is not in use. *)
Theorem C01_name_allocator_fresh :
  forall base used, no_space base -> ~ In (netcdf_name base used) used.
Proof. exact netcdf_name_fresh. Qed.
Print Assumptions C01_name_allocator_fresh.

(* ... and a name that is free is kept as it is: a netCDF name that had been set survives. *)
Theorem C01_name_allocator_keeps_free_name :
  forall base used, no_space base -> ~ In base used -> netcdf_name base used = base.
Proof. exact netcdf_name_keeps_unused. Qed.
Print Assumptions C01_name_allocator_keeps_free_name.

(* Blanks are replaced after the uniqueness test, so with a blank the guarantee is lost. *)
Theorem C01_name_allocator_blank_refuted :
  exists base used, In (netcdf_name base used) used.
Proof. exact netcdf_name_space_refuted. Qed.
Print Assumptions C01_name_allocator_blank_refuted.

(* One allocation step of the writer: the name is new, it is recorded, names in use stay in
   use, and no variable or dimension is touched. *)
Theorem C01_alloc_step :
  forall base w n w', no_space base -> alloc base w = (n, w') ->
  ~ In n (used w) /\ In n (used w') /\ incl (used w) (used w') /\ w_vars w' = w_vars w /\ w_dims w' = w_dims w.
Proof. exact alloc_fresh. Qed.
Print Assumptions C01_alloc_step.

(* coordinates / ancillary_variables / cell_measures / dimensions attributes: splitting the
   blank-joined list of names gives back exactly the names, for every list of non-empty blank-free
   names (the allocator only produces such names). *)
Theorem C01_attribute_tokens_roundtrip :
  forall l, Forall token l -> split_ws (join_sp l) = l.
Proof. exact split_join. Qed.
Print Assumptions C01_attribute_tokens_roundtrip.

(* String data stored as characters with a trailing string-length dimension read back unchanged,
   for every width at least the longest string. *)
Theorem C01_char_codec :
  forall w l, Forall (fun s => no_nul s /\ (String.length s <= w)%nat) l ->
  chartostring (stringtochar l w) = l.
Proof. exact char_codec. Qed.
Print Assumptions C01_char_codec.

Theorem C01_char_codec_trailing_nul_refuted :
  exists w l, chartostring (stringtochar l w) <> l.
Proof. exact char_codec_trailing_nul_refuted. Qed.
Print Assumptions C01_char_codec_trailing_nul_refuted.

(* fmt, compress, shuffle, fletcher32, endian, hdf5_chunks do not occur in the data-model mapping:
   two option records that agree on `coordinates' give the same dataset skeleton. *)
Theorem C01_options_irrelevant :
  forall o o' f, o_coordinates o = o_coordinates o' -> write_skel o f = write_skel o' f.
Proof. exact options_irrelevant. Qed.
Print Assumptions C01_options_irrelevant.

(* ------------------------------------------------------------------ the round trip of the core fragment *)

(* The reader's reference census of the dataset written for any well-formed skeleton leaves exactly
   one variable unreferenced, and it is the data variable (written last, over the data axes, no bounds):
   exactly one field construct is read. *)
Theorem C01_exactly_one :
  forall o f, wf f ->
  exists vs dvar, d_vars (write_skel o f) = vs ++ [dvar] /\ data_vars (write_skel o f) = [dvar] /\
                  length (v_dims dvar) = length (f_data_axes f) /\ attr "bounds" dvar = None.
Proof. exact exactly_one_core. Qed.
Print Assumptions C01_exactly_one.

(* read_skel (write_skel o f) is one construct r, and r is f up to names: there is an injective labelling
   lab of the axes of f such that (iso) the data of r span lab of the data axes in the same order, the
   axes of r are the labelled axes of f with their sizes and unlimited flags (spanned axes first, then
   the size-1 axes of the scalar coordinates), the metadata constructs of r are, one for one (Forall2,
   in the order expected_cons), those of f with the same type, the same axes under lab, bounds present
   exactly when f has them, the same measure, and the cell methods are those of f over the labelled axes. *)
Theorem C01_roundtrip_core :
  forall o f, wf f ->
  exists r lab, read_skel (write_skel o f) = [r] /\ iso f lab r /\
    (forall a a', a < naxes f -> a' < naxes f -> lab a = lab a' -> a = a').
Proof. exact roundtrip_core. Qed.
Print Assumptions C01_roundtrip_core.

(* expected_cons lists every metadata construct of f (and nothing else) when no two dimension
   coordinates share an axis: no construct is dropped or invented by the round trip. *)
Theorem C01_every_construct_read_back :
  forall f, wf f -> dim_unique f -> forall c, In c (f_cons f) <-> In c (expected_cons f).
Proof. exact every_construct_expected. Qed.
Print Assumptions C01_every_construct_read_back.

(* non-vacuity: a skeleton with an unlimited coordinate variable with bounds, a scalar coordinate, a 2-d
   auxiliary coordinate with bounds, a string-valued auxiliary coordinate, a cell measure, a field
   ancillary and two cell methods is well formed *)
Theorem C01_wellformed_example : wf ex_skel /\ dim_unique ex_skel.
Proof. exact ex_skel_wf. Qed.
Print Assumptions C01_wellformed_example.

(* The same under the executable guard C01.Run.check_wf, which the harness evaluates on every in-fragment case
   the implementation ran on (so the cases compared with cfdm lie inside the domain of the theorems):
   one construct, isomorphic, injective labelling, and every construct of f is among those read. *)
Theorem C01_roundtrip_checked :
  forall o f, check_wf (o, f) = true ->
  exists r lab, read_skel (write_skel o f) = [r] /\ iso f lab r /\
    (forall a a', a < naxes f -> a' < naxes f -> lab a = lab a' -> a = a') /\
    (forall c, In c (f_cons f) <-> In c (expected_cons f)).
Proof. exact roundtrip_checked. Qed.
Print Assumptions C01_roundtrip_checked.
