(* C01 - the property theorems, nothing else.

   The full statement of the property on the core fragment,

     C01_roundtrip_core : forall o f, wf f ->
        read_skel (write_skel o f) = [relabel (axis_labels o f) (fill_names o f)]
        (exactly one construct; every axis index replaced by a distinct label; unset names filled,
         set names kept)

   is NOT proved here (time): it is evaluated per generated case by C01.Run.check_one / check_write /
   check_read against the implementation, and the pieces it rests on are the theorems below:
   the name allocator never hands out a used name and keeps a free one (so set names survive and
   variables stay distinct), reference attributes parse back to the names they were assembled
   from, the char storage of strings is invertible, and no other write option reaches the mapping. *)
From CfdmV Require Import Common.Base C01.Model C01.Lemmas.
Open Scope string_scope.
Open Scope list_scope.

(* NetCDFWrite._netcdf_name: for every base name without blanks and every set of names in use
   (of any size), the name returned is not in use. *)
Theorem C01_name_allocator_fresh :
  forall base used, no_space base -> ~ In (netcdf_name base used) used.
Proof. exact netcdf_name_fresh. Qed.
Print Assumptions C01_name_allocator_fresh.

(* ... and a name that is free is kept as it is: a netCDF name that had been set survives. *)
Theorem C01_name_allocator_keeps_free_name :
  forall base used, no_space base -> ~ In base used -> netcdf_name base used = base.
Proof. exact netcdf_name_keeps_unused. Qed.
Print Assumptions C01_name_allocator_keeps_free_name.

(* Blanks are replaced after the uniqueness test, so with a blank the guarantee is lost. *)
Theorem C01_name_allocator_blank_refuted :
  exists base used, In (netcdf_name base used) used.
Proof. exact netcdf_name_space_refuted. Qed.
Print Assumptions C01_name_allocator_blank_refuted.

(* One allocation step of the writer: the name is new, it is recorded, names in use stay in
   use, and no variable or dimension is touched. *)
Theorem C01_alloc_step :
  forall base w n w', no_space base -> alloc base w = (n, w') ->
  ~ In n (used w) /\ In n (used w') /\ incl (used w) (used w') /\ w_vars w' = w_vars w /\ w_dims w' = w_dims w.
Proof. exact alloc_fresh. Qed.
Print Assumptions C01_alloc_step.

(* coordinates / ancillary_variables / cell_measures / dimensions attributes: splitting the
   blank-joined list of names gives back exactly the names, for every list of non-empty blank-free
   names (the allocator only produces such names). *)
Theorem C01_attribute_tokens_roundtrip :
  forall l, Forall token l -> split_ws (join_sp l) = l.
Proof. exact split_join. Qed.
Print Assumptions C01_attribute_tokens_roundtrip.

(* String data stored as characters with a trailing string-length dimension read back unchanged,
   for every width at least the longest string. *)
Theorem C01_char_codec :
  forall w l, Forall (fun s => no_nul s /\ (String.length s <= w)%nat) l ->
  chartostring (stringtochar l w) = l.
Proof. exact char_codec. Qed.
Print Assumptions C01_char_codec.

Theorem C01_char_codec_trailing_nul_refuted :
  exists w l, chartostring (stringtochar l w) <> l.
Proof. exact char_codec_trailing_nul_refuted. Qed.
Print Assumptions C01_char_codec_trailing_nul_refuted.

(* fmt, compress, shuffle, fletcher32, endian, hdf5_chunks do not occur in the data-model mapping:
   two option records that agree on `coordinates' give the same dataset skeleton. *)
Theorem C01_options_irrelevant :
  forall o o' f, o_coordinates o = o_coordinates o' -> write_skel o f = write_skel o' f.
Proof. exact options_irrelevant. Qed.
Print Assumptions C01_options_irrelevant.
