(* C01 - round trip proof, part 7: reading what the writer left. *)
From CfdmV Require Import Common.Base C01.Model C01.Lemmas C01.RtStrings C01.RtWriter C01.RtSteps C01.RtAxis
  C01.RtPhases C01.RtSummary.
Open Scope string_scope.
Open Scope list_scope.
Ltac splits := repeat match goal with |- _ /\ _ => split end.

Lemma filter_all : forall {A} (p : A -> bool) l, (forall x, In x l -> p x = true) -> filter p l = l.
Proof.
  induction l as [|x l IH]; intros H; [reflexivity|]. simpl. rewrite (H x (or_introl eq_refl)).
  rewrite IH; [reflexivity|]. intros y Hy. apply H. right; exact Hy.
Qed.

Lemma filter_none : forall {A} (p : A -> bool) l, (forall x, In x l -> p x = false) -> filter p l = [].
Proof.
  induction l as [|x l IH]; intros H; [reflexivity|]. simpl. rewrite (H x (or_introl eq_refl)).
  apply IH. intros y Hy. apply H. right; exact Hy.
Qed.

Lemma nat_assoc_inj : forall {A} (l : list (nat * A)) a a' x,
  NoDup (map snd l) -> nat_assoc a l = Some x -> nat_assoc a' l = Some x -> a = a'.
Proof.
  induction l as [|[k y] l IH]; simpl; intros a a' x Hnd H1 H2; [discriminate|].
  inversion Hnd as [|? ? Hy Hr]; subst.
  assert (Hin : forall b z, nat_assoc b l = Some z -> In z (map snd l)).
  { clear. induction l as [|[k y] l IH]; simpl; intros b z H; [discriminate|].
    destruct (Nat.eqb b k); [inversion H; left; reflexivity|right; eapply IH; exact H]. }
  destruct (Nat.eqb a k) eqn:E1; destruct (Nat.eqb a' k) eqn:E2.
  - apply Nat.eqb_eq in E1, E2. congruence.
  - inversion H1; subst. exfalso. apply Hy. eapply Hin; exact H2.
  - inversion H2; subst. exfalso. apply Hy. eapply Hin; exact H1.
  - eapply IH; eassumption.
Qed.

Lemma nat_assoc_in : forall {A} (l : list (nat * A)) b z, nat_assoc b l = Some z -> In z (map snd l).
Proof.
  induction l as [|[k y] l IH]; simpl; intros b z H; [discriminate|].
  destruct (Nat.eqb b k); [inversion H; left; reflexivity|right; eapply IH; exact H].
Qed.

Lemma entries_fanc : forall cs ns, (forall c, In c cs -> c_type c = CFanc) -> length ns = length cs -> entries cs ns = ns.
Proof.
  unfold entries. induction cs as [|c cs IH]; intros [|n ns] H L; simpl in *; try discriminate; [reflexivity|].
  unfold entry at 1. rewrite (H c (or_introl eq_refl)). rewrite IH; [reflexivity| |lia].
  intros c' Hc'. apply H. right; exact Hc'.
Qed.

Lemma entries_meas : forall cs ns, (forall c, In c cs -> c_type c = CMeasure) -> length ns = length cs ->
  entries cs ns = map (fun p => fst p +++ ": " +++ snd p) (combine (map c_measure cs) ns).
Proof.
  unfold entries. induction cs as [|c cs IH]; intros [|n ns] H L; simpl in *; try discriminate; [reflexivity|].
  unfold entry at 1. rewrite (H c (or_introl eq_refl)). rewrite IH; [reflexivity| |lia].
  intros c' Hc'. apply H. right; exact Hc'.
Qed.

Lemma is_type_spec : forall t c, is_type t c = true -> c_type c = t.
Proof. intros t c H. unfold is_type in H. destruct t, (c_type c); try discriminate; reflexivity. Qed.

(* ------------------------------------------------------------------ what "the same construct" means for skeletons *)
Definition unsp (f : skel) : list nat := filter (fun a => negb (inb a (f_data_axes f))) (seq 0 (naxes f)).
Definition dimcoords_of (f : skel) (l : list nat) : list con :=
  flat_map (fun a => match find_dimcoord a (f_cons f) with Some c => [c] | None => [] end) l.

Definition bounds_iso (c : con) (rc : rcon) : Prop :=
  match c_bounds c with
  | None => r_bounds rc = None /\ r_bdim rc = None
  | Some _ => (exists bn, r_bounds rc = Some bn) /\ (exists bd, r_bdim rc = Some bd)
  end.

Definition con_iso (lab : nat -> string) (c : con) (rc : rcon) : Prop :=
  r_type rc = c_type c /\ r_axes rc = map lab (c_axes c) /\ bounds_iso c rc /\
  r_measure rc = match c_type c with CMeasure => c_measure c | _ => "" end.

(* the constructs in the order the reader lists them *)
Definition expected_cons (f : skel) : list con :=
  dimcoords_of f (f_data_axes f) ++ dimcoords_of f (unsp f) ++ auxes f ++ meas f ++ fancs f.

Definition iso (f : skel) (lab : nat -> string) (r : rskel) : Prop :=
  rs_data_axes r = map lab (f_data_axes f) /\
  rs_axes r = map (fun a => (lab a, (a_size (ax_of f a), a_unlim (ax_of f a)))) (f_data_axes f)
              ++ map (fun a => (lab a, (1%Z, false))) (unsp f) /\
  Forall2 (con_iso lab) (expected_cons f) (rs_cons r) /\
  rs_cms r = map (fun m => (map lab (m_axes m), m_method m)) (f_cms f).

Section Reader.
Variables (o : options) (f : skel) (w : wstate) (xns mns ans : list string) (dvn : string).
Hypothesis Hwf : wf f.
Hypothesis S : summary o f w xns mns ans dvn.
Hypothesis Lm : length mns = length (meas f).
Hypothesis La : length ans = length (fancs f).

Definition dv := data_var f w mns ans dvn.
Definition D := {| d_dims := w_dims w; d_vars := w_vars w ++ [dv] |}.
Definition dd := map (dn w) (f_data_axes f).

Lemma dvn_vn : ~ In dvn (VN w).
Proof. intro H. apply (s_fresh _ _ _ _ _ _ _ S). apply used_vn; [apply (s_inv _ _ _ _ _ _ _ S)|exact H]. Qed.

Lemma dvn_dn : ~ In dvn (DN w).
Proof. intro H. apply (s_fresh _ _ _ _ _ _ _ S). apply used_dn; exact H. Qed.

Lemma find_var_fv : forall n, find_var n D = fv (w_vars w ++ [dv]) n.
Proof. reflexivity. Qed.

Lemma find_var_old : forall n v, fv (w_vars w) n = Some v -> find_var n D = Some v.
Proof. intros n v H. rewrite find_var_fv. apply fv_app_some; exact H. Qed.

Lemma find_var_in : forall v, In v (w_vars w) -> find_var (v_name v) D = Some v.
Proof. intros v H. apply find_var_old. apply fv_in_nodup; [apply (i_ndv w (s_inv _ _ _ _ _ _ _ S))|exact H]. Qed.

Lemma find_var_none : forall n, ~ In n (VN w) -> n <> dvn -> find_var n D = None.
Proof.
  intros n H1 H2. rewrite find_var_fv, fv_app_none by exact H1. unfold fv; simpl.
  destruct (String.eqb dvn n) eqn:E; [apply String.eqb_eq in E; congruence|reflexivity].
Qed.

Lemma find_var_inv : forall n v, find_var n D = Some v -> v_name v = n /\ (In v (w_vars w) \/ v = dv).
Proof.
  intros n v H. rewrite find_var_fv in H. apply fv_name in H as [H1 H2]. split; [exact H1|].
  apply in_app_or in H2 as [H2|[H2|[]]]; [left; exact H2|right; symmetry; exact H2].
Qed.

Lemma vn_nice : forall n, In n (VN w) -> nice n.
Proof. intros n H. pose proof (s_inv _ _ _ _ _ _ _ S) as HI. apply (i_nice w HI). apply (i_vn w HI). exact H. Qed.

(* ------------------------------------------------------------------ axes *)
Lemma data_lt : forall a, In a (f_data_axes f) -> a < naxes f.
Proof. intros a H. apply (wf_data_lt f Hwf); exact H. Qed.

Lemma data_ax : forall a, In a (f_data_axes f) ->
  nat_assoc a (w_axdim w) = Some (dn w a) /\ nat_assoc a (w_axscalar w) = None /\
  assoc (dn w a) (w_dims w) = Some (a_size (ax_of f a), a_unlim (ax_of f a)) /\
  match find_dimcoord a (f_cons f) with
  | Some c => cdesc (w_vars w) c (dn w a) [dn w a]
  | None => ~ In (dn w a) (VN w)
  end /\ In (dn w a) (DN w) /\ nice (dn w a).
Proof.
  intros a Ha. pose proof (s_axdesc _ _ _ _ _ _ _ S a (data_lt a Ha)) as H. unfold axdesc in H.
  rewrite (proj2 (inb_In a _) Ha) in H. destruct H as [d [H1 [H2 [H3 H4]]]].
  assert (E : dn w a = d) by (unfold dn; rewrite H1; reflexivity). rewrite E. splits; try assumption.
  - eapply assoc_in; exact H3.
  - apply (ax_nice w (s_ax _ _ _ _ _ _ _ S)). eapply nat_assoc_in; exact H1.
Qed.

Lemma unsp_ax : forall a, a < naxes f -> inb a (f_data_axes f) = false ->
  exists c, find_dimcoord a (f_cons f) = Some c /\ nat_assoc a (w_axscalar w) = Some (sn w a) /\
            cdesc (w_vars w) c (sn w a) [] /\ ~ In (sn w a) (DN w) /\ In (sn w a) (VN w).
Proof.
  intros a Ha Hi. pose proof (s_axdesc _ _ _ _ _ _ _ S a Ha) as H. unfold axdesc in H. rewrite Hi in H.
  destruct (wf_unspanned f Hwf a Ha Hi) as [[c Ec] _]. rewrite Ec in H. destruct H as [s [H1 [H2 [H3 _]]]].
  assert (E : sn w a = s) by (unfold sn; rewrite H1; reflexivity). rewrite E. exists c. splits; try assumption; try reflexivity.
  eapply cdesc_in_vn; exact H2.
Qed.

Lemma unsp_kind : forall a, a < naxes f -> inb a (f_data_axes f) = false ->
  exists v, fv (w_vars w) (sn w a) = Some v /\ v_kind v = KNum.
Proof.
  intros a Ha Hi. pose proof (s_axdesc _ _ _ _ _ _ _ S a Ha) as H. unfold axdesc in H. rewrite Hi in H.
  destruct (wf_unspanned f Hwf a Ha Hi) as [[c Ec] _]. rewrite Ec in H. destruct H as [s [H1 [_ [_ H4]]]].
  assert (E : sn w a = s) by (unfold sn; rewrite H1; reflexivity). rewrite E. exact H4.
Qed.

Lemma dd_dn : forall x, In x dd -> In x (DN w).
Proof. intros x H. unfold dd in H. apply in_map_iff in H as [a [E Ha]]. subst. apply (data_ax a Ha). Qed.

Lemma dims_of_dn : forall l, dims_of w l = map (dn w) l.
Proof. reflexivity. Qed.

Lemma dv_dims : v_dims dv = dd.
Proof. reflexivity. Qed.

(* ------------------------------------------------------------------ attributes of the data variable *)
Lemma dv_attr_generic : forall (l1 l2 l3 l4 : list string),
  let a := opt_attr "cell_measures" l1 ++ opt_attr "coordinates" l2 ++ opt_attr "ancillary_variables" l3 ++ opt_attr "cell_methods" l4 in
  assoc "cell_measures" a = match l1 with [] => None | _ => Some (join_sp l1) end /\
  assoc "coordinates" a = match l2 with [] => None | _ => Some (join_sp l2) end /\
  assoc "ancillary_variables" a = match l3 with [] => None | _ => Some (join_sp l3) end /\
  assoc "cell_methods" a = match l4 with [] => None | _ => Some (join_sp l4) end /\
  assoc "bounds" a = None /\ assoc "compress" a = None.
Proof. intros [|? ?] [|? ?] [|? ?] [|? ?]; simpl; repeat split; reflexivity. Qed.

Lemma tokens_of_list : forall l, Forall token l ->
  match (match l with [] => None | _ => Some (join_sp l) end) with Some s => split_ws s | None => [] end = l.
Proof. intros [|x l] H; [reflexivity|]. apply split_join; exact H. Qed.

Lemma dv_tok_coords : tokens "coordinates" dv = w_coords w.
Proof.
  unfold tokens, attr, dv, data_var; simpl v_attrs.
  destruct (dv_attr_generic (entries (meas f) mns) (w_coords w) (entries (fancs f) ans) (map (cm_string w) (f_cms f)))
    as [_ [E _]]. rewrite E. apply tokens_of_list.
  apply Forall_forall. intros n Hn. apply nice_token. apply vn_nice.
  apply (i_coords w (s_inv _ _ _ _ _ _ _ S)). exact Hn.
Qed.

Lemma dv_bounds : attr "bounds" dv = None.
Proof.
  unfold attr, dv, data_var; simpl v_attrs.
  destruct (dv_attr_generic (entries (meas f) mns) (w_coords w) (entries (fancs f) ans) (map (cm_string w) (f_cms f)))
    as [_ [_ [_ [_ [E _]]]]]. exact E.
Qed.

Lemma dv_compress : attr "compress" dv = None.
Proof.
  unfold attr, dv, data_var; simpl v_attrs.
  destruct (dv_attr_generic (entries (meas f) mns) (w_coords w) (entries (fancs f) ans) (map (cm_string w) (f_cms f)))
    as [_ [_ [_ [_ [_ E]]]]]. exact E.
Qed.

Lemma pdesc_in : forall cs ns, Forall2 (fun c n => pdesc (w_vars w) n (dims_of w (c_axes c))) cs ns ->
  forall n, In n ns -> In n (VN w).
Proof.
  intros cs ns H. induction H as [|c n cs ns [v [H1 _]] _ IH]; intros m Hm; [destruct Hm|].
  destruct Hm as [Hm|Hm]; [subst|apply IH; exact Hm].
  apply fv_name in H1 as [H1 H2]. rewrite <- H1. apply in_vars_vn; exact H2.
Qed.

Lemma mns_vn : forall n, In n mns -> In n (VN w).
Proof. apply (pdesc_in (meas f)). apply (s_meas _ _ _ _ _ _ _ S). Qed.
Lemma ans_vn : forall n, In n ans -> In n (VN w).
Proof. apply (pdesc_in (fancs f)). apply (s_anc _ _ _ _ _ _ _ S). Qed.

Lemma dv_tok_anc : tokens "ancillary_variables" dv = ans.
Proof.
  unfold tokens, attr, dv, data_var; simpl v_attrs.
  destruct (dv_attr_generic (entries (meas f) mns) (w_coords w) (entries (fancs f) ans) (map (cm_string w) (f_cms f)))
    as [_ [_ [E _]]]. rewrite E.
  rewrite entries_fanc; [|intros c Hc; apply filter_In in Hc as [_ Hc]; apply is_type_spec; exact Hc|exact La].
  apply tokens_of_list. apply Forall_forall. intros n Hn. apply nice_token. apply vn_nice. apply ans_vn; exact Hn.
Qed.

Lemma meas_type : forall c, In c (meas f) -> c_type c = CMeasure.
Proof. intros c Hc. apply filter_In in Hc as [_ Hc]. apply is_type_spec; exact Hc. Qed.

Lemma meas_nice : forall c, In c (meas f) -> nice (c_measure c).
Proof.
  intros c Hc. pose proof (meas_type c Hc) as Et. destruct (filter_wf f CMeasure c Hwf Hc) as [_ [_ [_ H]]].
  rewrite Et in H. apply H.
Qed.

Lemma dv_tok_meas : pairs_of (tokens "cell_measures" dv) =
  map (fun p => (fst p +++ ":", snd p)) (combine (map c_measure (meas f)) mns).
Proof.
  unfold tokens, attr, dv, data_var; simpl v_attrs.
  destruct (dv_attr_generic (entries (meas f) mns) (w_coords w) (entries (fancs f) ans) (map (cm_string w) (f_cms f)))
    as [E _]. rewrite E. rewrite (entries_meas (meas f) mns meas_type Lm).
  destruct (combine (map c_measure (meas f)) mns) as [|p ps] eqn:Ec; [reflexivity|].
  change (match map (fun p0 => fst p0 +++ ": " +++ snd p0) (p :: ps) with [] => None | _ :: _ => Some (join_sp (map (fun p0 => fst p0 +++ ": " +++ snd p0) (p :: ps))) end)
    with (Some (join_sp (map (fun p0 : string * string => fst p0 +++ ": " +++ snd p0) (p :: ps)))).
  apply measures_tokens. rewrite <- Ec. apply Forall_forall. intros [m n] Hp. simpl.
  pose proof (in_combine_l _ _ _ _ Hp) as H1. pose proof (in_combine_r _ _ _ _ Hp) as H2.
  apply in_map_iff in H1 as [c [E1 Hc]]. subst. split; [apply meas_nice; exact Hc|apply vn_nice; apply mns_vn; exact H2].
Qed.


(* ------------------------------------------------------------------ the reference census *)
Lemma coordvar_spec : forall dim c, is_coordvar D dim = Some c -> find_var dim D = Some c /\ v_dims c = [dim].
Proof.
  unfold is_coordvar. intros dim c H. destruct (find_var dim D) as [v|] eqn:E; [|discriminate].
  destruct (v_dims v) as [|x [|? ?]] eqn:Ed; try discriminate.
  destruct (String.eqb x dim) eqn:Ex; [|discriminate]. inversion H; subst.
  apply String.eqb_eq in Ex; subst. split; [reflexivity|exact Ed].
Qed.

Lemma coordvar_old : forall dim c, is_coordvar D dim = Some c -> In c (w_vars w) /\ v_name c = dim.
Proof.
  intros dim c H. apply coordvar_spec in H as [H1 H2]. apply find_var_inv in H1 as [E [Hin|Hdv]]; [split; assumption|].
  exfalso. subst c. rewrite dv_dims in H2. simpl in E.
  assert (Hd : In dim dd) by (rewrite H2; left; reflexivity).
  apply dvn_dn. rewrite E. apply dd_dn; exact Hd.
Qed.

Lemma coordvar_intro : forall v, In v (w_vars w) -> v_dims v = [v_name v] -> is_coordvar D (v_name v) = Some v.
Proof.
  intros v Hv Hd. unfold is_coordvar. rewrite (find_var_in v Hv), Hd, String.eqb_refl. reflexivity.
Qed.

Lemma old_attrs : forall v, In v (w_vars w) ->
  tokens "coordinates" v = [] /\ tokens "cell_measures" v = [] /\ tokens "ancillary_variables" v = [] /\
  (forall b, attr "bounds" v = Some b -> In b (VN w)).
Proof.
  intros v Hv. destruct (i_attrs w (s_inv _ _ _ _ _ _ _ S) v Hv) as [E|[b [E Hb]]]; unfold tokens, attr; rewrite E; simpl.
  - splits; try reflexivity. intros b Hb; discriminate.
  - splits; try reflexivity. intros b' Hb'. inversion Hb'; subst; exact Hb.
Qed.

Lemma in_dvars : forall v, In v (d_vars D) -> In v (w_vars w) \/ v = dv.
Proof. intros v H. simpl in H. apply in_app_or in H as [H|[H|[]]]; [left; exact H|right; symmetry; exact H]. Qed.

Lemma bounds_attr_vn : forall x b, In x (d_vars D) -> attr "bounds" x = Some b -> In b (VN w).
Proof.
  intros x b Hx Hb. destruct (in_dvars x Hx) as [H|H].
  - apply (old_attrs x H); exact Hb.
  - subst. rewrite dv_bounds in Hb. discriminate.
Qed.

(* the dataset written has no list variable: nothing is compressed by gathering *)
Lemma no_compress : has_compress D = false.
Proof.
  unfold has_compress. destruct (existsb _ (d_vars D)) eqn:E; [|reflexivity].
  apply existsb_exists in E as [v [Hv Hc]]. destruct (in_dvars v Hv) as [H|H].
  - destruct (i_attrs w (s_inv _ _ _ _ _ _ _ S) v H) as [Ea|[b [Ea _]]]; unfold attr in Hc; rewrite Ea in Hc; discriminate.
  - subst v. rewrite dv_compress in Hc. discriminate.
Qed.

Lemma implied_id : forall l, implied D l = l.
Proof. intros l. unfold implied. rewrite no_compress. reflexivity. Qed.

Lemma referenced_eq : referenced D = bounds_vars D ++ flat_map (refs_of D) (d_vars D).
Proof. unfold referenced, compress_vars. rewrite no_compress. reflexivity. Qed.

Definition co_of (v : var) : list string :=
  flat_map (fun dim => match is_coordvar D dim with
                       | Some c => if String.eqb (v_name c) (v_name v) then [] else [v_name c]
                       | None => [] end) (v_dims v).
Definition direct_of (v : var) : list string :=
  co_of v ++ tokens "coordinates" v ++ map snd (pairs_of (tokens "cell_measures" v)) ++ tokens "ancillary_variables" v.

Lemma refs_of_eq : forall v, refs_of D v = direct_of v ++
  flat_map (fun n => match find_var n D with
                     | Some x => match attr "bounds" x with Some b => [b] | None => [] end
                     | None => [] end) (direct_of v).
Proof. intros v. unfold refs_of, implied. rewrite no_compress. reflexivity. Qed.

Lemma map_snd_combine : forall {A B} (l1 : list A) (l2 : list B), length l2 = length l1 -> map snd (combine l1 l2) = l2.
Proof.
  induction l1 as [|x l1 IH]; intros [|y l2] H; simpl in *; try discriminate; [reflexivity|].
  rewrite IH by lia. reflexivity.
Qed.

Lemma dv_ms : map snd (pairs_of (tokens "cell_measures" dv)) = mns.
Proof.
  rewrite dv_tok_meas, map_map. simpl. rewrite <- (map_snd_combine (map c_measure (meas f)) mns) at 2.
  - reflexivity.
  - rewrite map_length. exact Lm.
Qed.

Lemma direct_vn : forall v n, In v (d_vars D) -> In n (direct_of v) -> In n (VN w).
Proof.
  intros v n Hv Hn. unfold direct_of in Hn. apply in_app_or in Hn as [Hn|Hn].
  - unfold co_of in Hn. apply in_flat_map in Hn as [dim [_ Hn]].
    destruct (is_coordvar D dim) as [c|] eqn:E; [|destruct Hn].
    destruct (String.eqb (v_name c) (v_name v)); [destruct Hn|]. destruct Hn as [Hn|[]]. subst.
    apply in_vars_vn. apply (coordvar_old dim c E).
  - destruct (in_dvars v Hv) as [H|H].
    + destruct (old_attrs v H) as [E1 [E2 [E3 _]]]. rewrite E1, E2, E3 in Hn. destruct Hn.
    + subst v. rewrite dv_tok_coords, dv_ms, dv_tok_anc in Hn.
      apply in_app_or in Hn as [Hn|Hn]; [apply (i_coords w (s_inv _ _ _ _ _ _ _ S)); exact Hn|].
      apply in_app_or in Hn as [Hn|Hn]; [apply mns_vn; exact Hn|apply ans_vn; exact Hn].
Qed.

Lemma referenced_vn : forall n, In n (referenced D) -> In n (VN w).
Proof.
  intros n H. rewrite referenced_eq in H. apply in_app_or in H as [H|H].
  - unfold bounds_vars in H. apply in_flat_map in H as [v [Hv Hn]].
    destruct (attr "bounds" v) as [b|] eqn:E; [|destruct Hn]. destruct Hn as [Hn|[]]. subst.
    eapply bounds_attr_vn; eassumption.
  - apply in_flat_map in H as [v [Hv Hn]]. rewrite refs_of_eq in Hn. apply in_app_or in Hn as [Hn|Hn].
    + eapply direct_vn; eassumption.
    + apply in_flat_map in Hn as [m [Hm Hn]]. destruct (find_var m D) as [x|] eqn:E; [|destruct Hn].
      destruct (attr "bounds" x) as [b|] eqn:Eb; [|destruct Hn]. destruct Hn as [Hn|[]]. subst.
      apply (bounds_attr_vn x); [|exact Eb]. apply find_var_inv in E as [_ [E|E]]; simpl.
      * apply in_or_app; left; exact E.
      * apply in_or_app; right; left; symmetry; exact E.
Qed.

Lemma dv_in : In dv (d_vars D).
Proof. simpl. apply in_or_app; right; left; reflexivity. Qed.

Lemma old_referenced : forall v, In v (w_vars w) -> In (v_name v) (referenced D).
Proof.
  intros v Hv. rewrite referenced_eq.
  assert (Hdirect : In (v_name v) (direct_of dv) -> In (v_name v) (bounds_vars D ++ flat_map (refs_of D) (d_vars D))).
  { intros H. apply in_or_app; right. apply in_flat_map. exists dv. split; [exact dv_in|].
    rewrite refs_of_eq. apply in_or_app; left; exact H. }
  destruct (s_ref _ _ _ _ _ _ _ S v Hv) as [H|[H|[[u [Hu Eu]]|[a [Ha [Hn Hd]]]]]].
  - apply Hdirect. unfold direct_of. rewrite dv_ms, dv_tok_anc. apply in_or_app; right. apply in_or_app; right. exact H.
  - apply Hdirect. unfold direct_of. rewrite dv_tok_coords. apply in_or_app; right. apply in_or_app; left. exact H.
  - apply in_or_app; left. unfold bounds_vars. apply in_flat_map. exists u. split.
    + simpl. apply in_or_app; left; exact Hu.
    + unfold attr. rewrite Eu. simpl. left; reflexivity.
  - apply Hdirect. unfold direct_of. apply in_or_app; left. unfold co_of. apply in_flat_map.
    exists (v_name v). split.
    + rewrite dv_dims. unfold dd. apply in_map_iff. exists a. split; [|exact Ha]. unfold dn. rewrite Hn. reflexivity.
    + rewrite (coordvar_intro v Hv Hd). simpl.
      destruct (String.eqb (v_name v) dvn) eqn:E; [|left; reflexivity].
      apply String.eqb_eq in E. exfalso. apply dvn_vn. rewrite <- E. apply in_vars_vn; exact Hv.
Qed.

Lemma exactly_one : data_vars D = [dv].
Proof.
  unfold data_vars. simpl d_vars. rewrite filter_app.
  rewrite filter_none.
  - simpl. destruct (mem dvn (referenced D)) eqn:E; [|reflexivity].
    apply mem_In in E. apply referenced_vn in E. exfalso. exact (dvn_vn E).
  - intros v Hv. apply negb_false_iff. apply mem_In. apply old_referenced; exact Hv.
Qed.

(* ------------------------------------------------------------------ reading the data variable *)
Definition lab (a : nat) : string := if inb a (f_data_axes f) then dn w a else "@" +++ sn w a.

Lemma lab_data : forall a, In a (f_data_axes f) -> lab a = dn w a.
Proof. intros a H. unfold lab. rewrite (proj2 (inb_In a _) H). reflexivity. Qed.

Lemma map_lab_data : forall l, incl l (f_data_axes f) -> map (dn w) l = map lab l.
Proof. intros l H. apply map_ext_in. intros a Ha. symmetry. apply lab_data. apply H; exact Ha. Qed.

Lemma mk_rcon_bounds : forall c v t axes m, bdesc (w_vars w) c v -> bounds_iso c (mk_rcon t D v axes m).
Proof.
  intros c v t axes m H. unfold bounds_iso, bdesc in *. destruct (c_bounds c) as [b|].
  - destruct H as [bv [bd [E1 [E2 [E3 E4]]]]]. unfold mk_rcon; simpl.
    assert (Ea : attr "bounds" v = Some (v_name bv)) by (unfold attr; rewrite E1; reflexivity).
    rewrite Ea, (find_var_old _ _ E2), E4. split; eexists; reflexivity.
  - unfold mk_rcon; simpl. assert (Ea : attr "bounds" v = None) by (unfold attr; rewrite H; reflexivity).
    rewrite Ea. split; reflexivity.
Qed.

Lemma mem_dd : forall a, In a (f_data_axes f) -> mem (dn w a) dd = true.
Proof. intros a H. apply mem_In. unfold dd. apply in_map; exact H. Qed.

Lemma sub_dims_data : forall l extra, incl l (f_data_axes f) -> (forall x, In x extra -> ~ In x dd) ->
  sub_dims (map (dn w) l ++ extra) dd = map (dn w) l.
Proof.
  intros l extra Hl He. unfold sub_dims. rewrite filter_app. rewrite filter_all, filter_none.
  - apply app_nil_r.
  - intros x Hx. apply mem_false. apply He; exact Hx.
  - intros x Hx. apply in_map_iff in Hx as [a [E Ha]]. subst. apply mem_dd. apply Hl; exact Ha.
Qed.

Definition g_dim (dim : string) : list rcon :=
  match is_coordvar D dim with Some c => [mk_rcon CDim D c [dim] ""] | None => [] end.

Lemma rv_dimcoords : forall l, incl l (f_data_axes f) ->
  Forall2 (con_iso lab) (dimcoords_of f l) (flat_map g_dim (map (dn w) l)).
Proof.
  induction l as [|a l IH]; intros Hl; [constructor|].
  assert (Ha : In a (f_data_axes f)) by (apply Hl; left; reflexivity).
  assert (Hl' : incl l (f_data_axes f)) by (intros x Hx; apply Hl; right; exact Hx).
  destruct (data_ax a Ha) as [H1 [H2 [H3 [H4 [H5 H6]]]]].
  unfold dimcoords_of. simpl. fold (dimcoords_of f l). unfold g_dim at 1.
  destruct (find_dimcoord a (f_cons f)) as [c|] eqn:Ef.
  - destruct H4 as [v [F1 [F2 F3]]].
    assert (Ec : is_coordvar D (dn w a) = Some v).
    { unfold is_coordvar. rewrite (find_var_old _ _ F1), F2, String.eqb_refl. reflexivity. }
    rewrite Ec. simpl. constructor; [|apply IH; exact Hl'].
    destruct (find_dimcoord_some _ _ _ Ef) as [_ [Et Ea]]. unfold con_iso. rewrite Et, Ea. splits.
    + reflexivity.
    + simpl. rewrite (lab_data a Ha). reflexivity.
    + apply mk_rcon_bounds; exact F3.
    + reflexivity.
  - assert (Ec : is_coordvar D (dn w a) = None).
    { unfold is_coordvar. rewrite find_var_none; [reflexivity|exact H4|]. intro E. apply dvn_dn. rewrite <- E. exact H5. }
    rewrite Ec. simpl. apply IH; exact Hl'.
Qed.

(* the coordinates attribute without the names of the data dimensions *)
Lemma coords_axes : forall l, (forall a, In a l -> a < naxes f) ->
  filter (fun n => negb (mem n dd)) (flat_map (cn o f w) l) =
  map (sn w) (filter (fun a => negb (inb a (f_data_axes f))) l).
Proof.
  induction l as [|a l IH]; intros Hl; [reflexivity|].
  simpl. rewrite filter_app, IH by (intros x Hx; apply Hl; right; exact Hx).
  unfold cn at 1. destruct (inb a (f_data_axes f)) eqn:Ei; simpl.
  - assert (Hm : mem (dn w a) dd = true) by (apply mem_dd; apply inb_In; exact Ei).
    destruct (find_dimcoord a (f_cons f)); [|reflexivity]. destruct (o_coordinates o); [|reflexivity].
    simpl. rewrite Hm. reflexivity.
  - destruct (unsp_ax a (Hl a (or_introl eq_refl)) Ei) as [c [Ec [_ [_ [Hnd _]]]]]. rewrite Ec. simpl.
    assert (Hm : mem (sn w a) dd = false) by (apply mem_false; intro Hx; apply Hnd; apply dd_dn; exact Hx).
    rewrite Hm. reflexivity.
Qed.

Lemma coords_aux : forall cs ns, Forall2 (auxdesc (map snd (w_axdim w)) w w) cs ns ->
  filter (fun n => negb (mem n dd)) ns = ns.
Proof.
  intros cs ns H. apply filter_all. intros n Hn. apply negb_true_iff. apply mem_false. intro Hx.
  induction H as [|c m cs ns [extra [_ [Hnd _]]] _ IH]; [destruct Hn|].
  destruct Hn as [Hn|Hn]; [subst; apply Hnd; apply dd_dn; exact Hx|apply IH; exact Hn].
Qed.

Lemma coords_eq : filter (fun n => negb (mem n dd)) (tokens "coordinates" dv) = map (sn w) (unsp f) ++ xns.
Proof.
  rewrite dv_tok_coords, (s_coords _ _ _ _ _ _ _ S), filter_app.
  rewrite coords_axes by (intros a Ha; apply in_seq in Ha; lia).
  rewrite (coords_aux _ _ (s_aux _ _ _ _ _ _ _ S)). reflexivity.
Qed.

Definition h_aux (n : string) : list rcon :=
  match find_var n D with
  | None => []
  | Some c => match sub_dims (v_dims c) dd with
              | [] => [mk_rcon (scalar_class (v_kind c)) D c ["@" +++ n] ""]
              | axes => [mk_rcon CAux D c axes ""]
              end
  end.

Definition k_scalar (n : string) : list (string * (Z * bool)) :=
  match find_var n D with
  | Some c => match sub_dims (v_dims c) dd with [] => [("@" +++ n, (1%Z, false))] | _ => [] end
  | None => [] end.

Lemma rv_scalars : forall l, (forall a, In a l -> a < naxes f /\ inb a (f_data_axes f) = false) ->
  Forall2 (con_iso lab) (dimcoords_of f l) (flat_map h_aux (map (sn w) l)) /\
  flat_map k_scalar (map (sn w) l) = map (fun a => (lab a, (1%Z, false))) l.
Proof.
  induction l as [|a l IH]; intros Hl; [split; [constructor|reflexivity]|].
  destruct (Hl a (or_introl eq_refl)) as [Ha Hi].
  destruct (IH (fun x Hx => Hl x (or_intror Hx))) as [IH1 IH2].
  destruct (unsp_ax a Ha Hi) as [c [Ec [Hs [[v [F1 [F2 F3]]] [Hnd Hvn]]]]].
  destruct (unsp_kind a Ha Hi) as [v' [F1' Fk]]. rewrite F1 in F1'. inversion F1'; subst v'; clear F1'.
  unfold dimcoords_of. simpl. fold (dimcoords_of f l). rewrite Ec.
  unfold h_aux at 1, k_scalar at 1. rewrite (find_var_old _ _ F1), F2, Fk. simpl. split.
  - constructor; [|exact IH1].
    destruct (find_dimcoord_some _ _ _ Ec) as [_ [Et Ea]]. unfold con_iso. rewrite Et, Ea. splits.
    + reflexivity.
    + simpl. unfold lab. rewrite Hi. reflexivity.
    + apply mk_rcon_bounds; exact F3.
    + reflexivity.
  - rewrite IH2. unfold lab at 2. rewrite Hi. reflexivity.
Qed.

Lemma dd_ax : forall x, In x dd -> In x (map snd (w_axdim w)).
Proof.
  intros x H. unfold dd in H. apply in_map_iff in H as [a [E Ha]]. subst.
  eapply nat_assoc_in. apply (data_ax a Ha).
Qed.

Lemma aux_wf : forall c, In c (auxes f) -> c_axes c <> [] /\ incl (c_axes c) (f_data_axes f) /\ c_type c = CAux.
Proof.
  intros c Hc. assert (Et : c_type c = CAux) by (apply filter_In in Hc as [_ Hc]; apply is_type_spec; exact Hc).
  destruct (filter_wf f CAux c Hwf Hc) as [_ [_ [_ H]]]. rewrite Et in H. tauto.
Qed.

Lemma rv_auxes : forall cs ns, incl cs (auxes f) -> Forall2 (auxdesc (map snd (w_axdim w)) w w) cs ns ->
  Forall2 (con_iso lab) cs (flat_map h_aux ns) /\ flat_map k_scalar ns = [].
Proof.
  intros cs ns Hcs H. induction H as [|c n cs ns [extra [[v [F1 [F2 F3]]] [Hnd [Hex _]]]] _ IH]; [split; [constructor|reflexivity]|].
  destruct (IH (fun x Hx => Hcs x (or_intror Hx))) as [IH1 IH2].
  destruct (aux_wf c (Hcs c (or_introl eq_refl))) as [Hne [Hin Et]].
  assert (Esub : sub_dims (v_dims v) dd = map (dn w) (c_axes c)).
  { rewrite F2, dims_of_dn. apply sub_dims_data; [exact Hin|]. intros x Hx Hd. apply (Hex x Hx). apply dd_ax; exact Hd. }
  simpl. unfold h_aux at 1, k_scalar at 1. rewrite (find_var_old _ _ F1), Esub.
  destruct (c_axes c) as [|a0 l0] eqn:Eax; [contradiction|]. simpl map at 1 2. cbv iota. split.
  - simpl. constructor; [|exact IH1]. unfold con_iso. rewrite Et, Eax. splits.
    + reflexivity.
    + simpl r_axes. rewrite <- Eax. rewrite <- Eax in Hin. change (dn w a0 :: map (dn w) l0) with (map (dn w) (a0 :: l0)).
      rewrite <- Eax. apply map_lab_data; exact Hin.
    + apply mk_rcon_bounds; exact F3.
    + reflexivity.
  - simpl. exact IH2.
Qed.

Definition h_meas (mn : string * string) : list rcon :=
  match find_var (snd mn) D with
  | Some c => [mk_rcon CMeasure D c (sub_dims (v_dims c) dd) (strip_colon (fst mn))]
  | None => [] end.

Definition h_anc (n : string) : list rcon :=
  match find_var n D with
  | Some c => [mk_rcon CFanc D c (sub_dims (v_dims c) dd) ""]
  | None => [] end.

Lemma plain_wf : forall t c, t = CMeasure \/ t = CFanc -> In c (filter (is_type t) (f_cons f)) ->
  c_type c = t /\ incl (c_axes c) (f_data_axes f) /\ c_bounds c = None.
Proof.
  intros t c Ht Hc. assert (Et : c_type c = t) by (apply filter_In in Hc as [_ Hc]; apply is_type_spec; exact Hc).
  destruct (filter_wf f t c Hwf Hc) as [_ [_ [_ H]]]. rewrite Et in H. destruct Ht; subst t; tauto.
Qed.

Lemma pdesc_bounds : forall c v t axes m, c_bounds c = None -> v_attrs v = [] -> bounds_iso c (mk_rcon t D v axes m).
Proof. intros c v t axes m Hc Hv. apply mk_rcon_bounds. unfold bdesc. rewrite Hc. exact Hv. Qed.

Lemma rv_meas : forall cs ns, incl cs (meas f) -> Forall2 (fun c n => pdesc (w_vars w) n (dims_of w (c_axes c))) cs ns ->
  Forall2 (con_iso lab) cs (flat_map h_meas (map (fun p => (fst p +++ ":", snd p)) (combine (map c_measure cs) ns))).
Proof.
  intros cs ns Hcs H. induction H as [|c n cs ns [v [F1 [F2 F3]]] _ IH]; [constructor|].
  specialize (IH (fun x Hx => Hcs x (or_intror Hx))).
  assert (Hc : In c (meas f)) by (apply Hcs; left; reflexivity).
  destruct (plain_wf CMeasure c (or_introl eq_refl) Hc) as [Et [Hin Hb]].
  simpl. unfold h_meas at 1. simpl. rewrite (find_var_old _ _ F1). simpl. constructor; [|exact IH].
  unfold con_iso. rewrite Et. splits.
  - reflexivity.
  - simpl r_axes. rewrite F2, dims_of_dn. rewrite <- (app_nil_r (map (dn w) (c_axes c))).
    rewrite sub_dims_data; [apply map_lab_data; exact Hin|exact Hin|intros x []].
  - apply pdesc_bounds; assumption.
  - simpl. apply strip_colon_app. apply (meas_nice c Hc).
Qed.

Lemma rv_ancs : forall cs ns, incl cs (fancs f) -> Forall2 (fun c n => pdesc (w_vars w) n (dims_of w (c_axes c))) cs ns ->
  Forall2 (con_iso lab) cs (flat_map h_anc ns).
Proof.
  intros cs ns Hcs H. induction H as [|c n cs ns [v [F1 [F2 F3]]] _ IH]; [constructor|].
  specialize (IH (fun x Hx => Hcs x (or_intror Hx))).
  assert (Hc : In c (fancs f)) by (apply Hcs; left; reflexivity).
  destruct (plain_wf CFanc c (or_intror eq_refl) Hc) as [Et [Hin Hb]].
  simpl. unfold h_anc at 1. rewrite (find_var_old _ _ F1). simpl. constructor; [|exact IH].
  unfold con_iso. rewrite Et. splits.
  - reflexivity.
  - simpl r_axes. rewrite F2, dims_of_dn. rewrite <- (app_nil_r (map (dn w) (c_axes c))).
    rewrite sub_dims_data; [apply map_lab_data; exact Hin|exact Hin|intros x []].
  - apply pdesc_bounds; assumption.
  - reflexivity.
Qed.

(* ------------------------------------------------------------------ cell methods *)
Definition cms_expected : list (list string * string) :=
  map (fun m => (map (cm_axis w) (m_axes m), m_method m)) (f_cms f).

Lemma cm_axis_data : forall a, In a (f_data_axes f) -> cm_axis w a = dn w a.
Proof. intros a Ha. unfold cm_axis. destruct (data_ax a Ha) as [_ [H2 _]]. rewrite H2. reflexivity. Qed.

Lemma cm_axis_unsp : forall a, a < naxes f -> inb a (f_data_axes f) = false -> cm_axis w a = sn w a.
Proof. intros a Ha Hi. unfold cm_axis. destruct (unsp_ax a Ha Hi) as [c [_ [H2 _]]]. rewrite H2. reflexivity. Qed.

Lemma cm_axis_nice : forall a, a < naxes f -> nice (cm_axis w a).
Proof.
  intros a Ha. destruct (inb a (f_data_axes f)) eqn:Ei.
  - apply inb_In in Ei. rewrite (cm_axis_data a Ei). apply (data_ax a Ei).
  - rewrite (cm_axis_unsp a Ha Ei). apply vn_nice. destruct (unsp_ax a Ha Ei) as [c [_ [_ [_ [_ H]]]]]. exact H.
Qed.

Lemma cm_strings : map (cm_string w) (f_cms f) =
  map (fun m => String.concat "" (map (fun n => n +++ ": ") (fst m)) +++ snd m) cms_expected.
Proof.
  unfold cms_expected. rewrite map_map. apply map_ext. intros m. unfold cm_string. simpl. rewrite map_map. reflexivity.
Qed.

Lemma dv_tok_cms : parse_cms (tokens "cell_methods" dv) [] = cms_expected.
Proof.
  unfold tokens, attr, dv, data_var; simpl v_attrs.
  destruct (dv_attr_generic (entries (meas f) mns) (w_coords w) (entries (fancs f) ans) (map (cm_string w) (f_cms f)))
    as [_ [_ [_ [E _]]]]. rewrite E. rewrite cm_strings.
  destruct cms_expected as [|m ms] eqn:Ec; [reflexivity|].
  change (match map (fun m0 => String.concat "" (map (fun n => n +++ ": ") (fst m0)) +++ snd m0) (m :: ms) with
          | [] => None | _ :: _ => Some (join_sp (map (fun m0 => String.concat "" (map (fun n => n +++ ": ") (fst m0)) +++ snd m0) (m :: ms))) end)
    with (Some (join_sp (map (fun m0 : list string * string => String.concat "" (map (fun n => n +++ ": ") (fst m0)) +++ snd m0) (m :: ms)))).
  apply cms_tokens. rewrite <- Ec. unfold cms_expected. apply Forall_map. apply Forall_forall. intros cm Hcm. simpl.
  destruct (wf_cms f Hwf cm Hcm) as [H1 H2]. split; [|exact H2].
  apply Forall_map. apply Forall_forall. intros a Ha. apply cm_axis_nice. apply H1; exact Ha.
Qed.

(* ------------------------------------------------------------------ the construct read back *)
Definition coords_read := filter (fun n => negb (mem n dd)) (tokens "coordinates" dv).

Lemma read_var_eq : read_var D dv =
  {| rs_ncvar := dvn; rs_data_axes := dd;
     rs_axes := map (fun dim => (dim, opt_or (assoc dim (w_dims w)) (0%Z, false))) dd ++ flat_map k_scalar coords_read;
     rs_cons := flat_map g_dim dd ++ flat_map h_aux coords_read
                ++ flat_map h_meas (pairs_of (tokens "cell_measures" dv))
                ++ flat_map h_anc (tokens "ancillary_variables" dv);
     rs_cms := [] |}.
Proof. unfold read_var, coord_candidates, implied. rewrite no_compress. reflexivity. Qed.

Lemma unsp_spec : forall a, In a (unsp f) <-> a < naxes f /\ inb a (f_data_axes f) = false.
Proof.
  intros a. unfold unsp. rewrite filter_In, in_seq, negb_true_iff. split; intros [H1 H2]; split; try assumption; lia.
Qed.

Lemma rs_axes_eq :
  map (fun dim => (dim, opt_or (assoc dim (w_dims w)) (0%Z, false))) dd ++ flat_map k_scalar coords_read =
  map (fun a => (lab a, (a_size (ax_of f a), a_unlim (ax_of f a)))) (f_data_axes f) ++ map (fun a => (lab a, (1%Z, false))) (unsp f).
Proof.
  unfold coords_read. rewrite coords_eq, flat_map_app.
  destruct (rv_scalars (unsp f) (fun a H => proj1 (unsp_spec a) H)) as [_ E1].
  destruct (rv_auxes (auxes f) xns (incl_refl _) (s_aux _ _ _ _ _ _ _ S)) as [_ E2].
  rewrite E1, E2, app_nil_r. f_equal. unfold dd. rewrite map_map. apply map_ext_in. intros a Ha.
  destruct (data_ax a Ha) as [_ [_ [H3 _]]]. rewrite H3, (lab_data a Ha). reflexivity.
Qed.

Lemma rs_cons_iso : Forall2 (con_iso lab) (expected_cons f)
  (flat_map g_dim dd ++ flat_map h_aux coords_read ++ flat_map h_meas (pairs_of (tokens "cell_measures" dv))
   ++ flat_map h_anc (tokens "ancillary_variables" dv)).
Proof.
  unfold expected_cons, coords_read. rewrite coords_eq, flat_map_app, dv_tok_meas, dv_tok_anc, <- app_assoc.
  apply Forall2_app; [apply rv_dimcoords; apply incl_refl|].
  apply Forall2_app; [apply (rv_scalars (unsp f) (fun a H => proj1 (unsp_spec a) H))|].
  apply Forall2_app; [apply (rv_auxes (auxes f) xns (incl_refl _) (s_aux _ _ _ _ _ _ _ S))|].
  apply Forall2_app; [apply (rv_meas (meas f) mns (incl_refl _) (s_meas _ _ _ _ _ _ _ S))|].
  apply (rv_ancs (fancs f) ans (incl_refl _) (s_anc _ _ _ _ _ _ _ S)).
Qed.

Lemma label_eq : forall a, a < naxes f -> cm_label (read_var D dv) (cm_axis w a) = lab a.
Proof.
  intros a Ha. unfold cm_label. rewrite read_var_eq. simpl rs_axes. rewrite rs_axes_eq, map_app, !map_map. simpl.
  unfold lab at 3. destruct (inb a (f_data_axes f)) eqn:Ei.
  - apply inb_In in Ei. rewrite (cm_axis_data a Ei).
    assert (Hm : mem ("@" +++ dn w a) (map lab (f_data_axes f) ++ map lab (unsp f)) = false).
    { apply mem_false. intro Hx. apply in_app_or in Hx as [Hx|Hx]; apply in_map_iff in Hx as [a' [E Ha']].
      - rewrite (lab_data a' Ha') in E. destruct (data_ax a' Ha') as [_ [_ [_ [_ [_ [_ Hg]]]]]].
        exact (good_not_at _ _ Hg E).
      - apply unsp_spec in Ha' as [Ha1 Ha2]. unfold lab in E. rewrite Ha2 in E. apply at_inj in E.
        destruct (unsp_ax a' Ha1 Ha2) as [c [_ [_ [_ [Hnd _]]]]]. apply Hnd. rewrite E. apply (data_ax a Ei). }
    match goal with |- (if ?b then _ else _) = _ => replace b with false; try reflexivity; try (symmetry; exact Hm) end.
  - rewrite (cm_axis_unsp a Ha Ei).
    assert (Hm : mem ("@" +++ sn w a) (map lab (f_data_axes f) ++ map lab (unsp f)) = true).
    { apply mem_In. apply in_or_app; right. apply in_map_iff. exists a. split.
      - unfold lab. rewrite Ei. reflexivity.
      - apply unsp_spec. split; assumption. }
    match goal with |- (if ?b then _ else _) = _ => replace b with true; try reflexivity; try (symmetry; exact Hm) end.
Qed.

Lemma roundtrip_D : exists r, read_skel D = [r] /\ iso f lab r /\ rs_ncvar r = dvn.
Proof.
  unfold read_skel. rewrite exactly_one. cbn [map]. rewrite read_var_eq. eexists. split; [reflexivity|]. split; [|reflexivity].
  unfold iso. simpl. splits.
  - unfold dd. apply map_ext_in. intros a Ha. symmetry. apply lab_data; exact Ha.
  - exact rs_axes_eq.
  - exact rs_cons_iso.
  - rewrite dv_tok_cms. unfold cms_expected. rewrite map_map. apply map_ext_in. intros m Hm. simpl. f_equal.
    rewrite map_map. apply map_ext_in. intros a Ha. rewrite <- read_var_eq. apply label_eq. apply (wf_cms f Hwf m Hm). exact Ha.
Qed.

Lemma lab_inj : forall a a', a < naxes f -> a' < naxes f -> lab a = lab a' -> a = a'.
Proof.
  intros a a' Ha Ha' E. unfold lab in E.
  destruct (inb a (f_data_axes f)) eqn:Ei; destruct (inb a' (f_data_axes f)) eqn:Ei'.
  - apply inb_In in Ei, Ei'. destruct (data_ax a Ei) as [H1 _]. destruct (data_ax a' Ei') as [H1' _].
    rewrite <- E in H1'. eapply nat_assoc_inj; [apply (ax_nd w (s_ax _ _ _ _ _ _ _ S))|exact H1|exact H1'].
  - apply inb_In in Ei. exfalso. eapply good_not_at; [|exact E]. apply (data_ax a Ei).
  - apply inb_In in Ei'. exfalso. eapply good_not_at; [|symmetry; exact E]. apply (data_ax a' Ei').
  - apply at_inj in E. destruct (unsp_ax a Ha Ei) as [c [_ [H1 _]]]. destruct (unsp_ax a' Ha' Ei') as [c' [_ [H1' _]]].
    rewrite <- E in H1'. eapply nat_assoc_inj; [apply (sc_nd w (s_ax _ _ _ _ _ _ _ S))|exact H1|exact H1'].
Qed.

End Reader.

(* ------------------------------------------------------------------ the theorems *)
Theorem exactly_one_core : forall o f, wf f ->
  exists vs dvar, d_vars (write_skel o f) = vs ++ [dvar] /\ data_vars (write_skel o f) = [dvar] /\
                  length (v_dims dvar) = length (f_data_axes f) /\ attr "bounds" dvar = None.
Proof.
  intros o f Hwf. destruct (writer_summary o f Hwf) as [w [xns [mns [ans [dvn [S [Lm [La [E _]]]]]]]]].
  exists (w_vars w), (dv f w mns ans dvn). rewrite E. splits.
  - reflexivity.
  - apply (exactly_one o f w xns mns ans dvn Hwf S Lm La).
  - simpl. unfold dims_of. apply map_length.
  - apply dv_bounds.
Qed.

Theorem roundtrip_core : forall o f, wf f ->
  exists r lab, read_skel (write_skel o f) = [r] /\ iso f lab r /\
    (forall a a', a < naxes f -> a' < naxes f -> lab a = lab a' -> a = a').
Proof.
  intros o f Hwf. destruct (writer_summary o f Hwf) as [w [xns [mns [ans [dvn [S [Lm [La [E _]]]]]]]]].
  destruct (roundtrip_D o f w xns mns ans dvn Hwf S Lm La) as [r [H1 [H2 _]]].
  exists r, (lab f w). rewrite E. splits; try assumption.
  apply (lab_inj o f w xns mns ans dvn Hwf S).
Qed.

(* every construct of the skeleton is among those the reader lists, and conversely *)
Definition dim_unique (f : skel) : Prop :=
  forall c1 c2, In c1 (f_cons f) -> In c2 (f_cons f) -> c_type c1 = CDim -> c_type c2 = CDim ->
                c_axes c1 = c_axes c2 -> c1 = c2.

Lemma find_dimcoord_exists : forall a cons c, In c cons -> c_type c = CDim -> c_axes c = [a] ->
  exists c', find_dimcoord a cons = Some c'.
Proof.
  intros a cons c Hc Ht Ha. unfold find_dimcoord.
  destruct (find _ cons) as [c'|] eqn:E; [exists c'; reflexivity|].
  exfalso. pose proof (find_none _ _ E c Hc) as H. simpl in H. rewrite Ht, Ha, Nat.eqb_refl in H. discriminate.
Qed.

Theorem every_construct_expected : forall f, wf f -> dim_unique f ->
  forall c, In c (f_cons f) <-> In c (expected_cons f).
Proof.
  intros f Hwf Hu c. unfold expected_cons. split.
  - intros Hc. destruct (c_type c) eqn:Et.
    + destruct (wf_cons f Hwf c Hc) as [_ [_ [_ H]]]. rewrite Et in H. destruct H as [[a [Ea La]] _].
      destruct (find_dimcoord_exists a (f_cons f) c Hc Et Ea) as [c' Ec'].
      destruct (find_dimcoord_some _ _ _ Ec') as [Hc' [Et' Ea']].
      assert (c' = c) by (apply Hu; try assumption; congruence). subst c'.
      destruct (inb a (f_data_axes f)) eqn:Ei.
      * apply in_or_app; left. unfold dimcoords_of. apply in_flat_map. exists a. split; [apply inb_In; exact Ei|].
        rewrite Ec'. left; reflexivity.
      * apply in_or_app; right. apply in_or_app; left. unfold dimcoords_of. apply in_flat_map. exists a. split.
        -- unfold unsp. apply filter_In. split; [apply in_seq; unfold naxes; lia|rewrite Ei; reflexivity].
        -- rewrite Ec'. left; reflexivity.
    + apply in_or_app; right. apply in_or_app; right. apply in_or_app; left.
      unfold auxes. apply filter_In. split; [exact Hc|unfold is_type; rewrite Et; reflexivity].
    + apply in_or_app; right. apply in_or_app; right. apply in_or_app; right. apply in_or_app; left.
      unfold meas. apply filter_In. split; [exact Hc|unfold is_type; rewrite Et; reflexivity].
    + apply in_or_app; right. apply in_or_app; right. apply in_or_app; right. apply in_or_app; right.
      unfold fancs. apply filter_In. split; [exact Hc|unfold is_type; rewrite Et; reflexivity].
  - intros H. repeat (apply in_app_or in H as [H|H]).
    + unfold dimcoords_of in H. apply in_flat_map in H as [a [_ H]].
      destruct (find_dimcoord a (f_cons f)) as [c'|] eqn:E; [|destruct H]. destruct H as [H|[]]. subst.
      apply (find_dimcoord_some _ _ _ E).
    + unfold dimcoords_of in H. apply in_flat_map in H as [a [_ H]].
      destruct (find_dimcoord a (f_cons f)) as [c'|] eqn:E; [|destruct H]. destruct H as [H|[]]. subst.
      apply (find_dimcoord_some _ _ _ E).
    + apply filter_In in H. apply H.
    + apply filter_In in H. apply H.
    + apply filter_In in H. apply H.
Qed.

(* the list the reader produces has no construct twice when the skeleton has none twice *)
(* non-vacuity: a skeleton with a coordinate variable with bounds, a scalar coordinate, a string-valued
   auxiliary coordinate with bounds-free data, a cell measure, a field ancillary and cell methods is well formed *)
Definition ex_axis (n : Z) (d : option string) (u : bool) := {| a_size := n; a_ncdim := d; a_unlim := u |}.
Definition ex_con (t : ctype) (axes : list nat) (std nv : option string) (b : option bnds) (sl : option Z) (m : string) :=
  {| c_type := t; c_axes := axes; c_std := std; c_ncvar := nv; c_bounds := b; c_strlen := sl; c_measure := m |}.
Definition ex_skel : skel :=
  {| f_std := Some "air_temperature"; f_ncvar := None;
     f_axes := [ex_axis 3 (Some "t") true; ex_axis 2 None false; ex_axis 1 None false];
     f_data_axes := [1%nat; 0%nat];
     f_cons := [ex_con CDim [0%nat] (Some "time") None (Some {| b_n := 2; b_ncvar := Some "tb"; b_ncdim := None |}) None "";
                ex_con CDim [2%nat] (Some "height") None None None "";
                ex_con CAux [1%nat; 0%nat] None (Some "lat") (Some {| b_n := 4; b_ncvar := None; b_ncdim := Some "nv" |}) None "";
                ex_con CAux [1%nat] None None None (Some 5%Z) "";
                ex_con CMeasure [0%nat; 1%nat] None None None None "area";
                ex_con CFanc [1%nat] (Some "air_temperature") None None None ""];
     f_cms := [{| m_axes := [0%nat; 2%nat]; m_method := "mean" |}; {| m_axes := []; m_method := "point" |}] |}.

Lemma nice_lit : forall s, (if goodb s then match s with EmptyString => false | _ => true end else false) = true -> nice s.
Proof. intros s H. destruct (goodb s) eqn:E; [|discriminate]. split; [intro Hs; subst; discriminate H|exact E]. Qed.

Example ex_skel_wf : wf ex_skel /\ dim_unique ex_skel.
Proof.
  split.
  - constructor; simpl.
    + repeat constructor; simpl; intuition discriminate.
    + intros a [H|[H|[]]]; subst; lia.
    + intros a Ha Hi. destruct a as [|[|[|a]]]; try discriminate; try lia.
      splits; try reflexivity. eexists; reflexivity.
    + intros c Hc. repeat (destruct Hc as [Hc|Hc]; [subst c; unfold con_wf, ex_con; simpl; splits;
        try exact I; try (apply nice_lit; reflexivity); try reflexivity; try discriminate;
        try (eexists; split; [reflexivity|lia]);
        try (intros x Hx; simpl in *; intuition)|]). destruct Hc.
    + intros m [H|[H|[]]]; subst; simpl; split; try (apply nice_lit; reflexivity); intros a Ha; simpl in Ha; intuition lia.
    + split; [apply nice_lit; reflexivity|exact I].
    + intros a [H|[H|[H|[]]]]; subst; simpl; try exact I. apply nice_lit; reflexivity.
  - intros c1 c2 H1 H2 T1 T2 E. simpl in H1, H2.
    repeat (destruct H1 as [H1|H1]; [subst c1|]); try destruct H1; try discriminate T1;
    repeat (destruct H2 as [H2|H2]; [subst c2|]); try destruct H2; try discriminate T2; try discriminate E; reflexivity.
Qed.

Example ex_skel_roundtrip :
  exists r, read_skel (write_skel o0 ex_skel) = [r] /\ length (rs_cons r) = 6%nat /\ length (rs_axes r) = 3%nat /\
            rs_cms r = [(["t"; "@height"], "mean"); ([], "point")].
Proof. eexists. split; [vm_compute; reflexivity|]. vm_compute. splits; reflexivity. Qed.

(* two 2-vertex bounds, the second with a netCDF dimension name set *)
Definition bd_skel : skel :=
  {| f_std := None; f_ncvar := None;
     f_axes := [ex_axis 3 None false; ex_axis 2 None false];
     f_data_axes := [0%nat; 1%nat];
     f_cons := [ex_con CDim [0%nat] (Some "time") None (Some {| b_n := 2; b_ncvar := None; b_ncdim := None |}) None "";
                ex_con CDim [1%nat] (Some "height") None (Some {| b_n := 2; b_ncvar := None; b_ncdim := Some "nv" |}) None ""];
     f_cms := [] |}.

Lemma bd_skel_wf : wf bd_skel.
Proof.
  constructor; simpl.
  - repeat constructor; simpl; intuition discriminate.
  - intros a [H|[H|[]]]; subst; lia.
  - intros a Ha Hi. destruct a as [|[|a]]; try discriminate; lia.
  - intros c Hc. repeat (destruct Hc as [Hc|Hc]; [subst c; unfold con_wf, ex_con; simpl; splits;
      try exact I; try (apply nice_lit; reflexivity); try reflexivity;
      try (eexists; split; [reflexivity|lia])|]). destruct Hc.
  - intros m [].
  - split; exact I.
  - intros a [H|[H|[]]]; subst; simpl; exact I.
Qed.

(* with C01-fix3-3 the dimension name set on the second of two 2-vertex bounds is kept (it was dropped by the
   superseded code: Refuted.v, C01_bounds_dimension_name_old_refuted) *)
Lemma bounds_dimension_name_kept_example :
  exists r, read_skel (write_skel o0 bd_skel) = [r] /\ exists rc, In rc (rs_cons r) /\ r_bdim rc = Some "nv".
Proof.
  eexists. split; [vm_compute; reflexivity|]. eexists. split; [right; left; reflexivity|]. reflexivity.
Qed.
