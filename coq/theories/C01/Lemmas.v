(* C01 - proofs. *)
From Coq Require Import DecimalString DecimalNat.
From CfdmV Require Import Common.Base C01.Model.
Open Scope string_scope.
Open Scope list_scope.

(* ------------------------------------------------------------------ strings *)
Fixpoint no_space (s : string) : Prop :=
  match s with EmptyString => True | String c r => c <> " "%char /\ no_space r end.

Lemma despace_id : forall s, no_space s -> despace s = s.
Proof.
  induction s as [|c r IH]; simpl; intros H; [reflexivity|].
  destruct H as [Hc Hr]. rewrite (IH Hr).
  destruct (Ascii.eqb c " ") eqn:E; [apply Ascii.eqb_eq in E; contradiction|reflexivity].
Qed.

Lemma despace_no_space : forall s, no_space (despace s).
Proof.
  induction s as [|c r IH]; simpl; [exact I|]. split; [|exact IH].
  destruct (Ascii.eqb c " ") eqn:E; [discriminate|]. intro H; subst. rewrite Ascii.eqb_refl in E. discriminate.
Qed.

Lemma mem_In : forall s l, mem s l = true <-> In s l.
Proof.
  intros s l; unfold mem; rewrite existsb_exists; split.
  - intros [x [Hx E]]. apply String.eqb_eq in E; subst; exact Hx.
  - intros H; exists s; split; [exact H|apply String.eqb_refl].
Qed.

Lemma mem_false : forall s l, mem s l = false <-> ~ In s l.
Proof.
  intros s l; split; intros H.
  - intro Hin. apply mem_In in Hin. congruence.
  - destruct (mem s l) eqn:E; [apply mem_In in E; contradiction|reflexivity].
Qed.

Lemma append_inj_l : forall p a b, p +++ a = p +++ b -> a = b.
Proof. induction p as [|c p IH]; simpl; intros a b H; [exact H|]. inversion H. apply IH; assumption. Qed.

Lemma nat_str_inj : forall a b, nat_str a = nat_str b -> a = b.
Proof.
  unfold nat_str; intros a b H.
  assert (E : Nat.to_uint a = Nat.to_uint b).
  { assert (Some (Nat.to_uint a) = Some (Nat.to_uint b)) as E0.
    { rewrite <- (NilEmpty.usu (Nat.to_uint a)), <- (NilEmpty.usu (Nat.to_uint b)), H. reflexivity. }
    inversion E0; reflexivity. }
  apply Unsigned.to_uint_inj; exact E.
Qed.

Definition cand (base : string) (k : nat) : string := base +++ "_" +++ nat_str k.

Lemma cand_inj : forall base j k, cand base j = cand base k -> j = k.
Proof.
  unfold cand; intros base j k H. apply append_inj_l in H. simpl in H. inversion H. apply nat_str_inj; assumption.
Qed.

(* ------------------------------------------------------------------ the allocator returns an unused name *)
Lemma first_free_0 : forall base used k, first_free base used k 0 = cand base k.
Proof. reflexivity. Qed.
Lemma first_free_S : forall base used k f, first_free base used k (S f) =
  if mem (cand base k) used then first_free base used (S k) f else cand base k.
Proof. reflexivity. Qed.
Lemma first_free_fresh_gen :
  forall base used fuel k acc,
    NoDup acc -> incl acc used -> (forall x, In x acc -> exists j, (j < k)%nat /\ x = cand base j) ->
    (length used <= length acc + fuel)%nat ->
    ~ In (first_free base used k fuel) used.
Proof.
  intros base used fuel; induction fuel as [|f IH]; intros k acc Hnd Hincl Hform Hlen.
  - rewrite first_free_0. intro Hin.
    assert (Hnd' : NoDup (cand base k :: acc)).
    { constructor; [|exact Hnd]. intro Hacc. destruct (Hform _ Hacc) as [j [Hj E]].
      apply cand_inj in E. lia. }
    assert (Hincl' : incl (cand base k :: acc) used).
    { intros x [Hx|Hx]; [subst; exact Hin|apply Hincl; exact Hx]. }
    pose proof (NoDup_incl_length Hnd' Hincl') as L. simpl in L. lia.
  - rewrite first_free_S. destruct (mem (cand base k) used) eqn:E.
    + apply mem_In in E.
      apply (IH (S k) (cand base k :: acc)).
      * constructor; [|exact Hnd]. intro Hacc. destruct (Hform _ Hacc) as [j [Hj E']].
        apply cand_inj in E'. lia.
      * intros x [Hx|Hx]; [subst; exact E|apply Hincl; exact Hx].
      * intros x [Hx|Hx]; [exists k; split; [lia|symmetry; exact Hx]|].
        destruct (Hform _ Hx) as [j [Hj E']]. exists j; split; [lia|exact E'].
      * simpl. lia.
    + apply mem_false in E. exact E.
Qed.

Lemma first_free_fresh : forall base used, ~ In (first_free base used 1 (length used)) used.
Proof.
  intros base used. apply (first_free_fresh_gen base used (length used) 1 []).
  - constructor.
  - intros x [].
  - intros x [].
  - simpl; lia.
Qed.

Lemma first_free_form : forall base used fuel k, exists j, first_free base used k fuel = cand base j.
Proof.
  intros base used fuel; induction fuel as [|f IH]; intros k.
  - exists k; reflexivity.
  - rewrite first_free_S. destruct (mem _ used); [apply IH|exists k; reflexivity].
Qed.

Lemma no_space_app : forall a b, no_space a -> no_space b -> no_space (a +++ b).
Proof. induction a as [|c a IH]; simpl; intros b Ha Hb; [exact Hb|]. destruct Ha; split; [assumption|apply IH; assumption]. Qed.

Lemma digits_no_space : forall d, no_space (NilEmpty.string_of_uint d).
Proof. induction d; simpl; try exact I; (split; [discriminate|exact IHd]). Qed.

Lemma cand_no_space : forall base k, no_space base -> no_space (cand base k).
Proof.
  intros base k H. unfold cand. apply no_space_app; [exact H|]. simpl. split; [discriminate|].
  apply digits_no_space.
Qed.

Lemma netcdf_name_fresh : forall base used, no_space base -> ~ In (netcdf_name base used) used.
Proof.
  intros base used Hns. unfold netcdf_name. destruct (mem base used) eqn:E.
  - destruct (first_free_form base used (length used) 1) as [j Ej].
    rewrite despace_id; [apply first_free_fresh|]. rewrite Ej. apply cand_no_space; exact Hns.
  - rewrite despace_id by exact Hns. apply mem_false; exact E.
Qed.

Lemma netcdf_name_keeps_unused : forall base used, no_space base -> ~ In base used -> netcdf_name base used = base.
Proof.
  intros base used Hns Hn. unfold netcdf_name. apply mem_false in Hn. rewrite Hn. apply despace_id; exact Hns.
Qed.

Lemma netcdf_name_no_space : forall base used, no_space (netcdf_name base used).
Proof. intros; unfold netcdf_name; apply despace_no_space. Qed.

(* the blank replacement happens after the uniqueness test: with a blank in the name the
   allocator can hand out a name that is already taken *)
Lemma netcdf_name_space_refuted : exists base used, In (netcdf_name base used) used.
Proof. exists "a b", ["a_b"]. vm_compute. left; reflexivity. Qed.

(* alloc: the new name is unused, recorded, and nothing else changes in the name tables *)
Lemma alloc_fresh : forall base w n w', no_space base -> alloc base w = (n, w') ->
  ~ In n (used w) /\ In n (used w') /\ incl (used w) (used w') /\ w_vars w' = w_vars w /\ w_dims w' = w_dims w.
Proof.
  intros base w n w' Hns H. unfold alloc in H. inversion H; subst; clear H. unfold used; simpl.
  split; [apply netcdf_name_fresh; exact Hns|]. split; [left; reflexivity|].
  split; [intros x Hx; right; exact Hx|split; reflexivity].
Qed.

(* ------------------------------------------------------------------ attribute strings *)
Definition token (s : string) : Prop := s <> EmptyString /\ no_space s.

Lemma append_single_assoc : forall cur c r, (cur +++ String c EmptyString) +++ r = cur +++ String c r.
Proof. induction cur as [|d cur IH]; simpl; intros; [reflexivity|rewrite IH; reflexivity]. Qed.

Lemma append_empty_r : forall s, s +++ EmptyString = s.
Proof. induction s as [|c s IH]; simpl; [reflexivity|rewrite IH; reflexivity]. Qed.

Lemma split_app : forall s cur rest, no_space s -> split_acc (s +++ rest) cur = split_acc rest (cur +++ s).
Proof.
  induction s as [|c s IH]; simpl; intros cur rest H.
  - rewrite append_empty_r; reflexivity.
  - destruct H as [Hc Hs]. destruct (Ascii.eqb c " ") eqn:E; [apply Ascii.eqb_eq in E; contradiction|].
    rewrite IH by exact Hs. rewrite append_single_assoc. reflexivity.
Qed.

Lemma split_end : forall s, token s -> split_acc EmptyString s = [s].
Proof. intros s [Hne _]. simpl. destruct s; [contradiction|reflexivity]. Qed.

Lemma split_blank : forall s r, token s -> split_acc (String " " r) s = s :: split_acc r EmptyString.
Proof. intros s r [Hne _]. simpl. destruct s; [contradiction|reflexivity]. Qed.

Lemma split_join : forall l, Forall token l -> split_ws (join_sp l) = l.
Proof.
  unfold split_ws, join_sp. induction l as [|x l IH]; intros H; [reflexivity|].
  inversion H as [|x' l' Hx Hl]; subst. destruct l as [|y l].
  - simpl. rewrite <- (append_empty_r x) at 1. rewrite split_app by apply Hx. simpl. apply split_end; exact Hx.
  - change (String.concat " " (x :: y :: l)) with (x +++ " " +++ String.concat " " (y :: l)).
    rewrite split_app by apply Hx. simpl (EmptyString +++ x).
    change (" " +++ String.concat " " (y :: l)) with (String " " (String.concat " " (y :: l))).
    rewrite split_blank by exact Hx. rewrite IH by exact Hl. reflexivity.
Qed.

(* ------------------------------------------------------------------ char codec *)
Lemma unpad_nuls : forall w, unpad (pad EmptyString w) = EmptyString.
Proof.
  induction w as [|w IH]; simpl; [reflexivity|]. rewrite IH. reflexivity.
Qed.

Lemma unpad_pad : forall w s, no_nul s -> (String.length s <= w)%nat -> unpad (pad s w) = s.
Proof.
  induction w as [|w IH]; intros s Hn Hl.
  - destruct s; [reflexivity|simpl in Hl; lia].
  - destruct s as [|c r]; [apply unpad_nuls|].
    simpl in Hn, Hl. destruct Hn as [Hc Hr]. simpl. rewrite IH by (try exact Hr; lia).
    destruct r; [|reflexivity].
    destruct (Ascii.eqb c nul) eqn:E; [apply Ascii.eqb_eq in E; contradiction|reflexivity].
Qed.

Lemma char_codec : forall w l, Forall (fun s => no_nul s /\ (String.length s <= w)%nat) l ->
  chartostring (stringtochar l w) = l.
Proof.
  intros w l H. unfold chartostring, stringtochar. rewrite map_map.
  induction H as [|s l [Hn Hl] _ IH]; simpl; [reflexivity|]. rewrite unpad_pad by assumption. rewrite IH. reflexivity.
Qed.

(* a trailing NUL is not representable: it is stripped *)
Lemma char_codec_trailing_nul_refuted : exists w l, chartostring (stringtochar l w) <> l.
Proof. exists 2%nat, [String "a" (String nul EmptyString)]. vm_compute. discriminate. Qed.

(* ------------------------------------------------------------------ options *)
Lemma write_axis_options : forall fx o o' f w a, o_coordinates o = o_coordinates o' ->
  write_axis fx o f w a = write_axis fx o' f w a.
Proof. intros fx o o' f w a H. unfold write_axis. rewrite H. reflexivity. Qed.

Lemma fold_write_axis_options : forall fx o o' f l w, o_coordinates o = o_coordinates o' ->
  fold_left (write_axis fx o f) l w = fold_left (write_axis fx o' f) l w.
Proof.
  intros fx o o' f l; induction l as [|a l IH]; intros w H; simpl; [reflexivity|].
  rewrite (write_axis_options fx o o' f w a H). apply IH; exact H.
Qed.

Lemma write_aux_options : forall o o' f w c, vlen o = vlen o' -> write_aux o f w c = write_aux o' f w c.
Proof. intros o o' f w c H. unfold write_aux, skind, eff_strlen. rewrite H. reflexivity. Qed.

Lemma fold_write_aux_options : forall o o' f l w, vlen o = vlen o' ->
  fold_left (write_aux o f) l w = fold_left (write_aux o' f) l w.
Proof.
  intros o o' f l; induction l as [|a l IH]; intros w H; simpl; [reflexivity|].
  rewrite (write_aux_options o o' f w a H). apply IH; exact H.
Qed.

Lemma options_irrelevant : forall o o' f, o_coordinates o = o_coordinates o' -> vlen o = vlen o' ->
  write_skel o f = write_skel o' f.
Proof.
  intros o o' f H Hv. unfold write_skel, write_skel_gen. rewrite (fold_write_axis_options true o o' f _ _ H).
  rewrite (fold_write_aux_options o o' f _ _ Hv). reflexivity.
Qed.

(* ------------------------------------------------------------------ superseded code *)
Definition ax (n : Z) (d : option string) := {| a_size := n; a_ncdim := d; a_unlim := false |}.
Definition o0 := {| o_fmt := 0; o_compress := 0; o_shuffle := true; o_fletcher32 := false; o_endian := 0;
                    o_chunks := 0; o_coordinates := false; o_string := true |}.
Definition f_witness : skel :=
  {| f_std := Some "air_temperature"; f_ncvar := Some "ta"; f_axes := [ax 3 (Some "t")]; f_data_axes := [0%nat];
     f_cons := [{| c_type := CDim; c_axes := [0%nat]; c_std := Some "time"; c_ncvar := None; c_bounds := None;
                   c_strlen := None; c_measure := "" |}];
     f_cms := [] |}.

(* F01b: the dimension name "t" set on the axis was replaced by the coordinate's standard name *)
Lemma dimension_name_old_refuted :
  exists o f, (exists a, In a (f_axes f) /\ a_ncdim a = Some "t") /\
              ~ In "t" (map fst (d_dims (write_skel_old o f))).
Proof.
  exists o0, f_witness. split.
  - exists (ax 3 (Some "t")). split; [left; reflexivity|reflexivity].
  - vm_compute. intros [H|[]]. discriminate.
Qed.

Lemma dimension_name_kept_example :
  In "t" (map fst (d_dims (write_skel o0 f_witness))) /\ length (read_skel (write_skel o0 f_witness)) = 1%nat.
Proof. vm_compute. split; [left; reflexivity|reflexivity]. Qed.

(* ------------------------------------------------------------------ non-vacuity *)
Example fresh_example : no_space "lat" /\ netcdf_name "lat" ["lat"; "lat_1"; "lon"] = "lat_2".
Proof. split; [repeat split; discriminate|reflexivity]. Qed.

Example tokens_example : Forall token ["lat"; "lon_1"; "x"] /\ split_ws "  lat lon_1   x " = ["lat"; "lon_1"; "x"].
Proof.
  split; [|reflexivity].
  repeat constructor; try discriminate.
Qed.

Example char_example :
  Forall (fun s => no_nul s /\ (String.length s <= 3)%nat) ["ab"; ""; "xyz"] /\
  stringtochar ["ab"] 3 = [["a"%char; "b"%char; nul]].
Proof.
  split; [|reflexivity].
  repeat constructor; simpl; try discriminate; try lia.
Qed.

(* ------------------------------------------------------------------ superseded _write_bounds (before C01-fix3-3) *)
Definition b_plain : bnds := {| b_n := 2; b_ncvar := None; b_ncdim := None |}.
Definition b_named : bnds := {| b_n := 2; b_ncvar := None; b_ncdim := Some "nv" |}.
Definition w_after_first_bounds : wstate := snd (write_bounds_old (Some b_plain) ["t"] "t" w0).

Lemma bounds_dimension_name_old_refuted :
  exists w b cdims cvar, b_ncdim b = Some "nv" /\
    ~ In "nv" (map fst (w_dims (snd (write_bounds_old (Some b) cdims cvar w)))) /\
    In "nv" (map fst (w_dims (snd (write_bounds (Some b) cdims cvar w)))).
Proof.
  exists w_after_first_bounds, b_named, ["h"], "h". split; [reflexivity|]. split.
  - vm_compute. intuition discriminate.
  - vm_compute. right; left; reflexivity.
Qed.
