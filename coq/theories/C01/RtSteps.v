(* C01 - round trip proof, part 3: what each step of the writer adds to the dataset. *)
From CfdmV Require Import Common.Base C01.Model C01.Lemmas C01.RtStrings C01.RtWriter.
Open Scope string_scope.
Open Scope list_scope.
Ltac splits := repeat match goal with |- _ /\ _ => split end.

(* ------------------------------------------------------------------ well-formed skeletons of the fragment *)
Definition ax_of (f : skel) (a : nat) : axis :=
  nth a (f_axes f) {| a_size := 0; a_ncdim := None; a_unlim := false |}.

Definition bnice (b : option bnds) : Prop :=
  match b with Some bb => nice_opt (b_ncvar bb) /\ nice_opt (b_ncdim bb) | None => True end.

Definition con_wf (f : skel) (c : con) : Prop :=
  nice_opt (c_std c) /\ nice_opt (c_ncvar c) /\ bnice (c_bounds c) /\
  match c_type c with
  | CDim => (exists a, c_axes c = [a] /\ a < length (f_axes f)) /\ c_strlen c = None
  | CAux => c_axes c <> [] /\ incl (c_axes c) (f_data_axes f)
  | CMeasure => incl (c_axes c) (f_data_axes f) /\ c_bounds c = None /\ c_strlen c = None /\ nice (c_measure c)
  | CFanc => incl (c_axes c) (f_data_axes f) /\ c_bounds c = None /\ c_strlen c = None
  end.

Record wf (f : skel) : Prop := {
  wf_data_nd : NoDup (f_data_axes f);
  wf_data_lt : forall a, In a (f_data_axes f) -> a < length (f_axes f);
  wf_unspanned : forall a, a < length (f_axes f) -> inb a (f_data_axes f) = false ->
     (exists c, find_dimcoord a (f_cons f) = Some c) /\ a_size (ax_of f a) = 1%Z /\ a_unlim (ax_of f a) = false;
  wf_cons : forall c, In c (f_cons f) -> con_wf f c;
  wf_cms : forall m, In m (f_cms f) -> (forall a, In a (m_axes m) -> a < length (f_axes f)) /\ nice (m_method m);
  wf_fnames : nice_opt (f_std f) /\ nice_opt (f_ncvar f);
  wf_axnames : forall a, In a (f_axes f) -> nice_opt (a_ncdim a)
}.

Lemma inb_In : forall a l, inb a l = true <-> In a l.
Proof.
  intros a l. unfold inb. rewrite existsb_exists. split.
  - intros [x [H E]]. apply Nat.eqb_eq in E. subst; exact H.
  - intros H. exists a. split; [exact H|apply Nat.eqb_refl].
Qed.

Lemma find_dimcoord_some : forall a cons c, find_dimcoord a cons = Some c ->
  In c cons /\ c_type c = CDim /\ c_axes c = [a].
Proof.
  intros a cons c H. unfold find_dimcoord in H. apply find_some in H as [H1 H2]. split; [exact H1|].
  destruct (c_type c); try discriminate. destruct (c_axes c) as [|a' [|? ?]]; try discriminate.
  apply Nat.eqb_eq in H2. subst. split; reflexivity.
Qed.

Lemma ax_of_nice : forall f a, wf f -> nice_opt (a_ncdim (ax_of f a)).
Proof.
  intros f a H. unfold ax_of. destruct (Nat.lt_ge_cases a (length (f_axes f))) as [L|L].
  - apply (wf_axnames f H). apply nth_In; exact L.
  - rewrite nth_overflow by exact L. exact I.
Qed.

(* ------------------------------------------------------------------ role dimensions *)
Definition RoleInv (w : wstate) : Prop :=
  (forall p, In p (w_bdims w) -> In (fst p) (DN w)) /\ (forall p, In p (w_sdims w) -> In (fst p) (DN w)).

Lemma role_dim_in : forall sz l n, role_dim sz l = Some n -> In (n, sz) l.
Proof.
  induction l as [|[m s] l IH]; simpl; intros n H; [discriminate|].
  destruct (Z.eqb s sz) eqn:E; [apply Z.eqb_eq in E; inversion H; subst; left; reflexivity|right; apply IH; exact H].
Qed.

Lemma role_lookup_in : forall named sz l n, role_lookup named sz l = Some n -> In (n, sz) l.
Proof.
  intros [b|] sz l n H; simpl in H; apply role_dim_in in H; [|exact H].
  apply filter_In in H. tauto.
Qed.

Lemma roleinv_same : forall w w', RoleInv w -> incl (DN w) (DN w') -> w_bdims w' = w_bdims w -> w_sdims w' = w_sdims w -> RoleInv w'.
Proof. intros w w' [H1 H2] Hi E1 E2. split; intros p Hp; [rewrite E1 in Hp|rewrite E2 in Hp]; apply Hi; auto. Qed.

Definition SdInv (AX : list string) (w : wstate) : Prop := forall p, In p (w_sdims w) -> ~ In (fst p) AX.

Lemma nice_digits : forall pre z, nice pre -> nice (pre +++ z_str z).
Proof.
  intros pre z [H1 H2]. split.
  - destruct pre; [contradiction|discriminate].
  - rewrite goodb_app, H2. unfold z_str, nat_str. apply goodb_digits.
Qed.

Lemma nice_bounds_word : nice "bounds".
Proof. split; [discriminate|reflexivity]. Qed.

Lemma nice_app : forall a b, nice a -> goodb b = true -> nice (a +++ b).
Proof. intros a b [H1 H2] Hb. split; [destruct a; [contradiction|discriminate]|rewrite goodb_app, H2, Hb; reflexivity]. Qed.

Lemma nice_opt_or : forall o d, nice_opt o -> nice d -> nice (opt_or o d).
Proof. intros [s|] d H Hd; simpl; assumption. Qed.

(* ------------------------------------------------------------------ bounds *)
Lemma last_dim_snoc : forall n l x a k, last_dim {| v_name := n; v_dims := l ++ [x]; v_attrs := a; v_kind := k |} = Some x.
Proof. intros. unfold last_dim; simpl. rewrite map_app. simpl. apply last_last. Qed.

Lemma write_bounds_spec : forall b cdims cvar w extra w',
  write_bounds b cdims cvar w = (extra, w') -> Inv0 w -> RoleInv w -> bnice b -> nice cvar ->
  Inv0 w' /\ RoleInv w' /\ ext w w' /\ w_axdim w' = w_axdim w /\ w_axscalar w' = w_axscalar w /\
  w_coords w' = w_coords w /\ w_sdims w' = w_sdims w /\
  match b with
  | None => extra = [] /\ w_vars w' = w_vars w
  | Some bb => exists bv bdim, extra = [("bounds", v_name bv)] /\ w_vars w' = w_vars w ++ [bv] /\
       v_attrs bv = [] /\ v_dims bv = cdims ++ [bdim] /\ ~ In (v_name bv) (used w) /\ In (v_name bv) (w_names w')
  end.
Proof.
  intros b cdims cvar w extra w' H HI HR Hb Hc. destruct b as [bb|].
  2:{ simpl in H. inversion H; subst. splits; try assumption; try reflexivity; try apply ext_refl; apply HR. }
  destruct Hb as [Hbv Hbd]. unfold write_bounds in H.
  destruct (alloc_role_dim true (b_ncdim bb) (opt_or (b_ncdim bb) ("bounds" +++ z_str (b_n bb))) (b_n bb) w) as [[bdim fr] w1] eqn:E1.
  assert (Hbase : nice (opt_or (b_ncdim bb) ("bounds" +++ z_str (b_n bb)))).
  { apply nice_opt_or; [exact Hbd|apply nice_digits; apply nice_bounds_word]. }
  (* state after the dimension has been settled *)
  assert (S2 : exists w2, (if negb (mem bdim (map fst (w_dims w1))) then add_dim bdim (b_n bb) false w1 else w1) = w2 /\
            Inv0 w2 /\ RoleInv w2 /\ ext w w2 /\ w_axdim w2 = w_axdim w /\ w_axscalar w2 = w_axscalar w /\
            w_coords w2 = w_coords w /\ w_sdims w2 = w_sdims w /\ w_vars w2 = w_vars w).
  { unfold alloc_role_dim in E1. destruct (role_lookup (b_ncdim bb) (b_n bb) (w_bdims w)) as [n|] eqn:Er.
    - inversion E1; subst. apply role_lookup_in in Er. apply (proj1 HR) in Er. simpl in Er.
      assert (Em : mem bdim (map fst (w_dims w1)) = true) by (apply mem_In; exact Er).
      rewrite Em. simpl. exists w1. splits; try assumption; try reflexivity; try apply ext_refl; apply HR.
    - destruct (alloc (opt_or (b_ncdim bb) ("bounds" +++ z_str (b_n bb))) w) as [n wa] eqn:Ea.
      inversion E1; subst; clear E1.
      destruct (alloc_inv _ _ _ _ Ea HI Hbase) as [Ia [Hf [Hn [Hin [EV ED]]]]].
      destruct (alloc_spec _ _ _ _ Ea) as [_ [A1 [A2 [A3 [A4 [A5 [A6 [A7 A8]]]]]]]].
      simpl. assert (Em : mem bdim (map fst (w_dims wa)) = false).
      { apply mem_false. rewrite A2. intro Hd. apply Hf. apply used_dn. exact Hd. }
      rewrite Em. simpl.
      eexists. split; [reflexivity|]. split; [|split; [|split; [|splits; simpl; assumption]]].
      + apply add_dim_inv. eapply inv_same; [exact Ia|unfold same_core; simpl; auto|reflexivity].
      + split; simpl; intros p Hp.
        * unfold DN; simpl. rewrite map_app. apply in_app_or in Hp as [Hp|[Hp|[]]].
          -- rewrite A7 in Hp. apply in_or_app; left. rewrite A2. apply (proj1 HR); exact Hp.
          -- subst. apply in_or_app; right; left; reflexivity.
        * unfold DN; simpl. rewrite map_app. rewrite A8 in Hp. apply in_or_app; left. rewrite A2. apply (proj2 HR); exact Hp.
      + apply add_dim_ext; [|exact Hf]. eapply ext_same_core; [eapply alloc_ext; [exact Ea|apply ext_refl]|].
        unfold same_core; simpl; auto. }
  destruct S2 as [w2 [E2 [I2 [R2 [X2 [F1 [F2 [F3 [F4 F5]]]]]]]]].
  cbv zeta in H. rewrite E2 in H.
  set (dflt := if negb (mem bdim (map fst (w_dims w1))) then cvar +++ "_bounds" else "bounds") in H.
  assert (Hd : nice dflt).
  { unfold dflt. destruct (negb _); [apply nice_app; [exact Hc|reflexivity]|apply nice_bounds_word]. }
  destruct (alloc (opt_or (b_ncvar bb) dflt) w2) as [bvar w3] eqn:E3.
  inversion H; subst; clear H.
  destruct (alloc_inv _ _ _ _ E3 I2 (nice_opt_or _ _ Hbv Hd)) as [I3 [Hf [Hn [Hin [EV ED]]]]].
  destruct (alloc_spec _ _ _ _ E3) as [_ [A1 [A2 [A3 [A4 [A5 [A6 [A7 A8]]]]]]]].
  set (bv := {| v_name := bvar; v_dims := cdims ++ [bdim]; v_attrs := []; v_kind := KNum |}).
  assert (Hfw : ~ In bvar (used w)) by (intro Hx; apply Hf; apply (ext_used _ _ X2); exact Hx).
  split; [|split; [|split; [|splits; simpl; try congruence]]].
  - apply add_var_inv; [exact I3|exact Hin| |left; reflexivity].
    rewrite EV. intro Hx. apply Hf. apply used_vn; assumption.
  - eapply roleinv_same; [exact R2| | |]; simpl; try congruence. unfold DN; simpl. rewrite A2. apply incl_refl.
  - apply add_var_ext; [|exact Hfw]. eapply alloc_ext; [exact E3|exact X2].
  - exists bv, bdim. simpl. splits; try reflexivity; try assumption. rewrite A3, F5. reflexivity.
Qed.

(* ------------------------------------------------------------------ string length dimensions *)
Lemma with_strlen_spec : forall sl dims w vd w',
  with_strlen sl dims w = (vd, w') -> Inv0 w -> RoleInv w ->
  Inv0 w' /\ RoleInv w' /\ ext w w' /\ w_vars w' = w_vars w /\ w_axdim w' = w_axdim w /\ w_axscalar w' = w_axscalar w /\
  w_coords w' = w_coords w /\
  (forall AX, incl AX (used w) -> SdInv AX w -> SdInv AX w') /\
  match sl with
  | None => vd = dims
  | Some _ => exists sdim, vd = dims ++ [sdim] /\ In sdim (map fst (w_sdims w'))
  end.
Proof.
  intros sl dims w vd w' H HI HR. destruct sl as [n|].
  2:{ simpl in H. inversion H; subst. splits; try assumption; try reflexivity; try apply ext_refl; try apply HR. intros; assumption. }
  unfold with_strlen in H.
  destruct (alloc_role_dim false None ("strlen" +++ z_str n) n w) as [[sdim fr] w1] eqn:E1.
  unfold alloc_role_dim, role_lookup in E1. destruct (role_dim n (w_sdims w)) as [m|] eqn:Er.
  - inversion E1; subst; clear E1. pose proof (role_dim_in _ _ _ Er) as Hin. pose proof (proj2 HR _ Hin) as Hd. simpl in Hd.
    assert (Em : mem sdim (map fst (w_dims w1)) = true) by (apply mem_In; exact Hd).
    rewrite Em in H. inversion H; subst. splits; try assumption; try reflexivity; try apply ext_refl; try apply HR.
    + intros; assumption.
    + exists sdim. split; [reflexivity|]. apply in_map_iff. exists (sdim, n). split; [reflexivity|exact Hin].
  - destruct (alloc ("strlen" +++ z_str n) w) as [m wa] eqn:Ea. inversion E1; subst; clear E1.
    assert (Hbase : nice ("strlen" +++ z_str n)) by (apply nice_digits; split; [discriminate|reflexivity]).
    destruct (alloc_inv _ _ _ _ Ea HI Hbase) as [Ia [Hf [Hn [Hin [EV ED]]]]].
    destruct (alloc_spec _ _ _ _ Ea) as [_ [A1 [A2 [A3 [A4 [A5 [A6 [A7 A8]]]]]]]].
    simpl in H. assert (Em : mem sdim (map fst (w_dims wa)) = false).
    { apply mem_false. rewrite A2. intro Hd. apply Hf. apply used_dn. exact Hd. }
    rewrite Em in H. inversion H; subst; clear H. simpl.
    split; [|split; [|split; [|splits; simpl; try assumption]]].
    + apply add_dim_inv. eapply inv_same; [exact Ia|unfold same_core; simpl; auto|reflexivity].
    + split; simpl; intros p Hp.
      * unfold DN; simpl. rewrite map_app. rewrite A7 in Hp. apply in_or_app; left. rewrite A2. apply (proj1 HR); exact Hp.
      * unfold DN; simpl. rewrite map_app. apply in_app_or in Hp as [Hp|[Hp|[]]].
        -- rewrite A8 in Hp. apply in_or_app; left. rewrite A2. apply (proj2 HR); exact Hp.
        -- subst. apply in_or_app; right; left; reflexivity.
    + apply add_dim_ext; [|exact Hf]. eapply ext_same_core; [eapply alloc_ext; [exact Ea|apply ext_refl]|].
      unfold same_core; simpl; auto.
    + intros AX Hax Hsd p Hp. simpl in Hp. apply in_app_or in Hp as [Hp|[Hp|[]]].
      * rewrite A8 in Hp. apply Hsd; exact Hp.
      * subst. simpl. intro Hx. apply Hf. apply Hax; exact Hx.
    + exists sdim. split; [reflexivity|]. rewrite map_app. apply in_or_app; right; left; reflexivity.
Qed.
