(* C01 - write then read returns the same field: executable model of the CORE FRAGMENT of
   NetCDFWrite._write_field_or_domain / NetCDFRead._create_field_or_domain (cfdm 1.11.2.0 with
   C01-fix-1, -3, -4 and C01-fix3-3 applied; the superseded code is kept as ..._old, see Refuted.v).

   Fragment: one field construct; domain axes (size, netCDF dimension name, unlimited flag);
   data over a list of axes; per axis at most one dimension coordinate, written as a coordinate
   variable (axis spanned by the data) or as a scalar coordinate variable (size-1 axis not spanned by
   the data and by nothing else); auxiliary coordinates over data axes (numeric or string valued),
   and 1-d auxiliary coordinates on a size-1 axis the data do not span (scalar coordinate variables);
   the storage kind of every variable (numeric, char, netCDF string - the latter two chosen by fmt
   and string); bounds; cell measures; field ancillaries; cell methods over axes; netCDF names set or
   unset, with the writer's name allocator.  Data and properties are opaque (the standard_name is
   kept because it is the default netCDF variable name).  READER only: data compressed by gathering
   (list variable with a `compress' attribute; implied dimensions).

   OUT of the model (carried by the property oracle only): domain constructs, coordinate references
   (grid mappings, formula terms), domain ancillaries, external variables, climatology, the `seen'
   registry that merges equal constructs, writing of gathered data, DSG, geometries, UGRID, groups. *)
From Coq Require Import DecimalString DecimalNat.
From CfdmV Require Import Common.Base.
Open Scope string_scope.
Open Scope list_scope.
Infix "+++" := String.append (at level 60, right associativity).

(* ------------------------------------------------------------------ names *)
Definition nat_str (n : nat) : string := NilEmpty.string_of_uint (Nat.to_uint n).

Definition mem (s : string) (l : list string) : bool := existsb (String.eqb s) l.

(* str.replace(" ", "_") *)
Fixpoint despace (s : string) : string :=
  match s with
  | EmptyString => EmptyString
  | String c r => String (if Ascii.eqb c " "%char then "_"%char else c) (despace r)
  end.

(* NetCDFWrite._netcdf_name without dimsize/role: `base' if unused, else base_1, base_2, ...
   (the stored counter is never advanced by the code, so the search always starts at 1). *)
Fixpoint first_free (base : string) (used : list string) (k fuel : nat) : string :=
  let cand := base +++ "_" +++ nat_str k in
  match fuel with
  | O => cand
  | S f => if mem cand used then first_free base used (S k) f else cand
  end.

Definition netcdf_name (base : string) (used : list string) : string :=
  despace (if mem base used then first_free base used 1 (length used) else base).

(* ------------------------------------------------------------------ attribute strings *)
Definition join_sp (l : list string) : string := String.concat " " l.

(* str.split() restricted to blanks: maximal runs of non-blank characters *)
Fixpoint split_acc (s : string) (cur : string) : list string :=
  match s with
  | EmptyString => match cur with EmptyString => [] | _ => [cur] end
  | String c r =>
    if Ascii.eqb c " "%char
    then match cur with EmptyString => split_acc r EmptyString | _ => cur :: split_acc r EmptyString end
    else split_acc r (cur +++ String c EmptyString)
  end.
Definition split_ws (s : string) : list string := split_acc s EmptyString.

(* ------------------------------------------------------------------ char codec (NUG "char arrays") *)
(* _character_array: each string padded with NULs to the width; netCDF4.chartostring + the
   reader strip trailing NULs. *)
Definition nul : ascii := Ascii.zero.
Fixpoint pad (s : string) (w : nat) : list ascii :=
  match w with
  | O => []
  | S w' => match s with
            | EmptyString => nul :: pad EmptyString w'
            | String c r => c :: pad r w'
            end
  end.
Definition stringtochar (l : list string) (w : nat) : list (list ascii) := map (fun s => pad s w) l.
Fixpoint unpad (l : list ascii) : string :=
  match l with
  | [] => EmptyString
  | c :: r => let t := unpad r in
              match t with
              | EmptyString => if Ascii.eqb c nul then EmptyString else String c EmptyString
              | _ => String c t
              end
  end.
Definition chartostring (l : list (list ascii)) : list string := map unpad l.
Fixpoint no_nul (s : string) : Prop :=
  match s with EmptyString => True | String c r => c <> nul /\ no_nul r end.

(* ------------------------------------------------------------------ skeletons *)
Record axis := { a_size : Z; a_ncdim : option string; a_unlim : bool }.

Record bnds := { b_n : Z; b_ncvar : option string; b_ncdim : option string }.

Inductive ctype := CDim | CAux | CMeasure | CFanc.

Record con := {
  c_type : ctype;
  c_axes : list nat;              (* indices into the axis list *)
  c_std : option string;          (* standard_name property: the default netCDF variable name *)
  c_ncvar : option string;
  c_bounds : option bnds;
  c_strlen : option Z;            (* Some w: string valued, longest string w; stored as netCDF strings (fmt NETCDF4 and
                                     string=True) or as char with a trailing strlen-w dimension *)
  c_measure : string              (* cell measures only *)
}.

Record cellmethod := { m_axes : list nat; m_method : string }.

Record skel := {
  f_std : option string; f_ncvar : option string;
  f_axes : list axis; f_data_axes : list nat;
  f_cons : list con;              (* in construct-key order within each type *)
  f_cms : list cellmethod
}.

(* write options: `coordinates' reaches the data-model mapping; fmt and string decide how strings are stored *)
Record options := { o_fmt : nat; o_compress : nat; o_shuffle : bool; o_fletcher32 : bool; o_endian : nat;
                    o_chunks : nat; o_coordinates : bool; o_string : bool }.

(* the storage type of a netCDF variable, as far as the reader looks at it (_is_char / _is_string) *)
Inductive vkind := KNum | KChar | KStr.

(* NetCDFWrite._datatype / _transform_strings: string data are netCDF strings only for fmt NETCDF4 (0) with
   string=True; otherwise a char array with a trailing string-length dimension *)
Definition vlen (o : options) : bool := Nat.eqb (o_fmt o) 0 && o_string o.
Definition skind (o : options) (sl : option Z) : vkind :=
  match sl with None => KNum | Some _ => if vlen o then KStr else KChar end.
Definition eff_strlen (o : options) (sl : option Z) : option Z := if vlen o then None else sl.

(* ------------------------------------------------------------------ abstract dataset *)
Record var := { v_name : string; v_dims : list string; v_attrs : list (string * string); v_kind : vkind }.
Record ads := { d_dims : list (string * (Z * bool)); d_vars : list var }.

Definition attr (k : string) (v : var) : option string := assoc k (v_attrs v).

(* ------------------------------------------------------------------ writer *)
Record wstate := {
  w_names : list string;                 (* g['ncvar_names'] *)
  w_dims : list (string * (Z * bool));   (* g['ncdim_to_size'] (+ unlimited flag), in creation order *)
  w_bdims : list (string * Z);           (* g['dimensions_with_role']['bounds'] *)
  w_sdims : list (string * Z);           (* g['dimensions_with_role']['string_length'] *)
  w_vars : list var;                     (* in creation order *)
  w_axdim : list (nat * string);         (* g['axis_to_ncdim'] *)
  w_axscalar : list (nat * string);      (* g['axis_to_ncscalar'] *)
  w_coords : list string                 (* the `coordinates' list *)
}.

Definition used (w : wstate) : list string := w_names w ++ map fst (w_dims w).

Definition alloc (base : string) (w : wstate) : string * wstate :=
  let n := netcdf_name base (used w) in
  (n, {| w_names := n :: w_names w; w_dims := w_dims w; w_bdims := w_bdims w; w_sdims := w_sdims w;
         w_vars := w_vars w; w_axdim := w_axdim w; w_axscalar := w_axscalar w; w_coords := w_coords w |}).

Definition add_dim (n : string) (sz : Z) (u : bool) (w : wstate) : wstate :=
  {| w_names := w_names w; w_dims := w_dims w ++ [(n, (sz, u))]; w_bdims := w_bdims w; w_sdims := w_sdims w;
     w_vars := w_vars w; w_axdim := w_axdim w; w_axscalar := w_axscalar w; w_coords := w_coords w |}.

Definition add_var (v : var) (w : wstate) : wstate :=
  {| w_names := w_names w; w_dims := w_dims w; w_bdims := w_bdims w; w_sdims := w_sdims w;
     w_vars := w_vars w ++ [v]; w_axdim := w_axdim w; w_axscalar := w_axscalar w; w_coords := w_coords w |}.

Definition set_axdim (a : nat) (n : string) (w : wstate) : wstate :=
  {| w_names := w_names w; w_dims := w_dims w; w_bdims := w_bdims w; w_sdims := w_sdims w;
     w_vars := w_vars w; w_axdim := (a, n) :: w_axdim w; w_axscalar := w_axscalar w; w_coords := w_coords w |}.

Definition set_axscalar (a : nat) (n : string) (w : wstate) : wstate :=
  {| w_names := w_names w; w_dims := w_dims w; w_bdims := w_bdims w; w_sdims := w_sdims w;
     w_vars := w_vars w; w_axdim := w_axdim w; w_axscalar := (a, n) :: w_axscalar w; w_coords := w_coords w |}.

Definition add_coord (n : string) (w : wstate) : wstate :=
  {| w_names := w_names w; w_dims := w_dims w; w_bdims := w_bdims w; w_sdims := w_sdims w;
     w_vars := w_vars w; w_axdim := w_axdim w; w_axscalar := w_axscalar w; w_coords := w_coords w ++ [n] |}.

Fixpoint nat_assoc {A} (k : nat) (l : list (nat * A)) : option A :=
  match l with [] => None | (k', v) :: r => if Nat.eqb k k' then Some v else nat_assoc k r end.

Fixpoint role_dim (sz : Z) (l : list (string * Z)) : option string :=
  match l with [] => None | (n, s) :: r => if Z.eqb s sz then Some n else role_dim sz r end.

(* C01-fix3-3: a name that has been SET (named = Some base) only reuses a dimension of that very name;
   a default name reuses any dimension of the role and size (role_lookup None = role_dim). *)
Definition role_lookup (named : option string) (sz : Z) (l : list (string * Z)) : option string :=
  match named with
  | None => role_dim sz l
  | Some b => role_dim sz (filter (fun p => String.eqb (fst p) b) l)
  end.

(* _netcdf_name(base, dimsize, role, named): an existing dimension of that role and size is reused *)
Definition alloc_role_dim (bounds_role : bool) (named : option string) (base : string) (sz : Z) (w : wstate)
  : string * bool * wstate :=
  match role_lookup named sz (if bounds_role then w_bdims w else w_sdims w) with
  | Some n => (n, false, w)
  | None =>
    let '(n, w1) := alloc base w in
    let w2 := {| w_names := w_names w1; w_dims := w_dims w1;
                 w_bdims := if bounds_role then w_bdims w1 ++ [(n, sz)] else w_bdims w1;
                 w_sdims := if bounds_role then w_sdims w1 else w_sdims w1 ++ [(n, sz)];
                 w_vars := w_vars w1; w_axdim := w_axdim w1; w_axscalar := w_axscalar w1;
                 w_coords := w_coords w1 |} in
    (n, true, w2)
  end.

Definition z_str (z : Z) : string := nat_str (Z.to_nat z).

Definition opt_or {A} (o : option A) (d : A) : A := match o with Some x => x | None => d end.

(* _create_netcdf_variable_name: set name, else standard_name, else the default *)
Definition base_name (ncvar std : option string) (default : string) : string :=
  match ncvar with Some n => n | None => opt_or std default end.

Definition dims_of (w : wstate) (axes : list nat) : list string :=
  map (fun a => opt_or (nat_assoc a (w_axdim w)) "?") axes.

(* _write_bounds: returns the extra attribute and the new state *)
Definition write_bounds (b : option bnds) (cdims : list string) (cvar : string) (w : wstate)
  : list (string * string) * wstate :=
  match b with
  | None => ([], w)
  | Some b =>
    let '(bdim, fresh, w1) := alloc_role_dim true (b_ncdim b) (opt_or (b_ncdim b) ("bounds" +++ z_str (b_n b))) (b_n b) w in
    let newdim := negb (mem bdim (map fst (w_dims w1))) in
    let w2 := if newdim then add_dim bdim (b_n b) false w1 else w1 in
    let default := if newdim then cvar +++ "_bounds" else "bounds" in
    let '(bvar, w3) := alloc (opt_or (b_ncvar b) default) w2 in
    ([("bounds", bvar)], add_var {| v_name := bvar; v_dims := cdims ++ [bdim]; v_attrs := []; v_kind := KNum |} w3)
  end.

(* the superseded _write_bounds (before C01-fix3-3): any bounds dimension of the same size was reused, also when
   a different netCDF dimension name had been set on the bounds *)
Definition write_bounds_old (b : option bnds) (cdims : list string) (cvar : string) (w : wstate)
  : list (string * string) * wstate :=
  match b with
  | None => ([], w)
  | Some b =>
    let '(bdim, fresh, w1) := alloc_role_dim true None (opt_or (b_ncdim b) ("bounds" +++ z_str (b_n b))) (b_n b) w in
    let newdim := negb (mem bdim (map fst (w_dims w1))) in
    let w2 := if newdim then add_dim bdim (b_n b) false w1 else w1 in
    let default := if newdim then cvar +++ "_bounds" else "bounds" in
    let '(bvar, w3) := alloc (opt_or (b_ncvar b) default) w2 in
    ([("bounds", bvar)], add_var {| v_name := bvar; v_dims := cdims ++ [bdim]; v_attrs := []; v_kind := KNum |} w3)
  end.

(* string-valued data: a trailing strlen dimension (_transform_strings / _string_length_dimension) *)
Definition with_strlen (sl : option Z) (dims : list string) (w : wstate) : list string * wstate :=
  match sl with
  | None => (dims, w)
  | Some n =>
    let '(sdim, fresh, w1) := alloc_role_dim false None ("strlen" +++ z_str n) n w in
    let w2 := if mem sdim (map fst (w_dims w1)) then w1 else add_dim sdim n false w1 in
    (dims ++ [sdim], w2)
  end.

Definition find_dimcoord (a : nat) (cons : list con) : option con :=
  find (fun c => match c_type c, c_axes c with CDim, [a'] => Nat.eqb a a' | _, _ => false end) cons.

Definition inb (a : nat) (l : list nat) : bool := existsb (Nat.eqb a) l.

(* _write_dimension_coordinate (fix-1: a set dimension name wins over the standard_name default) *)
Definition dimcoord_name (fix1 : bool) (c : con) (ncdim : option string) (w : wstate) : string * wstate :=
  match c_ncvar c, ncdim with
  | None, Some d => if fix1 then alloc d w
                    else match c_std c with Some s => alloc s w | None => (d, w) end
  | _, _ =>
    match c_ncvar c, c_std c with
    | None, None => match ncdim with Some d => (d, w) | None => alloc "coordinate" w end
    | _, _ => alloc (base_name (c_ncvar c) (c_std c) "") w
    end
  end.

Definition write_axis (fix1 : bool) (o : options) (f : skel) (w : wstate) (a : nat) : wstate :=
  let ax := nth a (f_axes f) {| a_size := 0; a_ncdim := None; a_unlim := false |} in
  match find_dimcoord a (f_cons f) with
  | Some c =>
    if inb a (f_data_axes f) then
      let '(ncvar, w1) := dimcoord_name fix1 c (a_ncdim ax) w in
      let w2 := set_axdim a ncvar (add_dim ncvar (a_size ax) (a_unlim ax) w1) in
      let '(extra, w3) := write_bounds (c_bounds c) [ncvar] ncvar w2 in
      let w4 := add_var {| v_name := ncvar; v_dims := [ncvar]; v_attrs := extra; v_kind := KNum |} w3 in
      if o_coordinates o then add_coord ncvar w4 else w4
    else
      (* scalar coordinate variable *)
      let '(ncvar, w1) := alloc (base_name (c_ncvar c) (c_std c) "scalar") w in
      let '(extra, w2) := write_bounds (c_bounds c) [] ncvar w1 in
      let w3 := add_var {| v_name := ncvar; v_dims := []; v_attrs := extra; v_kind := KNum |} w2 in
      add_coord ncvar (set_axscalar a ncvar w3)
  | None =>
    if inb a (f_data_axes f) then
      let '(ncdim, w1) := alloc (opt_or (a_ncdim ax) "dim") w in
      set_axdim a ncdim (add_dim ncdim (a_size ax) (a_unlim ax) w1)
    else w
  end.

(* the size-1 axis of a 1-d auxiliary coordinate that the data do not span (`len(axes) > 1 or axes[0] in
   data_axes' fails): the coordinate is written as a scalar coordinate variable *)
Definition scalar_axis (f : skel) (c : con) : option nat :=
  match c_axes c with
  | [a] => if inb a (f_data_axes f) then None else Some a
  | _ => None
  end.

Definition write_aux (o : options) (f : skel) (w : wstate) (c : con) : wstate :=
  match scalar_axis f c with
  | Some a =>
    (* _write_scalar_coordinate: no dimension (but the string-length one of a char array) *)
    let '(ncvar, w1) := alloc (base_name (c_ncvar c) (c_std c) "scalar") w in
    let '(extra, w2) := write_bounds (c_bounds c) [] ncvar w1 in
    let '(vdims, w3) := with_strlen (eff_strlen o (c_strlen c)) [] w2 in
    add_coord ncvar (set_axscalar a ncvar
      (add_var {| v_name := ncvar; v_dims := vdims; v_attrs := extra; v_kind := skind o (c_strlen c) |} w3))
  | None =>
    let dims := dims_of w (c_axes c) in
    let '(ncvar, w1) := alloc (base_name (c_ncvar c) (c_std c) "auxiliary") w in
    let '(extra, w2) := write_bounds (c_bounds c) dims ncvar w1 in
    let '(vdims, w3) := with_strlen (eff_strlen o (c_strlen c)) dims w2 in
    add_coord ncvar (add_var {| v_name := ncvar; v_dims := vdims; v_attrs := extra; v_kind := skind o (c_strlen c) |} w3)
  end.

Definition write_plain (default : string) (wl : wstate * list string) (c : con) : wstate * list string :=
  let '(w, l) := wl in
  let dims := dims_of w (c_axes c) in
  let '(ncvar, w1) := alloc (base_name (c_ncvar c) (c_std c) default) w in
  (add_var {| v_name := ncvar; v_dims := dims; v_attrs := []; v_kind := KNum |} w1,
   l ++ [match c_type c with CMeasure => c_measure c +++ ": " +++ ncvar | _ => ncvar end]).

Definition is_type (t : ctype) (c : con) : bool :=
  match t, c_type c with
  | CDim, CDim | CAux, CAux | CMeasure, CMeasure | CFanc, CFanc => true
  | _, _ => false
  end.

Definition w0 : wstate :=
  {| w_names := []; w_dims := []; w_bdims := []; w_sdims := []; w_vars := []; w_axdim := [];
     w_axscalar := []; w_coords := [] |}.

(* axis name used in the cell_methods string: axis_to_ncdim updated with axis_to_ncscalar *)
Definition cm_axis (w : wstate) (a : nat) : string :=
  match nat_assoc a (w_axscalar w) with
  | Some n => n
  | None => opt_or (nat_assoc a (w_axdim w)) "?"
  end.

Definition cm_string (w : wstate) (m : cellmethod) : string :=
  String.concat "" (map (fun a => cm_axis w a +++ ": ") (m_axes m)) +++ m_method m.

Definition opt_attr (k : string) (l : list string) : list (string * string) :=
  match l with [] => [] | _ => [(k, join_sp l)] end.

Definition write_skel_gen (fix1 : bool) (o : options) (f : skel) : ads :=
  let w1 := fold_left (write_axis fix1 o f) (seq 0 (length (f_axes f))) w0 in
  let w2 := fold_left (write_aux o f) (filter (is_type CAux) (f_cons f)) w1 in
  let '(w3, measures) := fold_left (write_plain "cell_measure") (filter (is_type CMeasure) (f_cons f)) (w2, []) in
  let '(w4, ancs) := fold_left (write_plain "ancillary_data") (filter (is_type CFanc) (f_cons f)) (w3, []) in
  let '(ncvar, w5) := alloc (base_name (f_ncvar f) (f_std f) "data") w4 in
  let attrs := opt_attr "cell_measures" measures ++ opt_attr "coordinates" (w_coords w5)
               ++ opt_attr "ancillary_variables" ancs
               ++ opt_attr "cell_methods" (map (cm_string w5) (f_cms f)) in
  let w6 := add_var {| v_name := ncvar; v_dims := dims_of w5 (f_data_axes f); v_attrs := attrs; v_kind := KNum |} w5 in
  {| d_dims := w_dims w6; d_vars := w_vars w6 |}.

Definition write_skel := write_skel_gen true.
Definition write_skel_old := write_skel_gen false.

(* ------------------------------------------------------------------ reader *)
(* The skeleton read back refers to an axis by a label: the netCDF dimension name, or "@v" for the
   size-1 axis created from the scalar coordinate variable v. *)
Record rcon := { r_type : ctype; r_ncvar : string; r_axes : list string; r_bounds : option string;
                 r_bdim : option string; r_measure : string }.
Record rskel := { rs_ncvar : string; rs_data_axes : list string; rs_axes : list (string * (Z * bool));
                  rs_cons : list rcon; rs_cms : list (list string * string) }.

Definition find_var (n : string) (d : ads) : option var :=
  find (fun v => String.eqb (v_name v) n) (d_vars d).

Definition tokens (k : string) (v : var) : list string :=
  match attr k v with Some s => split_ws s | None => [] end.

(* "measure: name measure: name": the names are the even tokens *)
Fixpoint pairs_of (l : list string) : list (string * string) :=
  match l with
  | m :: n :: r => (m, n) :: pairs_of r
  | _ => []
  end.

Definition strip_colon (s : string) : string :=
  match index 0 ":" s with Some i => substring 0 i s | None => s end.

Definition is_coordvar (d : ads) (dim : string) : option var :=
  match find_var dim d with
  | Some v => match v_dims v with [x] => if String.eqb x dim then Some v else None | _ => None end
  | None => None
  end.

(* compression by gathering: a list variable is the coordinate-like variable of the list dimension and
   names the dimensions it replaces in its `compress' attribute.  (The test has_compress only short-cuts
   the common case of a dataset without list variables; flat_map would give the same answer.) *)
Definition has_compress (d : ads) : bool :=
  existsb (fun v => match attr "compress" v with Some _ => true | None => false end) (d_vars d).

Definition compress_of (d : ads) (dim : string) : option (list string) :=
  match find_var dim d with
  | Some v => match attr "compress" v with Some s => Some (split_ws s) | None => None end
  | None => None
  end.

(* NetCDFRead._ncdimensions: the UNCOMPRESSED dimensions a variable implies *)
Definition implied (d : ads) (dims : list string) : list string :=
  if has_compress d
  then flat_map (fun x => match compress_of d x with Some l => l | None => [x] end) dims
  else dims.

Definition compress_vars (d : ads) : list string :=
  if has_compress d
  then flat_map (fun v => match attr "compress" v with Some _ => [v_name v] | None => [] end) (d_vars d)
  else [].

(* variables that a variable's metadata refer to (the reader's `references' census) *)
Definition refs_of (d : ads) (v : var) : list string :=
  let co := flat_map (fun dim => match is_coordvar d dim with
                                 | Some c => if String.eqb (v_name c) (v_name v) then [] else [v_name c]
                                 | None => [] end) (implied d (v_dims v)) in
  let aux := tokens "coordinates" v in
  let ms := map snd (pairs_of (tokens "cell_measures" v)) in
  let an := tokens "ancillary_variables" v in
  let direct := co ++ aux ++ ms ++ an in
  direct ++ flat_map (fun n => match find_var n d with
                               | Some x => match attr "bounds" x with Some b => [b] | None => [] end
                               | None => [] end) direct.

Definition bounds_vars (d : ads) : list string :=
  flat_map (fun v => match attr "bounds" v with Some b => [b] | None => [] end) (d_vars d).

Definition referenced (d : ads) : list string :=
  bounds_vars d ++ compress_vars d ++ flat_map (refs_of d) (d_vars d).

Definition data_vars (d : ads) : list var :=
  filter (fun v => negb (mem (v_name v) (referenced d))) (d_vars d).

Definition last_dim (v : var) : option string := last (map Some (v_dims v)) None.

Definition mk_rcon (t : ctype) (d : ads) (v : var) (axes : list string) (measure : string) : rcon :=
  let b := attr "bounds" v in
  {| r_type := t; r_ncvar := v_name v; r_axes := axes; r_bounds := b;
     r_bdim := match b with Some bn => match find_var bn d with Some bv => last_dim bv | None => None end
                          | None => None end;
     r_measure := measure |}.

Definition sub_dims (dims data_dims : list string) : list string :=
  filter (fun x => mem x data_dims) dims.

(* a scalar coordinate variable (no dimension left once the string-length dimension of a char array is
   set aside): string valued (_is_char_or_string) -> 1-d auxiliary coordinate on a new size-1 axis; numeric
   -> dimension coordinate on a new size-1 axis *)
Definition scalar_class (k : vkind) : ctype := match k with KNum => CDim | KChar | KStr => CAux end.

(* the names in the `coordinates' attribute that are looked at as auxiliary / scalar coordinate variables:
   `if ncvar in field_ncdimensions: continue' with the IMPLIED (uncompressed) dimensions of the data variable *)
Definition coord_candidates (d : ads) (v : var) : list string :=
  filter (fun n => negb (mem n (implied d (v_dims v)))) (tokens "coordinates" v).

Definition read_var (d : ads) (v : var) : rskel :=
  let dd := implied d (v_dims v) in
  let dimcoords := flat_map (fun dim => match is_coordvar d dim with
                                        | Some c => [mk_rcon CDim d c [dim] ""] | None => [] end) dd in
  let coords := coord_candidates d v in
  let aux_or_scalar := flat_map (fun n =>
       match find_var n d with
       | None => []
       | Some c => match sub_dims (implied d (v_dims c)) dd with
                   | [] => [mk_rcon (scalar_class (v_kind c)) d c ["@" +++ n] ""]
                   | axes => [mk_rcon CAux d c axes ""]
                   end
       end) coords in
  let scalar_axes := flat_map (fun n =>
       match find_var n d with
       | Some c => match sub_dims (implied d (v_dims c)) dd with [] => [("@" +++ n, (1%Z, false))] | _ => [] end
       | None => [] end) coords in
  let measures := flat_map (fun mn => match find_var (snd mn) d with
                                      | Some c => [mk_rcon CMeasure d c (sub_dims (implied d (v_dims c)) dd) (strip_colon (fst mn))]
                                      | None => [] end) (pairs_of (tokens "cell_measures" v)) in
  let ancs := flat_map (fun n => match find_var n d with
                                 | Some c => [mk_rcon CFanc d c (sub_dims (implied d (v_dims c)) dd) ""]
                                 | None => [] end) (tokens "ancillary_variables" v) in
  {| rs_ncvar := v_name v; rs_data_axes := dd;
     rs_axes := map (fun dim => (dim, opt_or (assoc dim (d_dims d)) (0%Z, false))) dd ++ scalar_axes;
     rs_cons := dimcoords ++ aux_or_scalar ++ measures ++ ancs;
     rs_cms := [] |}.

(* cell_methods: "a: b: method a2: method2" -> [([a;b], method); ([a2], method2)]; an axis token is
   one that ends in ":"; a scalar coordinate variable name stands for its axis "@name" *)
Definition ends_colon (s : string) : bool :=
  match index 0 ":" s with Some i => Nat.eqb (S i) (String.length s) | None => false end.

Fixpoint parse_cms (toks : list string) (cur : list string) : list (list string * string) :=
  match toks with
  | [] => []
  | t :: r => if ends_colon t then parse_cms r (cur ++ [strip_colon t])
              else (cur, t) :: parse_cms r []
  end.

Definition cm_label (r : rskel) (n : string) : string :=
  if mem ("@" +++ n) (map fst (rs_axes r)) then "@" +++ n else n.

Definition read_skel (d : ads) : list rskel :=
  map (fun v =>
    let r := read_var d v in
    {| rs_ncvar := rs_ncvar r; rs_data_axes := rs_data_axes r; rs_axes := rs_axes r; rs_cons := rs_cons r;
       rs_cms := map (fun p => (map (cm_label r) (fst p), snd p)) (parse_cms (tokens "cell_methods" v) []) |})
    (data_vars d).
