(* C01 - the executable guard wfb (C01.Run) implies the guard wf of the round-trip theorems. *)
From CfdmV Require Import Common.Base C01.Model C01.Lemmas C01.RtStrings C01.RtWriter C01.RtSteps C01.RtAxis
  C01.RtPhases C01.RtSummary C01.RtReader C01.Run.
Open Scope string_scope.
Open Scope list_scope.
Ltac splits := repeat match goal with |- _ /\ _ => split end.

Lemma r_goodb_eq : forall s, r_goodb s = goodb s.
Proof. induction s as [|c r IH]; simpl; [reflexivity|]. rewrite IH. reflexivity. Qed.

Lemma niceb_sound : forall s, niceb s = true -> nice s.
Proof.
  intros s H. unfold niceb in H. destruct s as [|c r]; [discriminate|]. rewrite r_goodb_eq in H.
  split; [discriminate|exact H].
Qed.

Lemma nice_optb_sound : forall o, nice_optb o = true -> nice_opt o.
Proof. intros [s|] H; simpl in *; [apply niceb_sound; exact H|exact I]. Qed.

Lemma isnone_sound : forall {A} (o : option A), isnone o = true -> o = None.
Proof. intros A [x|] H; [discriminate|reflexivity]. Qed.

Lemma inb_false : forall a l, inb a l = false <-> ~ In a l.
Proof.
  intros a l. split; intros H.
  - intro Hin. apply inb_In in Hin. congruence.
  - destruct (inb a l) eqn:E; [apply inb_In in E; contradiction|reflexivity].
Qed.

Lemma nodupb_sound : forall l, nodupb l = true -> NoDup l.
Proof.
  induction l as [|x l IH]; simpl; intros H; [constructor|].
  apply andb_true_iff in H as [H1 H2]. apply negb_true_iff in H1. constructor; [apply inb_false; exact H1|apply IH; exact H2].
Qed.

Lemma forallb_inb : forall l d, forallb (fun a => inb a d) l = true -> incl l d.
Proof. intros l d H a Ha. apply inb_In. exact (proj1 (forallb_forall _ l) H a Ha). Qed.

Lemma con_wfb_sound : forall f c, con_wfb f c = true -> con_wf f c.
Proof.
  intros f c H. unfold con_wfb in H. apply andb_true_iff in H as [H H4]. apply andb_true_iff in H as [H H3].
  apply andb_true_iff in H as [H1 H2]. unfold con_wf. splits.
  - apply nice_optb_sound; exact H1.
  - apply nice_optb_sound; exact H2.
  - unfold bniceb in H3. unfold bnice. destruct (c_bounds c) as [bb|]; [|exact I].
    apply andb_true_iff in H3 as [A B]. split; apply nice_optb_sound; assumption.
  - destruct (c_type c).
    + apply andb_true_iff in H4 as [A B]. split; [|apply isnone_sound; exact B].
      destruct (c_axes c) as [|a [|? ?]]; try discriminate. exists a. split; [reflexivity|apply Nat.ltb_lt; exact A].
    + apply andb_true_iff in H4 as [A B]. split; [destruct (c_axes c); [discriminate|discriminate]|apply forallb_inb; exact B].
    + apply andb_true_iff in H4 as [H4 D']. apply andb_true_iff in H4 as [H4 C']. apply andb_true_iff in H4 as [A B].
      splits; [apply forallb_inb; exact A|apply isnone_sound; exact B|apply isnone_sound; exact C'|apply niceb_sound; exact D'].
    + apply andb_true_iff in H4 as [H4 C']. apply andb_true_iff in H4 as [A B].
      splits; [apply forallb_inb; exact A|apply isnone_sound; exact B|apply isnone_sound; exact C'].
Qed.

Lemma wfb_sound : forall f, wfb f = true -> wf f.
Proof.
  intros f H. unfold wfb in H.
  apply andb_true_iff in H as [H H8]. apply andb_true_iff in H as [H H7]. apply andb_true_iff in H as [H H6].
  apply andb_true_iff in H as [H H5]. apply andb_true_iff in H as [H H4]. apply andb_true_iff in H as [H H3].
  apply andb_true_iff in H as [H1 H2].
  constructor.
  - apply nodupb_sound; exact H1.
  - intros a Ha. apply Nat.ltb_lt. exact (proj1 (forallb_forall _ _) H2 a Ha).
  - intros a Ha Hi. assert (Hs : In a (seq 0 (length (f_axes f)))) by (apply in_seq; lia).
    pose proof (proj1 (forallb_forall _ _) H3 a Hs) as E. simpl in E. rewrite Hi in E. simpl in E.
    apply andb_true_iff in E as [E E3]. apply andb_true_iff in E as [E1 E2].
    splits.
    + destruct (find_dimcoord a (f_cons f)) as [c|]; [exists c; reflexivity|discriminate].
    + apply Z.eqb_eq. exact E2.
    + apply negb_true_iff. exact E3.
  - intros c Hc. apply con_wfb_sound. exact (proj1 (forallb_forall _ _) H4 c Hc).
  - intros m Hm. pose proof (proj1 (forallb_forall _ _) H5 m Hm) as E. simpl in E.
    apply andb_true_iff in E as [E1 E2]. split; [|apply niceb_sound; exact E2].
    intros a Ha. apply Nat.ltb_lt. exact (proj1 (forallb_forall _ _) E1 a Ha).
  - split; apply nice_optb_sound; assumption.
  - intros a Ha. apply nice_optb_sound. exact (proj1 (forallb_forall _ _) H8 a Ha).
Qed.

(* no two dimension coordinates on one axis *)
Definition dimkey (c : con) : list nat := match c_type c, c_axes c with CDim, [a] => [a] | _, _ => [] end.

Lemma nodupb_app_l : forall l1 l2, nodupb (l1 ++ l2) = true -> nodupb l2 = true /\ forall a, In a l1 -> ~ In a l2.
Proof.
  induction l1 as [|x l1 IH]; simpl; intros l2 H; [split; [exact H|intros a []]|].
  apply andb_true_iff in H as [H1 H2]. destruct (IH l2 H2) as [A B]. split; [exact A|].
  intros a [E|Ha]; [|apply B; exact Ha]. subst. apply negb_true_iff in H1. apply inb_false in H1.
  intro Hin. apply H1. apply in_or_app; right; exact Hin.
Qed.

Lemma dim_uniqueb_gen : forall l, nodupb (flat_map dimkey l) = true ->
  forall c1 c2 a, In c1 l -> In c2 l -> dimkey c1 = [a] -> dimkey c2 = [a] -> c1 = c2.
Proof.
  induction l as [|x l IH]; intros H c1 c2 a H1 H2 K1 K2; [destruct H1|].
  simpl in H. destruct (nodupb_app_l _ _ H) as [Hl Hd].
  assert (Hin : forall c, In c l -> dimkey c = [a] -> In a (flat_map dimkey l)).
  { intros c Hc Kc. apply in_flat_map. exists c. split; [exact Hc|rewrite Kc; left; reflexivity]. }
  destruct H1 as [E1|H1]; destruct H2 as [E2|H2].
  - congruence.
  - subst x. exfalso. apply (Hd a); [rewrite K1; left; reflexivity|eapply Hin; eassumption].
  - subst x. exfalso. apply (Hd a); [rewrite K2; left; reflexivity|eapply Hin; eassumption].
  - eapply IH; eassumption.
Qed.

Lemma dim_uniqueb_sound : forall f, wf f -> dim_uniqueb f = true -> dim_unique f.
Proof.
  intros f Hwf H c1 c2 H1 H2 T1 T2 E.
  destruct (wf_cons f Hwf c1 H1) as [_ [_ [_ W]]]. rewrite T1 in W. destruct W as [[a [Ea _]] _].
  apply (dim_uniqueb_gen (f_cons f) H c1 c2 a H1 H2); unfold dimkey.
  - rewrite T1, Ea. reflexivity.
  - rewrite T2, <- E, Ea. reflexivity.
Qed.

(* the theorems under the executable guard *)
Theorem roundtrip_checked : forall o f, check_wf (o, f) = true ->
  exists r lab, read_skel (write_skel o f) = [r] /\ iso f lab r /\
    (forall a a', a < naxes f -> a' < naxes f -> lab a = lab a' -> a = a') /\
    (forall c, In c (f_cons f) <-> In c (expected_cons f)).
Proof.
  intros o f H. unfold check_wf in H. apply andb_true_iff in H as [H1 H2].
  pose proof (wfb_sound f H1) as Hwf. destruct (roundtrip_core o f Hwf) as [r [lab [A [B C]]]].
  exists r, lab. splits; try assumption. apply every_construct_expected; [exact Hwf|apply dim_uniqueb_sound; assumption].
Qed.
