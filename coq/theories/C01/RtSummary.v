(* C01 - round trip proof, part 6: what the writer leaves behind. *)
From CfdmV Require Import Common.Base C01.Model C01.Lemmas C01.RtStrings C01.RtWriter C01.RtSteps C01.RtAxis C01.RtPhases.
Open Scope string_scope.
Open Scope list_scope.
Ltac splits := repeat match goal with |- _ /\ _ => split end.

Definition auxes (f : skel) := filter (is_type CAux) (f_cons f).
Definition meas (f : skel) := filter (is_type CMeasure) (f_cons f).
Definition fancs (f : skel) := filter (is_type CFanc) (f_cons f).
Definition naxes (f : skel) := length (f_axes f).

Record summary (o : options) (f : skel) (w : wstate) (xns mns ans : list string) (dvn : string) : Prop := {
  s_inv : Inv0 w;
  s_ax : AxInv w;
  s_ref : Ref f w (mns ++ ans);
  s_fresh : ~ In dvn (used w);
  s_nice : nice dvn;
  s_axdesc : forall a, a < naxes f -> axdesc f w a;
  s_coords : w_coords w = flat_map (cn o f w) (seq 0 (naxes f)) ++ xns;
  s_aux : Forall2 (auxdesc (map snd (w_axdim w)) w w) (auxes f) xns;
  s_meas : Forall2 (fun c n => pdesc (w_vars w) n (dims_of w (c_axes c))) (meas f) mns;
  s_anc : Forall2 (fun c n => pdesc (w_vars w) n (dims_of w (c_axes c))) (fancs f) ans
}.

Definition entries (cs : list con) (ns : list string) : list string :=
  map (fun p => entry (fst p) (snd p)) (combine cs ns).

Definition data_var (f : skel) (w : wstate) (mns ans : list string) (dvn : string) : var :=
  {| v_kind := KNum; v_name := dvn; v_dims := dims_of w (f_data_axes f);
     v_attrs := opt_attr "cell_measures" (entries (meas f) mns) ++ opt_attr "coordinates" (w_coords w)
                ++ opt_attr "ancillary_variables" (entries (fancs f) ans)
                ++ opt_attr "cell_methods" (map (cm_string w) (f_cms f)) |}.

Lemma inv_w0 : Inv0 w0.
Proof. constructor; simpl; try (intros x []); try constructor. Qed.

Lemma filter_wf : forall f t c, wf f -> In c (filter (is_type t) (f_cons f)) -> con_wf f c.
Proof. intros f t c H Hc. apply filter_In in Hc as [Hc _]. apply (wf_cons f H); exact Hc. Qed.

Lemma cm_string_frame : forall w w' m, w_axdim w' = w_axdim w -> w_axscalar w' = w_axscalar w -> cm_string w' m = cm_string w m.
Proof. intros w w' m E1 E2. unfold cm_string, cm_axis. rewrite E1, E2. reflexivity. Qed.

Lemma writer_summary : forall o f, wf f ->
  exists w xns mns ans dvn, summary o f w xns mns ans dvn /\ length mns = length (meas f) /\ length ans = length (fancs f) /\
    write_skel o f = {| d_dims := w_dims w; d_vars := w_vars w ++ [data_var f w mns ans dvn] |} /\
    dvn = netcdf_name (base_name (f_ncvar f) (f_std f) "data") (used w).
Proof.
  intros o f Hwf. unfold write_skel, write_skel_gen.
  (* axes *)
  assert (A0 : AxInv w0) by (constructor; simpl; try (intros x []); try apply NoDup_nil; intros x _ []).
  assert (R0 : RoleInv w0) by (split; intros p []).
  assert (Ref0 : Ref f w0 []) by (intros v []).
  destruct (write_axes_fold o f (seq 0 (length (f_axes f))) w0 Hwf (seq_NoDup _ _)
              (fun a H => proj2 (proj1 (in_seq _ _ _) H)) inv_w0 R0 A0 Ref0 (fun a _ => conj eq_refl eq_refl))
    as [I1 [R1 [A1 [Ref1 [X1 [D1 [_ [C1 S1]]]]]]]].
  set (w1 := fold_left (write_axis true o f) (seq 0 (length (f_axes f))) w0) in *.
  (* auxiliary coordinates *)
  set (AX := map snd (w_axdim w1)).
  assert (HAX : incl AX (used w1)) by (intros x Hx; apply used_dn; apply (ax_dn w1 A1); exact Hx).
  assert (HSd : SdInv AX w1) by (intros p Hp; rewrite S1 in Hp; destruct Hp).
  assert (Haux : forall c, In c (auxes f) -> con_wf f c /\ c_type c = CAux).
  { intros c Hc. split; [apply (filter_wf f CAux c Hwf Hc)|].
    apply filter_In in Hc as [_ Hc]. unfold is_type in Hc. destruct (c_type c); try discriminate; reflexivity. }
  destruct (write_aux_fold o f AX (auxes f) w1 Haux I1 R1 Ref1 HAX HSd)
    as [I2 [R2 [Ref2 [X2 [E21 [E22 [xns [C2 D2]]]]]]]].
  fold (auxes f). set (w2 := fold_left (write_aux o f) (auxes f) w1) in *.
  (* cell measures *)
  assert (Hm : forall c, In c (meas f) -> nice_opt (c_std c) /\ nice_opt (c_ncvar c)).
  { intros c Hc. destruct (filter_wf f CMeasure c Hwf Hc) as [H1 [H2 _]]. split; assumption. }
  assert (Ncm : nice "cell_measure") by (split; [discriminate|reflexivity]).
  assert (Nad : nice "ancillary_data") by (split; [discriminate|reflexivity]).
  destruct (write_plain_fold f "cell_measure" (meas f) [] w2 [] Ncm Hm I2 Ref2)
    as [mns [w3 [E3 [L3 [I3 [Ref3 [X3 [F31 [F32 [F33 [F34 D3]]]]]]]]]]].
  fold (meas f). rewrite E3.
  (* field ancillaries *)
  assert (Hn : forall c, In c (fancs f) -> nice_opt (c_std c) /\ nice_opt (c_ncvar c)).
  { intros c Hc. destruct (filter_wf f CFanc c Hwf Hc) as [H1 [H2 _]]. split; assumption. }
  destruct (write_plain_fold f "ancillary_data" (fancs f) ([] ++ mns) w3 [] Nad Hn I3 Ref3)
    as [ans [w4 [E4 [L4 [I4 [Ref4 [X4 [F41 [F42 [F43 [F44 D4]]]]]]]]]]].
  fold (fancs f). rewrite E4.
  (* the data variable *)
  destruct (alloc (base_name (f_ncvar f) (f_std f) "data") w4) as [dvn w5] eqn:E5.
  assert (Hb : nice (base_name (f_ncvar f) (f_std f) "data")).
  { apply base_name_nice; try apply (wf_fnames f Hwf). split; [discriminate|reflexivity]. }
  destruct (alloc_inv _ _ _ _ E5 I4 Hb) as [I5 [Hf [Hnn [Hin [EV ED]]]]].
  destruct (alloc_spec _ _ _ _ E5) as [En [B1 [B2 [B3 [B4 [B5 [B6 [B7 B8]]]]]]]].
  assert (X14 : ext w1 w4) by (eapply ext_trans; [exact X2|eapply ext_trans; eassumption]).
  assert (Eax : w_axdim w4 = w_axdim w1) by congruence.
  assert (Esc : w_axscalar w4 = w_axscalar w1) by congruence.
  exists w4, xns, mns, ans, dvn. splits; try assumption.
  - constructor; try assumption.
    + apply (axinv_frame w1); assumption.
    + intros a Ha. apply (axdesc_stable f w1 w4 a); try assumption; try congruence.
      apply D1. apply in_seq. unfold naxes in Ha. lia.
    + rewrite F44, F34, C2, C1. simpl. f_equal. apply flat_map_ext. intros a. symmetry. apply cn_frame; congruence.
    + rewrite Eax. fold AX. eapply Forall2_impl; [|exact D2]. intros c n H.
      assert (H' : auxdesc AX w1 w4 c n).
      { eapply auxdesc_stable; [exact H|exact I2|eapply ext_trans; eassumption]. }
      destruct H' as [extra H']. exists extra. unfold dims_of in *. rewrite Eax. exact H'.
    + eapply Forall2_impl; [|exact D3]. intros c n H. apply (pdesc_ext w3 w4 _ _ X4).
      unfold dims_of in *. rewrite Eax, <- E21. exact H.
    + eapply Forall2_impl; [|exact D4]. intros c n H. unfold dims_of in *. rewrite Eax, <- E21, <- F32. exact H.
  - assert (Ecm : map (cm_string w5) (f_cms f) = map (cm_string w4) (f_cms f)).
    { apply map_ext. intros m. apply cm_string_frame; assumption. }
    assert (Edm : dims_of w5 (f_data_axes f) = dims_of w4 (f_data_axes f)) by (apply dims_of_frame; exact B4).
    simpl. unfold data_var, entries. rewrite B2, B3, B6, Ecm, Edm. reflexivity.
Qed.
