(* C01 - round trip proof, part 2: invariants of the writer state. *)
From CfdmV Require Import Common.Base C01.Model C01.Lemmas C01.RtStrings.
Open Scope string_scope.
Open Scope list_scope.

Lemma NoDup_app_snoc : forall {A} (l : list A) x, NoDup l -> ~ In x l -> NoDup (l ++ [x]).
Proof.
  induction l as [|y l IH]; simpl; intros x H Hx.
  - constructor; [intros []|constructor].
  - inversion H; subst. constructor.
    + intro Hin. apply in_app_or in Hin as [Hin|[Hin|[]]]; [contradiction|subst; apply Hx; left; reflexivity].
    + apply IH; [assumption|intro; apply Hx; right; assumption].
Qed.

Definition VN (w : wstate) : list string := map v_name (w_vars w).
Definition DN (w : wstate) : list string := map fst (w_dims w).

Definition fv (vs : list var) (n : string) : option var := find (fun v => String.eqb (v_name v) n) vs.

Lemma fv_app_some : forall vs vs' n v, fv vs n = Some v -> fv (vs ++ vs') n = Some v.
Proof.
  unfold fv. induction vs as [|x vs IH]; simpl; intros vs' n v H; [discriminate|].
  destruct (String.eqb (v_name x) n); [exact H|apply IH; exact H].
Qed.

Lemma fv_app_none : forall vs vs' n, ~ In n (map v_name vs) -> fv (vs ++ vs') n = fv vs' n.
Proof.
  unfold fv. induction vs as [|x vs IH]; simpl; intros vs' n H; [reflexivity|].
  destruct (String.eqb (v_name x) n) eqn:E.
  - apply String.eqb_eq in E. exfalso. apply H. left; exact E.
  - apply IH. intro Hin. apply H. right; exact Hin.
Qed.

Lemma fv_name : forall vs n v, fv vs n = Some v -> v_name v = n /\ In v vs.
Proof.
  unfold fv. intros vs n v H. apply find_some in H as [H1 H2]. apply String.eqb_eq in H2. tauto.
Qed.

Lemma fv_none : forall vs n, ~ In n (map v_name vs) -> fv vs n = None.
Proof.
  intros vs n H. unfold fv. destruct (find _ vs) eqn:E; [|reflexivity].
  apply find_some in E as [H1 H2]. apply String.eqb_eq in H2. exfalso. apply H. rewrite <- H2. apply in_map; exact H1.
Qed.

Lemma fv_last : forall vs v, ~ In (v_name v) (map v_name vs) -> fv (vs ++ [v]) (v_name v) = Some v.
Proof. intros vs v H. rewrite fv_app_none by exact H. unfold fv; simpl. rewrite String.eqb_refl. reflexivity. Qed.

Lemma fv_in_nodup : forall vs v, NoDup (map v_name vs) -> In v vs -> fv vs (v_name v) = Some v.
Proof.
  induction vs as [|x vs IH]; intros v Hnd Hin; [contradiction|].
  simpl in Hnd. inversion Hnd as [|n l Hx Hr]; subst. destruct Hin as [E|Hin].
  - subst. unfold fv; simpl. rewrite String.eqb_refl. reflexivity.
  - unfold fv; simpl. destruct (String.eqb (v_name x) (v_name v)) eqn:E.
    + apply String.eqb_eq in E. exfalso. apply Hx. rewrite E. apply in_map; exact Hin.
    + apply IH; assumption.
Qed.

(* ------------------------------------------------------------------ the structural invariant *)
Definition attrs_ok (w : wstate) (v : var) : Prop :=
  v_attrs v = [] \/ exists b, v_attrs v = [("bounds", b)] /\ In b (VN w).

Record Inv0 (w : wstate) : Prop := {
  i_ndv : NoDup (VN w);
  i_vn : incl (VN w) (w_names w);
  i_nice : forall n, In n (w_names w) -> nice n;
  i_attrs : forall v, In v (w_vars w) -> attrs_ok w v;
  i_coords : incl (w_coords w) (VN w)
}.

Lemma used_names : forall w n, In n (w_names w) -> In n (used w).
Proof. intros; unfold used; apply in_or_app; left; assumption. Qed.
Lemma used_dn : forall w n, In n (DN w) -> In n (used w).
Proof. intros; unfold used; apply in_or_app; right; assumption. Qed.
Lemma used_vn : forall w n, Inv0 w -> In n (VN w) -> In n (used w).
Proof. intros w n H Hn. apply used_names. apply (i_vn w H). exact Hn. Qed.

(* w' extends w0: variables and dimensions are appended, with names that were not in use in w0 *)
Definition ext (w w' : wstate) : Prop :=
  (exists vs, w_vars w' = w_vars w ++ vs /\ forall v, In v vs -> ~ In (v_name v) (used w)) /\
  (exists ds, w_dims w' = w_dims w ++ ds /\ forall d, In d ds -> ~ In (fst d) (used w)) /\
  incl (used w) (used w') /\ incl (w_names w) (w_names w').

Lemma ext_refl : forall w, ext w w.
Proof.
  intros w. split; [|split; [|split]].
  - exists []. rewrite app_nil_r. split; [reflexivity|intros v []].
  - exists []. rewrite app_nil_r. split; [reflexivity|intros v []].
  - apply incl_refl.
  - apply incl_refl.
Qed.

Lemma ext_trans : forall a b c, ext a b -> ext b c -> ext a c.
Proof.
  intros a b c [[vs [E1 F1]] [[ds [E2 F2]] [I1 N1]]] [[vs' [E3 F3]] [[ds' [E4 F4]] [I2 N2]]]. split; [|split; [|split]].
  - exists (vs ++ vs'). rewrite E3, E1, app_assoc. split; [reflexivity|].
    intros v Hv. apply in_app_or in Hv as [Hv|Hv]; [apply F1; exact Hv|].
    intro Hin. apply (F3 v Hv). apply I1. exact Hin.
  - exists (ds ++ ds'). rewrite E4, E2, app_assoc. split; [reflexivity|].
    intros v Hv. apply in_app_or in Hv as [Hv|Hv]; [apply F2; exact Hv|].
    intro Hin. apply (F4 v Hv). apply I1. exact Hin.
  - eapply incl_tran; eassumption.
  - eapply incl_tran; eassumption.
Qed.

Lemma ext_vn_neg : forall w w' n, ext w w' -> In n (used w) -> In n (VN w') -> In n (VN w).
Proof.
  intros w w' n [[vs [E F]] _] Hu Hin. unfold VN in *. rewrite E, map_app in Hin.
  apply in_app_or in Hin as [H|H]; [exact H|].
  apply in_map_iff in H as [v [Ev Hv]]. subst. exfalso. apply (F v Hv). exact Hu.
Qed.

Lemma ext_dn_neg : forall w w' n, ext w w' -> In n (used w) -> In n (DN w') -> In n (DN w).
Proof.
  intros w w' n [_ [[ds [E F]] _]] Hu Hin. unfold DN in *. rewrite E, map_app in Hin.
  apply in_app_or in Hin as [H|H]; [exact H|].
  apply in_map_iff in H as [v [Ev Hv]]. subst. exfalso. apply (F v Hv). exact Hu.
Qed.

Lemma ext_fv : forall w w' n v, ext w w' -> fv (w_vars w) n = Some v -> fv (w_vars w') n = Some v.
Proof. intros w w' n v [[vs [E _]] _] H. rewrite E. apply fv_app_some; exact H. Qed.

Lemma ext_assoc : forall w w' n x, ext w w' -> assoc n (w_dims w) = Some x -> assoc n (w_dims w') = Some x.
Proof. intros w w' n x [_ [[ds [E _]] _]] H. rewrite E. apply assoc_app_some; exact H. Qed.

Lemma ext_in_var : forall w w' v, ext w w' -> In v (w_vars w) -> In v (w_vars w').
Proof. intros w w' v [[vs [E _]] _] H. rewrite E. apply in_or_app; left; exact H. Qed.

Lemma ext_vn_incl : forall w w', ext w w' -> incl (VN w) (VN w').
Proof. intros w w' [[vs [E _]] _] n H. unfold VN in *. rewrite E, map_app. apply in_or_app; left; exact H. Qed.

Lemma ext_dn_incl : forall w w', ext w w' -> incl (DN w) (DN w').
Proof. intros w w' [_ [[vs [E _]] _]] n H. unfold DN in *. rewrite E, map_app. apply in_or_app; left; exact H. Qed.

Lemma ext_used : forall w w', ext w w' -> incl (used w) (used w').
Proof. intros w w' [_ [_ [H _]]]; exact H. Qed.

Lemma ext_names : forall w w', ext w w' -> incl (w_names w) (w_names w').
Proof. intros w w' [_ [_ [_ H]]]; exact H. Qed.

(* states that differ in bookkeeping only *)
Definition same_core (w w' : wstate) : Prop :=
  w_names w' = w_names w /\ w_dims w' = w_dims w /\ w_vars w' = w_vars w.

Lemma same_core_used : forall w w', same_core w w' -> used w' = used w.
Proof. intros w w' [E1 [E2 E3]]. unfold used. rewrite E1, E2. reflexivity. Qed.

Lemma ext_same_core : forall w0 w w', ext w0 w -> same_core w w' -> ext w0 w'.
Proof.
  intros w0 w w' [[vs [E1 F1]] [[ds [E2 F2]] [I N]]] S. pose proof (same_core_used _ _ S) as U.
  destruct S as [S1 [S2 S3]]. split; [|split; [|split]].
  - exists vs. rewrite S3. tauto.
  - exists ds. rewrite S2. tauto.
  - rewrite U. exact I.
  - rewrite S1. exact N.
Qed.

Lemma inv_same : forall w w', Inv0 w -> same_core w w' -> w_coords w' = w_coords w -> Inv0 w'.
Proof.
  intros w w' [H1 H2 H3 H4 H5] [S1 [S2 S3]] SC.
  assert (EV : VN w' = VN w) by (unfold VN; rewrite S3; reflexivity).
  constructor; rewrite ?EV, ?S1, ?SC; try assumption.
  intros v Hv. rewrite S3 in Hv. destruct (H4 v Hv) as [H|[b [Hb1 Hb2]]]; [left; exact H|].
  right. exists b. rewrite EV. tauto.
Qed.

(* ------------------------------------------------------------------ primitive operations *)
Lemma alloc_spec : forall base w n w', alloc base w = (n, w') ->
  n = netcdf_name base (used w) /\ w_names w' = n :: w_names w /\ w_dims w' = w_dims w /\ w_vars w' = w_vars w /\
  w_axdim w' = w_axdim w /\ w_axscalar w' = w_axscalar w /\ w_coords w' = w_coords w /\
  w_bdims w' = w_bdims w /\ w_sdims w' = w_sdims w.
Proof. intros base w n w' H. unfold alloc in H. inversion H; subst; simpl. repeat split; reflexivity. Qed.

Lemma alloc_used : forall base w n w', alloc base w = (n, w') -> used w' = n :: used w.
Proof. intros base w n w' H. apply alloc_spec in H as [_ [E1 [E2 _]]]. unfold used. rewrite E1, E2. reflexivity. Qed.

Lemma alloc_ext : forall w0 base w n w', alloc base w = (n, w') -> ext w0 w -> ext w0 w'.
Proof.
  intros w0 base w n w' H [[vs [E1 F1]] [[ds [E2 F2]] [I N]]]. pose proof (alloc_used _ _ _ _ H) as U.
  apply alloc_spec in H as [_ [A1 [A2 [A3 _]]]]. split; [|split; [|split]].
  - exists vs. rewrite A3. tauto.
  - exists ds. rewrite A2. tauto.
  - rewrite U. intros x Hx. right. apply I; exact Hx.
  - rewrite A1. intros x Hx. right. apply N; exact Hx.
Qed.

Lemma alloc_inv : forall base w n w', alloc base w = (n, w') -> Inv0 w -> nice base ->
  Inv0 w' /\ ~ In n (used w) /\ nice n /\ In n (w_names w') /\ VN w' = VN w /\ DN w' = DN w.
Proof.
  intros base w n w' H [H1 H2 H3 H4 H5] Hb.
  destruct (alloc_spec _ _ _ _ H) as [En [A1 [A2 [A3 [_ [_ [A6 _]]]]]]].
  assert (Hn : nice n) by (rewrite En; apply netcdf_name_nice; exact Hb).
  assert (Hf : ~ In n (used w)).
  { rewrite En. apply netcdf_name_fresh. apply goodb_no_space. apply Hb. }
  assert (EV : VN w' = VN w) by (unfold VN; rewrite A3; reflexivity).
  assert (ED : DN w' = DN w) by (unfold DN; rewrite A2; reflexivity).
  split; [|split; [exact Hf|split; [exact Hn|split; [rewrite A1; left; reflexivity|split; assumption]]]].
  constructor; rewrite ?EV, ?A1, ?A6; try assumption.
  - intros x Hx. right. apply H2; exact Hx.
  - intros x [Hx|Hx]; [subst; exact Hn|apply H3; exact Hx].
  - intros v Hv. rewrite A3 in Hv. destruct (H4 v Hv) as [H0|[b [Hb1 Hb2]]]; [left; exact H0|].
    right. exists b. rewrite EV. tauto.
Qed.

Lemma add_dim_ext : forall w0 w n sz u, ext w0 w -> ~ In n (used w0) -> ext w0 (add_dim n sz u w).
Proof.
  intros w0 w n sz u [[vs [E1 F1]] [[ds [E2 F2]] [I N]]] Hn. split; [|split; [|split]].
  - exists vs. simpl. tauto.
  - exists (ds ++ [(n, (sz, u))]). simpl. rewrite E2, app_assoc. split; [reflexivity|].
    intros d Hd. apply in_app_or in Hd as [Hd|[Hd|[]]]; [apply F2; exact Hd|subst; exact Hn].
  - intros x Hx. apply I in Hx. unfold used in *. simpl. rewrite map_app. apply in_app_or in Hx as [Hx|Hx].
    + apply in_or_app; left; exact Hx.
    + apply in_or_app; right. apply in_or_app; left; exact Hx.
  - exact N.
Qed.

Lemma add_dim_inv : forall w n sz u, Inv0 w -> Inv0 (add_dim n sz u w).
Proof. intros w n sz u [H1 H2 H3 H4 H5]. constructor; assumption. Qed.

Lemma add_var_ext : forall w0 w v, ext w0 w -> ~ In (v_name v) (used w0) -> ext w0 (add_var v w).
Proof.
  intros w0 w v [[vs [E1 F1]] [[ds [E2 F2]] [I N]]] Hn. split; [|split; [|split]].
  - exists (vs ++ [v]). simpl. rewrite E1, app_assoc. split; [reflexivity|].
    intros d Hd. apply in_app_or in Hd as [Hd|[Hd|[]]]; [apply F1; exact Hd|subst; exact Hn].
  - exists ds. simpl. tauto.
  - exact I.
  - exact N.
Qed.

Lemma attrs_ok_mono : forall w w' v, incl (VN w) (VN w') -> attrs_ok w v -> attrs_ok w' v.
Proof. intros w w' v Hi [H|[b [H1 H2]]]; [left; exact H|right; exists b; split; [exact H1|apply Hi; exact H2]]. Qed.

Lemma add_var_inv : forall w v, Inv0 w -> In (v_name v) (w_names w) -> ~ In (v_name v) (VN w) ->
  attrs_ok w v -> Inv0 (add_var v w).
Proof.
  intros w v [H1 H2 H3 H4 H5] Hn Hf Ha.
  assert (Hi : incl (VN w) (VN (add_var v w))).
  { intros x Hx. unfold VN; simpl. rewrite map_app. apply in_or_app; left; exact Hx. }
  constructor.
  - unfold VN; simpl. rewrite map_app. simpl. apply NoDup_app_snoc; assumption.
  - unfold VN; simpl. rewrite map_app. intros x Hx. apply in_app_or in Hx as [Hx|[Hx|[]]]; [apply H2; exact Hx|subst; exact Hn].
  - exact H3.
  - simpl. intros x Hx. apply in_app_or in Hx as [Hx|[Hx|[]]].
    + apply (attrs_ok_mono w); [exact Hi|apply H4; exact Hx].
    + subst. apply (attrs_ok_mono w); [exact Hi|exact Ha].
  - simpl. intros x Hx. apply Hi. apply H5; exact Hx.
Qed.

Lemma add_coord_inv : forall w n, Inv0 w -> In n (VN w) -> Inv0 (add_coord n w).
Proof.
  intros w n [H1 H2 H3 H4 H5] Hn. constructor; try assumption.
  simpl. intros x Hx. apply in_app_or in Hx as [Hx|[Hx|[]]]; [apply H5; exact Hx|subst; exact Hn].
Qed.
