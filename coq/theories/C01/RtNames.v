(* C01 - names kept, part 1: "a set name is unused when it is requested".

   The writer's name allocator returns  base  or  base_k .  Hence a name that contains no underscore can only be in
   use if it was itself requested as a base earlier (or was in use from the start).  KInv R w states this of a writer
   state: every name in use contains an underscore or belongs to R, the underscore-free bases requested so far.
   It is preserved by every primitive of the writer (alloc, add_dim of an allocated name, add_var, ...), for any
   history; with it a set name that is new among the requests is returned unchanged (alloc_keep), for request
   histories of any length (names_kept_in_any_run), and through the cell-measure / field-ancillary phases of
   write_skel (write_plain_names).  *)
From CfdmV Require Import Common.Base C01.Model C01.Lemmas C01.RtStrings C01.RtWriter.
Open Scope string_scope.
Open Scope list_scope.
Ltac splits := repeat match goal with |- _ /\ _ => split end.

Definition KInv (R : list string) (w : wstate) : Prop :=
  forall x, In x (used w) -> noundb x = false \/ In x R.

(* a name as the harness (and CF practice) sets them: non-empty, no blank / colon / at-sign, no underscore *)
Definition plain (s : string) : Prop := nice s /\ noundb s = true.

Lemma K_w0 : forall R, KInv R w0.
Proof. intros R x []. Qed.

Lemma K_mono : forall R R' w, KInv R w -> incl R R' -> KInv R' w.
Proof. intros R R' w H Hi x Hx. destruct (H x Hx) as [E|E]; [left; exact E|right; apply Hi; exact E]. Qed.

Lemma K_used : forall R w w', KInv R w -> incl (used w') (used w) -> KInv R w'.
Proof. intros R w w' H Hi x Hx. apply H. apply Hi. exact Hx. Qed.

Lemma netcdf_name_shape : forall base U, nice base ->
  netcdf_name base U = base \/ noundb (netcdf_name base U) = false.
Proof.
  intros base U [_ Hg]. destruct (netcdf_name_cases base U (goodb_no_space _ Hg)) as [E|[k E]].
  - left; exact E.
  - right. rewrite E. apply cand_und.
Qed.

(* one allocation: the invariant holds again once the base (if it has no underscore) is counted as requested *)
Lemma alloc_K : forall R R' base w n w', KInv R w -> nice base -> alloc base w = (n, w') ->
  incl R R' -> (noundb base = false \/ In base R') -> KInv R' w'.
Proof.
  intros R R' base w n w' HK Hb Ha Hi Hbase x Hx.
  rewrite (alloc_used _ _ _ _ Ha) in Hx. destruct Hx as [Hx|Hx].
  - subst x. apply alloc_spec in Ha as [En _]. rewrite En.
    destruct (netcdf_name_shape base (used w) Hb) as [E|E]; [rewrite E; tauto|left; exact E].
  - destruct (HK x Hx) as [E|E]; [left; exact E|right; apply Hi; exact E].
Qed.

(* ... and a base without underscore that has not been requested before is returned as it is *)
Lemma alloc_keep : forall R base w n w', KInv R w -> nice base -> noundb base = true -> ~ In base R ->
  alloc base w = (n, w') -> n = base.
Proof.
  intros R base w n w' HK [_ Hg] Hu Hn Ha. apply alloc_spec in Ha as [En _]. rewrite En.
  apply netcdf_name_keeps_unused; [apply goodb_no_space; exact Hg|].
  intro Hin. destruct (HK base Hin) as [E|E]; [rewrite Hu in E; discriminate|contradiction].
Qed.

(* the other primitives do not put a new name in use *)
Lemma add_dim_used : forall n sz u w, In n (used w) -> incl (used (add_dim n sz u w)) (used w).
Proof.
  intros n sz u w Hn x Hx. unfold used in *. simpl in Hx. rewrite map_app in Hx.
  apply in_app_or in Hx as [Hx|Hx]; [apply in_or_app; left; exact Hx|].
  apply in_app_or in Hx as [Hx|[Hx|[]]]; [apply in_or_app; right; exact Hx|simpl in Hx; subst; exact Hn].
Qed.

Lemma add_dim_K : forall R n sz u w, KInv R w -> In n (used w) -> KInv R (add_dim n sz u w).
Proof. intros R n sz u w H Hn. apply (K_used R w); [exact H|apply add_dim_used; exact Hn]. Qed.

Lemma add_var_K : forall R v w, KInv R w -> KInv R (add_var v w).
Proof. intros R v w H. apply (K_used R w); [exact H|apply incl_refl]. Qed.

Lemma set_axdim_K : forall R a n w, KInv R w -> KInv R (set_axdim a n w).
Proof. intros R a n w H. apply (K_used R w); [exact H|apply incl_refl]. Qed.

Lemma set_axscalar_K : forall R a n w, KInv R w -> KInv R (set_axscalar a n w).
Proof. intros R a n w H. apply (K_used R w); [exact H|apply incl_refl]. Qed.

Lemma add_coord_K : forall R n w, KInv R w -> KInv R (add_coord n w).
Proof. intros R n w H. apply (K_used R w); [exact H|apply incl_refl]. Qed.

(* ------------------------------------------------------------------ request histories of any length *)
Fixpoint alloc_all (bs : list string) (w : wstate) : list string * wstate :=
  match bs with
  | [] => ([], w)
  | b :: r => let '(n, w1) := alloc b w in let '(ns, w2) := alloc_all r w1 in (n :: ns, w2)
  end.

Lemma alloc_all_K : forall bs R w, KInv R w -> Forall nice bs -> KInv (rev bs ++ R) (snd (alloc_all bs w)).
Proof.
  induction bs as [|b bs IH]; intros R w HK Hn; cbn [alloc_all rev]; [exact HK|].
  inversion Hn as [|? ? Hb Hr]; subst.
  destruct (alloc b w) as [n w1] eqn:Ea. destruct (alloc_all bs w1) as [ns w2] eqn:Eb. cbn [snd].
  assert (K1 : KInv (b :: R) w1).
  { eapply alloc_K; [exact HK|exact Hb|exact Ea|intros x Hx; right; exact Hx|right; left; reflexivity]. }
  pose proof (IH (b :: R) w1 K1 Hr) as H. rewrite Eb in H. cbn [snd] in H.
  rewrite <- app_assoc. exact H.
Qed.

(* In ANY history of name requests, starting from any state all of whose names in use contain an underscore or
   belong to R: the i-th request, if its base b has no underscore, is not in R and was not requested before, is
   answered with b itself. *)
Theorem names_kept_in_any_run : forall bs R w, KInv R w -> Forall nice bs ->
  forall i b, nth_error bs i = Some b -> noundb b = true -> ~ In b R -> ~ In b (firstn i bs) ->
  nth_error (fst (alloc_all bs w)) i = Some b.
Proof.
  induction bs as [|b0 bs IH]; intros R w HK Hn i b Hi Hu HR Hf; [destruct i; discriminate|].
  inversion Hn as [|? ? Hb Hr]; subst. cbn [alloc_all].
  destruct (alloc b0 w) as [n w1] eqn:Ea. destruct (alloc_all bs w1) as [ns w2] eqn:Eb. cbn [fst].
  destruct i as [|i]; cbn [nth_error firstn] in *.
  - inversion Hi; subst. f_equal. eapply alloc_keep; [exact HK|exact Hb|exact Hu|exact HR|exact Ea].
  - assert (K1 : KInv (b0 :: R) w1).
    { eapply alloc_K; [exact HK|exact Hb|exact Ea|intros x Hx; right; exact Hx|right; left; reflexivity]. }
    pose proof (IH (b0 :: R) w1 K1 Hr i b Hi Hu) as H. rewrite Eb in H. cbn [fst] in H. apply H.
    + intros [E|E]; [apply Hf; left; exact E|contradiction].
    + intro E. apply Hf. right; exact E.
Qed.

(* the guard is exact: a base requested twice gets a suffix the second time *)
Lemma names_kept_twice_refuted :
  exists bs i b, nth_error bs i = Some b /\ noundb b = true /\ nth_error (fst (alloc_all bs w0)) i <> Some b.
Proof. exists ["nv"; "nv"], 1%nat, "nv". splits; [reflexivity|reflexivity|vm_compute; discriminate]. Qed.

(* ------------------------------------------------------------------ cell measures and field ancillaries of write_skel *)
Lemma NoDup_app_tail : forall {A} (l1 l2 : list A), NoDup (l1 ++ l2) -> NoDup l2.
Proof. induction l1 as [|x l1 IH]; simpl; intros l2 H; [exact H|]. inversion H; subst. apply IH; assumption. Qed.

Definition oset (o : option string) : list string := match o with Some s => [s] | None => [] end.

Lemma write_plain_K : forall d R c w l w' l', KInv R w -> nice d -> nice_opt (c_std c) -> nice_opt (c_ncvar c) ->
  In d R -> incl (oset (c_std c)) R -> write_plain d (w, l) c = (w', l') ->
  KInv (oset (c_ncvar c) ++ R) w' /\
  (forall n, c_ncvar c = Some n -> noundb n = true -> ~ In n R ->
     l' = l ++ [match c_type c with CMeasure => c_measure c +++ ": " +++ n | _ => n end] /\
     exists v, w_vars w' = w_vars w ++ [v] /\ v_name v = n).
Proof.
  intros d R c w l w' l' HK Hd Hs Hv HdR HsR H. unfold write_plain in H.
  destruct (alloc (base_name (c_ncvar c) (c_std c) d) w) as [ncvar w1] eqn:Ea.
  inversion H; subst; clear H.
  assert (Hb : nice (base_name (c_ncvar c) (c_std c) d)).
  { unfold base_name. destruct (c_ncvar c); [exact Hv|]. destruct (c_std c); [exact Hs|exact Hd]. }
  split.
  - apply add_var_K. eapply alloc_K; [exact HK|exact Hb|exact Ea|intros x Hx; apply in_or_app; right; exact Hx|].
    right. unfold base_name. destruct (c_ncvar c) as [n|]; simpl; [left; reflexivity|].
    destruct (c_std c) as [s|]; simpl; [apply HsR; left; reflexivity|exact HdR].
  - intros n En Hu Hn. rewrite En in Ea. simpl in Ea.
    assert (E : ncvar = n).
    { eapply alloc_keep; [exact HK| |exact Hu|exact Hn|exact Ea]. rewrite En in Hv. exact Hv. }
    subst ncvar. split; [reflexivity|].
    apply alloc_spec in Ea as [_ [_ [_ [A3 _]]]]. eexists. simpl. rewrite A3. split; reflexivity.
Qed.

(* variables are only appended *)
Lemma write_plain_fold_vars : forall d cs w l n, In n (map v_name (w_vars w)) ->
  In n (map v_name (w_vars (fst (fold_left (write_plain d) cs (w, l))))).
Proof.
  intros d cs. induction cs as [|c cs IH]; intros w l n B; [exact B|].
  cbn [fold_left]. destruct (write_plain d (w, l) c) as [w2 l2] eqn:E. apply IH.
  unfold write_plain in E. destruct (alloc (base_name (c_ncvar c) (c_std c) d) w) as [nv wa] eqn:Ea. inversion E; subst. simpl.
  apply alloc_spec in Ea as [_ [_ [_ [A3 _]]]]. rewrite A3, map_app. apply in_or_app; left; exact B.
Qed.

(* the names the phase gives: the set name where one is set *)
Definition named_entry (c : con) (n : string) : string :=
  match c_type c with CMeasure => c_measure c +++ ": " +++ n | _ => n end.

(* over a whole list of cell measures / field ancillaries (any length): if the set names are pairwise different,
   underscore-free and not among R (the bases requested earlier, which include the default and the standard
   names), then EVERY construct with a set name is written as a variable of exactly that name, and the entry of
   the cell_measures / ancillary_variables attribute at its position carries that name *)
Lemma write_plain_names : forall d cs R w l, KInv R w -> nice d -> In d R ->
  (forall c, In c cs -> nice_opt (c_std c) /\ nice_opt (c_ncvar c) /\ incl (oset (c_std c)) R) ->
  NoDup (flat_map (fun c => oset (c_ncvar c)) cs) ->
  (forall n, In n (flat_map (fun c => oset (c_ncvar c)) cs) -> noundb n = true /\ ~ In n R) ->
  let r := fold_left (write_plain d) cs (w, l) in
  KInv (rev (flat_map (fun c => oset (c_ncvar c)) cs) ++ R) (fst r) /\
  exists ents, snd r = l ++ ents /\ length ents = length cs /\
    forall i c n, nth_error cs i = Some c -> c_ncvar c = Some n ->
      nth_error ents i = Some (named_entry c n) /\ In n (map v_name (w_vars (fst r))).
Proof.
  intros d cs. induction cs as [|c cs IH]; intros R w l HK Hd HdR Hc Hnd Hg r; subst r.
  - simpl. split; [exact HK|]. exists []. rewrite app_nil_r. splits; try reflexivity.
    intros i c n H. destruct i; discriminate.
  - cbn [fold_left flat_map]. destruct (write_plain d (w, l) c) as [w1 l1] eqn:E1.
    destruct (Hc c (or_introl eq_refl)) as [Hs [Hv HsR]].
    destruct (write_plain_K d R c w l w1 l1 HK Hd Hs Hv HdR HsR E1) as [K1 N1].
    cbn [flat_map] in Hnd. pose proof (NoDup_app_tail _ _ Hnd) as Hnd2.
    assert (Hc2 : forall c0, In c0 cs -> nice_opt (c_std c0) /\ nice_opt (c_ncvar c0) /\ incl (oset (c_std c0)) (oset (c_ncvar c) ++ R)).
    { intros c0 H0. destruct (Hc c0 (or_intror H0)) as [A [B C]]. splits; try assumption.
      intros x Hx. apply in_or_app; right. apply C; exact Hx. }
    assert (Hg2 : forall n, In n (flat_map (fun c => oset (c_ncvar c)) cs) -> noundb n = true /\ ~ In n (oset (c_ncvar c) ++ R)).
    { intros n Hn. destruct (Hg n) as [A B]; [cbn [flat_map]; apply in_or_app; right; exact Hn|]. split; [exact A|].
      intro Hx. apply in_app_or in Hx as [Hx|Hx]; [|contradiction].
      destruct (c_ncvar c) as [m|]; cbn [oset app In] in *; [|contradiction].
      destruct Hx as [Hx|[]]. subst m. inversion Hnd; subst. contradiction. }
    destruct (IH (oset (c_ncvar c) ++ R) w1 l1 K1 Hd (in_or_app _ _ _ (or_intror HdR)) Hc2 Hnd2 Hg2) as [K2 [ents [E2 [L2 P2]]]].
    split.
    + rewrite rev_app_distr, <- app_assoc.
      assert (Er : rev (oset (c_ncvar c)) = oset (c_ncvar c)) by (destruct (c_ncvar c); reflexivity).
      rewrite Er. exact K2.
    + (* the entry this construct appended *)
      assert (Hl1 : exists e, l1 = l ++ [e] /\ (forall n, c_ncvar c = Some n -> e = named_entry c n /\ In n (map v_name (w_vars w1)))).
      { unfold write_plain in E1. destruct (alloc (base_name (c_ncvar c) (c_std c) d) w) as [nv wa] eqn:Ea.
        inversion E1; subst. eexists. split; [reflexivity|]. intros n En.
        destruct (Hg n) as [A B]; [cbn [flat_map]; rewrite En; left; reflexivity|].
        assert (E1' : write_plain d (w, l) c = (add_var {| v_name := nv; v_dims := dims_of w (c_axes c); v_attrs := []; v_kind := KNum |} wa,
                       l ++ [match c_type c with CMeasure => c_measure c +++ ": " +++ nv | _ => nv end])).
        { unfold write_plain. rewrite Ea. reflexivity. }
        destruct (N1 n En A B) as [EL [v [EV EN]]].
        apply app_inv_head in EL. inversion EL as [EL']. unfold named_entry. split; [exact EL'|].
        rewrite EV, map_app. apply in_or_app; right; left; exact EN. }
      destruct Hl1 as [e [El1 Pe]].
      exists (e :: ents). rewrite E2, El1, <- app_assoc. splits; [reflexivity|simpl; rewrite L2; reflexivity|].
      intros i c0 n Hi En. destruct i as [|i]; simpl in Hi.
      * inversion Hi; subst c0. destruct (Pe n En) as [A B]. split; [simpl; rewrite A; reflexivity|].
        apply write_plain_fold_vars; exact B.
      * simpl. rewrite El1 in P2. apply (P2 i c0 n Hi En).
Qed.
