(* C01 - evaluation entry points for the correspondence harness. *)
From CfdmV Require Import Common.Base C01.Model.
Open Scope string_scope.
Open Scope list_scope.

Definition ostr_eqb := option_eqb String.eqb.
Definition lstr_eqb := list_eqb String.eqb.

Definition dim_eqb (a b : string * (Z * bool)) : bool :=
  String.eqb (fst a) (fst b) && Z.eqb (fst (snd a)) (fst (snd b)) && Bool.eqb (snd (snd a)) (snd (snd b)).

Definition ref_keys : list string :=
  ["bounds"; "coordinates"; "cell_measures"; "ancillary_variables"; "cell_methods"].

Definition var_eqb (a b : var) : bool :=
  String.eqb (v_name a) (v_name b) && lstr_eqb (v_dims a) (v_dims b) &&
  forallb (fun k => ostr_eqb (attr k a) (attr k b)) ref_keys.

(* every element of l1 has an equal element in l2, and the lengths agree *)
Definition same_set {A} (eqb : A -> A -> bool) (l1 l2 : list A) : bool :=
  Nat.eqb (length l1) (length l2) && forallb (fun x => existsb (eqb x) l2) l1 &&
  forallb (fun y => existsb (fun x => eqb x y) l1) l2.

Definition ads_eqb (a b : ads) : bool :=
  same_set dim_eqb (d_dims a) (d_dims b) && same_set var_eqb (d_vars a) (d_vars b).

(* (a) the file the writer produced == write_skel of the skeleton *)
Definition check_write (c : options * skel * ads) : bool :=
  let '(o, f, observed) := c in ads_eqb (write_skel o f) observed.

Definition ctype_eqb (a b : ctype) : bool :=
  match a, b with CDim, CDim | CAux, CAux | CMeasure, CMeasure | CFanc, CFanc => true | _, _ => false end.

Definition rcon_eqb (a b : rcon) : bool :=
  ctype_eqb (r_type a) (r_type b) && String.eqb (r_ncvar a) (r_ncvar b) && lstr_eqb (r_axes a) (r_axes b) &&
  ostr_eqb (r_bounds a) (r_bounds b) && ostr_eqb (r_bdim a) (r_bdim b) && String.eqb (r_measure a) (r_measure b).

Definition cm_eqb (a b : list string * string) : bool :=
  lstr_eqb (fst a) (fst b) && String.eqb (snd a) (snd b).

Definition rskel_eqb (a b : rskel) : bool :=
  String.eqb (rs_ncvar a) (rs_ncvar b) && lstr_eqb (rs_data_axes a) (rs_data_axes b) &&
  same_set dim_eqb (rs_axes a) (rs_axes b) && same_set rcon_eqb (rs_cons a) (rs_cons b) &&
  list_eqb cm_eqb (rs_cms a) (rs_cms b).

(* (b) what cfdm.read made of a file == read_skel of the file as netCDF4-python shows it *)
Definition check_read (c : ads * list rskel) : bool :=
  let '(d, observed) := c in list_eqb rskel_eqb (read_skel d) observed.

(* the round trip inside the model, on the same skeleton: exactly one construct comes back *)
Definition check_one (c : options * skel) : bool :=
  let '(o, f) := c in Nat.eqb (length (read_skel (write_skel o f))) 1.
