(* C01 - evaluation entry points for the correspondence harness. *)
From CfdmV Require Import Common.Base C01.Model.
Open Scope string_scope.
Open Scope list_scope.

Definition ostr_eqb := option_eqb String.eqb.
Definition lstr_eqb := list_eqb String.eqb.

Definition dim_eqb (a b : string * (Z * bool)) : bool :=
  String.eqb (fst a) (fst b) && Z.eqb (fst (snd a)) (fst (snd b)) && Bool.eqb (snd (snd a)) (snd (snd b)).

Definition ref_keys : list string :=
  ["bounds"; "coordinates"; "cell_measures"; "ancillary_variables"; "cell_methods"; "compress"].

Definition vkind_eqb (a b : vkind) : bool :=
  match a, b with KNum, KNum | KChar, KChar | KStr, KStr => true | _, _ => false end.

Definition var_eqb (a b : var) : bool :=
  String.eqb (v_name a) (v_name b) && lstr_eqb (v_dims a) (v_dims b) && vkind_eqb (v_kind a) (v_kind b) &&
  forallb (fun k => ostr_eqb (attr k a) (attr k b)) ref_keys.

(* every element of l1 has an equal element in l2, and the lengths agree *)
Definition same_set {A} (eqb : A -> A -> bool) (l1 l2 : list A) : bool :=
  Nat.eqb (length l1) (length l2) && forallb (fun x => existsb (eqb x) l2) l1 &&
  forallb (fun y => existsb (fun x => eqb x y) l1) l2.

Definition ads_eqb (a b : ads) : bool :=
  same_set dim_eqb (d_dims a) (d_dims b) && same_set var_eqb (d_vars a) (d_vars b).

(* (a) the file the writer produced == write_skel of the skeleton *)
Definition check_write (c : options * skel * ads) : bool :=
  let '(o, f, observed) := c in ads_eqb (write_skel o f) observed.

Definition ctype_eqb (a b : ctype) : bool :=
  match a, b with CDim, CDim | CAux, CAux | CMeasure, CMeasure | CFanc, CFanc => true | _, _ => false end.

Definition rcon_eqb (a b : rcon) : bool :=
  ctype_eqb (r_type a) (r_type b) && String.eqb (r_ncvar a) (r_ncvar b) && lstr_eqb (r_axes a) (r_axes b) &&
  ostr_eqb (r_bounds a) (r_bounds b) && ostr_eqb (r_bdim a) (r_bdim b) && String.eqb (r_measure a) (r_measure b).

Definition cm_eqb (a b : list string * string) : bool :=
  lstr_eqb (fst a) (fst b) && String.eqb (snd a) (snd b).

Definition rskel_eqb (a b : rskel) : bool :=
  String.eqb (rs_ncvar a) (rs_ncvar b) && lstr_eqb (rs_data_axes a) (rs_data_axes b) &&
  same_set dim_eqb (rs_axes a) (rs_axes b) && same_set rcon_eqb (rs_cons a) (rs_cons b) &&
  list_eqb cm_eqb (rs_cms a) (rs_cms b).

(* (b) what cfdm.read made of a file == read_skel of the file as netCDF4-python shows it *)
Definition check_read (c : ads * list rskel) : bool :=
  let '(d, observed) := c in list_eqb rskel_eqb (read_skel d) observed.

(* the round trip inside the model, on the same skeleton: exactly one construct comes back *)
Definition check_one (c : options * skel) : bool :=
  let '(o, f) := c in Nat.eqb (length (read_skel (write_skel o f))) 1.

(* ------------------------------------------------------------------ the guard of the round-trip theorems, as a test *)
Definition r_okcb (c : ascii) : bool :=
  negb (Ascii.eqb c " ") && negb (Ascii.eqb c ":") && negb (Ascii.eqb c "@").
Fixpoint r_goodb (s : string) : bool :=
  match s with EmptyString => true | String c r => r_okcb c && r_goodb r end.
Definition niceb (s : string) : bool := match s with EmptyString => false | _ => r_goodb s end.
Definition nice_optb (o : option string) : bool := match o with Some s => niceb s | None => true end.
Definition isnone {A} (o : option A) : bool := match o with None => true | Some _ => false end.
Fixpoint nodupb (l : list nat) : bool :=
  match l with [] => true | x :: r => negb (inb x r) && nodupb r end.

Definition bniceb (b : option bnds) : bool :=
  match b with Some bb => nice_optb (b_ncvar bb) && nice_optb (b_ncdim bb) | None => true end.

Definition con_wfb (f : skel) (c : con) : bool :=
  nice_optb (c_std c) && nice_optb (c_ncvar c) && bniceb (c_bounds c) &&
  match c_type c with
  | CDim => match c_axes c with [a] => Nat.ltb a (length (f_axes f)) | _ => false end && isnone (c_strlen c)
  | CAux => match c_axes c with [] => false | _ => true end && forallb (fun a => inb a (f_data_axes f)) (c_axes c)
  | CMeasure => forallb (fun a => inb a (f_data_axes f)) (c_axes c) && isnone (c_bounds c) && isnone (c_strlen c)
                && niceb (c_measure c)
  | CFanc => forallb (fun a => inb a (f_data_axes f)) (c_axes c) && isnone (c_bounds c) && isnone (c_strlen c)
  end.

Definition r_ax_of (f : skel) (a : nat) : axis :=
  nth a (f_axes f) {| a_size := 0; a_ncdim := None; a_unlim := false |}.

Definition wfb (f : skel) : bool :=
  nodupb (f_data_axes f) && forallb (fun a => Nat.ltb a (length (f_axes f))) (f_data_axes f) &&
  forallb (fun a => inb a (f_data_axes f) ||
                    (match find_dimcoord a (f_cons f) with Some _ => true | None => false end
                     && Z.eqb (a_size (r_ax_of f a)) 1 && negb (a_unlim (r_ax_of f a)))) (seq 0 (length (f_axes f))) &&
  forallb (con_wfb f) (f_cons f) &&
  forallb (fun m => forallb (fun a => Nat.ltb a (length (f_axes f))) (m_axes m) && niceb (m_method m)) (f_cms f) &&
  nice_optb (f_std f) && nice_optb (f_ncvar f) && forallb (fun a => nice_optb (a_ncdim a)) (f_axes f).

(* no two dimension coordinates on one axis *)
Definition dim_uniqueb (f : skel) : bool :=
  nodupb (flat_map (fun c => match c_type c, c_axes c with CDim, [a] => [a] | _, _ => [] end) (f_cons f)).

(* every in-fragment case the implementation ran on lies inside the guard of C01_roundtrip_core *)
Definition check_wf (c : options * skel) : bool := let '(o, f) := c in wfb f && dim_uniqueb f.

(* the round trip inside the model on skeletons outside the proved guard too (string-valued scalar auxiliary
   coordinates): one construct, as many constructs of each type as the skeleton has, as many axes *)
Definition count_type (t : ctype) (l : list ctype) : nat := length (filter (ctype_eqb t) l).
Definition check_types (c : options * skel) : bool :=
  let '(o, f) := c in
  match read_skel (write_skel o f) with
  | [r] => forallb (fun t => Nat.eqb (count_type t (map r_type (rs_cons r))) (count_type t (map c_type (f_cons f))))
                   [CDim; CAux; CMeasure; CFanc]
           && Nat.eqb (length (rs_axes r)) (length (f_axes f))
  | _ => false
  end.
