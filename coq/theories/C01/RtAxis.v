(* C01 - round trip proof, part 4: main variables, the axis loop. *)
From CfdmV Require Import Common.Base C01.Model C01.Lemmas C01.RtStrings C01.RtWriter C01.RtSteps.
Open Scope string_scope.
Open Scope list_scope.
Ltac splits := repeat match goal with |- _ /\ _ => split end.

(* ------------------------------------------------------------------ descriptions the reader relies on *)
Definition bdesc (vs : list var) (c : con) (v : var) : Prop :=
  match c_bounds c with
  | None => v_attrs v = []
  | Some b => exists bv bdim, v_attrs v = [("bounds", v_name bv)] /\ fv vs (v_name bv) = Some bv /\
                              v_attrs bv = [] /\ last_dim bv = Some bdim
  end.

Definition cdesc (vs : list var) (c : con) (n : string) (ds : list string) : Prop :=
  exists v, fv vs n = Some v /\ v_dims v = ds /\ bdesc vs c v.

Lemma cdesc_app : forall vs vs' c n ds, cdesc vs c n ds -> cdesc (vs ++ vs') c n ds.
Proof.
  intros vs vs' c n ds [v [H1 [H2 H3]]]. exists v. split; [apply fv_app_some; exact H1|split; [exact H2|]].
  unfold bdesc in *. destruct (c_bounds c); [|exact H3].
  destruct H3 as [bv [bd [A [B [C D]]]]]. exists bv, bd. splits; try assumption. apply fv_app_some; exact B.
Qed.

Lemma cdesc_ext : forall w w' c n ds, ext w w' -> cdesc (w_vars w) c n ds -> cdesc (w_vars w') c n ds.
Proof. intros w w' c n ds [[vs [E _]] _] H. rewrite E. apply cdesc_app; exact H. Qed.

(* classification of the variables for the reference census *)
Definition cls (f : skel) (w : wstate) (X : list string) (v : var) : Prop :=
  In (v_name v) X \/ In (v_name v) (w_coords w) \/
  (exists u, In u (w_vars w) /\ v_attrs u = [("bounds", v_name v)]) \/
  (exists a, In a (f_data_axes f) /\ nat_assoc a (w_axdim w) = Some (v_name v) /\ v_dims v = [v_name v]).

Definition Ref (f : skel) (w : wstate) (X : list string) : Prop := forall v, In v (w_vars w) -> cls f w X v.

Lemma cls_mono : forall f w w' X X' v, cls f w X v -> incl X X' -> incl (w_coords w) (w_coords w') ->
  incl (w_vars w) (w_vars w') ->
  (forall a n, nat_assoc a (w_axdim w) = Some n -> nat_assoc a (w_axdim w') = Some n) -> cls f w' X' v.
Proof.
  intros f w w' X X' v [H|[H|[[u [H1 H2]]|[a [H1 [H2 H3]]]]]] HX HC HV HA.
  - left. apply HX; exact H.
  - right; left. apply HC; exact H.
  - right; right; left. exists u. split; [apply HV; exact H1|exact H2].
  - right; right; right. exists a. splits; try assumption. apply HA; exact H2.
Qed.

(* ------------------------------------------------------------------ a main variable with its bounds *)
Lemma main_var_spec : forall c w0 w ncvar dims extra w2 w3 vdims vk,
  Inv0 w -> RoleInv w -> ext w0 w -> ~ In ncvar (used w0) -> In ncvar (w_names w) -> ~ In ncvar (VN w) ->
  nice ncvar -> bnice (c_bounds c) ->
  write_bounds (c_bounds c) dims ncvar w = (extra, w2) ->
  Inv0 w3 -> ext w2 w3 -> w_vars w3 = w_vars w2 ->
  let mv := {| v_name := ncvar; v_dims := vdims; v_attrs := extra; v_kind := vk |} in
  let w4 := add_var mv w3 in
  Inv0 w4 /\ ext w0 w4 /\ cdesc (w_vars w4) c ncvar vdims /\ In mv (w_vars w4) /\
  (forall v, In v (w_vars w4) -> In v (w_vars w) \/ v = mv \/ exists u, In u (w_vars w4) /\ v_attrs u = [("bounds", v_name v)]).
Proof.
  intros c w0 w ncvar dims extra w2 w3 vdims vk HI HR X0 Hf0 Hin Hnv Hn Hb Ewb I3 X23 EV3 mv w4.
  destruct (write_bounds_spec _ _ _ _ _ _ Ewb HI HR Hb Hn) as [I2 [R2 [X2 [F1 [F2 [F3 [F4 D]]]]]]].
  assert (Hin3 : In ncvar (w_names w3)).
  { apply (ext_names _ _ (ext_trans _ _ _ X2 X23)). exact Hin. }
  assert (Hnv3 : ~ In ncvar (VN w3)).
  { intro Hx. apply Hnv. apply (ext_vn_neg w w3); [exact (ext_trans _ _ _ X2 X23)|apply used_names; exact Hin|exact Hx]. }
  assert (Hao : attrs_ok w3 mv).
  { unfold attrs_ok; simpl. destruct (c_bounds c) as [bb|].
    - destruct D as [bv [bd [E1 [E2 _]]]]. right. exists (v_name bv). split; [exact E1|].
      unfold VN. rewrite EV3, E2, map_app. apply in_or_app; right; left; reflexivity.
    - left. apply D. }
  assert (I4 : Inv0 w4) by (apply add_var_inv; assumption).
  assert (X4 : ext w0 w4).
  { apply add_var_ext; [|exact Hf0]. eapply ext_trans; [exact X0|]. eapply ext_trans; eassumption. }
  assert (Hmv : In mv (w_vars w4)) by (simpl; apply in_or_app; right; left; reflexivity).
  assert (Hfv : fv (w_vars w4) ncvar = Some mv).
  { simpl. apply (fv_last (w_vars w3) mv). exact Hnv3. }
  splits; try assumption.
  - exists mv. splits; [exact Hfv|reflexivity|]. unfold bdesc. destruct (c_bounds c) as [bb|].
    + destruct D as [bv [bd [E1 [E2 [E3 [E4 [E5 E6]]]]]]]. exists bv, bd. simpl. splits; try assumption.
      * simpl. rewrite EV3, E2. apply fv_app_some. apply fv_last.
        intro Hx. apply E5. apply used_vn; assumption.
      * destruct bv as [bn bdims battrs bk]. simpl in *. subst. apply last_dim_snoc.
    + apply D.
  - intros v Hv. simpl in Hv. apply in_app_or in Hv as [Hv|[Hv|[]]]; [|right; left; symmetry; exact Hv].
    rewrite EV3 in Hv. destruct (c_bounds c) as [bb|].
    + destruct D as [bv [bd [E1 [E2 _]]]]. rewrite E2 in Hv. apply in_app_or in Hv as [Hv|[Hv|[]]]; [left; exact Hv|].
      subst v. right; right. exists mv. split; [exact Hmv|exact E1].
    + left. rewrite (proj2 D) in Hv. exact Hv.
Qed.

(* ------------------------------------------------------------------ the axis loop *)
Definition dn (w : wstate) (a : nat) : string := opt_or (nat_assoc a (w_axdim w)) "?".
Definition sn (w : wstate) (a : nat) : string := opt_or (nat_assoc a (w_axscalar w)) "?".

Definition axdesc (f : skel) (w : wstate) (a : nat) : Prop :=
  if inb a (f_data_axes f) then
    exists d, nat_assoc a (w_axdim w) = Some d /\ nat_assoc a (w_axscalar w) = None /\
       assoc d (w_dims w) = Some (a_size (ax_of f a), a_unlim (ax_of f a)) /\
       match find_dimcoord a (f_cons f) with
       | Some c => cdesc (w_vars w) c d [d]
       | None => ~ In d (VN w)
       end
  else
    match find_dimcoord a (f_cons f) with
    | Some c => exists s, nat_assoc a (w_axscalar w) = Some s /\ cdesc (w_vars w) c s [] /\ ~ In s (DN w) /\
                          (exists v, fv (w_vars w) s = Some v /\ v_kind v = KNum)
    | None => True
    end.

Record AxInv (w : wstate) : Prop := {
  ax_nd : NoDup (map snd (w_axdim w));
  ax_dn : incl (map snd (w_axdim w)) (DN w);
  sc_vn : incl (map snd (w_axscalar w)) (VN w);
  sc_ndn : forall s, In s (map snd (w_axscalar w)) -> ~ In s (DN w);
  sc_nd : NoDup (map snd (w_axscalar w));
  ax_nice : forall n, In n (map snd (w_axdim w)) -> nice n
}.

Definition cn (o : options) (f : skel) (w : wstate) (a : nat) : list string :=
  if inb a (f_data_axes f) then
    match find_dimcoord a (f_cons f) with
    | Some _ => if o_coordinates o then [dn w a] else []
    | None => []
    end
  else match find_dimcoord a (f_cons f) with Some _ => [sn w a] | None => [] end.

Lemma cdesc_in_vn : forall vs c n ds, cdesc vs c n ds -> In n (map v_name vs).
Proof. intros vs c n ds [v [H _]]. apply fv_name in H as [H1 H2]. rewrite <- H1. apply in_map; exact H2. Qed.

Lemma axdesc_stable : forall f w w' a, axdesc f w a -> Inv0 w -> ext w w' ->
  nat_assoc a (w_axdim w') = nat_assoc a (w_axdim w) -> nat_assoc a (w_axscalar w') = nat_assoc a (w_axscalar w) ->
  axdesc f w' a.
Proof.
  intros f w w' a H HI X E1 E2. unfold axdesc in *. rewrite E1, E2. destruct (inb a (f_data_axes f)).
  - destruct H as [d [H1 [H2 [H3 H4]]]]. exists d. splits; try assumption.
    + eapply ext_assoc; eassumption.
    + destruct (find_dimcoord a (f_cons f)) as [c|].
      * eapply cdesc_ext; eassumption.
      * intro Hx. apply H4. apply (ext_vn_neg w w'); [exact X| |exact Hx].
        apply used_dn. eapply assoc_in; exact H3.
  - destruct (find_dimcoord a (f_cons f)) as [c|]; [|exact I].
    destruct H as [s [H1 [H2 [H3 [v [H4 H5]]]]]]. exists s. splits; try assumption.
    + eapply cdesc_ext; eassumption.
    + intro Hx. apply H3. apply (ext_dn_neg w w'); [exact X| |exact Hx].
      apply used_vn; [exact HI|]. eapply cdesc_in_vn; exact H2.
    + exists v. split; [eapply ext_fv; eassumption|exact H5].
Qed.

Lemma dimcoord_name_alloc : forall c ncdim w, nice_opt (c_ncvar c) -> nice_opt (c_std c) -> nice_opt ncdim ->
  exists base, nice base /\ dimcoord_name true c ncdim w = alloc base w.
Proof.
  intros c ncdim w H1 H2 H3. unfold dimcoord_name.
  destruct (c_ncvar c) as [n|] eqn:En.
  - exists n. split; [exact H1|]. destruct ncdim; reflexivity.
  - destruct ncdim as [d|].
    + exists d. split; [exact H3|reflexivity].
    + destruct (c_std c) as [s|] eqn:Es.
      * exists s. split; [exact H2|reflexivity].
      * exists "coordinate". split; [split; [discriminate|reflexivity]|reflexivity].
Qed.

Lemma nat_assoc_cons_ne : forall {A} a a' (x : A) l, a' <> a -> nat_assoc a' ((a, x) :: l) = nat_assoc a' l.
Proof. intros A a a' x l H. simpl. destruct (Nat.eqb a' a) eqn:E; [apply Nat.eqb_eq in E; contradiction|reflexivity]. Qed.

Lemma nat_assoc_cons_eq : forall {A} a (x : A) l, nat_assoc a ((a, x) :: l) = Some x.
Proof. intros. simpl. rewrite Nat.eqb_refl. reflexivity. Qed.

Lemma nice_word : forall s, s <> EmptyString -> goodb s = true -> nice s.
Proof. intros; split; assumption. Qed.

Lemma base_name_nice : forall nv std d, nice_opt nv -> nice_opt std -> nice d -> nice (base_name nv std d).
Proof. intros [n|] [s|] d H1 H2 H3; simpl; assumption. Qed.

Lemma ref_step : forall f w w' X X', Ref f w X ->
  (forall v, In v (w_vars w') -> In v (w_vars w) \/ cls f w' X' v) ->
  incl X X' -> incl (w_coords w) (w_coords w') -> incl (w_vars w) (w_vars w') ->
  (forall a n, nat_assoc a (w_axdim w) = Some n -> nat_assoc a (w_axdim w') = Some n) -> Ref f w' X'.
Proof.
  intros f w w' X X' HR Hnew HX HC HV HA v Hv. destruct (Hnew v Hv) as [Hold|Hc]; [|exact Hc].
  eapply cls_mono; [apply HR; exact Hold| | | |]; assumption.
Qed.

Lemma axinv_frame : forall w w', AxInv w -> Inv0 w -> ext w w' ->
  w_axdim w' = w_axdim w -> w_axscalar w' = w_axscalar w -> AxInv w'.
Proof.
  intros w w' [H1 H2 H3 H4 H5 H6] HI X E1 E2. constructor; rewrite ?E1, ?E2; try assumption.
  - eapply incl_tran; [exact H2|apply ext_dn_incl; exact X].
  - eapply incl_tran; [exact H3|apply ext_vn_incl; exact X].
  - intros s Hs Hd. apply (H4 s Hs). apply (ext_dn_neg w w'); [exact X| |exact Hd].
    apply used_vn; [exact HI|apply H3; exact Hs].
Qed.

Lemma in_vars_vn : forall w v, In v (w_vars w) -> In (v_name v) (VN w).
Proof. intros; unfold VN; apply in_map; assumption. Qed.

Lemma write_axis_step : forall o f w a, wf f -> a < length (f_axes f) ->
  Inv0 w -> RoleInv w -> AxInv w -> Ref f w [] ->
  nat_assoc a (w_axdim w) = None -> nat_assoc a (w_axscalar w) = None ->
  let w' := write_axis true o f w a in
  Inv0 w' /\ RoleInv w' /\ AxInv w' /\ Ref f w' [] /\ ext w w' /\ axdesc f w' a /\
  (forall a', a' <> a -> nat_assoc a' (w_axdim w') = nat_assoc a' (w_axdim w) /\
                         nat_assoc a' (w_axscalar w') = nat_assoc a' (w_axscalar w)) /\
  w_coords w' = w_coords w ++ cn o f w' a /\ w_sdims w' = w_sdims w.
Proof.
  intros o f w a Hwf Ha HI HR HA HRef K1 K2 w'. subst w'. unfold write_axis.
  fold (ax_of f a). unfold axdesc, cn.
  destruct (find_dimcoord a (f_cons f)) as [c|] eqn:Ef.
  - (* a dimension coordinate *)
    destruct (find_dimcoord_some _ _ _ Ef) as [Hc [Hct Hca]].
    destruct (wf_cons f Hwf c Hc) as [Hstd [Hnv [Hbn _]]].
    destruct (inb a (f_data_axes f)) eqn:Ed.
    + (* coordinate variable *)
      destruct (dimcoord_name_alloc c (a_ncdim (ax_of f a)) w Hnv Hstd (ax_of_nice f a Hwf)) as [base [Hb Eb]].
      rewrite Eb. destruct (alloc base w) as [ncvar w1] eqn:Ea.
      destruct (alloc_inv _ _ _ _ Ea HI Hb) as [I1 [Hf [Hn [Hin [EV ED]]]]].
      destruct (alloc_spec _ _ _ _ Ea) as [_ [A1 [A2 [A3 [A4 [A5 [A6 [A7 A8]]]]]]]].
      set (w2 := set_axdim a ncvar (add_dim ncvar (a_size (ax_of f a)) (a_unlim (ax_of f a)) w1)).
      assert (I2 : Inv0 w2).
      { eapply inv_same; [apply add_dim_inv; exact I1|unfold same_core; simpl; auto|reflexivity]. }
      assert (X2 : ext w w2).
      { eapply ext_same_core; [apply add_dim_ext; [eapply alloc_ext; [exact Ea|apply ext_refl]|exact Hf]|].
        unfold same_core; simpl; auto. }
      assert (R2 : RoleInv w2).
      { eapply roleinv_same; [exact HR| |simpl; congruence|simpl; congruence].
        unfold DN; simpl. rewrite A2, map_app. apply incl_appl, incl_refl. }
      destruct (write_bounds (c_bounds c) [ncvar] ncvar w2) as [extra w3] eqn:Ewb.
      assert (Hnv2 : ~ In ncvar (VN w2)).
      { unfold VN; simpl. rewrite A3. intro Hx. apply Hf. apply used_vn; assumption. }
      destruct (write_bounds_spec _ _ _ _ _ _ Ewb I2 R2 Hbn Hn) as [I3 [R3 [X3 [F1 [F2 [F3 [F4 _]]]]]]].
      destruct (main_var_spec c w w2 ncvar [ncvar] extra w3 w3 [ncvar] KNum I2 R2 X2 Hf Hin Hnv2 Hn Hbn Ewb I3 (ext_refl w3) eq_refl)
        as [I4 [X4 [D4 [Hmv Hnew]]]].
      set (mv := {| v_name := ncvar; v_dims := [ncvar]; v_attrs := extra; v_kind := KNum |}) in *.
      set (w4 := add_var mv w3) in *.
      assert (Eax4 : w_axdim w4 = (a, ncvar) :: w_axdim w) by (simpl; rewrite F1; simpl; rewrite A4; reflexivity).
      assert (Esc4 : w_axscalar w4 = w_axscalar w) by (simpl; rewrite F2; simpl; exact A5).
      assert (Eco4 : w_coords w4 = w_coords w) by (simpl; rewrite F3; simpl; exact A6).
      assert (Esd4 : w_sdims w4 = w_sdims w) by (simpl; rewrite F4; simpl; exact A8).
      assert (Hd4 : assoc ncvar (w_dims w4) = Some (a_size (ax_of f a), a_unlim (ax_of f a))).
      { change (w_dims w4) with (w_dims w3). apply (ext_assoc w2 w3 _ _ X3). simpl. rewrite A2.
        rewrite assoc_app_none; [simpl; rewrite String.eqb_refl; reflexivity|].
        intro Hx. apply Hf. apply used_dn; exact Hx. }
      assert (R4 : RoleInv w4) by (eapply roleinv_same; [exact R3|apply incl_refl|reflexivity|reflexivity]).
      assert (Hdn4 : In ncvar (DN w4)) by (eapply assoc_in; exact Hd4).
      assert (A4' : AxInv w4).
      { destruct HA as [H1 H2 H3 H4 H5 H6]. constructor; rewrite ?Eax4, ?Esc4; simpl.
        - constructor; [|exact H1]. intro Hx. apply Hf. apply used_dn. apply H2; exact Hx.
        - intros x [Hx|Hx]; [subst; exact Hdn4|]. apply (ext_dn_incl _ _ X4). apply H2; exact Hx.
        - eapply incl_tran; [exact H3|apply ext_vn_incl; exact X4].
        - intros s Hs Hd. apply (H4 s Hs). apply (ext_dn_neg w w4); [exact X4| |exact Hd].
          apply used_vn; [exact HI|apply H3; exact Hs].
        - exact H5.
        - intros x [Hx|Hx]; [subst; exact Hn|apply H6; exact Hx]. }
      assert (Hkeys : forall a0 n, nat_assoc a0 (w_axdim w) = Some n -> nat_assoc a0 (w_axdim w4) = Some n).
      { intros a0 n H0. rewrite Eax4. rewrite nat_assoc_cons_ne; [exact H0|]. intro E; subst. congruence. }
      assert (Ref4 : Ref f w4 []).
      { apply (ref_step f w w4 [] []); try assumption; try apply incl_refl.
        - intros v Hv. destruct (Hnew v Hv) as [H0|[H0|[u [H0 H0']]]]; [left; simpl in H0; rewrite A3 in H0; exact H0| |].
          + right. subst v. right; right; right. exists a. splits.
            * apply inb_In; exact Ed.
            * rewrite Eax4. apply nat_assoc_cons_eq.
            * reflexivity.
          + right. right; right; left. exists u. split; assumption.
        - rewrite Eco4. apply incl_refl.
        - intros v Hv. eapply ext_in_var; eassumption. }
      assert (Hframe : forall a', a' <> a -> nat_assoc a' (w_axdim w4) = nat_assoc a' (w_axdim w) /\
                         nat_assoc a' (w_axscalar w4) = nat_assoc a' (w_axscalar w)).
      { intros a' Hne. rewrite Eax4, Esc4. split; [apply nat_assoc_cons_ne; exact Hne|reflexivity]. }
      assert (Hdesc : exists d, nat_assoc a (w_axdim w4) = Some d /\ nat_assoc a (w_axscalar w4) = None /\
                 assoc d (w_dims w4) = Some (a_size (ax_of f a), a_unlim (ax_of f a)) /\ cdesc (w_vars w4) c d [d]).
      { exists ncvar. splits; try assumption; [rewrite Eax4; apply nat_assoc_cons_eq|rewrite Esc4; exact K2]. }
      assert (Edn : dn w4 a = ncvar) by (unfold dn; rewrite Eax4, nat_assoc_cons_eq; reflexivity).
      destruct (o_coordinates o).
      * set (w5 := add_coord ncvar w4).
        assert (S5 : same_core w4 w5) by (unfold same_core; simpl; auto).
        assert (I5 : Inv0 w5) by (apply add_coord_inv; [exact I4|exact (in_vars_vn w4 mv Hmv)]).
        assert (R5 : RoleInv w5) by (eapply roleinv_same; [exact R4|apply incl_refl|reflexivity|reflexivity]).
        assert (X45 : ext w4 w5) by (eapply ext_same_core; [apply ext_refl|exact S5]).
        assert (A5' : AxInv w5) by (apply (axinv_frame w4); [exact A4'|exact I4|exact X45|reflexivity|reflexivity]).
        assert (Ref5 : Ref f w5 []).
        { apply (ref_step f w4 w5 [] []); try assumption; try apply incl_refl.
          - intros v Hv. left; exact Hv.
          - simpl. apply incl_appl, incl_refl.
          - intros; assumption. }
        assert (X5 : ext w w5) by (eapply ext_same_core; [exact X4|exact S5]).
        assert (Eco5 : w_coords w5 = w_coords w ++ [dn w5 a]).
        { change (dn w5 a) with (dn w4 a). rewrite Edn. change (w_coords w5) with (w_coords w4 ++ [ncvar]).
          rewrite Eco4. reflexivity. }
        splits; assumption.
      * splits; try assumption. rewrite Eco4, app_nil_r. reflexivity.
    + (* scalar coordinate variable *)
      destruct (alloc (base_name (c_ncvar c) (c_std c) "scalar") w) as [ncvar w1] eqn:Ea.
      assert (Hb : nice (base_name (c_ncvar c) (c_std c) "scalar")).
      { apply base_name_nice; try assumption. split; [discriminate|reflexivity]. }
      destruct (alloc_inv _ _ _ _ Ea HI Hb) as [I1 [Hf [Hn [Hin [EV ED]]]]].
      destruct (alloc_spec _ _ _ _ Ea) as [_ [A1 [A2 [A3 [A4 [A5 [A6 [A7 A8]]]]]]]].
      assert (X1 : ext w w1) by (eapply alloc_ext; [exact Ea|apply ext_refl]).
      assert (R1 : RoleInv w1).
      { eapply roleinv_same; [exact HR|rewrite ED; apply incl_refl|exact A7|exact A8]. }
      destruct (write_bounds (c_bounds c) [] ncvar w1) as [extra w2] eqn:Ewb.
      assert (Hnv1 : ~ In ncvar (VN w1)).
      { rewrite EV. intro Hx. apply Hf. apply used_vn; assumption. }
      destruct (write_bounds_spec _ _ _ _ _ _ Ewb I1 R1 Hbn Hn) as [I2 [R2 [X2 [F1 [F2 [F3 [F4 _]]]]]]].
      destruct (main_var_spec c w w1 ncvar [] extra w2 w2 [] KNum I1 R1 X1 Hf Hin Hnv1 Hn Hbn Ewb I2 (ext_refl w2) eq_refl)
        as [I4 [X4 [D4 [Hmv Hnew]]]].
      set (mv := {| v_name := ncvar; v_dims := []; v_attrs := extra; v_kind := KNum |}) in *.
      set (w4 := add_var mv w2) in *.
      set (w5 := add_coord ncvar (set_axscalar a ncvar w4)).
      assert (S5 : same_core w4 w5) by (unfold same_core; simpl; auto).
      assert (X5 : ext w w5) by (eapply ext_same_core; eassumption).
      assert (I5 : Inv0 w5).
      { apply add_coord_inv; [eapply inv_same; [exact I4|unfold same_core; simpl; auto|reflexivity]|].
        exact (in_vars_vn w4 mv Hmv). }
      assert (Eax5 : w_axdim w5 = w_axdim w) by (simpl; rewrite F1; exact A4).
      assert (Esc5 : w_axscalar w5 = (a, ncvar) :: w_axscalar w) by (simpl; rewrite F2, A5; reflexivity).
      assert (Eco5 : w_coords w5 = w_coords w ++ [ncvar]) by (simpl; rewrite F3, A6; reflexivity).
      assert (Esd5 : w_sdims w5 = w_sdims w) by (simpl; rewrite F4; exact A8).
      assert (Hndn : ~ In ncvar (DN w5)).
      { change (DN w5) with (DN w2). intro Hx. apply Hf. apply used_dn. rewrite <- ED.
        apply (ext_dn_neg w1 w2); [exact X2|apply used_names; exact Hin|exact Hx]. }
      assert (R5 : RoleInv w5) by (eapply roleinv_same; [exact R2|apply incl_refl|reflexivity|reflexivity]).
      assert (A5' : AxInv w5).
      { destruct HA as [H1 H2 H3 H4 H5 H6]. constructor; rewrite ?Eax5, ?Esc5; simpl; [| | | | |exact H6].
        - exact H1.
        - eapply incl_tran; [exact H2|apply ext_dn_incl; exact X5].
        - intros x [Hx|Hx]; [subst; exact (in_vars_vn w4 mv Hmv)|]. apply (ext_vn_incl _ _ X5). apply H3; exact Hx.
        - intros s0 [Hs|Hs]; [subst; exact Hndn|]. intro Hd. apply (H4 s0 Hs). apply (ext_dn_neg w w5); [exact X5| |exact Hd].
          apply used_vn; [exact HI|apply H3; exact Hs].
        - constructor; [|exact H5]. intro Hx. apply Hf. apply used_vn; [exact HI|apply H3; exact Hx]. }
      assert (Ref5 : Ref f w5 []).
      { apply (ref_step f w w5 [] []); try assumption; try apply incl_refl.
        - intros v Hv. change (w_vars w5) with (w_vars w4) in Hv.
          destruct (Hnew v Hv) as [H0|[H0|[u [H0 H0']]]]; [left; rewrite A3 in H0; exact H0| |].
          + right. subst v. right; left. rewrite Eco5. apply in_or_app; right; left; reflexivity.
          + right. right; right; left. exists u. split; assumption.
        - rewrite Eco5. apply incl_appl, incl_refl.
        - intros v Hv. eapply ext_in_var; eassumption.
        - intros a0 n H0. rewrite Eax5. exact H0. }
      assert (Esn : sn w5 a = ncvar) by (unfold sn; rewrite Esc5, nat_assoc_cons_eq; reflexivity).
      splits; try assumption.
      * exists ncvar. splits; [rewrite Esc5; apply nat_assoc_cons_eq|exact D4|exact Hndn|].
        exists mv. split; [|reflexivity]. change (w_vars w5) with (w_vars w4).
        apply (fv_in_nodup (w_vars w4) mv (i_ndv w4 I4) Hmv).
      * intros a' Hne. rewrite Eax5, Esc5. split; [reflexivity|apply nat_assoc_cons_ne; exact Hne].
      * rewrite Esn. exact Eco5.
  - (* no dimension coordinate *)
    destruct (inb a (f_data_axes f)) eqn:Ed.
    + destruct (alloc (opt_or (a_ncdim (ax_of f a)) "dim") w) as [ncdim w1] eqn:Ea.
      assert (Hb : nice (opt_or (a_ncdim (ax_of f a)) "dim")).
      { apply nice_opt_or; [apply ax_of_nice; exact Hwf|split; [discriminate|reflexivity]]. }
      destruct (alloc_inv _ _ _ _ Ea HI Hb) as [I1 [Hf [Hn [Hin [EV ED]]]]].
      destruct (alloc_spec _ _ _ _ Ea) as [_ [A1 [A2 [A3 [A4 [A5 [A6 [A7 A8]]]]]]]].
      set (w2 := set_axdim a ncdim (add_dim ncdim (a_size (ax_of f a)) (a_unlim (ax_of f a)) w1)).
      assert (I2 : Inv0 w2).
      { eapply inv_same; [apply add_dim_inv; exact I1|unfold same_core; simpl; auto|reflexivity]. }
      assert (X2 : ext w w2).
      { eapply ext_same_core; [apply add_dim_ext; [eapply alloc_ext; [exact Ea|apply ext_refl]|exact Hf]|].
        unfold same_core; simpl; auto. }
      assert (R2 : RoleInv w2).
      { eapply roleinv_same; [exact HR| |simpl; congruence|simpl; congruence].
        unfold DN; simpl. rewrite A2, map_app. apply incl_appl, incl_refl. }
      assert (Eax2 : w_axdim w2 = (a, ncdim) :: w_axdim w) by (simpl; rewrite A4; reflexivity).
      assert (Hd2 : assoc ncdim (w_dims w2) = Some (a_size (ax_of f a), a_unlim (ax_of f a))).
      { simpl. rewrite A2. rewrite assoc_app_none; [simpl; rewrite String.eqb_refl; reflexivity|].
        intro Hx. apply Hf. apply used_dn; exact Hx. }
      assert (A2' : AxInv w2).
      { destruct HA as [H1 H2 H3 H4 H5 H6]. constructor; rewrite ?Eax2; simpl; rewrite ?A5.
        - constructor; [|exact H1]. intro Hx. apply Hf. apply used_dn. apply H2; exact Hx.
        - intros x [Hx|Hx]; [subst; eapply assoc_in; exact Hd2|]. apply (ext_dn_incl _ _ X2). apply H2; exact Hx.
        - eapply incl_tran; [exact H3|apply ext_vn_incl; exact X2].
        - intros s Hs Hd. apply (H4 s Hs). apply (ext_dn_neg w w2); [exact X2| |exact Hd].
          apply used_vn; [exact HI|apply H3; exact Hs].
        - exact H5.
        - intros x [Hx|Hx]; [subst; exact Hn|apply H6; exact Hx]. }
      assert (Ref2 : Ref f w2 []).
      { apply (ref_step f w w2 [] []); try assumption; try apply incl_refl.
        - intros v Hv. left. simpl in Hv. rewrite A3 in Hv. exact Hv.
        - simpl. rewrite A6. apply incl_refl.
        - simpl. rewrite A3. apply incl_refl.
        - intros a0 n H0. rewrite Eax2. rewrite nat_assoc_cons_ne; [exact H0|]. intro E; subst. congruence. }
      splits; try assumption.
      * exists ncdim. splits; try assumption; [rewrite Eax2; apply nat_assoc_cons_eq|simpl; rewrite A5; exact K2|].
        change (VN w2) with (VN w1). rewrite EV. intro Hx. apply Hf. apply used_vn; assumption.
      * intros a' Hne. rewrite Eax2. simpl. rewrite A5. split; [apply nat_assoc_cons_ne; exact Hne|reflexivity].
      * simpl. rewrite A6, app_nil_r. reflexivity.
    + splits; try assumption; try reflexivity.
      * apply ext_refl.
      * intros; split; reflexivity.
      * rewrite app_nil_r. reflexivity.
Qed.
