(* C01 - third pass: classification rules of the reader.
   (1) scalar coordinate variables: numeric -> dimension coordinate, char or netCDF string -> auxiliary coordinate;
   (2) the `coordinates' attribute: names that are IMPLIED (uncompressed) dimensions of the data variable are
       dimension coordinates and are skipped - also when the data are compressed by gathering. *)
From CfdmV Require Import Common.Base C01.Model C01.Lemmas C01.RtStrings.
Open Scope string_scope.
Open Scope list_scope.
Ltac splits := repeat match goal with |- _ /\ _ => split end.

(* ------------------------------------------------------------------ (1) scalar coordinate variables *)
Lemma skind_string : forall o sl, sl <> None -> skind o sl = KChar \/ skind o sl = KStr.
Proof. intros o [n|] H; [|contradiction]. unfold skind. destruct (vlen o); [right|left]; reflexivity. Qed.

Lemma scalar_class_string : forall o sl, sl <> None -> scalar_class (skind o sl) = CAux.
Proof. intros o sl H. destruct (skind_string o sl H) as [E|E]; rewrite E; reflexivity. Qed.

Lemma scalar_class_numeric : forall o, scalar_class (skind o None) = CDim.
Proof. reflexivity. Qed.

(* what _write_scalar_coordinate leaves in the writer state, for ANY state and any 1-d auxiliary coordinate on an
   axis the data do not span: one new variable, named in `coordinates', registered as the scalar coordinate of the
   axis, without dimension or with just a string-length dimension, of the storage kind of its data *)
Lemma write_aux_scalar : forall o f w c a, scalar_axis f c = Some a ->
  exists v vs, w_vars (write_aux o f w c) = vs ++ [v] /\
    (exists cs, w_coords (write_aux o f w c) = cs ++ [v_name v]) /\
    nat_assoc a (w_axscalar (write_aux o f w c)) = Some (v_name v) /\
    v_kind v = skind o (c_strlen c) /\
    (v_dims v = [] \/ (exists sd, v_dims v = [sd]) /\ v_kind v = KChar).
Proof.
  intros o f w c a H. unfold write_aux. rewrite H.
  destruct (alloc (base_name (c_ncvar c) (c_std c) "scalar") w) as [ncvar w1].
  destruct (write_bounds (c_bounds c) [] ncvar w1) as [extra w2].
  destruct (with_strlen (eff_strlen o (c_strlen c)) [] w2) as [vdims w3] eqn:E.
  eexists; exists (w_vars w3). simpl. splits.
  - reflexivity.
  - exists (w_coords w3). reflexivity.
  - rewrite Nat.eqb_refl. reflexivity.
  - reflexivity.
  - unfold eff_strlen, skind in *. destruct (c_strlen c) as [n|].
    + destruct (vlen o).
      * simpl in E. inversion E; subst. left; reflexivity.
      * unfold with_strlen in E. destruct (alloc_role_dim false None ("strlen" +++ z_str n) n w2) as [[sd fr] wa].
        inversion E; subst. right. split; [exists sd; reflexivity|reflexivity].
    + destruct (vlen o); simpl in E; inversion E; subst; left; reflexivity.
Qed.

Lemma scalar_coordinate_classification : forall o f w c a, scalar_axis f c = Some a ->
  exists v, In v (w_vars (write_aux o f w c)) /\ In (v_name v) (w_coords (write_aux o f w c)) /\
    nat_assoc a (w_axscalar (write_aux o f w c)) = Some (v_name v) /\
    scalar_class (v_kind v) = match c_strlen c with Some _ => CAux | None => CDim end.
Proof.
  intros o f w c a H. destruct (write_aux_scalar o f w c a H) as [v [vs [E1 [[cs E2] [E3 [E4 _]]]]]].
  exists v. splits.
  - rewrite E1. apply in_or_app; right; left; reflexivity.
  - rewrite E2. apply in_or_app; right; left; reflexivity.
  - exact E3.
  - rewrite E4. destruct (c_strlen c) as [n|] eqn:Es; [apply scalar_class_string; discriminate|reflexivity].
Qed.

(* the seeded variant: only char arrays are taken as string valued (_is_char instead of _is_char_or_string) *)
Definition scalar_class_char_only (k : vkind) : ctype := match k with KChar => CAux | KNum | KStr => CDim end.

Definition o_of (fmt : nat) (str : bool) : options :=
  {| o_fmt := fmt; o_compress := 0; o_shuffle := true; o_fletcher32 := false; o_endian := 0; o_chunks := 0;
     o_coordinates := false; o_string := str |}.

Lemma scalar_class_char_only_refuted :
  exists o sl, sl <> None /\ scalar_class_char_only (skind o sl) = CDim /\ scalar_class (skind o sl) = CAux.
Proof. exists (o_of 0 true), (Some 3%Z). splits; [discriminate|reflexivity|reflexivity]. Qed.

(* ... and it is exact: with any other format, or string=False, the seeded rule agrees *)
Lemma scalar_class_char_only_agrees : forall o sl, vlen o = false -> scalar_class_char_only (skind o sl) = scalar_class (skind o sl).
Proof. intros o [n|] H; unfold skind; rewrite ?H; reflexivity. Qed.

(* ------------------------------------------------------------------ (2) the coordinates attribute *)
Lemma coord_candidates_spec : forall d v n,
  In n (coord_candidates d v) <-> In n (tokens "coordinates" v) /\ ~ In n (implied d (v_dims v)).
Proof.
  intros d v n. unfold coord_candidates. rewrite filter_In, negb_true_iff. split; intros [H1 H2]; split; try assumption.
  - apply mem_false; exact H2.
  - apply mem_false; exact H2.
Qed.

Lemma compress_has : forall d x l, compress_of d x = Some l -> has_compress d = true.
Proof.
  intros d x l H. unfold compress_of in H. destruct (find_var x d) as [v|] eqn:E; [|discriminate].
  destruct (attr "compress" v) as [s|] eqn:Ea; [|discriminate].
  unfold find_var in E. apply find_some in E as [Hin _]. unfold has_compress. apply existsb_exists.
  exists v. split; [exact Hin|rewrite Ea; reflexivity].
Qed.

Lemma implied_compressed : forall d dims x l n, In x dims -> compress_of d x = Some l -> In n l -> In n (implied d dims).
Proof.
  intros d dims x l n Hx Hc Hn. unfold implied. rewrite (compress_has d x l Hc). apply in_flat_map.
  exists x. split; [exact Hx|rewrite Hc; exact Hn].
Qed.

Lemma implied_plain : forall d dims x, In x dims -> compress_of d x = None -> In x (implied d dims).
Proof.
  intros d dims x Hx Hc. unfold implied. destruct (has_compress d); [|exact Hx]. apply in_flat_map.
  exists x. split; [exact Hx|rewrite Hc; left; reflexivity].
Qed.

(* a dimension the data variable implies - its own, or one replaced by a list dimension - is never looked at as an
   auxiliary or scalar coordinate variable, whatever the `coordinates' attribute says (coordinates=True) *)
Lemma implied_dimension_not_candidate : forall d v x l n, In x (v_dims v) -> compress_of d x = Some l -> In n l ->
  ~ In n (coord_candidates d v).
Proof.
  intros d v x l n Hx Hc Hn H. apply coord_candidates_spec in H as [_ H]. apply H.
  eapply implied_compressed; eassumption.
Qed.

Lemma own_dimension_not_candidate : forall d v x, In x (v_dims v) -> compress_of d x = None -> ~ In x (coord_candidates d v).
Proof. intros d v x Hx Hc H. apply coord_candidates_spec in H as [_ H]. apply H. apply implied_plain; assumption. Qed.

Lemma implied_no_compress : forall d dims, has_compress d = false -> implied d dims = dims.
Proof. intros d dims H. unfold implied. rewrite H. reflexivity. Qed.

(* the seeded variant: the data variable's own netCDF dimensions *)
Definition coord_candidates_own (d : ads) (v : var) : list string :=
  filter (fun n => negb (mem n (v_dims v))) (tokens "coordinates" v).

(* a field compressed by gathering, as cfdm writes it with coordinates=True *)
Definition nv (n : string) (dims : list string) (attrs : list (string * string)) : var :=
  {| v_name := n; v_dims := dims; v_attrs := attrs; v_kind := KNum |}.
Definition gathered_ds : ads :=
  {| d_dims := [("time", (2%Z, false)); ("lat", (3%Z, false)); ("lon", (2%Z, false)); ("landpoint", (4%Z, false))];
     d_vars := [nv "time" ["time"] []; nv "lat" ["lat"] []; nv "lon" ["lon"] [];
                nv "landpoint" ["landpoint"] [("compress", "lat lon")];
                nv "aux0" ["landpoint"] [];
                nv "tas" ["time"; "landpoint"] [("coordinates", "time lat lon aux0")]] |}.
Definition gathered_tas : var := nv "tas" ["time"; "landpoint"] [("coordinates", "time lat lon aux0")].

Lemma gathered_example :
  implied gathered_ds (v_dims gathered_tas) = ["time"; "lat"; "lon"] /\
  coord_candidates gathered_ds gathered_tas = ["aux0"] /\
  coord_candidates_own gathered_ds gathered_tas = ["lat"; "lon"; "aux0"] /\
  map (fun r => (rs_data_axes r, map (fun c => (r_type c, r_ncvar c, r_axes c)) (rs_cons r))) (read_skel gathered_ds) =
    [(["time"; "lat"; "lon"], [(CDim, "time", ["time"]); (CDim, "lat", ["lat"]); (CDim, "lon", ["lon"]);
                               (CAux, "aux0", ["lat"; "lon"])])].
Proof. vm_compute. splits; reflexivity. Qed.

Lemma coord_candidates_own_refuted :
  exists d v x l n, In x (v_dims v) /\ compress_of d x = Some l /\ In n l /\ is_coordvar d n <> None /\
    In n (coord_candidates_own d v) /\ ~ In n (coord_candidates d v).
Proof.
  exists gathered_ds, gathered_tas, "landpoint", ["lat"; "lon"], "lat". splits.
  - right; left; reflexivity.
  - reflexivity.
  - left; reflexivity.
  - vm_compute. discriminate.
  - vm_compute. left; reflexivity.
  - vm_compute. intros [H|[]]. discriminate.
Qed.

(* exact: without compression the two rules agree *)
Lemma coord_candidates_own_agrees : forall d v, has_compress d = false -> coord_candidates_own d v = coord_candidates d v.
Proof. intros d v H. unfold coord_candidates_own, coord_candidates. rewrite (implied_no_compress d _ H). reflexivity. Qed.

(* ------------------------------------------------------------------ the option grid, evaluated through the whole model *)
(* a field with data over X, a string-valued auxiliary coordinate alone on a size-1 axis the data do not span, and a
   numeric dimension coordinate alone on another: for each of the 6 formats x string in {T,F} the model writes one
   scalar coordinate variable each and reads the first back as an auxiliary, the second as a dimension coordinate *)
Definition sc_con (t : ctype) (a : nat) (std : string) (sl : option Z) : con :=
  {| c_type := t; c_axes := [a]; c_std := Some std; c_ncvar := None; c_bounds := None; c_strlen := sl; c_measure := "" |}.
Definition sc_skel : skel :=
  {| f_std := Some "air_temperature"; f_ncvar := None;
     f_axes := [{| a_size := 3; a_ncdim := None; a_unlim := false |}; {| a_size := 1; a_ncdim := None; a_unlim := false |};
                {| a_size := 1; a_ncdim := None; a_unlim := false |}];
     f_data_axes := [0%nat];
     f_cons := [sc_con CDim 0 "longitude" None; sc_con CAux 1 "platform_name" (Some 5%Z); sc_con CDim 2 "height" None];
     f_cms := [] |}.

Definition option_grid : list options :=
  flat_map (fun fmt => [o_of fmt true; o_of fmt false]) (seq 0 6).

Definition types_read (o : options) (f : skel) : list (list (ctype * string * list string)) :=
  map (fun r => map (fun c => (r_type c, r_ncvar c, r_axes c)) (rs_cons r)) (read_skel (write_skel o f)).

Lemma scalar_grid : forall o, In o option_grid ->
  types_read o sc_skel = [[(CDim, "longitude", ["longitude"]); (CDim, "height", ["@height"]);
                           (CAux, "platform_name", ["@platform_name"])]].
Proof.
  intros o H. unfold option_grid in H. simpl in H.
  repeat (destruct H as [H|H]; [subst o; vm_compute; reflexivity|]). destruct H.
Qed.
