(* C01 - round trip proof, part 5: the loops of the writer. *)
From CfdmV Require Import Common.Base C01.Model C01.Lemmas C01.RtStrings C01.RtWriter C01.RtSteps C01.RtAxis.
Open Scope string_scope.
Open Scope list_scope.
Ltac splits := repeat match goal with |- _ /\ _ => split end.

Lemma Forall2_impl : forall {A B} (P Q : A -> B -> Prop) l1 l2,
  (forall a b, P a b -> Q a b) -> Forall2 P l1 l2 -> Forall2 Q l1 l2.
Proof. intros A B P Q l1 l2 H F. induction F; constructor; auto. Qed.

Lemma cn_frame : forall o f w w' a, nat_assoc a (w_axdim w') = nat_assoc a (w_axdim w) ->
  nat_assoc a (w_axscalar w') = nat_assoc a (w_axscalar w) -> cn o f w' a = cn o f w a.
Proof. intros o f w w' a E1 E2. unfold cn, dn, sn. rewrite E1, E2. reflexivity. Qed.

Lemma write_axes_fold : forall o f l w, wf f -> NoDup l -> (forall a, In a l -> a < length (f_axes f)) ->
  Inv0 w -> RoleInv w -> AxInv w -> Ref f w [] ->
  (forall a, In a l -> nat_assoc a (w_axdim w) = None /\ nat_assoc a (w_axscalar w) = None) ->
  let w' := fold_left (write_axis true o f) l w in
  Inv0 w' /\ RoleInv w' /\ AxInv w' /\ Ref f w' [] /\ ext w w' /\ (forall a, In a l -> axdesc f w' a) /\
  (forall a', ~ In a' l -> nat_assoc a' (w_axdim w') = nat_assoc a' (w_axdim w) /\
                           nat_assoc a' (w_axscalar w') = nat_assoc a' (w_axscalar w)) /\
  w_coords w' = w_coords w ++ flat_map (cn o f w') l /\ w_sdims w' = w_sdims w.
Proof.
  intros o f l. induction l as [|a l IH]; intros w Hwf Hnd Hlt HI HR HA HRef HK; simpl.
  - splits; try assumption; try reflexivity.
    + apply ext_refl.
    + intros a [].
    + intros; split; reflexivity.
    + rewrite app_nil_r; reflexivity.
  - inversion Hnd as [|a0 l0 Hal Hndl]; subst.
    destruct (HK a (or_introl eq_refl)) as [K1 K2].
    destruct (write_axis_step o f w a Hwf (Hlt a (or_introl eq_refl)) HI HR HA HRef K1 K2)
      as [I1 [R1 [A1 [Ref1 [X1 [D1 [F1 [C1 S1]]]]]]]].
    set (w1 := write_axis true o f w a) in *.
    assert (HK1 : forall a', In a' l -> nat_assoc a' (w_axdim w1) = None /\ nat_assoc a' (w_axscalar w1) = None).
    { intros a' Ha'. assert (Hne : a' <> a) by (intro E; subst; contradiction).
      destruct (F1 a' Hne) as [E1 E2]. rewrite E1, E2. apply HK. right; exact Ha'. }
    destruct (IH w1 Hwf Hndl (fun a' H => Hlt a' (or_intror H)) I1 R1 A1 Ref1 HK1)
      as [I2 [R2 [A2 [Ref2 [X2 [D2 [F2 [C2 S2]]]]]]]].
    set (w2 := fold_left (write_axis true o f) l w1) in *.
    destruct (F2 a Hal) as [Ea1 Ea2].
    splits; try assumption.
    + eapply ext_trans; eassumption.
    + intros a' [E|Ha']; [subst a'|apply D2; exact Ha'].
      apply (axdesc_stable f w1 w2 a); assumption.
    + intros a' Hn. assert (Hne : a' <> a) by (intro E; subst; apply Hn; left; reflexivity).
      assert (Hnl : ~ In a' l) by (intro E; apply Hn; right; exact E).
      destruct (F2 a' Hnl) as [E1 E2]. destruct (F1 a' Hne) as [E3 E4]. rewrite E1, E2, E3, E4. split; reflexivity.
    + rewrite C2, C1, <- app_assoc. rewrite (cn_frame o f w1 w2 a Ea1 Ea2). reflexivity.
    + rewrite S2. exact S1.
Qed.

(* ------------------------------------------------------------------ auxiliary coordinates *)
Lemma dims_of_frame : forall w w' l, w_axdim w' = w_axdim w -> dims_of w' l = dims_of w l.
Proof. intros w w' l E. unfold dims_of. rewrite E. reflexivity. Qed.

Definition auxdesc (AX : list string) (w0 w : wstate) (c : con) (n : string) : Prop :=
  exists extra, cdesc (w_vars w) c n (dims_of w0 (c_axes c) ++ extra) /\ ~ In n (DN w) /\
                (forall x, In x extra -> ~ In x AX) /\ (c_strlen c = None -> extra = []).

Lemma eff_strlen_none : forall o, eff_strlen o None = None.
Proof. intros o. unfold eff_strlen. destruct (vlen o); reflexivity. Qed.

Lemma scalar_axis_wf : forall f c, con_wf f c -> c_type c = CAux -> scalar_axis f c = None.
Proof.
  intros f c [_ [_ [_ H]]] Et. rewrite Et in H. destruct H as [Hne Hin]. unfold scalar_axis.
  destruct (c_axes c) as [|a [|b l]]; try reflexivity.
  assert (Ha : inb a (f_data_axes f) = true) by (apply inb_In; apply Hin; left; reflexivity).
  rewrite Ha. reflexivity.
Qed.

Lemma write_aux_step : forall o f AX w c, con_wf f c -> c_type c = CAux -> Inv0 w -> RoleInv w -> Ref f w [] ->
  incl AX (used w) -> SdInv AX w ->
  let w' := write_aux o f w c in
  Inv0 w' /\ RoleInv w' /\ Ref f w' [] /\ ext w w' /\ w_axdim w' = w_axdim w /\ w_axscalar w' = w_axscalar w /\
  SdInv AX w' /\
  exists n, w_coords w' = w_coords w ++ [n] /\ auxdesc AX w w' c n.
Proof.
  intros o f AX w c Hcw Et HI HR HRef HAX HSd w'. subst w'. unfold write_aux.
  rewrite (scalar_axis_wf f c Hcw Et). destruct Hcw as [Hstd [Hnv [Hbn _]]].
  destruct (alloc (base_name (c_ncvar c) (c_std c) "auxiliary") w) as [ncvar w1] eqn:Ea.
  assert (Hb : nice (base_name (c_ncvar c) (c_std c) "auxiliary")).
  { apply base_name_nice; try assumption. split; [discriminate|reflexivity]. }
  destruct (alloc_inv _ _ _ _ Ea HI Hb) as [I1 [Hf [Hn [Hin [EV ED]]]]].
  destruct (alloc_spec _ _ _ _ Ea) as [_ [A1 [A2 [A3 [A4 [A5 [A6 [A7 A8]]]]]]]].
  assert (X1 : ext w w1) by (eapply alloc_ext; [exact Ea|apply ext_refl]).
  assert (R1 : RoleInv w1).
  { eapply roleinv_same; [exact HR|rewrite ED; apply incl_refl|exact A7|exact A8]. }
  destruct (write_bounds (c_bounds c) (dims_of w (c_axes c)) ncvar w1) as [extra w2] eqn:Ewb.
  assert (Hnv1 : ~ In ncvar (VN w1)).
  { rewrite EV. intro Hx. apply Hf. apply used_vn; assumption. }
  destruct (write_bounds_spec _ _ _ _ _ _ Ewb I1 R1 Hbn Hn) as [I2 [R2 [X2 [F1 [F2 [F3 [F4 _]]]]]]].
  destruct (with_strlen (eff_strlen o (c_strlen c)) (dims_of w (c_axes c)) w2) as [vdims w3] eqn:Esl.
  destruct (with_strlen_spec _ _ _ _ _ Esl I2 R2) as [I3 [R3 [X3 [G1 [G2 [G3 [G4 [G5 G6]]]]]]]].
  destruct (main_var_spec c w w1 ncvar (dims_of w (c_axes c)) extra w2 w3 vdims (skind o (c_strlen c)) I1 R1 X1 Hf Hin Hnv1 Hn Hbn Ewb I3 X3 G1)
    as [I4 [X4 [D4 [Hmv Hnew]]]].
  set (mv := {| v_name := ncvar; v_dims := vdims; v_attrs := extra; v_kind := skind o (c_strlen c) |}) in *.
  set (w4 := add_var mv w3) in *.
  set (w5 := add_coord ncvar w4).
  assert (S5 : same_core w4 w5) by (unfold same_core; simpl; auto).
  assert (X5 : ext w w5) by (eapply ext_same_core; eassumption).
  assert (I5 : Inv0 w5) by (apply add_coord_inv; [exact I4|exact (in_vars_vn w4 mv Hmv)]).
  assert (R5 : RoleInv w5) by (eapply roleinv_same; [exact R3|apply incl_refl|reflexivity|reflexivity]).
  assert (Eax5 : w_axdim w5 = w_axdim w) by (simpl; rewrite G2, F1; exact A4).
  assert (Esc5 : w_axscalar w5 = w_axscalar w) by (simpl; rewrite G3, F2; exact A5).
  assert (Eco5 : w_coords w5 = w_coords w ++ [ncvar]) by (simpl; rewrite G4, F3, A6; reflexivity).
  assert (Sd5 : SdInv AX w5).
  { change (SdInv AX w3). apply G5.
    - intros x Hx. apply (ext_used _ _ (ext_trans _ _ _ X1 X2)). apply HAX; exact Hx.
    - intros p Hp. rewrite F4, A8 in Hp. apply HSd; exact Hp. }
  assert (Hndn : ~ In ncvar (DN w5)).
  { change (DN w5) with (DN w3). intro Hx. apply Hf. apply used_dn. rewrite <- ED.
    apply (ext_dn_neg w1 w3); [eapply ext_trans; eassumption|apply used_names; exact Hin|exact Hx]. }
  assert (Ref5 : Ref f w5 []).
  { apply (ref_step f w w5 [] []); try assumption; try apply incl_refl.
    - intros v Hv. change (w_vars w5) with (w_vars w4) in Hv.
      destruct (Hnew v Hv) as [H0|[H0|[u [H0 H0']]]]; [left; rewrite A3 in H0; exact H0| |].
      + right. subst v. right; left. rewrite Eco5. apply in_or_app; right; left; reflexivity.
      + right. right; right; left. exists u. split; assumption.
    - rewrite Eco5. apply incl_appl, incl_refl.
    - intros v Hv. eapply ext_in_var; eassumption.
    - intros a0 n H0. rewrite Eax5. exact H0. }
  splits; try assumption.
  exists ncvar. split; [exact Eco5|].
  destruct (eff_strlen o (c_strlen c)) as [sl|] eqn:Esl'.
  - destruct G6 as [sdim [Ev Hs]]. exists [sdim]. splits.
    + rewrite <- Ev. exact D4.
    + exact Hndn.
    + intros x [Hx|[]]. subst x. apply in_map_iff in Hs as [p [Ep Hp]]. subst. apply Sd5. exact Hp.
    + intros E. rewrite E, eff_strlen_none in Esl'. discriminate.
  - exists []. subst vdims. splits.
    + rewrite app_nil_r. exact D4.
    + exact Hndn.
    + intros x [].
    + reflexivity.
Qed.

Lemma auxdesc_stable : forall AX w0 w w' c n, auxdesc AX w0 w c n -> Inv0 w -> ext w w' -> auxdesc AX w0 w' c n.
Proof.
  intros AX w0 w w' c n [extra [H1 [H2 [H3 H4]]]] HI X. exists extra. splits; try assumption.
  - eapply cdesc_ext; eassumption.
  - intro Hx. apply H2. apply (ext_dn_neg w w'); [exact X| |exact Hx].
    apply used_vn; [exact HI|]. eapply cdesc_in_vn; exact H1.
Qed.

Lemma write_aux_fold : forall o f AX cs w, (forall c, In c cs -> con_wf f c /\ c_type c = CAux) -> Inv0 w -> RoleInv w -> Ref f w [] ->
  incl AX (used w) -> SdInv AX w ->
  let w' := fold_left (write_aux o f) cs w in
  Inv0 w' /\ RoleInv w' /\ Ref f w' [] /\ ext w w' /\ w_axdim w' = w_axdim w /\ w_axscalar w' = w_axscalar w /\
  exists ns, w_coords w' = w_coords w ++ ns /\ Forall2 (auxdesc AX w w') cs ns.
Proof.
  intros o f AX cs. induction cs as [|c cs IH]; intros w Hcs HI HR HRef HAX HSd; simpl.
  - splits; try assumption; try reflexivity; [apply ext_refl|]. exists []. rewrite app_nil_r. split; [reflexivity|constructor].
  - destruct (write_aux_step o f AX w c (proj1 (Hcs c (or_introl eq_refl))) (proj2 (Hcs c (or_introl eq_refl))) HI HR HRef HAX HSd)
      as [I1 [R1 [Ref1 [X1 [E1 [E2 [Sd1 [n [C1 D1]]]]]]]]].
    set (w1 := write_aux o f w c) in *.
    assert (HAX1 : incl AX (used w1)) by (intros x Hx; apply (ext_used _ _ X1); apply HAX; exact Hx).
    destruct (IH w1 (fun c' H => Hcs c' (or_intror H)) I1 R1 Ref1 HAX1 Sd1)
      as [I2 [R2 [Ref2 [X2 [E3 [E4 [ns [C2 D2]]]]]]]].
    set (w2 := fold_left (write_aux o f) cs w1) in *.
    splits; try assumption; try congruence.
    + eapply ext_trans; eassumption.
    + exists (n :: ns). split; [rewrite C2, C1, <- app_assoc; reflexivity|].
      constructor.
      * eapply auxdesc_stable; eassumption.
      * eapply Forall2_impl; [|exact D2]. intros c' n' [extra H]. exists extra.
        unfold dims_of in *. rewrite E1 in H. exact H.
Qed.

(* ------------------------------------------------------------------ cell measures, field ancillaries *)
Definition entry (c : con) (n : string) : string :=
  match c_type c with CMeasure => c_measure c +++ ": " +++ n | _ => n end.

Definition pdesc (vs : list var) (n : string) (ds : list string) : Prop :=
  exists v, fv vs n = Some v /\ v_dims v = ds /\ v_attrs v = [].

Lemma pdesc_app : forall vs vs' n ds, pdesc vs n ds -> pdesc (vs ++ vs') n ds.
Proof. intros vs vs' n ds [v [H1 H2]]. exists v. split; [apply fv_app_some; exact H1|exact H2]. Qed.

Lemma pdesc_ext : forall w w' n ds, ext w w' -> pdesc (w_vars w) n ds -> pdesc (w_vars w') n ds.
Proof. intros w w' n ds [[vs [E _]] _] H. rewrite E. apply pdesc_app; exact H. Qed.

Lemma write_plain_step : forall f d X w l c, nice d -> nice_opt (c_std c) -> nice_opt (c_ncvar c) ->
  Inv0 w -> Ref f w X ->
  exists n w', write_plain d (w, l) c = (w', l ++ [entry c n]) /\
  Inv0 w' /\ Ref f w' (X ++ [n]) /\ ext w w' /\ w_dims w' = w_dims w /\ w_axdim w' = w_axdim w /\
  w_axscalar w' = w_axscalar w /\ w_coords w' = w_coords w /\ pdesc (w_vars w') n (dims_of w (c_axes c)).
Proof.
  intros f d X w l c Hd Hstd Hnv HI HRef. unfold write_plain.
  destruct (alloc (base_name (c_ncvar c) (c_std c) d) w) as [ncvar w1] eqn:Ea.
  assert (Hb : nice (base_name (c_ncvar c) (c_std c) d)) by (apply base_name_nice; assumption).
  destruct (alloc_inv _ _ _ _ Ea HI Hb) as [I1 [Hf [Hn [Hin [EV ED]]]]].
  destruct (alloc_spec _ _ _ _ Ea) as [_ [A1 [A2 [A3 [A4 [A5 [A6 [A7 A8]]]]]]]].
  set (mv := {| v_name := ncvar; v_dims := dims_of w (c_axes c); v_attrs := []; v_kind := KNum |}).
  exists ncvar, (add_var mv w1). split; [reflexivity|].
  assert (Hnv1 : ~ In ncvar (VN w1)) by (rewrite EV; intro Hx; apply Hf; apply used_vn; assumption).
  assert (I2 : Inv0 (add_var mv w1)) by (apply add_var_inv; [exact I1|exact Hin|exact Hnv1|left; reflexivity]).
  assert (X2 : ext w (add_var mv w1)).
  { apply add_var_ext; [eapply alloc_ext; [exact Ea|apply ext_refl]|exact Hf]. }
  splits; try assumption.
  - apply (ref_step f w (add_var mv w1) X (X ++ [ncvar])); try assumption.
    + intros v Hv. simpl in Hv. rewrite A3 in Hv. apply in_app_or in Hv as [Hv|[Hv|[]]]; [left; exact Hv|].
      right. subst v. left. apply in_or_app; right; left; reflexivity.
    + apply incl_appl, incl_refl.
    + simpl. rewrite A6. apply incl_refl.
    + intros v Hv. eapply ext_in_var; eassumption.
    + intros a n H0. simpl. rewrite A4. exact H0.
  - exists mv. splits; try reflexivity. simpl. apply (fv_last (w_vars w1) mv). exact Hnv1.
Qed.

Lemma write_plain_fold : forall f d cs X w l, nice d ->
  (forall c, In c cs -> nice_opt (c_std c) /\ nice_opt (c_ncvar c)) -> Inv0 w -> Ref f w X ->
  exists ns w', fold_left (write_plain d) cs (w, l) = (w', l ++ map (fun p => entry (fst p) (snd p)) (combine cs ns)) /\
  length ns = length cs /\ Inv0 w' /\ Ref f w' (X ++ ns) /\ ext w w' /\ w_dims w' = w_dims w /\
  w_axdim w' = w_axdim w /\ w_axscalar w' = w_axscalar w /\ w_coords w' = w_coords w /\
  Forall2 (fun c n => pdesc (w_vars w') n (dims_of w (c_axes c))) cs ns.
Proof.
  intros f d cs. induction cs as [|c cs IH]; intros X w l Hd Hcs HI HRef.
  - exists [], w. simpl. rewrite !app_nil_r. splits; try assumption; try reflexivity; [apply ext_refl|constructor].
  - destruct (Hcs c (or_introl eq_refl)) as [Hstd Hnv].
    destruct (write_plain_step f d X w l c Hd Hstd Hnv HI HRef) as [n [w1 [E1 [I1 [Ref1 [X1 [F1 [F2 [F3 [F4 D1]]]]]]]]]].
    destruct (IH (X ++ [n]) w1 (l ++ [entry c n]) Hd (fun c' H => Hcs c' (or_intror H)) I1 Ref1)
      as [ns [w2 [E2 [L2 [I2 [Ref2 [X2 [G1 [G2 [G3 [G4 D2]]]]]]]]]]].
    exists (n :: ns), w2. split.
    { change (fold_left (write_plain d) (c :: cs) (w, l)) with (fold_left (write_plain d) cs (write_plain d (w, l) c)).
      rewrite E1, E2. simpl. rewrite <- app_assoc. reflexivity. }
    splits; try congruence; try assumption.
    + simpl. rewrite L2. reflexivity.
    + rewrite <- app_assoc in Ref2. exact Ref2.
    + eapply ext_trans; eassumption.
    + constructor; [eapply pdesc_ext; eassumption|].
      eapply Forall2_impl; [|exact D2]. intros c' n' H. unfold dims_of in *. rewrite F2 in H. exact H.
Qed.
