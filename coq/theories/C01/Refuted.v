(* C01 - witnesses about superseded code (repaired by C01-fix-1). *)
From CfdmV Require Import Common.Base C01.Model C01.Lemmas.
Open Scope string_scope.
Open Scope list_scope.

(* F01b: _write_dimension_coordinate took the coordinate's standard_name as the name of the
   coordinate variable AND of its dimension even when a netCDF dimension name had been set on the
   domain axis (witness: cfdm.example_field(7); here its one-axis reduction). *)
Theorem C01_dimension_name_old_refuted :
  exists o f, (exists a, In a (f_axes f) /\ a_ncdim a = Some "t") /\
              ~ In "t" (map fst (d_dims (write_skel_old o f))).
Proof. exact dimension_name_old_refuted. Qed.
Print Assumptions C01_dimension_name_old_refuted.

Theorem C01_dimension_name_kept_example :
  In "t" (map fst (d_dims (write_skel o0 f_witness))) /\ length (read_skel (write_skel o0 f_witness)) = 1%nat.
Proof. exact dimension_name_kept_example. Qed.
Print Assumptions C01_dimension_name_kept_example.
