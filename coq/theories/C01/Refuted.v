(* C01 - witnesses about superseded code (repaired by C01-fix-1, C01-fix3-3). *)
From CfdmV Require Import Common.Base C01.Model C01.Lemmas C01.RtClass.
Open Scope string_scope.
Open Scope list_scope.

(* F01b: _write_dimension_coordinate took the coordinate's standard_name as the name of the
   coordinate variable AND of its dimension even when a netCDF dimension name had been set on the
   domain axis (witness: cfdm.example_field(7); here its one-axis reduction). *)
Theorem C01_dimension_name_old_refuted :
  exists o f, (exists a, In a (f_axes f) /\ a_ncdim a = Some "t") /\
              ~ In "t" (map fst (d_dims (write_skel_old o f))).
Proof. exact dimension_name_old_refuted. Qed.
Print Assumptions C01_dimension_name_old_refuted.

Theorem C01_dimension_name_kept_example :
  In "t" (map fst (d_dims (write_skel o0 f_witness))) /\ length (read_skel (write_skel o0 f_witness)) = 1%nat.
Proof. exact dimension_name_kept_example. Qed.
Print Assumptions C01_dimension_name_kept_example.

(* bounds-dimension-name-shared-by-size: the superseded _write_bounds reused ANY bounds dimension of the same size,
   so the netCDF dimension name "nv" set on a second 2-vertex Bounds was not a dimension of the dataset; the repaired
   _write_bounds (C01-fix3-3) creates it.  State = the writer state after a first, unnamed 2-vertex bounds. *)
Theorem C01_bounds_dimension_name_old_refuted :
  exists w b cdims cvar, b_ncdim b = Some "nv" /\
    ~ In "nv" (map fst (w_dims (snd (write_bounds_old (Some b) cdims cvar w)))) /\
    In "nv" (map fst (w_dims (snd (write_bounds (Some b) cdims cvar w)))).
Proof. exact bounds_dimension_name_old_refuted. Qed.
Print Assumptions C01_bounds_dimension_name_old_refuted.

(* third pass, seeded variant A: the reader tests a scalar coordinate variable with _is_char instead of
   _is_char_or_string.  A string-valued coordinate stored as a netCDF string (fmt NETCDF4, string=True) is then
   classified as a dimension coordinate; with any other format or string=False the variant agrees with the code. *)
Theorem C01_scalar_class_char_only_refuted :
  (exists o sl, sl <> None /\ scalar_class_char_only (skind o sl) = CDim /\ scalar_class (skind o sl) = CAux) /\
  (forall o sl, vlen o = false -> scalar_class_char_only (skind o sl) = scalar_class (skind o sl)).
Proof. split; [exact scalar_class_char_only_refuted|exact scalar_class_char_only_agrees]. Qed.
Print Assumptions C01_scalar_class_char_only_refuted.

(* third pass, seeded variant B: dimension coordinates named in `coordinates' are skipped by the data variable's OWN
   netCDF dimensions.  For data compressed by gathering the coordinate variable of a compressed dimension is then
   read a second time, as an auxiliary coordinate; without compression the variant agrees with the code. *)
Theorem C01_coordinates_own_dimensions_refuted :
  (exists d v x l n, In x (v_dims v) /\ compress_of d x = Some l /\ In n l /\ is_coordvar d n <> None /\
     In n (coord_candidates_own d v) /\ ~ In n (coord_candidates d v)) /\
  (forall d v, has_compress d = false -> coord_candidates_own d v = coord_candidates d v).
Proof. split; [exact coord_candidates_own_refuted|exact coord_candidates_own_agrees]. Qed.
Print Assumptions C01_coordinates_own_dimensions_refuted.

(* the string option is not irrelevant: it decides how a string-valued coordinate is stored *)
Theorem C01_string_option_matters :
  exists o o' f, o_coordinates o = o_coordinates o' /\ write_skel o f <> write_skel o' f.
Proof. exists (o_of 0 true), (o_of 0 false), sc_skel. split; [reflexivity|]. vm_compute. discriminate. Qed.
Print Assumptions C01_string_option_matters.
