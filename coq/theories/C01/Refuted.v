(* C01 - witnesses about superseded code (repaired by C01-fix-1, C01-fix3-3). *)
From CfdmV Require Import Common.Base C01.Model C01.Lemmas.
Open Scope string_scope.
Open Scope list_scope.

(* F01b: _write_dimension_coordinate took the coordinate's standard_name as the name of the
   coordinate variable AND of its dimension even when a netCDF dimension name had been set on the
   domain axis (witness: cfdm.example_field(7); here its one-axis reduction). *)
Theorem C01_dimension_name_old_refuted :
  exists o f, (exists a, In a (f_axes f) /\ a_ncdim a = Some "t") /\
              ~ In "t" (map fst (d_dims (write_skel_old o f))).
Proof. exact dimension_name_old_refuted. Qed.
Print Assumptions C01_dimension_name_old_refuted.

Theorem C01_dimension_name_kept_example :
  In "t" (map fst (d_dims (write_skel o0 f_witness))) /\ length (read_skel (write_skel o0 f_witness)) = 1%nat.
Proof. exact dimension_name_kept_example. Qed.
Print Assumptions C01_dimension_name_kept_example.

(* bounds-dimension-name-shared-by-size: the superseded _write_bounds reused ANY bounds dimension of the same size,
   so the netCDF dimension name "nv" set on a second 2-vertex Bounds was not a dimension of the dataset; the repaired
   _write_bounds (C01-fix3-3) creates it.  State = the writer state after a first, unnamed 2-vertex bounds. *)
Theorem C01_bounds_dimension_name_old_refuted :
  exists w b cdims cvar, b_ncdim b = Some "nv" /\
    ~ In "nv" (map fst (w_dims (snd (write_bounds_old (Some b) cdims cvar w)))) /\
    In "nv" (map fst (w_dims (snd (write_bounds (Some b) cdims cvar w)))).
Proof. exact bounds_dimension_name_old_refuted. Qed.
Print Assumptions C01_bounds_dimension_name_old_refuted.
