(* C05 - witnesses.  [..._old_...] are about equals as it was before the repairs
   C05-fix-1..5 (variant Old); the others are about the repaired code (variant New)
   and mark the limits of what is proved. *)
From CfdmV Require Import Common.Base C05.Model.
Open Scope Z_scope.
Open Scope string_scope.

Definition o0 : opts := mkO None None false false IPNone true false.
Definition o_ifv1 : opts := mkO None None false true IPNone true false.
Definition noarr : arr := mkA [] false 0 [].
Definition dat (shape : list Z) (vals : list Z) : data :=
  mkD (mkA shape false 6 (map Some vals)) None None None "" noarr.
Definition con (c : cls) (name : string) (shape : list Z) (vals : list Z) : cons :=
  mkC c (mkP [("standard_name", PStr name)] (Some (dat shape vals)) false None) None None None None.
Definition lat := con CDim "latitude" [3] [1; 2; 3].
Definition lon := con CDim "longitude" [3] [4; 5; 6].
Definition a0 := "domainaxis0".
Definition a1 := "domainaxis1".
Definition a2 := "domainaxis2".
Definition base_axes : list (string * option Z) := [(a0, Some 3); (a1, Some 3)].
Definition base_cons : list kcons := [("dimensioncoordinate0", ([a0], lat)); ("dimensioncoordinate1", ([a1], lon))].
Definition fld (daxes : list string) (axes : list (string * option Z)) (cs : list kcons)
           (cms : list (string * cmeth)) : field :=
  mkF true [] (Some (dat [3; 3] [0; 1; 2; 3; 4; 5; 6; 7; 8])) (Some daxes) axes cs cms [].
Definition base := fld [a0; a1] base_axes base_cons [].
Definition cm (axes : list string) : cmeth := mkM axes (Some "mean") [] [].

(* F05a: different numbers of cell methods -> TypeError (a Logger is not callable) *)
Theorem C05_old_cell_method_count_raises_refuted :
  top_eq Old o0 (TField base) (TField (fld [a0; a1] base_axes base_cons [("cellmethod0", cm [a0])]))
  = Some (Err TypeErr).
Proof. vm_compute. reflexivity. Qed.

(* F05b: ignore_fill_value=True with the default ignore_properties -> TypeError *)
Theorem C05_old_ignore_fill_value_raises_refuted :
  top_eq Old o_ifv1 (TCons lat) (TCons lat) = Some (Err TypeErr) /\
  top_eq Old o_ifv1 (TField base) (TField base) = Some (Err TypeErr).
Proof. vm_compute. split; reflexivity. Qed.

(* F05c: the field's data span (lat, lon) in one and (lon, lat) in the other: "equal" *)
Theorem C05_old_data_axes_ignored_refuted :
  top_eq Old o0 (TField base) (TField (fld [a1; a0] base_axes base_cons [])) = Some (Ok true) /\
  top_eq New o0 (TField base) (TField (fld [a1; a0] base_axes base_cons [])) = Some (Ok false).
Proof. vm_compute. split; reflexivity. Qed.

(* F05d: an ambiguous axis mapping raised ValueError / KeyError instead of returning False *)
Definition sym2d := con CAux "aux_sym" [3; 3] [1; 2; 3; 2; 4; 5; 3; 5; 6].
Theorem C05_old_ambiguous_axes_raise_refuted :
  top_eq Old o0 (TField (fld [a0; a1] base_axes (base_cons ++ [("auxiliarycoordinate0", ([a0; a1], sym2d))]) []))
               (TField (fld [a0; a1] base_axes (base_cons ++ [("auxiliarycoordinate0", ([a1; a0], sym2d))]) []))
  = Some (Err ValueErr) /\
  top_eq New o0 (TField (fld [a0; a1] base_axes (base_cons ++ [("auxiliarycoordinate0", ([a0; a1], sym2d))]) []))
               (TField (fld [a0; a1] base_axes (base_cons ++ [("auxiliarycoordinate0", ([a1; a0], sym2d))]) []))
  = Some (Ok false).
Proof. vm_compute. split; reflexivity. Qed.

(* F05e: a domain axis whose size was never set -> ValueError *)
Theorem C05_old_sizeless_axis_raises_refuted :
  let f := fld [a0; a1] (base_axes ++ [(a2, None)]) base_cons [] in
  top_eq Old o0 (TField f) (TField f) = Some (Err ValueErr) /\ top_eq New o0 (TField f) (TField f) = Some (Ok true).
Proof. vm_compute. split; reflexivity. Qed.

(* F05g: a field with the cell method "area: lat: lon: mean" differed from its own copy *)
Theorem C05_old_copy_differs_refuted :
  let f := fld [a0; a1] base_axes base_cons [("cellmethod0", cm ["area"; a0; a1])] in
  top_eq Old o0 (TField f) (TField f) = Some (Ok false) /\ top_eq New o0 (TField f) (TField f) = Some (Ok true).
Proof. vm_compute. split; reflexivity. Qed.

(* F05h: a field with a cell measure "equalled" the same field without it (for the iteration
   order of the set of construct types under PYTHONHASHSEED=0, [type_order]) *)
Definition area := con CMeas "cell_area" [3] [7; 8; 9].
Theorem C05_old_extra_construct_unnoticed_refuted :
  let f := fld [a0; a1] base_axes (base_cons ++ [("cellmeasure0", ([a0], area))]) [] in
  top_eq Old o0 (TField f) (TField base) = Some (Ok true) /\
  top_eq New o0 (TField f) (TField base) = Some (Ok false).
Proof. vm_compute. split; reflexivity. Qed.

(* ---- the code after C05-fix-1..5 and before C05-fix2-1..2 (variant Mid) ---- *)

(* a cell method with three axes and two intervals: CellMethod.sorted raised IndexError *)
Definition iv (n : Z) : data := mkD (mkA [] false 6 [Some n]) None None None "" noarr.
Theorem mid_short_intervals_witness :
  let f := fld [a0; a1] base_axes base_cons
             [("cellmethod0", mkM [a0; a1; "area"] (Some "mean") [] [iv 1; iv 2])] in
  top_eq Mid o0 (TField f) (TField f) = Some (Err IndexErr) /\
  top_eq New o0 (TField f) (TField f) = Some (Ok true).
Proof. vm_compute. split; reflexivity. Qed.

(* ... and with two axes and three intervals it dropped the third interval, so that the
   field differed from its own copy *)
Theorem mid_surplus_intervals_witness :
  let f := fld [a0; a1] base_axes base_cons
             [("cellmethod0", mkM [a0; a1] (Some "mean") [] [iv 1; iv 2; iv 3])] in
  top_eq Mid o0 (TField f) (TField f) = Some (Ok false) /\
  top_eq New o0 (TField f) (TField f) = Some (Ok true).
Proof. vm_compute. split; reflexivity. Qed.

(* a cell method over a domain axis that neither a construct nor the field's data span was
   compared by the KEY of that axis: renaming the key changed the answer *)
Theorem mid_key_blind_unspanned_axis_witness :
  let f := fun k => fld [a0; a1] (base_axes ++ [(k, Some 1)]) base_cons [("cellmethod0", cm [k])] in
  top_eq Mid o0 (TField (f "domainaxis2")) (TField (f "domainaxis2")) = Some (Ok true) /\
  top_eq Mid o0 (TField (f "domainaxis2")) (TField (f "domainaxis7")) = Some (Ok false) /\
  top_eq New o0 (TField (f "domainaxis2")) (TField (f "domainaxis7")) = Some (Ok true).
Proof. vm_compute. repeat split; reflexivity. Qed.

(* ---- limits of the repaired code (open finding) ---- *)

(* two axes with indistinguishable coordinates: greedy matching pairs them in insertion
   order, so re-inserting the constructs in the other order changes the answer *)
Theorem order_blind_twin_axes_witness :
  let f := fun cs => fld [a0; a1] base_axes cs [] in
  let c0 := ("dimensioncoordinate0", ([a0], lat)) in
  let c1 := ("dimensioncoordinate1", ([a1], lat)) in
  top_eq New o0 (TField (f [c0; c1])) (TField (f [c0; c1])) = Some (Ok true) /\
  top_eq New o0 (TField (f [c0; c1])) (TField (f [c1; c0])) = Some (Ok false).
Proof. vm_compute. split; reflexivity. Qed.

(* ignore_type=True between classes is directional: the operand is converted to the class of
   self, which drops the components that class has not got.  A cell measure with a measure and a
   domain ancillary with the same properties and data: the domain ancillary equals the converted
   cell measure, the cell measure does not equal the converted domain ancillary (it has no
   measure). *)
Definition o_it : opts := mkO (Some (0, 1)) (Some (0, 1)) false false IPNone true true.
Theorem cross_class_asymmetry_witness :
  let m := mkC CMeas (mkP [("standard_name", PStr "cell_area")] (Some (dat [3] [7; 8; 9])) false None)
               None None None (Some "area") in
  let d := mkC CDomAnc (mkP [("standard_name", PStr "cell_area")] (Some (dat [3] [7; 8; 9])) false None)
               None None None None in
  cons_eq New o_it d m = Some (Ok true) /\ cons_eq New o_it m d = Some (Ok false).
Proof. vm_compute. split; reflexivity. Qed.
