(* C05 - proofs. *)
From CfdmV Require Import Common.Base C05.Model.
From Coq Require Import Permutation.
Open Scope Z_scope.

Ltac splits := repeat match goal with |- _ /\ _ => split end.

(* ====================================================================== *)
(* A. greedy matching under an equivalence decides multiset equality      *)
(* ====================================================================== *)
Section Greedy.
  Variable A : Type.
  Variable eqb : A -> A -> bool.
  Hypothesis eqb_refl : forall x, eqb x x = true.
  Hypothesis eqb_sym : forall x y, eqb x y = eqb y x.
  Hypothesis eqb_trans : forall x y z, eqb x y = true -> eqb y z = true -> eqb x z = true.

  (* number of elements of l in the class of z *)
  Fixpoint cnt (z : A) (l : list A) : nat :=
    match l with [] => O | y :: r => (if eqb z y then 1 else 0) + cnt z r end.

  Definition eqR (a b : A) : result bool := Ok (eqb a b).

  Definition matched {P} (r : result (option P)) : bool :=
    match r with Ok (Some _) => true | _ => false end.

  Lemma eqb_class : forall x y z, eqb x y = true -> eqb z x = eqb z y.
  Proof.
    intros x y z H. destruct (eqb z x) eqn:E1, (eqb z y) eqn:E2; auto.
    - rewrite (eqb_trans z x y E1 H) in E2. discriminate.
    - rewrite eqb_sym in H. rewrite (eqb_trans z y x E2 H) in E1. discriminate.
  Qed.

  Lemma find_remove_spec : forall x ys,
    match find_remove (eqR x) ys with
    | Ok (Some (y, ys')) => eqb x y = true /\ (forall z, cnt z ys = ((if eqb z y then 1 else 0) + cnt z ys')%nat)
                            /\ Permutation ys (y :: ys')
    | Ok None => cnt x ys = O
    | Err _ => False
    end.
  Proof.
    intros x ys; induction ys as [|y r IH]; simpl; auto.
    change (eqR x y) with (Ok (eqb x y)). destruct (eqb x y) eqn:E.
    - split; [reflexivity|split]; [intro w; reflexivity|apply Permutation_refl].
    - destruct (find_remove (eqR x) r) as [[[z r']|]|e]; simpl in *.
      + destruct IH as (H1 & H2 & H3). split; [exact H1|split].
        * intro w. rewrite H2. destruct (eqb w y), (eqb w z); simpl; lia.
        * rewrite H3. apply perm_swap.
      + exact IH.
      + exact IH.
  Qed.

  Theorem greedy_counts : forall xs ys,
    matched (greedyR eqR xs ys) = true <-> (forall z, cnt z xs = cnt z ys).
  Proof.
    induction xs as [|x xs IH]; intros ys; simpl.
    - destruct ys as [|y r]; simpl; split; auto; try discriminate.
      intro H. specialize (H y). simpl in H. rewrite eqb_refl in H. discriminate.
    - pose proof (find_remove_spec x ys) as S.
      destruct (find_remove (eqR x) ys) as [[[y ys']|]|e]; simpl.
      + destruct S as (E & C & _).
        specialize (IH ys').
        assert (M : matched (match greedyR eqR xs ys' with
                             | Ok (Some ps) => Ok (Some ((x, y) :: ps)) | other => other end)
                    = matched (greedyR eqR xs ys')).
        { destruct (greedyR eqR xs ys') as [[?|]|?]; reflexivity. }
        rewrite M, IH. split; intros H z.
        * rewrite C, <- H, (eqb_class x y z E). reflexivity.
        * specialize (H z). rewrite C, (eqb_class x y z E) in H. lia.
      + split; [discriminate|]. intro H. specialize (H x). rewrite eqb_refl, S in H. discriminate.
      + destruct S.
  Qed.

  Lemma cnt_perm : forall z l l', Permutation l l' -> cnt z l = cnt z l'.
  Proof. induction 1; simpl; lia. Qed.

  (* the matching that greedy finds is a genuine one *)
  Theorem greedy_sound : forall xs ys ps,
    greedyR eqR xs ys = Ok (Some ps) ->
    map fst ps = xs /\ Permutation (map snd ps) ys /\ Forall (fun p => eqb (fst p) (snd p) = true) ps.
  Proof.
    induction xs as [|x xs IH]; intros ys ps; simpl.
    - destruct ys; intro H; inversion H; subst; simpl; splits; auto.
    - pose proof (find_remove_spec x ys) as S.
      destruct (find_remove (eqR x) ys) as [[[y ys']|]|e]; try discriminate.
      destruct S as (E & _ & P).
      destruct (greedyR eqR xs ys') as [[qs|]|e] eqn:G; try discriminate.
      intro H; inversion H; subst; clear H. destruct (IH _ _ G) as (H1 & H2 & H3).
      simpl; splits.
      + now rewrite H1.
      + rewrite P. now constructor.
      + constructor; auto.
  Qed.

  Corollary greedy_refl : forall xs, matched (greedyR eqR xs xs) = true.
  Proof. intro. apply greedy_counts. reflexivity. Qed.

  Corollary greedy_sym : forall xs ys,
    matched (greedyR eqR xs ys) = matched (greedyR eqR ys xs).
  Proof.
    intros. destruct (matched (greedyR eqR xs ys)) eqn:E1, (matched (greedyR eqR ys xs)) eqn:E2; auto.
    - apply greedy_counts in E1. assert (H : matched (greedyR eqR ys xs) = true).
      { apply greedy_counts. intro z. symmetry. apply E1. } congruence.
    - apply greedy_counts in E2. assert (H : matched (greedyR eqR xs ys) = true).
      { apply greedy_counts. intro z. symmetry. apply E2. } congruence.
  Qed.

  Corollary greedy_order_blind : forall xs xs' ys ys',
    Permutation xs xs' -> Permutation ys ys' ->
    matched (greedyR eqR xs ys) = matched (greedyR eqR xs' ys').
  Proof.
    intros xs xs' ys ys' P1 P2.
    destruct (matched (greedyR eqR xs ys)) eqn:E1, (matched (greedyR eqR xs' ys')) eqn:E2; auto.
    - apply greedy_counts in E1. assert (H : matched (greedyR eqR xs' ys') = true).
      { apply greedy_counts. intro z. rewrite <- (cnt_perm z _ _ P1), <- (cnt_perm z _ _ P2). apply E1. }
      congruence.
    - apply greedy_counts in E2. assert (H : matched (greedyR eqR xs ys) = true).
      { apply greedy_counts. intro z. rewrite (cnt_perm z _ _ P1), (cnt_perm z _ _ P2). apply E2. }
      congruence.
  Qed.
End Greedy.
