(* C05 - proofs. *)
From CfdmV Require Import Common.Base C05.Model.
From Coq Require Import Permutation.
Open Scope Z_scope.

Ltac splits := repeat match goal with |- _ /\ _ => split end.

(* ====================================================================== *)
(* A. greedy matching under an equivalence decides multiset equality      *)
(* ====================================================================== *)
Section Greedy.
  Variable A : Type.
  Variable eqb : A -> A -> bool.
  Hypothesis eqb_refl : forall x, eqb x x = true.
  Hypothesis eqb_sym : forall x y, eqb x y = eqb y x.
  Hypothesis eqb_trans : forall x y z, eqb x y = true -> eqb y z = true -> eqb x z = true.

  (* number of elements of l in the class of z *)
  Fixpoint cnt (z : A) (l : list A) : nat :=
    match l with [] => O | y :: r => (if eqb z y then 1 else 0) + cnt z r end.

  Definition eqR (a b : A) : result bool := Ok (eqb a b).

  Definition matched {P} (r : result (option P)) : bool :=
    match r with Ok (Some _) => true | _ => false end.

  Lemma eqb_class : forall x y z, eqb x y = true -> eqb z x = eqb z y.
  Proof.
    intros x y z H. destruct (eqb z x) eqn:E1, (eqb z y) eqn:E2; auto.
    - rewrite (eqb_trans z x y E1 H) in E2. discriminate.
    - rewrite eqb_sym in H. rewrite (eqb_trans z y x E2 H) in E1. discriminate.
  Qed.

  Lemma find_remove_spec : forall x ys,
    match find_remove (eqR x) ys with
    | Ok (Some (y, ys')) => eqb x y = true /\ (forall z, cnt z ys = ((if eqb z y then 1 else 0) + cnt z ys')%nat)
                            /\ Permutation ys (y :: ys')
    | Ok None => cnt x ys = O
    | Err _ => False
    end.
  Proof.
    intros x ys; induction ys as [|y r IH]; simpl; auto.
    change (eqR x y) with (Ok (eqb x y)). destruct (eqb x y) eqn:E.
    - split; [exact E|split]; [intro w; reflexivity|apply Permutation_refl].
    - destruct (find_remove (eqR x) r) as [[[z r']|]|e]; simpl in *.
      + destruct IH as (H1 & H2 & H3). split; [exact H1|split].
        * intro w. rewrite H2. destruct (eqb w y), (eqb w z); simpl; lia.
        * rewrite H3. apply perm_swap.
      + exact IH.
      + exact IH.
  Qed.

  Theorem greedy_counts : forall xs ys,
    matched (greedyR eqR xs ys) = true <-> (forall z, cnt z xs = cnt z ys).
  Proof.
    induction xs as [|x xs IH]; intros ys; simpl.
    - destruct ys as [|y r]; simpl; split; auto; try discriminate.
      intro H. specialize (H y). simpl in H. rewrite eqb_refl in H. discriminate.
    - pose proof (find_remove_spec x ys) as S.
      destruct (find_remove (eqR x) ys) as [[[y ys']|]|e]; simpl.
      + destruct S as (E & C & _).
        specialize (IH ys').
        assert (M : matched (match greedyR eqR xs ys' with
                             | Ok (Some ps) => Ok (Some ((x, y) :: ps)) | other => other end)
                    = matched (greedyR eqR xs ys')).
        { destruct (greedyR eqR xs ys') as [[?|]|?]; reflexivity. }
        rewrite M, IH. split; intros H z.
        * rewrite C, <- H, (eqb_class x y z E). reflexivity.
        * specialize (H z). rewrite C, (eqb_class x y z E) in H. lia.
      + split; [discriminate|]. intro H. specialize (H x). rewrite eqb_refl, S in H. discriminate.
      + destruct S.
  Qed.

  Lemma cnt_perm : forall z l l', Permutation l l' -> cnt z l = cnt z l'.
  Proof. induction 1; simpl; lia. Qed.

  (* the matching that greedy finds is a genuine one *)
  Theorem greedy_sound : forall xs ys ps,
    greedyR eqR xs ys = Ok (Some ps) ->
    map fst ps = xs /\ Permutation (map snd ps) ys /\ Forall (fun p => eqb (fst p) (snd p) = true) ps.
  Proof.
    induction xs as [|x xs IH]; intros ys ps; simpl.
    - destruct ys; intro H; inversion H; subst; simpl; splits; auto.
    - pose proof (find_remove_spec x ys) as S.
      destruct (find_remove (eqR x) ys) as [[[y ys']|]|e]; try discriminate.
      destruct S as (E & _ & P).
      destruct (greedyR eqR xs ys') as [[qs|]|e] eqn:G; try discriminate.
      intro H; inversion H; subst; clear H. destruct (IH _ _ G) as (H1 & H2 & H3).
      simpl; splits.
      + now rewrite H1.
      + rewrite P. now constructor.
      + constructor; auto.
  Qed.

  Corollary greedy_refl : forall xs, matched (greedyR eqR xs xs) = true.
  Proof. intro. apply (proj2 (greedy_counts xs xs)). reflexivity. Qed.

  Corollary greedy_sym : forall xs ys,
    matched (greedyR eqR xs ys) = matched (greedyR eqR ys xs).
  Proof.
    intros. destruct (matched (greedyR eqR xs ys)) eqn:E1, (matched (greedyR eqR ys xs)) eqn:E2; auto.
    - pose proof (proj1 (greedy_counts xs ys) E1) as C.
      assert (H : matched (greedyR eqR ys xs) = true).
      { apply (proj2 (greedy_counts ys xs)). intro z. symmetry. apply C. } congruence.
    - pose proof (proj1 (greedy_counts ys xs) E2) as C.
      assert (H : matched (greedyR eqR xs ys) = true).
      { apply (proj2 (greedy_counts xs ys)). intro z. symmetry. apply C. } congruence.
  Qed.

  Corollary greedy_order_blind : forall xs xs' ys ys',
    Permutation xs xs' -> Permutation ys ys' ->
    matched (greedyR eqR xs ys) = matched (greedyR eqR xs' ys').
  Proof.
    intros xs xs' ys ys' P1 P2.
    destruct (matched (greedyR eqR xs ys)) eqn:E1, (matched (greedyR eqR xs' ys')) eqn:E2; auto.
    - pose proof (proj1 (greedy_counts xs ys) E1) as C.
      assert (H : matched (greedyR eqR xs' ys') = true).
      { apply (proj2 (greedy_counts xs' ys')). intro z.
        rewrite <- (cnt_perm z _ _ P1), <- (cnt_perm z _ _ P2). apply C. }
      congruence.
    - pose proof (proj1 (greedy_counts xs' ys') E2) as C.
      assert (H : matched (greedyR eqR xs ys) = true).
      { apply (proj2 (greedy_counts xs ys)). intro z.
        rewrite (cnt_perm z _ _ P1), (cnt_perm z _ _ P2). apply C. }
      congruence.
  Qed.
End Greedy.

(* ====================================================================== *)
(* B. totality of the repaired code                                       *)
(* ====================================================================== *)
Definition okR {T} (r : result T) : Prop := exists t, r = Ok t.

Lemma okR_Ok {T} (t : T) : okR (Ok t).
Proof. now exists t. Qed.
#[export] Hint Resolve okR_Ok : c05.

Lemma andR_ok a k : okR a -> okR k -> okR (andR a k).
Proof. intros [b ->] [c ->]. destruct b; simpl; eauto with c05. Qed.

Lemma rbind_ok {S T} (r : result S) (f : S -> result T) :
  okR r -> (forall s, okR (f s)) -> okR (rbind r f).
Proof. intros [s ->] H. simpl. apply H. Qed.

Lemma ign_list_new ifv ip : okR (ign_list New ifv ip).
Proof. unfold ign_list; simpl. destruct ifv; eauto with c05. Qed.

Lemma pd_eq_new o ip x y : okR (pd_eq New o ip x y).
Proof.
  unfold pd_eq. destruct (negb _); eauto with c05. destruct (p_ext x); eauto with c05.
  apply rbind_ok; [apply ign_list_new|eauto with c05].
Qed.

Lemma opt_pd_eq_new o x y : okR (opt_pd_eq New o x y).
Proof. destruct x, y; simpl; eauto using pd_eq_new with c05. Qed.

Lemma bounds_eq_new o x y : okR (bounds_eq New o x y).
Proof. unfold bounds_eq. destruct (c_bounds x), (c_bounds y); eauto using pd_eq_new with c05. Qed.

Lemma cons_body_eq_new o x y : okR (cons_body_eq New o x y).
Proof.
  unfold cons_body_eq. repeat apply andR_ok; eauto using pd_eq_new, opt_pd_eq_new, bounds_eq_new with c05.
Qed.

Lemma find_remove_ok {B} (p : B -> result bool) l :
  (forall b, okR (p b)) -> okR (find_remove p l).
Proof.
  intro H; induction l as [|y r IH]; simpl; eauto with c05.
  destruct (H y) as [b ->]. destruct b; eauto with c05.
  destruct IH as [t ->]. destruct t as [[z r']|]; eauto with c05.
Qed.

Lemma greedyR_ok {A B} (eq : A -> B -> result bool) xs :
  (forall a b, okR (eq a b)) -> forall ys, okR (greedyR eq xs ys).
Proof.
  intro H; induction xs as [|x xs IH]; intro ys; simpl; eauto with c05.
  destruct (find_remove_ok (eq x) ys (H x)) as [t ->].
  destruct t as [[y ys']|]; eauto with c05.
  destruct (IH ys') as [t ->]. destruct t; eauto with c05.
Qed.

Lemma match_types_new o other tys i0 i1 : okR (match_types New o other tys i0 i1).
Proof.
  induction tys as [|t rest IH]; simpl; eauto with c05.
  destruct (negb _); eauto with c05.
  destruct (greedyR_ok (fun a b : string * cons => cons_body_eq New o (snd a) (snd b)) (role t i0)
              (fun a b => cons_body_eq_new o (snd a) (snd b)) (role t i1)) as [g ->].
  destruct g; eauto with c05. destruct IH as [q ->]. destruct q; eauto with c05.
Qed.

Local Arguments match_types : simpl never.

Lemma find_group_new o other g0 gs1 : okR (find_group New o other g0 gs1).
Proof.
  destruct g0 as [ax0 i0].
  induction gs1 as [|[ax1 i1] r IH]; simpl; eauto with c05.
  assert (C : okR (match find_group New o other (ax0, i0) r with
                   | Ok (Some (g, r', ps)) => Ok (Some (g, (ax1, i1) :: r', ps)) | x => x end)).
  { destruct IH as [t ->]. destruct t as [[[g r'] ps]|]; eauto with c05. }
  destruct (negb _); auto.
  destruct (match_types_new o other type_order i0 i1) as [t ->].
  destruct t; eauto with c05.
Qed.

Lemma match_groups_new o other gs0 : forall gs1, okR (match_groups New o other gs0 gs1).
Proof.
  induction gs0 as [|g0 r0 IH]; intro gs1; simpl; eauto with c05.
  destruct (find_group_new o other g0 gs1) as [t ->].
  destruct t as [[[g1 gs1'] ps]|]; eauto with c05.
  destruct (IH gs1') as [t ->]. destruct t as [[aps qs]|]; eauto with c05.
Qed.

Lemma map_axes_new z : forall m01 m10, okR (map_axes New m01 m10 z).
Proof.
  induction z as [|[a0 a1] r IH]; intros m01 m10; simpl; eauto with c05.
  destruct (match assoc a0 m01 with Some b => negb (String.eqb a1 b) | None => false end); eauto with c05.
  destruct (match assoc a1 m10 with Some b0 => negb (String.eqb a0 b0) | None => false end); eauto with c05.
Qed.

Lemma map_all_axes_new aps : forall m01 m10, okR (map_all_axes New m01 m10 aps).
Proof.
  induction aps as [|[ax0 ax1] r IH]; intros m01 m10; simpl; eauto with c05.
  destruct (map_axes_new (zip ax0 ax1) m01 m10) as [t ->].
  destruct t as [[m01' m10']|]; eauto with c05.
Qed.

(* CellMethod.sorted never indexes outside the intervals: the indices collected by the
   scan are positions in the axes of the other cell method *)
Lemma index_of_lt s l : In s l -> (index_of s l < length l)%nat.
Proof.
  induction l as [|x r IH]; simpl; [contradiction|]. intro H.
  destruct (String.eqb s x) eqn:E; [lia|]. destruct H as [H|H].
  - subst. rewrite String.eqb_refl in E. discriminate.
  - apply IH in H. lia.
Qed.

Lemma remove1_incl s l : incl (remove1 s l) l.
Proof.
  induction l as [|x r IH]; simpl; [apply incl_refl|].
  destruct (String.eqb s x); [apply incl_tl, incl_refl|].
  intros z [H|H]; [now left|right; now apply IH].
Qed.

Definition idx_ok (orig : list string) (idx : list nat) : Prop :=
  Forall (fun i => (i < length orig)%nat) idx.

Lemma scan_axes1_inv v ax0 ax1 orig axis0 fuel : forall a m i axes1 indices axes1' indices' a' m',
  scan_axes1 v ax0 ax1 a m orig axis0 fuel i axes1 indices = SDone axes1' indices' a' m' ->
  incl axes1 orig -> idx_ok orig indices -> incl axes1' orig /\ idx_ok orig indices'.
Proof.
  induction fuel as [|fuel IH]; intros a m i axes1 indices axes1' indices' a' m'; simpl.
  - intro H; inversion H; subst; auto.
  - destruct (nth_error axes1 i) as [axis1|] eqn:N; [|intro H; inversion H; subst; auto].
    intros H I X.
    assert (In1 : In axis1 orig) by (apply I; eapply nth_error_In; eauto).
    assert (I' : incl (remove1 axis1 axes1) orig)
      by (intros z Hz; apply I; eapply remove1_incl; eauto).
    assert (X' : idx_ok orig (indices ++ [index_of axis1 orig])).
    { apply Forall_app; split; auto. constructor; auto. now apply index_of_lt. }
    repeat match type of H with
    | context [if ?b then _ else _] => destruct b
    end; try discriminate; try (inversion H; subst; auto; fail); try (eapply IH; eauto; fail).
Qed.

Lemma scan_axes0_inv v ax0 ax1 orig axes0 : forall a m axes1 indices indices' a' m',
  scan_axes0 v ax0 ax1 a m orig axes0 axes1 indices = Some (indices', a', m') ->
  incl axes1 orig -> idx_ok orig indices -> idx_ok orig indices'.
Proof.
  induction axes0 as [|axis0 r IH]; intros a m axes1 indices indices' a' m'; cbn [scan_axes0].
  - intro H; inversion H; subst; auto.
  - destruct (scan_axes1 v ax0 ax1 a m orig axis0 (S (length axes1)) 0 axes1 indices)
      as [|axes1'' indices'' a'' m''] eqn:E; [discriminate|].
    intros H I X. destruct (scan_axes1_inv _ _ _ _ _ _ _ _ _ _ _ _ _ _ _ E I X) as [I2 X2].
    eapply IH; eauto.
Qed.

Lemma pick_ok {A} (l : list A) idx :
  Forall (fun i => (i < length l)%nat) idx -> exists r, pick l idx = Some r.
Proof.
  induction 1 as [|i r Hi _ IH]; simpl; [eauto|].
  destruct IH as [xs ->]. destruct (nth_error l i) eqn:E; [eauto|].
  apply nth_error_None in E. lia.
Qed.

Lemma sorted_intervals_new c idx :
  idx_ok (m_axes c) idx -> okR (sorted_intervals New c idx).
Proof.
  intro X. unfold sorted_intervals. cbn [fixI New].
  destruct (Nat.eqb (length (m_axes c)) 1); eauto with c05.
  destruct (Nat.eqb (length (m_intervals c)) (length (m_axes c))) eqn:E; simpl; eauto with c05.
  apply Nat.eqb_eq in E. unfold idx_ok in X. rewrite <- E in X.
  destruct (pick_ok _ _ X) as [r ->]. eauto with c05.
Qed.

Lemma one_cm_eq_new o ax0 ax1 a m c0 c1 : okR (one_cm_eq New o ax0 ax1 a m c0 c1).
Proof.
  unfold one_cm_eq. destruct (negb _); eauto with c05.
  destruct (scan_axes0 _ _ _ _ _ _ _ _ _) as [[[indices a'] m']|] eqn:E; eauto with c05.
  destruct (negb _); eauto with c05.
  apply rbind_ok; [|eauto with c05]. apply sorted_intervals_new.
  eapply scan_axes0_inv; eauto; [apply incl_refl|constructor].
Qed.

Lemma cms_zip_eq_new o ax0 ax1 l0 : forall a m l1, okR (cms_zip_eq New o ax0 ax1 a m l0 l1).
Proof.
  induction l0 as [|[k0 c0] r0 IH]; intros a m l1; simpl; eauto with c05.
  destruct l1 as [|[k1 c1] r1]; eauto with c05.
  destruct (one_cm_eq_new o ax0 ax1 a m c0 c1) as [t ->]. destruct t as [[a' m']|]; eauto with c05.
Qed.

Lemma cms_eq_new o ax0 ax1 m l0 l1 : okR (cms_eq New o ax0 ax1 m l0 l1).
Proof. unfold cms_eq. destruct (negb _); simpl; eauto with c05. apply cms_zip_eq_new. Qed.

Lemma crs_eq_ok o ps l0 l1 : okR (crs_eq o ps l0 l1).
Proof.
  unfold crs_eq. destruct (negb _); eauto with c05.
  destruct (greedyR_ok (cref_match o ps) l0 (fun a b => okR_Ok _) l1) as [t ->].
  destruct t; eauto with c05.
Qed.

Lemma sizes_eq_new x y : okR (sizes_eq New x y).
Proof. unfold sizes_eq; simpl. eauto with c05. Qed.

Lemma constructs_eq_new o x y : okR (constructs_eq New o x y).
Proof.
  unfold constructs_eq. apply andR_ok; [apply sizes_eq_new|].
  destruct (negb _); eauto with c05.
  destruct (match_groups_new (nested o) (f_cons y) (groups (f_cons x)) (groups (f_cons y))) as [t ->].
  destruct t as [[aps ps]|]; eauto with c05.
  match goal with |- okR (match map_all_axes New [] [] ?a with _ => _ end) =>
    destruct (map_all_axes_new a [] []) as [t ->] end.
  destruct t as [[m01 m10]|]; eauto with c05.
  repeat apply andR_ok; auto using cms_eq_new, sizes_eq_new, crs_eq_ok.
Qed.

Theorem top_eq_total : forall o x y,
  match top_eq New o x y with Some (Err _) => False | _ => True end.
Proof.
  intros o x y.
  assert (G : forall r : result bool, okR r -> match Some r with Some (Err _) => False | _ => True end).
  { intros r [b ->]. exact I. }
  destruct x, y; simpl; try (destruct (o_itype o); exact I).
  - unfold cons_eq. destruct (cls_eqb _ _); [apply G, cons_body_eq_new|].
    destruct (negb _); [exact I|]. destruct (_ && _); [apply G, cons_body_eq_new|].
    destruct (_ || _); [exact I|apply G, cons_body_eq_new].
  - apply G, pd_eq_new.
  - unfold field_eq. destruct (negb _); [destruct (o_itype o); exact I|].
    apply G, andR_ok; [apply pd_eq_new|apply constructs_eq_new].
Qed.

(* ====================================================================== *)
(* C. a construct equals a structurally identical one (its copy)           *)
(* ====================================================================== *)
Definition tol_ok (t : Z * Z) : Prop := 0 <= fst t /\ 0 < snd t.
Definition opts_ok (o : opts) : Prop := tol_ok (rt o) /\ tol_ok (at_ o).

Lemma default_tol_ok : tol_ok default_tol.
Proof. unfold tol_ok, default_tol; simpl; lia. Qed.

Lemma close_refl r a x : tol_ok r -> tol_ok a -> close r a x x = true.
Proof.
  destruct r as [nr dr], a as [na da]; unfold tol_ok, close; simpl; intros [? ?] [? ?].
  rewrite Z.sub_diag. simpl. apply Z.leb_le. nia.
Qed.

Lemma forallb2_refl {A} (f : A -> A -> bool) l : (forall x, f x x = true) -> forallb2 f l l = true.
Proof. intro H; induction l; simpl; auto. now rewrite H, IHl. Qed.

Lemma list_eqb_refl {A} (f : A -> A -> bool) l : (forall x, f x x = true) -> list_eqb f l l = true.
Proof. intro H; induction l; simpl; auto. now rewrite H, IHl. Qed.

Lemma option_eqb_refl {A} (f : A -> A -> bool) o : (forall x, f x x = true) -> option_eqb f o o = true.
Proof. intro H; destruct o; simpl; auto. Qed.

Lemma bool_eqb_refl b : Bool.eqb b b = true.
Proof. now destruct b. Qed.

Lemma elem_eq_refl m r a v : tol_ok r -> tol_ok a -> (m = 0 \/ m = 1) -> elem_eq m r a v v = true.
Proof.
  intros Hr Ha Hm. destruct v; simpl; auto.
  destruct Hm as [-> | ->]; simpl; [now apply close_refl|apply Z.eqb_refl].
Qed.

Lemma np_equals_refl idt r a x : tol_ok r -> tol_ok a -> np_equals idt r a x x = true.
Proof.
  intros Hr Ha. unfold np_equals.
  rewrite (list_eqb_refl Z.eqb _ Z.eqb_refl), Z.eqb_refl, (list_eqb_refl Bool.eqb _ bool_eqb_refl).
  simpl. rewrite andb_false_r. simpl.
  apply forallb2_refl. intro v. apply elem_eq_refl; auto. destruct (a_str x); auto.
Qed.

Lemma pval_eq_refl r a v : tol_ok r -> tol_ok a -> pval_eq r a v v = true.
Proof. intros; destruct v; simpl; [apply String.eqb_refl|now apply np_equals_refl]. Qed.

Lemma mem_in s l : mem s l = true <-> In s l.
Proof.
  unfold mem. rewrite existsb_exists. split.
  - intros [x [H E]]. apply String.eqb_eq in E. now subst.
  - intro H. exists s. split; auto. apply String.eqb_refl.
Qed.

Lemma same_keys_refl {A} (p : list (string * A)) : same_keys p p = true.
Proof.
  unfold same_keys. assert (H : forallb (fun k => mem k (keys p)) (keys p) = true).
  { apply forallb_forall. intros k Hk. now apply mem_in. }
  now rewrite H.
Qed.

Lemma assoc_nodup {A} (p : list (string * A)) k v :
  NoDup (keys p) -> In (k, v) p -> assoc k p = Some v.
Proof.
  induction p as [|[k' v'] r IH]; simpl; intros N I; [contradiction|].
  inversion N; subst. destruct I as [E|I].
  - inversion E; subst. now rewrite String.eqb_refl.
  - destruct (String.eqb k k') eqn:E.
    + apply String.eqb_eq in E; subst. exfalso. apply H1. unfold keys. change k' with (fst (k', v)).
      now apply in_map.
    + now apply IH.
Qed.

Lemma dict_eq_refl {A} (veq : A -> A -> bool) p :
  NoDup (keys p) -> (forall v, veq v v = true) -> dict_eq veq p p = true.
Proof.
  intros N H. unfold dict_eq. rewrite same_keys_refl. simpl.
  apply forallb_forall. intros [k v] I. simpl. rewrite (assoc_nodup p k v N I). apply H.
Qed.

Lemma strip_nodup {A} ign (p : list (string * A)) : NoDup (keys p) -> NoDup (keys (strip ign p)).
Proof.
  unfold strip, keys. induction p as [|[k v] r IH]; simpl; intro N; [constructor|].
  inversion N; subst. destruct (negb (mem k ign)); simpl; auto.
  constructor; auto. intro I. apply H1. apply in_map_iff in I. destruct I as [[k' v'] [E I]].
  simpl in E; subst. apply filter_In in I. destruct I as [I _]. change k with (fst (k, v')).
  now apply in_map.
Qed.

Lemma data_eq_refl r a idt ifv icomp d : tol_ok r -> tol_ok a -> data_eq r a idt ifv icomp d d = true.
Proof.
  intros Hr Ha. unfold data_eq.
  rewrite (list_eqb_refl Z.eqb _ Z.eqb_refl), (option_eqb_refl Z.eqb _ Z.eqb_refl), Z.eqb_refl,
    !(option_eqb_refl String.eqb _ String.eqb_refl), String.eqb_refl, !np_equals_refl; auto.
  now rewrite !orb_true_r.
Qed.

Definition wf_pd (p : pd) : Prop := NoDup (keys (p_props p)).
Definition wf_opd (p : option pd) : Prop := match p with Some q => wf_pd q | None => True end.
Definition wf_cons (c : cons) : Prop := wf_pd (c_pd c) /\ wf_opd (c_bounds c) /\ wf_opd (c_iring c).

Lemma pd_eq_refl o ip p : opts_ok o -> wf_pd p -> pd_eq New o ip p p = Ok true.
Proof.
  intros [Hr Ha] W. unfold pd_eq. rewrite bool_eqb_refl. simpl.
  destruct (p_ext p).
  - now rewrite (option_eqb_refl String.eqb _ String.eqb_refl).
  - destruct (ign_list_new (o_ifv o) ip) as [ign ->]. simpl. f_equal.
    unfold props_eq. rewrite dict_eq_refl; auto using strip_nodup, pval_eq_refl.
    simpl. destruct (p_data p); simpl; auto. now apply data_eq_refl.
Qed.

Lemma opt_pd_eq_refl o p : opts_ok o -> wf_opd p -> opt_pd_eq New o p p = Ok true.
Proof. intros; destruct p; simpl; auto. now apply pd_eq_refl. Qed.

Lemma bounds_eq_refl o x : opts_ok o -> wf_opd (c_bounds x) -> bounds_eq New o x x = Ok true.
Proof. intros Ho W. unfold bounds_eq. destruct (c_bounds x); auto. now apply pd_eq_refl. Qed.

Theorem cons_copy_equal : forall o x, opts_ok o -> wf_cons x -> cons_eq New o x x = Some (Ok true).
Proof.
  intros o x Ho (W1 & W2 & W3). unfold cons_eq.
  assert (E : cls_eqb (c_cls x) (c_cls x) = true) by (destruct (c_cls x); reflexivity).
  rewrite E. f_equal. unfold cons_body_eq.
  rewrite pd_eq_refl, bounds_eq_refl, !opt_pd_eq_refl, !(option_eqb_refl String.eqb _ String.eqb_refl); auto.
Qed.

Lemma cm_eq_refl o c : opts_ok o -> NoDup (keys (m_quals c)) -> cm_eq o c c = true.
Proof.
  intros [Hr Ha] N. unfold cm_eq.
  rewrite (option_eqb_refl String.eqb _ String.eqb_refl), dict_eq_refl; auto using String.eqb_refl.
  simpl. assert (F : forallb2 (data_eq (rt o) (at_ o) true true true) (m_intervals c) (m_intervals c) = true).
  { apply forallb2_refl. intro d. now apply data_eq_refl. }
  destruct (m_intervals c) eqn:E; auto.
  rewrite Nat.eqb_refl. exact F.
Qed.

Lemma opval_eq_refl r a v : tol_ok r -> tol_ok a -> opval_eq r a v v = true.
Proof. intros; destruct v; simpl; auto using pval_eq_refl. Qed.

Lemma cref_eq_refl o c : opts_ok o ->
  NoDup (keys (r_cparams c)) -> NoDup (keys (r_cdas c)) -> NoDup (keys (r_dparams c)) -> cref_eq o c c = true.
Proof.
  intros [Hr Ha] N1 N2 N3. unfold cref_eq.
  rewrite Nat.eqb_refl, !dict_eq_refl; auto using opval_eq_refl, bool_eqb_refl.
Qed.

(* ====================================================================== *)
(* E. equal implies every component agrees (discrimination)                *)
(* ====================================================================== *)
Lemma list_eqb_Z_eq l1 l2 : list_eqb Z.eqb l1 l2 = true -> l1 = l2.
Proof. apply list_eqb_eq. intros; apply Z.eqb_eq. Qed.
Lemma list_eqb_bool_eq l1 l2 : list_eqb Bool.eqb l1 l2 = true -> l1 = l2.
Proof. apply list_eqb_eq. intros x y; split; [apply eqb_prop|intros ->; apply bool_eqb_refl]. Qed.
Lemma option_eqb_string_eq a b : option_eqb String.eqb a b = true -> a = b.
Proof. destruct a, b; simpl; try discriminate; auto. intro E. apply String.eqb_eq in E. now subst. Qed.
Lemma option_eqb_Z_eq a b : option_eqb Z.eqb a b = true -> a = b.
Proof. destruct a, b; simpl; try discriminate; auto. intro E. apply Z.eqb_eq in E. now subst. Qed.

Lemma np_equals_inv idt r a x y : np_equals idt r a x y = true ->
  a_shape x = a_shape y /\ mask_of x = mask_of y /\
  (idt = false -> a_str x = false -> a_str y = false -> a_tag x = a_tag y) /\
  forallb2 (elem_eq (if a_str x then (if a_str y then 1 else 2) else (if a_str y then 2 else 0)) r a)
           (a_vals x) (a_vals y) = true.
Proof.
  unfold np_equals.
  destruct (list_eqb Z.eqb (a_shape x) (a_shape y)) eqn:E1; simpl; [|discriminate].
  destruct (negb idt && negb (a_tag x =? a_tag y) && negb (a_str x) && negb (a_str y)) eqn:E2; [discriminate|].
  destruct (list_eqb Bool.eqb (mask_of x) (mask_of y)) eqn:E3; simpl; [|discriminate].
  intro H. splits; auto using list_eqb_Z_eq, list_eqb_bool_eq.
  intros -> S1 S2. rewrite S1, S2 in E2. simpl in E2. rewrite !andb_true_r in E2.
  apply negb_false_iff in E2. now apply Z.eqb_eq.
Qed.

Theorem data_equal_components : forall r a idt ifv icomp x y,
  data_eq r a idt ifv icomp x y = true ->
  a_shape (d_arr x) = a_shape (d_arr y) /\
  mask_of (d_arr x) = mask_of (d_arr y) /\
  d_units x = d_units y /\ d_cal x = d_cal y /\
  (ifv = false -> d_fill x = d_fill y) /\
  (idt = false -> a_tag (d_arr x) = a_tag (d_arr y) \/ (a_str (d_arr x) = true /\ a_str (d_arr y) = true)) /\
  (icomp = false -> d_ctype x = d_ctype y) /\
  forallb2 (elem_eq (if a_str (d_arr x) then (if a_str (d_arr y) then 1 else 2)
                     else (if a_str (d_arr y) then 2 else 0)) r a)
           (a_vals (d_arr x)) (a_vals (d_arr y)) = true.
Proof.
  intros r a idt ifv icomp x y H. unfold data_eq in H.
  repeat (apply andb_true_iff in H; destruct H as [H ?]).
  match goal with N : np_equals idt r a _ _ = true |- _ => apply np_equals_inv in N;
    destruct N as (N1 & N2 & _ & N4) end.
  splits; auto using option_eqb_string_eq.
  - intros ->. simpl in *. now apply option_eqb_Z_eq.
  - intros ->. simpl in *.
    match goal with C : (Z.eqb _ _) || _ = true |- _ => apply orb_true_iff in C; destruct C as [C'|C'] end;
      [left; now apply Z.eqb_eq|right; now apply andb_true_iff in C'].
  - intros ->. simpl in *. match goal with C : _ && _ = true |- _ => apply andb_true_iff in C; destruct C as [C _];
      now apply String.eqb_eq in C end.
Qed.

Lemma andR_true a k : andR a k = Ok true -> a = Ok true /\ k = Ok true.
Proof. destruct a as [[|]|e]; simpl; intro H; try discriminate; auto. Qed.

Lemma dict_eq_inv {A} (veq : A -> A -> bool) p q : dict_eq veq p q = true ->
  (forall k, In k (keys p) <-> In k (keys q)) /\
  (forall k v, In (k, v) p -> exists w, assoc k q = Some w /\ veq v w = true).
Proof.
  unfold dict_eq, same_keys. intro H.
  apply andb_true_iff in H. destruct H as [H1 H2]. apply andb_true_iff in H1. destruct H1 as [H0 H1].
  rewrite forallb_forall in H0, H1, H2. split.
  - intro k; split; intro I; apply mem_in; auto.
  - intros k v I. specialize (H2 _ I). simpl in H2. destruct (assoc k q); [eauto|discriminate].
Qed.

(* the part of a construct that PropertiesData.equals looks at *)
Theorem pd_equal_components : forall o ip x y, pd_eq New o ip x y = Ok true ->
  p_ext x = p_ext y /\
  (p_ext x = true -> p_ncvar x = p_ncvar y) /\
  (p_ext x = false ->
     exists ign, ign_list New (o_ifv o) ip = Ok ign /\
       (forall k, In k (keys (strip ign (p_props x))) <-> In k (keys (strip ign (p_props y)))) /\
       (forall k v, In (k, v) (strip ign (p_props x)) ->
          exists w, assoc k (strip ign (p_props y)) = Some w /\ pval_eq (rt o) (at_ o) v w = true) /\
       opt_data_eq (rt o) (at_ o) (o_idt o) (o_ifv o) (o_icomp o) (p_data x) (p_data y) = true).
Proof.
  intros o ip x y. unfold pd_eq.
  destruct (Bool.eqb (p_ext x) (p_ext y)) eqn:E; simpl; [|discriminate].
  apply eqb_prop in E. destruct (p_ext x) eqn:X.
  - intro H. injection H as H'. split; [exact E|split].
    + intros _. now apply option_eqb_string_eq.
    + discriminate.
  - destruct (ign_list_new (o_ifv o) ip) as [ign ->]. simpl. intro H. injection H as H'.
    apply andb_true_iff in H'. destruct H' as [P D]. unfold props_eq in P.
    apply dict_eq_inv in P. destruct P as [P1 P2].
    split; [exact E|split]; [discriminate|]. intros _. exists ign. splits; auto.
Qed.

Theorem cons_equal_components : forall o x y, cons_body_eq New o x y = Ok true ->
  pd_eq New o (o_ip o) (c_pd x) (c_pd y) = Ok true /\
  c_geom x = c_geom y /\ c_meas x = c_meas y /\
  bounds_eq New o x y = Ok true /\
  opt_pd_eq New o (c_iring x) (c_iring y) = Ok true /\
  is_none (c_bounds x) = is_none (c_bounds y) /\ is_none (c_iring x) = is_none (c_iring y).
Proof.
  intros o x y H. unfold cons_body_eq in H.
  apply andR_true in H. destruct H as [H1 H]. apply andR_true in H. destruct H as [H2 H].
  apply andR_true in H. destruct H as [H3 H]. apply andR_true in H. destruct H as [H4 H5].
  injection H2 as H2. injection H5 as H5. splits; auto using option_eqb_string_eq.
  - unfold bounds_eq in H3. destruct (c_bounds x), (c_bounds y); simpl in *; auto; discriminate.
  - destruct (c_iring x), (c_iring y); simpl in *; auto; discriminate.
Qed.

(* each ignore option removes exactly the class of difference it names *)
Definition no_fill (d : data) : data := mkD (d_arr d) None (d_units d) (d_cal d) (d_ctype d) (d_carr d).
Definition no_comp (d : data) : data := mkD (d_arr d) (d_fill d) (d_units d) (d_cal d) EmptyString (d_carr d).
Definition no_tag (d : data) : data :=
  mkD (mkA (a_shape (d_arr d)) (a_str (d_arr d)) 0 (a_vals (d_arr d))) (d_fill d) (d_units d) (d_cal d)
      (d_ctype d) (d_carr d).

Theorem ignore_fill_value_exact : forall r a idt icomp x y,
  data_eq r a idt true icomp x y = data_eq r a idt false icomp (no_fill x) (no_fill y).
Proof. intros. unfold data_eq, no_fill; simpl. reflexivity. Qed.

Theorem ignore_compression_exact : forall r a idt ifv x y,
  data_eq r a idt ifv true x y = data_eq r a idt ifv false (no_comp x) (no_comp y).
Proof. intros. unfold data_eq, no_comp; simpl. reflexivity. Qed.

Theorem ignore_data_type_exact : forall r a ifv icomp x y,
  data_eq r a true ifv icomp x y = data_eq r a false ifv icomp (no_tag x) (no_tag y).
Proof. intros. unfold data_eq, no_tag, np_equals, mask_of; simpl. reflexivity. Qed.

Lemma strip_app {A} l1 l2 (p : list (string * A)) : strip (l1 ++ l2) p = strip l1 (strip l2 p).
Proof.
  unfold strip. induction p as [|[k v] r IH]; simpl; auto.
  unfold mem in *. rewrite existsb_app. destruct (existsb (String.eqb k) l2) eqn:E2; simpl.
  - rewrite orb_true_r. simpl. exact IH.
  - rewrite orb_false_r. destruct (existsb (String.eqb k) l1); simpl; now rewrite IH.
Qed.

(* ignore_properties / ignore_fill_value act on the property lists by removing the named
   properties from both sides and on nothing else *)
Theorem ignore_properties_exact : forall r a ign p q,
  props_eq r a ign p q = props_eq r a [] (strip ign p) (strip ign q).
Proof.
  intros. unfold props_eq. f_equal; unfold strip; simpl;
  match goal with |- _ = filter _ ?l => induction l as [|kv l' IH]; simpl; auto; now rewrite <- IH end.
Qed.

(* ====================================================================== *)
(* F. the axis mapping is one-to-one and covers the field's data axes      *)
(* ====================================================================== *)
Lemma assoc_app {A} k (l l' : list (string * A)) :
  assoc k (l ++ l') = match assoc k l with Some v => Some v | None => assoc k l' end.
Proof. induction l as [|[k' v'] r IH]; simpl; auto. destruct (String.eqb k k'); auto. Qed.

Lemma mem_keys_assoc {A} k (l : list (string * A)) :
  mem k (keys l) = match assoc k l with Some _ => true | None => false end.
Proof.
  induction l as [|[k' v'] r IH]; simpl; auto. unfold mem in *; simpl.
  destruct (String.eqb k k'); auto.
Qed.

Lemma extend_assoc (m : amap) a b :
  (match assoc a m with Some b' => negb (String.eqb b b') | None => false end) = false ->
  let m' := if mem a (keys m) then m else m ++ [(a, b)] in
  assoc a m' = Some b /\ (forall k v, assoc k m = Some v -> assoc k m' = Some v).
Proof.
  intro H. rewrite mem_keys_assoc. destruct (assoc a m) as [b'|] eqn:E; simpl.
  - apply negb_false_iff, String.eqb_eq in H. subst. auto.
  - split.
    + rewrite assoc_app, E. simpl. now rewrite String.eqb_refl.
    + intros k v K. now rewrite assoc_app, K.
Qed.

Lemma map_axes_sound z : forall m01 m10 m01' m10',
  map_axes New m01 m10 z = Ok (Some (m01', m10')) ->
  (forall k v, assoc k m01 = Some v -> assoc k m01' = Some v) /\
  (forall k v, assoc k m10 = Some v -> assoc k m10' = Some v) /\
  (forall a b, In (a, b) z -> assoc a m01' = Some b /\ assoc b m10' = Some a).
Proof.
  induction z as [|[a0 a1] r IH]; intros m01 m10 m01' m10'; simpl.
  - intro H; inversion H; subst. splits; auto. intros ? ? [].
  - destruct (match assoc a0 m01 with Some b => negb (String.eqb a1 b) | None => false end) eqn:E1; [discriminate|].
    destruct (match assoc a1 m10 with Some b0 => negb (String.eqb a0 b0) | None => false end) eqn:E2; [discriminate|].
    intro H. apply IH in H. destruct H as (P1 & P2 & P3).
    destruct (extend_assoc m01 a0 a1 E1) as [X1 X2]. destruct (extend_assoc m10 a1 a0 E2) as [Y1 Y2].
    splits; auto.
    intros a b [I|I]; [inversion I; subst; auto|now apply P3].
Qed.

Lemma map_all_axes_sound aps : forall m01 m10 m01' m10',
  map_all_axes New m01 m10 aps = Ok (Some (m01', m10')) ->
  (forall k v, assoc k m01 = Some v -> assoc k m01' = Some v) /\
  (forall k v, assoc k m10 = Some v -> assoc k m10' = Some v) /\
  (forall ax0 ax1 a b, In (ax0, ax1) aps -> In (a, b) (zip ax0 ax1) ->
     assoc a m01' = Some b /\ assoc b m10' = Some a).
Proof.
  induction aps as [|[ax0 ax1] r IH]; intros m01 m10 m01' m10'; simpl.
  - intro H; inversion H; subst. splits; auto. intros ? ? ? ? [].
  - destruct (map_axes New m01 m10 (zip ax0 ax1)) as [[[n01 n10]|]|e] eqn:E; try discriminate.
    intro H. apply map_axes_sound in E. destruct E as (Q1 & Q2 & Q3).
    apply IH in H. destruct H as (P1 & P2 & P3). splits; auto.
    intros bx0 bx1 a b [I|I] J; [inversion I; subst|eauto].
    destruct (Q3 _ _ J). auto.
Qed.

(* what Constructs.equals has established when it answers True *)
Theorem axis_map_sound : forall o x y, constructs_eq New o x y = Ok true ->
  exists aps ps m01 m10,
    match_groups New (nested o) (f_cons y) (groups (f_cons x)) (groups (f_cons y)) = Ok (Some (aps, ps)) /\
    (forall ax0 ax1 a b,
       (In (ax0, ax1) aps \/ (f_daxes x = Some ax0 /\ f_daxes y = Some ax1)) ->
       In (a, b) (zip ax0 ax1) -> assoc a m01 = Some b /\ assoc b m10 = Some a).
Proof.
  intros o x y H. unfold constructs_eq in H. apply andR_true in H. destruct H as [_ H].
  destruct (negb _); [discriminate|].
  destruct (match_groups New (nested o) (f_cons y) (groups (f_cons x)) (groups (f_cons y))) as [[[aps ps]|]|e] eqn:G;
    try discriminate.
  simpl in H.
  match type of H with match map_all_axes New [] [] ?a with _ => _ end = _ =>
    destruct (map_all_axes New [] [] a) as [[[m01 m10]|]|e] eqn:M; try discriminate end.
  exists aps, ps, m01, m10. split; auto.
  apply map_all_axes_sound in M. destruct M as (_ & _ & M).
  intros ax0 ax1 a b [I|[D0 D1]] J.
  - apply (M ax0 ax1); auto.
    destruct (f_daxes x), (f_daxes y); auto; apply in_or_app; auto.
  - rewrite D0, D1 in M. apply (M ax0 ax1); auto. apply in_or_app. right. left. reflexivity.
Qed.

(* hence the data axes correspond one to one *)
Corollary data_axes_one_to_one : forall o x y d0 d1, constructs_eq New o x y = Ok true ->
  f_daxes x = Some d0 -> f_daxes y = Some d1 ->
  forall a b a' b', In (a, b) (zip d0 d1) -> In (a', b') (zip d0 d1) -> (a = a' <-> b = b').
Proof.
  intros o x y d0 d1 H D0 D1 a b a' b' I I'.
  destruct (axis_map_sound o x y H) as (aps & ps & m01 & m10 & _ & S).
  destruct (S d0 d1 a b (or_intror (conj D0 D1)) I) as [A1 A2].
  destruct (S d0 d1 a' b' (or_intror (conj D0 D1)) I') as [B1 B2].
  split; intros ->; congruence.
Qed.

(* ====================================================================== *)
(* D. symmetry when no numerical tolerance is in play (rtol = atol = 0)    *)
(* ====================================================================== *)
Definition tol_zero (t : Z * Z) : Prop := fst t = 0 /\ 0 < snd t.
Definition exact (o : opts) : Prop := tol_zero (rt o) /\ tol_zero (at_ o).

Lemma close_exact r a x y : tol_zero r -> tol_zero a -> close r a x y = (x =? y).
Proof.
  destruct r as [nr dr], a as [na da]; unfold tol_zero, close; simpl; intros [-> ?] [-> ?].
  destruct (Z.eqb_spec x y) as [->|N].
  - rewrite Z.sub_diag. simpl. apply Z.leb_le. lia.
  - apply Z.leb_gt. assert (0 < Z.abs (x - y)) by lia. nia.
Qed.

Lemma list_eqb_sym {A} (f : A -> A -> bool) : (forall x y, f x y = f y x) ->
  forall l1 l2, list_eqb f l1 l2 = list_eqb f l2 l1.
Proof. intros H l1; induction l1; intros [|y r]; simpl; auto. now rewrite H, IHl1. Qed.

Lemma forallb2_sym {A} (f : A -> A -> bool) : (forall x y, f x y = f y x) ->
  forall l1 l2, forallb2 f l1 l2 = forallb2 f l2 l1.
Proof. intros H l1; induction l1; intros [|y r]; simpl; auto. now rewrite H, IHl1. Qed.

Lemma option_eqb_sym {A} (f : A -> A -> bool) : (forall x y, f x y = f y x) ->
  forall a b, option_eqb f a b = option_eqb f b a.
Proof. intros H [x|] [y|]; simpl; auto. Qed.

Lemma bool_eqb_sym a b : Bool.eqb a b = Bool.eqb b a.
Proof. now destruct a, b. Qed.

Lemma np_equals_sym idt r a x y : tol_zero r -> tol_zero a ->
  np_equals idt r a x y = np_equals idt r a y x.
Proof.
  intros Hr Ha. unfold np_equals.
  rewrite (list_eqb_sym Z.eqb Z.eqb_sym (a_shape x) (a_shape y)), (Z.eqb_sym (a_tag x) (a_tag y)),
    (list_eqb_sym Bool.eqb bool_eqb_sym (mask_of x) (mask_of y)).
  destruct (list_eqb Z.eqb (a_shape y) (a_shape x)); simpl; auto.
  replace (negb idt && negb (a_tag y =? a_tag x) && negb (a_str x) && negb (a_str y))
    with (negb idt && negb (a_tag y =? a_tag x) && negb (a_str y) && negb (a_str x))
    by (destruct idt, (a_tag y =? a_tag x), (a_str x), (a_str y); reflexivity).
  destruct (negb idt && negb (a_tag y =? a_tag x) && negb (a_str y) && negb (a_str x)); auto.
  destruct (list_eqb Bool.eqb (mask_of y) (mask_of x)); simpl; auto.
  replace (if a_str y then if a_str x then 1 else 2 else if a_str x then 2 else 0)
    with (if a_str x then if a_str y then 1 else 2 else if a_str y then 2 else 0)
    by (destruct (a_str x), (a_str y); reflexivity).
  apply forallb2_sym. intros [u|] [w|]; simpl; auto.
  rewrite !close_exact by assumption. rewrite (Z.eqb_sym u w). reflexivity.
Qed.

Lemma pval_eq_sym r a u w : tol_zero r -> tol_zero a -> pval_eq r a u w = pval_eq r a w u.
Proof. intros; destruct u, w; simpl; auto using String.eqb_sym, np_equals_sym. Qed.

Lemma same_keys_sym {A B} (p : list (string * A)) (q : list (string * B)) : same_keys p q = same_keys q p.
Proof. unfold same_keys. apply andb_comm. Qed.

Lemma in_keys {A} k (p : list (string * A)) : In k (keys p) -> exists v, In (k, v) p.
Proof.
  unfold keys. intro I. apply in_map_iff in I. destruct I as [[k' v] [E I]]. simpl in E; subst. eauto.
Qed.

Lemma dict_eq_sym_imp {A} (veq : A -> A -> bool) p q :
  (forall u w, veq u w = veq w u) -> NoDup (keys p) -> NoDup (keys q) ->
  dict_eq veq p q = true -> dict_eq veq q p = true.
Proof.
  intros S Np Nq H. pose proof H as H0. apply dict_eq_inv in H0. destruct H0 as [K V].
  unfold dict_eq in *. apply andb_true_iff in H. destruct H as [SK _].
  rewrite same_keys_sym, SK. simpl. apply forallb_forall. intros [k w] I. simpl.
  assert (Ik : In k (keys q)). { unfold keys. change k with (fst (k, w)). now apply in_map. }
  apply K in Ik. apply in_keys in Ik. destruct Ik as [v Iv].
  rewrite (assoc_nodup p k v Np Iv).
  destruct (V k v Iv) as [w' [Aq E]]. rewrite (assoc_nodup q k w Nq I) in Aq. inversion Aq; subst.
  now rewrite S.
Qed.

Lemma dict_eq_sym {A} (veq : A -> A -> bool) p q :
  (forall u w, veq u w = veq w u) -> NoDup (keys p) -> NoDup (keys q) ->
  dict_eq veq p q = dict_eq veq q p.
Proof.
  intros S Np Nq. destruct (dict_eq veq p q) eqn:E1, (dict_eq veq q p) eqn:E2; auto.
  - rewrite (dict_eq_sym_imp veq p q S Np Nq E1) in E2. discriminate.
  - rewrite (dict_eq_sym_imp veq q p S Nq Np E2) in E1. discriminate.
Qed.

Lemma data_eq_sym r a idt ifv icomp x y : tol_zero r -> tol_zero a ->
  data_eq r a idt ifv icomp x y = data_eq r a idt ifv icomp y x.
Proof.
  intros Hr Ha. unfold data_eq.
  rewrite (list_eqb_sym Z.eqb Z.eqb_sym (a_shape (d_arr x))), (option_eqb_sym Z.eqb Z.eqb_sym (d_fill x)),
    (Z.eqb_sym (a_tag (d_arr x))), (option_eqb_sym String.eqb String.eqb_sym (d_units x)),
    (option_eqb_sym String.eqb String.eqb_sym (d_cal x)), (String.eqb_sym (d_ctype x)),
    (np_equals_sym false r a (d_carr x)), (np_equals_sym idt r a (d_arr x)),
    (andb_comm (a_str (d_arr x))) by assumption.
  destruct (String.eqb (d_ctype y) (d_ctype x)) eqn:E; auto.
  apply String.eqb_eq in E. now rewrite E.
Qed.

Lemma opt_data_eq_sym r a idt ifv icomp x y : tol_zero r -> tol_zero a ->
  opt_data_eq r a idt ifv icomp x y = opt_data_eq r a idt ifv icomp y x.
Proof. intros; destruct x, y; simpl; auto using data_eq_sym. Qed.

Lemma pd_eq_sym o ip x y : exact o -> wf_pd x -> wf_pd y -> pd_eq New o ip x y = pd_eq New o ip y x.
Proof.
  intros [Hr Ha] Wx Wy. unfold pd_eq. rewrite (bool_eqb_sym (p_ext x) (p_ext y)).
  destruct (Bool.eqb (p_ext y) (p_ext x)) eqn:E; simpl; auto.
  apply eqb_prop in E. rewrite E. destruct (p_ext x).
  - now rewrite (option_eqb_sym String.eqb String.eqb_sym).
  - destruct (ign_list_new (o_ifv o) ip) as [ign ->]. simpl. f_equal. unfold props_eq.
    rewrite (dict_eq_sym (pval_eq (rt o) (at_ o)) (strip ign (p_props x)) (strip ign (p_props y)));
      auto using strip_nodup, pval_eq_sym.
    now rewrite (opt_data_eq_sym _ _ _ _ _ (p_data x)).
Qed.

Lemma opt_pd_eq_sym o x y : exact o -> wf_opd x -> wf_opd y -> opt_pd_eq New o x y = opt_pd_eq New o y x.
Proof. intros; destruct x, y; simpl; auto using pd_eq_sym. Qed.

Lemma redundant_sym px bx py by_ : redundant px bx py by_ = redundant py by_ px bx.
Proof.
  unfold redundant. apply filter_ext. intro p.
  rewrite (orb_comm (mem p (keys bx))), (andb_comm (redundant_on px bx p)). reflexivity.
Qed.

Lemma bounds_eq_sym o x y : exact o -> wf_opd (c_bounds x) -> wf_opd (c_bounds y) ->
  bounds_eq New o x y = bounds_eq New o y x.
Proof.
  intros He Wx Wy. unfold bounds_eq. destruct (c_bounds x), (c_bounds y); auto.
  cbn [fixR New]. rewrite redundant_sym. now apply pd_eq_sym.
Qed.

Lemma andR_congr a a' k k' : a = a' -> k = k' -> andR a k = andR a' k'.
Proof. now intros -> ->. Qed.

(* same class, or ignore_type=False, or two coordinate-like classes (whose conversion keeps
   every component) *)
Definition sym_scope (o : opts) (x y : cons) : Prop :=
  cls_eqb (c_cls x) (c_cls y) || negb (o_itype o) || (bounded (c_cls x) && bounded (c_cls y)) = true.

Theorem cons_sym_exact : forall o x y, exact o -> wf_cons x -> wf_cons y -> sym_scope o x y ->
  cons_eq New o x y = cons_eq New o y x.
Proof.
  intros o x y He (X1 & X2 & X3) (Y1 & Y2 & Y3) Sc.
  assert (B : cons_body_eq New o x y = cons_body_eq New o y x).
  { unfold cons_body_eq. repeat apply andR_congr; auto using pd_eq_sym, opt_pd_eq_sym, bounds_eq_sym;
      f_equal; apply option_eqb_sym, String.eqb_sym. }
  unfold cons_eq.
  assert (C : cls_eqb (c_cls x) (c_cls y) = cls_eqb (c_cls y) (c_cls x))
    by (destruct (c_cls x), (c_cls y); reflexivity).
  unfold sym_scope in Sc. rewrite C in Sc. rewrite C, B, (andb_comm (bounded (c_cls x))).
  rewrite (andb_comm (bounded (c_cls x))) in Sc.
  destruct (cls_eqb (c_cls y) (c_cls x)); auto. destruct (negb (o_itype o)); auto.
  destruct (bounded (c_cls y) && bounded (c_cls x)); auto. discriminate.
Qed.

(* ignore_type across classes: the answer is that of comparing, within the class of self, with
   the converted operand; without ignore_type two constructs of different classes are unequal *)
Theorem cross_class_semantics : forall o x y,
  cls_eqb (c_cls x) (c_cls y) = false -> p_ext (c_pd x) = false -> p_ext (c_pd y) = false ->
  bounded (c_cls x) && bounded (c_cls y) = false ->
  (o_itype o = false -> cons_eq New o x y = Some (Ok false)) /\
  (o_itype o = true -> cons_eq New o x y = cons_eq New o x (convert (c_cls x) y) /\
                       c_cls (convert (c_cls x) y) = c_cls x).
Proof.
  intros o x y D Ex Ey Bd. unfold cons_eq at 1 2. rewrite D, Bd, Ex, Ey. cbn [orb].
  split; intros E; rewrite E; cbn [negb]; auto. split; auto.
  unfold cons_eq. cbn [c_cls convert]. destruct (c_cls x); reflexivity.
Qed.


Theorem data_sym_exact : forall o x y, exact o ->
  top_eq New o (TData x) (TData y) = top_eq New o (TData y) (TData x).
Proof. intros o x y [Hr Ha]. simpl. now rewrite data_eq_sym. Qed.

(* ====================================================================== *)
(* G. a whole field / domain equals a structurally identical one (its copy) *)
(* ====================================================================== *)
Local Arguments match_types v o other !tys i0 i1.

Definition dup {A} (x : A) : A * A := (x, x).
Definition diag {A} (p : A * A) : Prop := fst p = snd p.

Lemma greedyR_self {A} (eq : A -> A -> result bool) xs :
  Forall (fun x => eq x x = Ok true) xs -> greedyR eq xs xs = Ok (Some (map dup xs)).
Proof.
  induction 1 as [|x r H _ IH]; simpl; auto. rewrite H. simpl. rewrite IH. reflexivity.
Qed.

(* a cell method names no axis twice; qualifier / parameter names are unique (dictionaries) *)
Definition wf_cm (c : cmeth) : Prop := NoDup (keys (m_quals c)) /\ NoDup (m_axes c).
Definition wf_cr (c : cref) : Prop :=
  NoDup (keys (r_cparams c)) /\ NoDup (keys (r_cdas c)) /\ NoDup (keys (r_dparams c)).
Definition wf_field (f : field) : Prop :=
  NoDup (keys (f_props f)) /\
  Forall (fun kc : kcons => wf_cons (snd (snd kc))) (f_cons f) /\
  Forall (fun kc : string * cmeth => wf_cm (snd kc)) (f_cms f) /\
  Forall (fun kr : string * cref => wf_cr (snd kr)) (f_crs f).

Lemma cons_body_eq_refl o x : opts_ok o -> wf_cons x -> cons_body_eq New o x x = Ok true.
Proof.
  intros Ho (W1 & W2 & W3). unfold cons_body_eq.
  rewrite pd_eq_refl, bounds_eq_refl, !opt_pd_eq_refl, !(option_eqb_refl String.eqb _ String.eqb_refl); auto.
Qed.

Lemma nested_ok o : opts_ok o -> opts_ok (nested o).
Proof. intros [H1 H2]. split; assumption. Qed.

Definition items_ok (P : cons -> Prop) (items : list (string * cons)) : Prop :=
  Forall (fun kc => P (snd kc)) items.

Lemma add_group_ok (P : cons -> Prop) k ax c gs : P c ->
  Forall (fun g : group => items_ok P (snd g)) gs ->
  Forall (fun g : group => items_ok P (snd g)) (add_group k ax c gs).
Proof.
  intros Hc. induction 1 as [|[ax' items] r Hg Hr IH]; simpl.
  - repeat constructor; auto.
  - destruct (axes_eqb ax ax').
    + constructor; [|assumption]. unfold items_ok in *. simpl in *.
      apply Forall_app; split; [assumption|]. constructor; [exact Hc|constructor].
    + constructor; assumption.
Qed.

Lemma groups_ok (P : cons -> Prop) cs : Forall (fun kc : kcons => P (snd (snd kc))) cs ->
  Forall (fun g : group => items_ok P (snd g)) (groups cs).
Proof.
  unfold groups. generalize (@nil group) (Forall_nil (fun g : group => items_ok P (snd g))).
  induction cs as [|kc r IH]; intros gs Hgs H; simpl; auto.
  inversion H; subst. apply IH; auto. apply add_group_ok; auto.
Qed.

Lemma match_types_self o other tys i : opts_ok o -> items_ok wf_cons i ->
  exists ps, match_types New o other tys i i = Ok (Some ps) /\ Forall diag ps.
Proof.
  intros Ho W. induction tys as [|t rest IH]; simpl.
  - exists []. auto.
  - rewrite Nat.eqb_refl. simpl.
    rewrite (greedyR_self (fun a b : string * cons => cons_body_eq New o (snd a) (snd b)) (role t i)).
    + destruct IH as [qs [-> D]]. eexists; split; [reflexivity|].
      apply Forall_app; split; auto.
      apply Forall_forall. intros p Hp. apply in_map_iff in Hp. destruct Hp as [ab [<- Hab]].
      apply in_map_iff in Hab. destruct Hab as [z [<- _]]. reflexivity.
    + unfold role. apply Forall_forall. intros kc Hkc. apply filter_In in Hkc. destruct Hkc as [Hkc _].
      unfold items_ok in W. rewrite Forall_forall in W. apply cons_body_eq_refl; auto.
Qed.

Lemma find_group_self o other (g : group) (r : list group) : opts_ok o -> items_ok wf_cons (snd g) ->
  exists ps, find_group New o other g (g :: r) = Ok (Some (g, r, ps)) /\ Forall diag ps.
Proof.
  intros Ho W. destruct (match_types_self o other type_order (snd g) Ho W) as [ps [E D]].
  exists ps. split; auto. cbn [find_group]. rewrite Nat.eqb_refl. cbn [negb]. rewrite E. reflexivity.
Qed.

Lemma match_groups_self o other gs : opts_ok o ->
  Forall (fun g : group => items_ok wf_cons (snd g)) gs ->
  exists ps, match_groups New o other gs gs = Ok (Some (map (fun g => dup (fst g)) gs, ps)) /\ Forall diag ps.
Proof.
  intros Ho. induction 1 as [|g r W _ IH]; cbn [match_groups].
  - exists []. auto.
  - destruct (find_group_self o other g r Ho W) as [ps [E0 D]].
    destruct IH as [qs [E D']]. exists (ps ++ qs). split; [|apply Forall_app; auto].
    rewrite E0. cbv iota beta. rewrite E. reflexivity.
Qed.

Lemma assoc_diag (m : amap) a b : Forall diag m -> assoc a m = Some b -> b = a.
Proof.
  induction 1 as [|[k v] r D _ IH]; simpl; [discriminate|].
  destruct (String.eqb a k) eqn:E; auto.
  intro H; inversion H; subst. apply String.eqb_eq in E. unfold diag in D; simpl in D. congruence.
Qed.

Lemma map_axes_self ax : forall m, Forall diag m ->
  exists m', map_axes New m m (zip ax ax) = Ok (Some (m', m')) /\ Forall diag m'.
Proof.
  induction ax as [|a r IH]; intros m D; cbn [zip map_axes].
  - eauto.
  - assert (C : match assoc a m with Some b => negb (String.eqb a b) | None => false end = false).
    { destruct (assoc a m) as [b|] eqn:E; auto. rewrite (assoc_diag m a b D E), String.eqb_refl. reflexivity. }
    rewrite C. cbv iota. apply IH. destruct (mem a (keys m)); auto.
    apply Forall_app; split; auto. repeat constructor.
Qed.

Lemma map_all_axes_self axs : forall m, Forall diag m ->
  exists m', map_all_axes New m m (map dup axs) = Ok (Some (m', m')) /\ Forall diag m'.
Proof.
  induction axs as [|ax r IH]; intros m D; cbn [map map_all_axes dup]; [eauto|].
  destruct (map_axes_self ax m D) as [m1 [-> D1]]. apply IH; auto.
Qed.

Lemma swap_diag (m : amap) : Forall diag m -> map swap m = m.
Proof.
  induction 1 as [|[a b] r D _ IH]; simpl; auto.
  unfold diag in D; simpl in D; subst. unfold swap at 1; simpl. now rewrite IH.
Qed.

Lemma scan_axes1_self ax m orig a l indices : Forall diag m ->
  exists m', scan_axes1 New ax ax m m orig a (S (length (a :: l))) 0 (a :: l) indices
             = SDone l (indices ++ [index_of a orig]) m' m' /\ Forall diag m'.
Proof.
  intro D. cbn [scan_axes1 nth_error length].
  assert (R : remove1 a (a :: l) = l) by (simpl; now rewrite String.eqb_refl).
  destruct (mem a (keys m)) eqn:M.
  - cbn [andb].
    assert (A : assoc a m = Some a).
    { rewrite mem_keys_assoc in M. destruct (assoc a m) eqn:E; [|discriminate]. f_equal. eapply assoc_diag; eauto. }
    rewrite A. cbn [option_eqb]. rewrite String.eqb_refl, R. eauto.
  - cbn [andb orb fixU New]. destruct (mem a (keys ax)) eqn:K; cbn [andb orb].
    + rewrite Z.eqb_refl, R. exists (m ++ [(a, a)]). split; auto.
      apply Forall_app; split; auto. repeat constructor.
    + rewrite String.eqb_refl. cbn [fixG New]. rewrite R. eauto.
Qed.

Lemma scan_axes0_self ax orig l : forall m indices, Forall diag m ->
  exists m', scan_axes0 New ax ax m m orig l l indices
             = Some (indices ++ map (fun a => index_of a orig) l, m', m') /\ Forall diag m'.
Proof.
  induction l as [|a r IH]; intros m indices D; cbn [scan_axes0 map].
  - exists m. rewrite app_nil_r. auto.
  - destruct (scan_axes1_self ax m orig a r indices D) as [m1 [E D1]]. rewrite E.
    destruct (IH m1 (indices ++ [index_of a orig]) D1) as [m2 [E2 D2]]. exists m2. rewrite E2.
    split; auto. now rewrite <- app_assoc.
Qed.

Lemma index_of_app_notin a pre r : ~ In a pre -> index_of a (pre ++ a :: r) = length pre.
Proof.
  induction pre as [|x p IH]; simpl; intro N.
  - now rewrite String.eqb_refl.
  - destruct (String.eqb a x) eqn:E.
    + apply String.eqb_eq in E. subst. exfalso. apply N. now left.
    + f_equal. apply IH. intro; apply N; now right.
Qed.

Lemma index_seq l : forall pre, NoDup (pre ++ l) ->
  map (fun a => index_of a (pre ++ l)) l = seq (length pre) (length l).
Proof.
  induction l as [|a r IH]; intros pre N; simpl; auto. f_equal.
  - apply index_of_app_notin. apply NoDup_remove_2 in N. intro I. apply N. apply in_or_app. now left.
  - replace (pre ++ a :: r) with ((pre ++ [a]) ++ r) in * by (now rewrite <- app_assoc).
    rewrite IH; auto. rewrite app_length. simpl. f_equal. lia.
Qed.

Lemma pick_seq {A} (l : list A) : forall pre, pick (pre ++ l) (seq (length pre) (length l)) = Some l.
Proof.
  induction l as [|a r IH]; intro pre; simpl; auto.
  rewrite nth_error_app2 by lia. rewrite Nat.sub_diag. simpl.
  replace (pre ++ a :: r) with ((pre ++ [a]) ++ r) by (now rewrite <- app_assoc).
  specialize (IH (pre ++ [a])). rewrite app_length in IH. simpl in IH. rewrite Nat.add_1_r in IH.
  now rewrite IH.
Qed.

Lemma sorted_intervals_self c :
  sorted_intervals New c (seq 0 (length (m_axes c))) = Ok (m_intervals c).
Proof.
  unfold sorted_intervals. cbn [fixI New]. destruct (Nat.eqb (length (m_axes c)) 1); auto.
  destruct (Nat.eqb (length (m_intervals c)) (length (m_axes c))) eqn:E; simpl; auto.
  apply Nat.eqb_eq in E. rewrite <- E. pose proof (pick_seq (m_intervals c) []) as P.
  simpl in P. now rewrite P.
Qed.

Lemma one_cm_eq_self o ax m c : opts_ok o -> wf_cm c -> Forall diag m ->
  exists m', one_cm_eq New o ax ax m m c c = Ok (Some (m', m')) /\ Forall diag m'.
Proof.
  intros Ho [Nq Na] D. unfold one_cm_eq. rewrite Nat.eqb_refl. cbn [negb].
  destruct (scan_axes0_self ax (m_axes c) (m_axes c) m [] D) as [m' [-> D']].
  cbn [app]. pose proof (index_seq (m_axes c) [] Na) as IS. cbn [app length] in IS. rewrite IS.
  rewrite seq_length, Nat.eqb_refl. cbn [negb]. rewrite sorted_intervals_self. cbn [rbind].
  assert (E : cm_eq o c (mkM (m_axes c) (m_method c) (m_quals c) (m_intervals c)) = true).
  { destruct c as [ax' me q iv]. simpl in *. apply (cm_eq_refl o (mkM ax' me q iv)); auto. }
  rewrite E. eauto.
Qed.

Lemma cms_zip_eq_self o ax l : opts_ok o -> Forall (fun kc : string * cmeth => wf_cm (snd kc)) l ->
  forall m, Forall diag m -> cms_zip_eq New o ax ax m m l l = Ok true.
Proof.
  intros Ho. induction 1 as [|[k c] r W _ IH]; intros m D; cbn [cms_zip_eq]; auto.
  destruct (one_cm_eq_self o ax m c Ho W D) as [m' [-> D']]. now apply IH.
Qed.

Lemma k1to0_diag ps k : Forall diag ps -> k1to0 ps k = k.
Proof.
  intro D. unfold k1to0. rewrite (swap_diag ps D). destruct (assoc k ps) eqn:E; auto.
  eapply assoc_diag; eauto.
Qed.

Lemma set_eq_refl l : set_eq l l = true.
Proof.
  unfold set_eq. assert (H : forallb (fun k => mem k l) l = true)
    by (apply forallb_forall; intros; now apply mem_in).
  now rewrite H.
Qed.

Lemma cref_match_self o ps r : opts_ok o -> Forall diag ps -> wf_cr (snd r) -> cref_match o ps r r = Ok true.
Proof.
  intros Ho D (N1 & N2 & N3). unfold cref_match. f_equal.
  rewrite cref_eq_refl; auto.
  rewrite (map_ext _ (fun k => k)) by (intro; now apply k1to0_diag). rewrite map_id, set_eq_refl.
  rewrite (map_ext _ (fun tk => tk)).
  - rewrite map_id. apply dict_eq_refl; auto. intro; apply option_eqb_refl, String.eqb_refl.
  - intros [t [k|]]; simpl; auto. now rewrite k1to0_diag.
Qed.

Lemma crs_eq_self o ps l : opts_ok o -> Forall diag ps ->
  Forall (fun kr : string * cref => wf_cr (snd kr)) l -> crs_eq o ps l l = Ok true.
Proof.
  intros Ho D W. unfold crs_eq. rewrite Nat.eqb_refl. cbn [negb].
  rewrite greedyR_self; auto. eapply Forall_impl; [|exact W]. intros r Hr. now apply cref_match_self.
Qed.

Lemma constructs_eq_self o x : opts_ok o -> wf_field x -> constructs_eq New o x x = Ok true.
Proof.
  intros Ho (Wp & Wc & Wm & Wr). unfold constructs_eq.
  assert (S : sizes_eq New (f_axes x) (f_axes x) = Ok true).
  { unfold sizes_eq. simpl. f_equal. apply list_eqb_refl, Z.eqb_refl. }
  rewrite S. cbn [andR]. rewrite Nat.eqb_refl. cbn [negb].
  destruct (match_groups_self (nested o) (f_cons x) (groups (f_cons x)) (nested_ok o Ho)
              (groups_ok wf_cons (f_cons x) Wc)) as [ps [-> D]].
  cbn [fixC New].
  match goal with |- match map_all_axes New [] [] ?a with _ => _ end = _ => set (aps' := a) end.
  assert (A : exists axs, aps' = map dup axs).
  { subst aps'. destruct (f_daxes x) as [d|].
    - exists (map fst (groups (f_cons x)) ++ [d]). now rewrite map_app, map_map.
    - exists (map fst (groups (f_cons x))). now rewrite map_map. }
  destruct A as [axs ->].
  destruct (map_all_axes_self axs [] (Forall_nil _)) as [m [-> Dm]].
  unfold cms_eq. rewrite Nat.eqb_refl. cbn [negb]. rewrite (swap_diag m Dm), cms_zip_eq_self; auto.
  cbn [andR]. now apply crs_eq_self.
Qed.

Theorem field_copy_equal : forall o x, opts_ok o -> wf_field x -> field_eq New o x x = Some (Ok true).
Proof.
  intros o x Ho W. unfold field_eq. rewrite bool_eqb_refl. cbn [negb]. f_equal.
  rewrite pd_eq_refl; auto; [|exact (proj1 W)]. cbn [andR]. now apply constructs_eq_self.
Qed.

(* ====================================================================== *)
(* H. key-blindness: the construct keys of the other field play no part     *)
(* ====================================================================== *)
Definition omap {S T} (f : S -> T) (r : result (option S)) : result (option T) :=
  match r with Ok (Some s) => Ok (Some (f s)) | Ok None => Ok None | Err e => Err e end.

Lemma find_remove_map {B C} (f : B -> C) (p : C -> result bool) l :
  find_remove p (map f l)
  = omap (fun yr : B * list B => (f (fst yr), map f (snd yr))) (find_remove (fun b => p (f b)) l).
Proof.
  induction l as [|y r IH]; simpl; auto.
  destruct (p (f y)) as [[|]|e]; simpl; auto.
  rewrite IH. destruct (find_remove (fun b => p (f b)) r) as [[[z r']|]|e]; reflexivity.
Qed.

Lemma greedyR_map_r {A B C} (f : B -> C) (eq : A -> C -> result bool) xs : forall ys,
  greedyR eq xs (map f ys)
  = omap (map (fun p : A * B => (fst p, f (snd p)))) (greedyR (fun a b => eq a (f b)) xs ys).
Proof.
  induction xs as [|x xs IH]; intro ys; simpl.
  - destruct ys; reflexivity.
  - rewrite find_remove_map.
    destruct (find_remove (fun b => eq x (f b)) ys) as [[[y ys']|]|e]; simpl; auto.
    rewrite IH. destruct (greedyR (fun a b => eq a (f b)) xs ys') as [[ps|]|e]; reflexivity.
Qed.

Lemma find_remove_incl {B} (p : B -> result bool) l : forall y r,
  find_remove p l = Ok (Some (y, r)) -> incl r l.
Proof.
  induction l as [|z l IH]; simpl; intros y r; [discriminate|].
  destruct (p z) as [[|]|e]; try discriminate.
  - intro H; inversion H; subst. apply incl_tl, incl_refl.
  - destruct (find_remove p l) as [[[y' r']|]|e]; try discriminate. intro H; inversion H; subst.
    intros w [Hw|Hw]; [now left|right; eapply IH; eauto].
Qed.

Lemma find_remove_ext_in {B} (p q : B -> result bool) l :
  (forall b, In b l -> p b = q b) -> find_remove p l = find_remove q l.
Proof.
  induction l as [|z l IH]; simpl; intro H; auto.
  rewrite <- (H z) by now left. rewrite IH by (intros; apply H; now right). reflexivity.
Qed.

Lemma greedyR_ext_in {A B} (eq eq' : A -> B -> result bool) xs : forall ys,
  (forall a b, In b ys -> eq a b = eq' a b) -> greedyR eq xs ys = greedyR eq' xs ys.
Proof.
  induction xs as [|x xs IH]; intros ys H; simpl; auto.
  rewrite (find_remove_ext_in (eq x) (eq' x) ys) by (intros; now apply H).
  destruct (find_remove (eq' x) ys) as [[[y ys']|]|e] eqn:E; auto.
  rewrite (IH ys'); auto. intros a b Hb. apply H. eapply find_remove_incl; eauto.
Qed.

Definition inj (f : string -> string) : Prop := forall a b, f a = f b -> a = b.

Lemma eqb_inj f : inj f -> forall a b, String.eqb (f a) (f b) = String.eqb a b.
Proof.
  intros I a b. destruct (String.eqb_spec a b) as [->|N].
  - apply String.eqb_refl.
  - apply String.eqb_neq. intro E. apply N, I, E.
Qed.

(* renaming the keys (first components) / the values (second components) of an association list *)
Definition ren1 {V} (f : string -> string) (m : list (string * V)) : list (string * V) :=
  map (fun p => (f (fst p), snd p)) m.
Definition ren2 {K} (f : string -> string) (m : list (K * string)) : list (K * string) :=
  map (fun p => (fst p, f (snd p))) m.

Lemma assoc_ren1 {V} f (I : inj f) k (m : list (string * V)) : assoc (f k) (ren1 f m) = assoc k m.
Proof.
  induction m as [|[k' v] r IH]; simpl; auto. rewrite (eqb_inj f I). destruct (String.eqb k k'); auto.
Qed.

Lemma assoc_ren2 f k (m : amap) : assoc k (ren2 f m) = option_map f (assoc k m).
Proof. induction m as [|[k' v] r IH]; simpl; auto. destruct (String.eqb k k'); auto. Qed.

Lemma keys_ren1 {V} f (m : list (string * V)) : keys (ren1 f m) = map f (keys m).
Proof. unfold keys, ren1. rewrite !map_map. reflexivity. Qed.

Lemma keys_ren2 f (m : amap) : keys (ren2 f m) = keys m.
Proof. unfold keys, ren2. rewrite map_map. reflexivity. Qed.

Lemma mem_map_inj f (I : inj f) a l : mem (f a) (map f l) = mem a l.
Proof. unfold mem. induction l as [|x r IH]; simpl; auto. now rewrite (eqb_inj f I), IH. Qed.

Lemma ren2_cons {K} f (a : K) b r : ren2 f ((a, b) :: r) = (a, f b) :: ren2 f r.
Proof. reflexivity. Qed.

Lemma forallb_ext_in {A} (f g : A -> bool) l : (forall a, In a l -> f a = g a) -> forallb f l = forallb g l.
Proof.
  induction l as [|x r IH]; simpl; intro H; auto. rewrite (H x) by now left.
  rewrite IH by (intros; apply H; now right). reflexivity.
Qed.

Lemma dict_eq_map_r {A} (veq veq' : A -> A -> bool) (f : A -> A) p q :
  (forall u w, veq u (f w) = veq' u w) ->
  dict_eq veq p (map (fun tk : string * A => (fst tk, f (snd tk))) q) = dict_eq veq' p q.
Proof.
  intro H. unfold dict_eq, same_keys.
  assert (K : keys (map (fun tk : string * A => (fst tk, f (snd tk))) q) = keys q)
    by (unfold keys; rewrite map_map; reflexivity).
  rewrite K. f_equal. apply forallb_ext_in. intros [k v] _. simpl.
  assert (E : assoc k (map (fun tk : string * A => (fst tk, f (snd tk))) q) = option_map f (assoc k q)).
  { clear. induction q as [|[k' v'] r IH]; simpl; auto. destruct (String.eqb k k'); auto. }
  rewrite E. destruct (assoc k q); simpl; auto.
Qed.

Section Rename.
  (* ra renames domain axis keys, rk the keys of constructs with data, ro the keys of cell
     methods and coordinate references *)
  Variables ra rk ro : string -> string.
  Hypothesis ra_inj : inj ra.
  Hypothesis rk_inj : inj rk.

  Definition ren_item (kc : string * cons) : string * cons := (rk (fst kc), snd kc).
  Definition ren_group (g : group) : group := (map ra (fst g), map ren_item (snd g)).
  Definition ren_kcons (kc : kcons) : kcons := (rk (fst kc), (map ra (fst (snd kc)), snd (snd kc))).
  Definition ren_cm (c : cmeth) : cmeth := mkM (map ra (m_axes c)) (m_method c) (m_quals c) (m_intervals c).
  Definition ren_cr (c : cref) : cref :=
    mkR (map rk (r_coords c)) (r_cparams c)
        (map (fun tk : string * option string => (fst tk, option_map rk (snd tk))) (r_cdas c)) (r_dparams c).
  Definition ren_cms (l : list (string * cmeth)) := map (fun kc => (ro (fst kc), ren_cm (snd kc))) l.
  Definition ren_crs (l : list (string * cref)) := map (fun kr => (ro (fst kr), ren_cr (snd kr))) l.
  Definition ren_field (y : field) : field :=
    mkF (f_isfield y) (f_props y) (f_data y) (option_map (map ra) (f_daxes y))
        (ren1 ra (f_axes y)) (map ren_kcons (f_cons y)) (ren_cms (f_cms y)) (ren_crs (f_crs y)).

  Lemma axes_eqb_ra l : forall l', axes_eqb (map ra l) (map ra l') = axes_eqb l l'.
  Proof.
    unfold axes_eqb. induction l as [|x r IH]; intros [|y r']; simpl; auto.
    now rewrite (eqb_inj ra ra_inj), IH.
  Qed.

  Lemma add_group_ren k ax c gs :
    add_group (rk k) (map ra ax) c (map ren_group gs) = map ren_group (add_group k ax c gs).
  Proof.
    induction gs as [|[ax' items] r IH]; simpl; auto.
    rewrite axes_eqb_ra. destruct (axes_eqb ax ax'); simpl.
    - unfold ren_group at 2. simpl. now rewrite map_app.
    - now rewrite IH.
  Qed.

  Lemma groups_ren_gen cs : forall gs,
    fold_left (fun gs kc => add_group (fst kc) (fst (snd kc)) (snd (snd kc)) gs)
              (map ren_kcons cs) (map ren_group gs)
    = map ren_group (fold_left (fun gs (kc : kcons) => add_group (fst kc) (fst (snd kc)) (snd (snd kc)) gs) cs gs).
  Proof.
    induction cs as [|kc r IH]; intro gs; cbn [map fold_left ren_kcons fst snd]; auto.
    rewrite add_group_ren. apply IH.
  Qed.

  Lemma groups_ren cs : groups (map ren_kcons cs) = map ren_group (groups cs).
  Proof. exact (groups_ren_gen cs []). Qed.

  Definition ren_ps (ps : kpairs) : kpairs := ren2 rk ps.

  Lemma role_ren t i : role t (map ren_item i) = map ren_item (role t i).
  Proof.
    unfold role. induction i as [|kc r IH]; simpl; auto.
    destruct (cls_eqb (c_cls (snd kc)) t); simpl; now rewrite IH.
  Qed.

  Lemma match_types_ren o other other' tys i0 i1 :
    match_types New o other' tys i0 (map ren_item i1) = omap ren_ps (match_types New o other tys i0 i1).
  Proof.
    induction tys as [|t rest IH]; simpl; auto.
    rewrite role_ren, map_length.
    destruct (negb (Nat.eqb (length (role t i0)) (length (role t i1)))); auto.
    rewrite greedyR_map_r.
    rewrite (greedyR_ext_in _ (fun a b : string * cons => cons_body_eq New o (snd a) (snd b)))
      by (intros; reflexivity).
    destruct (greedyR (fun a b : string * cons => cons_body_eq New o (snd a) (snd b)) (role t i0) (role t i1))
      as [[ps|]|e]; simpl; auto.
    rewrite IH. destruct (match_types New o other rest i0 i1) as [[qs|]|e]; simpl; auto.
    unfold ren_ps, ren2. rewrite map_app, !map_map. reflexivity.
  Qed.

  Definition ren_fg (t : group * list group * kpairs) : group * list group * kpairs :=
    (ren_group (fst (fst t)), map ren_group (snd (fst t)), ren_ps (snd t)).

  Lemma find_group_ren o other other' g0 gs1 :
    find_group New o other' g0 (map ren_group gs1) = omap ren_fg (find_group New o other g0 gs1).
  Proof.
    induction gs1 as [|g1 r IH]; cbn [map find_group]; auto.
    rewrite IH. unfold ren_group at 1 2 3. cbn [fst snd]. rewrite map_length, (match_types_ren o other other').
    destruct (negb (Nat.eqb (length (fst g0)) (length (fst g1)))).
    - destruct (find_group New o other g0 r) as [[[[g r'] ps]|]|e]; reflexivity.
    - destruct (match_types New o other type_order (snd g0) (snd g1)) as [[ps|]|e]; cbn [omap]; auto.
      destruct (find_group New o other g0 r) as [[[[g r'] ps]|]|e]; reflexivity.
  Qed.

  Definition ren_aps (aps : axpairs) : axpairs := map (fun p => (fst p, map ra (snd p))) aps.
  Definition ren_mg (t : axpairs * kpairs) : axpairs * kpairs := (ren_aps (fst t), ren_ps (snd t)).

  Lemma match_groups_ren o other other' gs0 : forall gs1,
    match_groups New o other' gs0 (map ren_group gs1) = omap ren_mg (match_groups New o other gs0 gs1).
  Proof.
    induction gs0 as [|g0 r0 IH]; intro gs1; cbn [match_groups]; auto.
    rewrite (find_group_ren o other other').
    destruct (find_group New o other g0 gs1) as [[[[g1 gs1'] ps]|]|e]; cbn [omap ren_fg fst snd]; auto.
    rewrite IH. destruct (match_groups New o other r0 gs1') as [[[aps qs]|]|e]; cbn [omap]; auto.
    unfold ren_mg, ren_aps, ren_ps, ren2; cbn [fst snd map ren_group]. now rewrite map_app.
  Qed.

  Definition ren_maps (t : amap * amap) : amap * amap := (ren2 ra (fst t), ren1 ra (snd t)).

  Lemma map_axes_ren z : forall m01 m10,
    map_axes New (ren2 ra m01) (ren1 ra m10) (ren2 ra z) = omap ren_maps (map_axes New m01 m10 z).
  Proof.
    induction z as [|[a0 a1] r IH]; intros m01 m10; [reflexivity|].
    rewrite ren2_cons. cbn [map_axes fixD New].
    rewrite assoc_ren2, (assoc_ren1 ra ra_inj), keys_ren2, keys_ren1, (mem_map_inj ra ra_inj).
    assert (C1 : match option_map ra (assoc a0 m01) with Some b => negb (String.eqb (ra a1) b) | None => false end
                 = match assoc a0 m01 with Some b => negb (String.eqb a1 b) | None => false end).
    { destruct (assoc a0 m01); simpl; auto. now rewrite (eqb_inj ra ra_inj). }
    rewrite C1.
    destruct (match assoc a0 m01 with Some b => negb (String.eqb a1 b) | None => false end); auto.
    destruct (match assoc a1 m10 with Some b0 => negb (String.eqb a0 b0) | None => false end); auto.
    rewrite <- IH.
    destruct (mem a0 (keys m01)), (mem a1 (keys m10)); f_equal; unfold ren1, ren2; rewrite ?map_app; reflexivity.
  Qed.

  Lemma zip_ren (ax0 : list string) : forall ax1, zip ax0 (map ra ax1) = ren2 ra (zip ax0 ax1).
  Proof. induction ax0 as [|x r IH]; intros [|y r']; simpl; auto. now rewrite IH. Qed.

  Lemma map_all_axes_ren aps : forall m01 m10,
    map_all_axes New (ren2 ra m01) (ren1 ra m10) (ren_aps aps) = omap ren_maps (map_all_axes New m01 m10 aps).
  Proof.
    induction aps as [|[ax0 ax1] r IH]; intros m01 m10; cbn [ren_aps map map_all_axes fst snd]; auto.
    rewrite zip_ren, map_axes_ren.
    destruct (map_axes New m01 m10 (zip ax0 ax1)) as [[[n01 n10]|]|e]; cbn [omap ren_maps fst snd]; auto.
  Qed.

  Definition ren_scan (s : scan) : scan :=
    match s with SFalse => SFalse | SDone l idx a m => SDone (map ra l) idx (ren2 ra a) (ren1 ra m) end.

  Lemma remove1_ren a l : remove1 (ra a) (map ra l) = map ra (remove1 a l).
  Proof.
    induction l as [|x r IH]; simpl; auto. rewrite (eqb_inj ra ra_inj).
    destruct (String.eqb a x); simpl; auto. now rewrite IH.
  Qed.

  Lemma index_of_ren a l : index_of (ra a) (map ra l) = index_of a l.
  Proof.
    induction l as [|x r IH]; simpl; auto. rewrite (eqb_inj ra ra_inj).
    destruct (String.eqb a x); auto.
  Qed.

  Lemma axsize_ren ax k : axsize (ren1 ra ax) (ra k) = axsize ax k.
  Proof. unfold axsize. now rewrite (assoc_ren1 ra ra_inj). Qed.

  (* standard names (cell method axes that are not domain axis keys of the field) are fixed *)
  Lemma scan_axes1_ren ax0 ax1 S orig axis0 fuel :
    (forall x, In x S -> mem x (keys ax1) = false -> ra x = x) ->
    forall a m i axes1 indices, incl axes1 S ->
    scan_axes1 New ax0 (ren1 ra ax1) (ren2 ra a) (ren1 ra m) (map ra orig) axis0 fuel i (map ra axes1) indices
    = ren_scan (scan_axes1 New ax0 ax1 a m orig axis0 fuel i axes1 indices).
  Proof.
    intros Hfix. induction fuel as [|fuel IH]; intros a m i axes1 indices I; cbn [scan_axes1]; auto.
    rewrite nth_error_map. destruct (nth_error axes1 i) as [axis1|] eqn:N; cbn [option_map]; auto.
    assert (In1 : In axis1 S) by (apply I; eapply nth_error_In; eauto).
    assert (I' : incl (remove1 axis1 axes1) S) by (intros z Hz; apply I; eapply remove1_incl; eauto).
    rewrite keys_ren2, !keys_ren1, !(mem_map_inj ra ra_inj), assoc_ren2, axsize_ren, remove1_ren, index_of_ren.
    destruct (mem axis0 (keys a)) eqn:M0, (mem axis1 (keys m)) eqn:M1; cbn [andb orb]; try reflexivity.
    - destruct (assoc axis0 a) as [b|]; cbn [option_map option_eqb].
      + rewrite (eqb_inj ra ra_inj). destruct (String.eqb axis1 b); [reflexivity|]. now apply IH.
      + now apply IH.
    - cbn [fixU New]. destruct (mem axis0 (keys ax0)) eqn:K0, (mem axis1 (keys ax1)) eqn:K1; cbn [andb orb].
      + destruct (Z.eqb (axsize ax0 axis0) (axsize ax1 axis1)); [|now apply IH].
        cbn [ren_scan]. unfold ren1, ren2; rewrite !map_app. reflexivity.
      + now apply IH.
      + now apply IH.
      + rewrite (Hfix axis1 In1 K1). destruct (String.eqb axis0 axis1); cbn [fixG New]; [reflexivity|now apply IH].
  Qed.

  Definition ren_s0 (t : list nat * amap * amap) : list nat * amap * amap :=
    (fst (fst t), ren2 ra (snd (fst t)), ren1 ra (snd t)).

  Lemma scan_axes0_ren ax0 ax1 orig axes0 :
    (forall x, In x orig -> mem x (keys ax1) = false -> ra x = x) ->
    forall a m axes1 indices, incl axes1 orig -> idx_ok orig indices ->
    scan_axes0 New ax0 (ren1 ra ax1) (ren2 ra a) (ren1 ra m) (map ra orig) axes0 (map ra axes1) indices
    = option_map ren_s0 (scan_axes0 New ax0 ax1 a m orig axes0 axes1 indices).
  Proof.
    intro Hfix. induction axes0 as [|axis0 r IH]; intros a m axes1 indices I X; cbn [scan_axes0]; auto.
    rewrite map_length, (scan_axes1_ren ax0 ax1 orig orig axis0 _ Hfix a m 0%nat axes1 indices I).
    destruct (scan_axes1 New ax0 ax1 a m orig axis0 (S (length axes1)) 0 axes1 indices)
      as [|axes1' indices' a' m'] eqn:E; cbn [ren_scan]; auto.
    destruct (scan_axes1_inv _ _ _ _ _ _ _ _ _ _ _ _ _ _ _ E I X) as [I2 X2]. now apply IH.
  Qed.

  Lemma sorted_intervals_ren c idx : sorted_intervals New (ren_cm c) idx = sorted_intervals New c idx.
  Proof. unfold sorted_intervals, ren_cm. cbn [m_axes m_intervals]. now rewrite map_length. Qed.

  Lemma one_cm_eq_ren o ax0 ax1 a m c0 c1 :
    (forall x, In x (m_axes c1) -> mem x (keys ax1) = false -> ra x = x) ->
    one_cm_eq New o ax0 (ren1 ra ax1) (ren2 ra a) (ren1 ra m) c0 (ren_cm c1)
    = omap ren_maps (one_cm_eq New o ax0 ax1 a m c0 c1).
  Proof.
    intro Hfix. unfold one_cm_eq.
    change (m_axes (ren_cm c1)) with (map ra (m_axes c1)).
    change (m_method (ren_cm c1)) with (m_method c1). change (m_quals (ren_cm c1)) with (m_quals c1).
    rewrite map_length.
    destruct (negb (Nat.eqb (length (m_axes c0)) (length (m_axes c1)))); auto.
    rewrite (scan_axes0_ren ax0 ax1 (m_axes c1) (m_axes c0) Hfix a m (m_axes c1) []);
      [|apply incl_refl|constructor].
    destruct (scan_axes0 New ax0 ax1 a m (m_axes c1) (m_axes c0) (m_axes c1) []) as [[[indices a'] m']|];
      cbn [option_map ren_s0 fst snd]; auto.
    destruct (negb (Nat.eqb (length (m_axes c1)) (length indices))); auto.
    rewrite sorted_intervals_ren.
    destruct (sorted_intervals New c1 indices) as [iv|e]; cbn [rbind omap]; auto.
    destruct (cm_eq o c0 (mkM (m_axes c0) (m_method c1) (m_quals c1) iv)); reflexivity.
  Qed.

  Lemma cms_zip_eq_ren o ax0 ax1 l0 : forall l1 a m,
    (forall kc x, In kc l1 -> In x (m_axes (snd kc)) -> mem x (keys ax1) = false -> ra x = x) ->
    cms_zip_eq New o ax0 (ren1 ra ax1) (ren2 ra a) (ren1 ra m) l0 (ren_cms l1)
    = cms_zip_eq New o ax0 ax1 a m l0 l1.
  Proof.
    induction l0 as [|[k0 c0] r0 IH]; intros l1 a m Hfix; cbn [cms_zip_eq]; auto.
    destruct l1 as [|[k1 c1] r1]; cbn [ren_cms map cms_zip_eq fst snd]; auto.
    rewrite one_cm_eq_ren by (intros x Hx; apply (Hfix (k1, c1)); [now left|exact Hx]).
    destruct (one_cm_eq New o ax0 ax1 a m c0 c1) as [[[a' m']|]|e]; cbn [omap ren_maps fst snd]; auto.
    apply IH. intros kc x Hk. apply Hfix. now right.
  Qed.

  Lemma swap_ren1 (m : amap) : map swap (ren1 ra m) = ren2 ra (map swap m).
  Proof. unfold ren1, ren2. rewrite !map_map. reflexivity. Qed.

  Lemma cms_eq_ren o ax0 ax1 m l0 l1 :
    (forall kc x, In kc l1 -> In x (m_axes (snd kc)) -> mem x (keys ax1) = false -> ra x = x) ->
    cms_eq New o ax0 (ren1 ra ax1) (ren1 ra m) l0 (ren_cms l1) = cms_eq New o ax0 ax1 m l0 l1.
  Proof.
    intro Hfix. unfold cms_eq. unfold ren_cms at 1. rewrite map_length, swap_ren1.
    destruct (negb (Nat.eqb (length l0) (length l1))); auto. now apply cms_zip_eq_ren.
  Qed.

  (* the construct keys a coordinate reference names *)
  Definition refs (c : cref) : list string :=
    r_coords c ++ flat_map (fun tk : string * option string => match snd tk with Some k => [k] | None => [] end) (r_cdas c).

  Lemma k1to0_ren ps k :
    k1to0 (ren_ps ps) (rk k) = match assoc k (map swap ps) with Some k0 => k0 | None => rk k end.
  Proof.
    unfold k1to0, ren_ps.
    replace (map swap (ren2 rk ps)) with (ren1 rk (map swap ps))
      by (unfold ren1, ren2; rewrite !map_map; reflexivity).
    now rewrite (assoc_ren1 rk rk_inj).
  Qed.

  Lemma cref_eq_ren o x y : cref_eq o x (ren_cr y) = cref_eq o x y.
  Proof.
    unfold cref_eq, ren_cr; cbn [r_coords r_cparams r_cdas r_dparams]. rewrite map_length.
    rewrite (dict_eq_map_r _ (fun u w : option string => Bool.eqb (is_none u) (is_none w)) (option_map rk)); auto.
    intros u [w|]; reflexivity.
  Qed.

  Lemma cref_match_ren o ps r0 r1 :
    (forall k, In k (refs (snd r1)) -> assoc k (map swap ps) = None -> rk k = k) ->
    cref_match o (ren_ps ps) r0 (ro (fst r1), ren_cr (snd r1)) = cref_match o ps r0 r1.
  Proof.
    intro Hc. unfold cref_match. cbn [snd]. rewrite cref_eq_ren.
    assert (K : forall k, In k (refs (snd r1)) -> k1to0 (ren_ps ps) (rk k) = k1to0 ps k).
    { intros k Hk. rewrite k1to0_ren. unfold k1to0. destruct (assoc k (map swap ps)) eqn:E; auto. }
    assert (E1 : map (k1to0 (ren_ps ps)) (r_coords (ren_cr (snd r1))) = map (k1to0 ps) (r_coords (snd r1))).
    { unfold ren_cr; cbn [r_coords]. rewrite map_map. apply map_ext_in. intros k Hk. apply K.
      unfold refs. apply in_or_app. now left. }
    assert (E2 : map (fun tk : string * option string => (fst tk, option_map (k1to0 (ren_ps ps)) (snd tk)))
                     (r_cdas (ren_cr (snd r1)))
                 = map (fun tk : string * option string => (fst tk, option_map (k1to0 ps) (snd tk))) (r_cdas (snd r1))).
    { unfold ren_cr; cbn [r_cdas]. rewrite map_map. apply map_ext_in. intros [t [k|]] Hk; cbn [fst snd option_map]; auto.
      rewrite K; auto. unfold refs. apply in_or_app. right. apply in_flat_map. exists (t, Some k). split; auto.
      simpl. now left. }
    rewrite E1, E2. reflexivity.
  Qed.

  Lemma crs_eq_ren o ps l0 l1 :
    (forall kr k, In kr l1 -> In k (refs (snd kr)) -> assoc k (map swap ps) = None -> rk k = k) ->
    crs_eq o (ren_ps ps) l0 (ren_crs l1) = crs_eq o ps l0 l1.
  Proof.
    intro Hc. unfold crs_eq, ren_crs. rewrite map_length.
    destruct (negb (Nat.eqb (length l0) (length l1))); auto.
    rewrite greedyR_map_r. rewrite (greedyR_ext_in _ (cref_match o ps)).
    - destruct (greedyR (cref_match o ps) l0 l1) as [[qs|]|e]; reflexivity.
    - intros a b Hb. apply cref_match_ren. intros k Hk. now apply (Hc b).
  Qed.

  Lemma sizes_eq_ren v x ax : sizes_eq v x (ren1 ra ax) = sizes_eq v x ax.
  Proof.
    unfold sizes_eq.
    assert (E : existsb (fun kv : string * option Z => is_none (snd kv)) (ren1 ra ax)
                = existsb (fun kv : string * option Z => is_none (snd kv)) ax).
    { induction ax as [|[k n] r IH]; simpl; auto. now rewrite IH. }
    rewrite E. unfold ren1. rewrite map_map. reflexivity.
  Qed.

  Definition cms_names_fixed (y : field) : Prop :=
    forall kc x, In kc (f_cms y) -> In x (m_axes (snd kc)) -> mem x (keys (f_axes y)) = false -> ra x = x.

  Lemma constructs_eq_ren o x y :
    cms_names_fixed y ->
    (forall aps ps kr k,
        match_groups New (nested o) (f_cons y) (groups (f_cons x)) (groups (f_cons y)) = Ok (Some (aps, ps)) ->
        length (groups (f_cons x)) = length (groups (f_cons y)) ->
        In kr (f_crs y) -> In k (refs (snd kr)) -> assoc k (map swap ps) = None -> rk k = k) ->
    constructs_eq New o x (ren_field y) = constructs_eq New o x y.
  Proof.
    intros Hcm Hcr. unfold constructs_eq. cbn [ren_field f_axes f_cons f_daxes f_cms f_crs].
    rewrite sizes_eq_ren. destruct (sizes_eq New (f_axes x) (f_axes y)) as [[|]|e]; cbn [andR]; auto.
    rewrite groups_ren, map_length.
    destruct (Nat.eqb (length (groups (f_cons x))) (length (groups (f_cons y)))) eqn:L; cbn [negb]; auto.
    rewrite (match_groups_ren (nested o) (f_cons y)).
    destruct (match_groups New (nested o) (f_cons y) (groups (f_cons x)) (groups (f_cons y)))
      as [[[aps ps]|]|e] eqn:G; cbn [omap ren_mg fst snd]; auto.
    cbn [fixC New].
    set (aps' := match f_daxes x, f_daxes y with Some d0, Some d1 => aps ++ [(d0, d1)] | _, _ => aps end).
    assert (A : match f_daxes x, option_map (map ra) (f_daxes y) with
                | Some d0, Some d1 => ren_aps aps ++ [(d0, d1)] | _, _ => ren_aps aps end = ren_aps aps').
    { subst aps'. destruct (f_daxes x), (f_daxes y); cbn [option_map]; auto. unfold ren_aps. now rewrite map_app. }
    rewrite A. pose proof (map_all_axes_ren aps' [] []) as M. cbn [ren1 ren2 map] in M. rewrite M.
    destruct (map_all_axes New [] [] aps') as [[[m01 m10]|]|e]; cbn [omap ren_maps fst snd]; auto.
    rewrite cms_eq_ren by exact Hcm. rewrite crs_eq_ren; [reflexivity|].
    intros kr k. eapply Hcr; eauto. now apply Nat.eqb_eq.
  Qed.
End Rename.

(* ---- every construct key of the other field takes part in the key map ---- *)
Lemma find_remove_perm {B} (p : B -> result bool) l : forall y r,
  find_remove p l = Ok (Some (y, r)) -> Permutation l (y :: r).
Proof.
  induction l as [|z l IH]; simpl; intros y r; [discriminate|].
  destruct (p z) as [[|]|e]; try discriminate.
  - intro H; inversion H; subst. apply Permutation_refl.
  - destruct (find_remove p l) as [[[y' r']|]|e]; try discriminate. intro H; inversion H; subst.
    rewrite (IH y r' eq_refl). apply perm_swap.
Qed.

Lemma greedyR_snd {A B} (eq : A -> B -> result bool) xs : forall ys ps,
  greedyR eq xs ys = Ok (Some ps) -> Permutation (map snd ps) ys.
Proof.
  induction xs as [|x xs IH]; intros ys ps; simpl.
  - destruct ys; intro H; inversion H; subst; constructor.
  - destruct (find_remove (eq x) ys) as [[[y ys']|]|e] eqn:F; try discriminate.
    destruct (greedyR eq xs ys') as [[qs|]|e] eqn:G; try discriminate.
    intro H; inversion H; subst. simpl. rewrite (find_remove_perm _ _ _ _ F). constructor. now apply IH.
Qed.

Lemma cls_eqb_refl c : cls_eqb c c = true.
Proof. destruct c; reflexivity. Qed.

Lemma match_types_cover o other tys i0 i1 : forall ps,
  match_types New o other tys i0 i1 = Ok (Some ps) ->
  forall kc, In kc i1 -> In (c_cls (snd kc)) tys -> In (fst kc) (map snd ps).
Proof.
  induction tys as [|t rest IH]; intros ps; simpl; [intros _ kc _ []|].
  destruct (negb (Nat.eqb (length (role t i0)) (length (role t i1)))); [discriminate|].
  destruct (greedyR (fun a b : string * cons => cons_body_eq New o (snd a) (snd b)) (role t i0) (role t i1))
    as [[qs|]|e] eqn:G; try discriminate.
  destruct (match_types New o other rest i0 i1) as [[rs|]|e] eqn:M; try discriminate.
  intro H; inversion H; subst; clear H. intros kc Hk [Ht|Ht]; rewrite map_app; apply in_or_app.
  - left. apply greedyR_snd in G.
    assert (R : In kc (role t i1)).
    { unfold role. apply filter_In. split; auto. rewrite <- Ht. apply cls_eqb_refl. }
    apply (Permutation_in _ (Permutation_sym G)) in R. apply in_map_iff in R. destruct R as [ab [E Hab]].
    apply in_map_iff. exists (fst (fst ab), fst (snd ab)). split; [simpl; now rewrite E|].
    apply in_map_iff. exists ab. auto.
  - right. eapply IH; eauto.
Qed.

Lemma all_classes c : In c type_order.
Proof. destruct c; simpl; tauto. Qed.

Lemma find_group_cover o other g0 gs1 : forall g1 r ps,
  find_group New o other g0 gs1 = Ok (Some (g1, r, ps)) ->
  Permutation gs1 (g1 :: r) /\ forall kc, In kc (snd g1) -> In (fst kc) (map snd ps).
Proof.
  induction gs1 as [|g r0 IH]; intros g1 r ps; cbn [find_group]; [discriminate|].
  assert (C : match find_group New o other g0 r0 with
              | Ok (Some (g', r', ps')) => Ok (Some (g', g :: r', ps')) | x => x end = Ok (Some (g1, r, ps)) ->
              Permutation (g :: r0) (g1 :: r) /\ forall kc, In kc (snd g1) -> In (fst kc) (map snd ps)).
  { destruct (find_group New o other g0 r0) as [[[[g' r'] ps']|]|e]; try discriminate.
    intro H; inversion H; subst. destruct (IH _ _ _ eq_refl) as [P Q]. split; auto.
    rewrite P. apply perm_swap. }
  destruct (negb (Nat.eqb (length (fst g0)) (length (fst g)))); auto.
  destruct (match_types New o other type_order (snd g0) (snd g)) as [[qs|]|e] eqn:M; try discriminate; auto.
  intro H; inversion H; subst. split; [apply Permutation_refl|].
  intros kc Hk. eapply match_types_cover; eauto. apply all_classes.
Qed.

Lemma match_groups_cover o other gs0 : forall gs1 aps ps,
  match_groups New o other gs0 gs1 = Ok (Some (aps, ps)) -> length gs0 = length gs1 ->
  forall g kc, In g gs1 -> In kc (snd g) -> In (fst kc) (map snd ps).
Proof.
  induction gs0 as [|g0 r0 IH]; intros gs1 aps ps; cbn [match_groups].
  - intros _ L g kc Hg. destruct gs1; [destruct Hg|discriminate].
  - destruct (find_group New o other g0 gs1) as [[[[g1 gs1'] ps1]|]|e] eqn:F; try discriminate.
    destruct (match_groups New o other r0 gs1') as [[[aps' qs]|]|e] eqn:G; try discriminate.
    intro H; inversion H; subst; clear H. intros L g kc Hg Hk.
    destruct (find_group_cover _ _ _ _ _ _ _ F) as [P Q].
    rewrite map_app. apply in_or_app.
    apply (Permutation_in _ P) in Hg. destruct Hg as [<-|Hg].
    + left. now apply Q.
    + right. eapply IH; eauto. apply Permutation_length in P. simpl in *. lia.
Qed.

Definition has (gs : list group) (k : string) (c : cons) : Prop :=
  exists g, In g gs /\ In (k, c) (snd g).

Lemma add_group_has_new k ax c gs : has (add_group k ax c gs) k c.
Proof.
  induction gs as [|[ax' items] r IH]; simpl.
  - exists (ax, [(k, c)]). split; simpl; auto.
  - destruct (axes_eqb ax ax').
    + exists (ax', items ++ [(k, c)]). split; simpl; auto. apply in_or_app. right. now left.
    + destruct IH as [g [G1 G2]]. exists g. split; auto. now right.
Qed.

Lemma add_group_has_old k ax c gs k' c' : has gs k' c' -> has (add_group k ax c gs) k' c'.
Proof.
  induction gs as [|[ax' items] r IH]; simpl; intros [g [G1 G2]]; [destruct G1|].
  destruct (axes_eqb ax ax').
  - destruct G1 as [<-|G1].
    + exists (ax', items ++ [(k, c)]). split; simpl; auto. apply in_or_app. now left.
    + exists g. split; auto. now right.
  - destruct G1 as [<-|G1].
    + exists (ax', items). split; simpl; auto.
    + destruct IH as [g' [H1 H2]]; [exists g; auto|]. exists g'. split; auto. now right.
Qed.

Lemma groups_complete cs : forall kc : kcons, In kc cs -> has (groups cs) (fst kc) (snd (snd kc)).
Proof.
  unfold groups.
  assert (G : forall (cs : list kcons) gs,
            (forall k c, has gs k c ->
               has (fold_left (fun gs (kc : kcons) => add_group (fst kc) (fst (snd kc)) (snd (snd kc)) gs) cs gs) k c) /\
            (forall kc : kcons, In kc cs ->
               has (fold_left (fun gs (kc : kcons) => add_group (fst kc) (fst (snd kc)) (snd (snd kc)) gs) cs gs)
                   (fst kc) (snd (snd kc)))).
  { clear. induction cs as [|kc0 r IH]; intro gs; simpl.
    - split; auto. intros kc [].
    - destruct (IH (add_group (fst kc0) (fst (snd kc0)) (snd (snd kc0)) gs)) as [I1 I2]. split.
      + intros k c H. apply I1. now apply add_group_has_old.
      + intros kc [<-|H]; auto. apply I1. apply add_group_has_new. }
  intros kc H. now apply (proj2 (G cs [])).
Qed.

Lemma in_snd_assoc_swap (ps : kpairs) k : In k (map snd ps) -> assoc k (map swap ps) <> None.
Proof.
  intro H. assert (M : mem k (keys (map swap ps)) = true).
  { apply mem_in. unfold keys. rewrite map_map. exact H. }
  rewrite mem_keys_assoc in M. destruct (assoc k (map swap ps)); [discriminate|discriminate].
Qed.

(* a coordinate reference names constructs of its own field only - or keys that are not renamed *)
Definition crs_refs_ok (rk : string -> string) (y : field) : Prop :=
  forall kr k, In kr (f_crs y) -> In k (refs (snd kr)) -> In k (keys (f_cons y)) \/ rk k = k.

Theorem field_key_blind : forall ra rk ro o x y,
  inj ra -> inj rk -> cms_names_fixed ra y -> crs_refs_ok rk y ->
  field_eq New o x (ren_field ra rk ro y) = field_eq New o x y.
Proof.
  intros ra rk ro o x y Ia Ik Hcm Hcr. unfold field_eq.
  change (f_isfield (ren_field ra rk ro y)) with (f_isfield y).
  change (f_props (ren_field ra rk ro y)) with (f_props y).
  change (f_data (ren_field ra rk ro y)) with (f_data y).
  rewrite (constructs_eq_ren ra rk ro Ia Ik o x y Hcm); auto.
  intros aps ps kr k G L Hkr Hk A.
  destruct (Hcr kr k Hkr Hk) as [Hin|]; auto. exfalso.
  unfold keys in Hin. apply in_map_iff in Hin. destruct Hin as [kc [E Hkc]].
  destruct (groups_complete (f_cons y) kc Hkc) as [g [G1 G2]].
  apply (in_snd_assoc_swap ps k); auto.
  rewrite <- E. exact (match_groups_cover _ _ _ _ _ _ G L g (fst kc, snd (snd kc)) G1 G2).
Qed.

Corollary field_equals_renamed_copy : forall ra rk ro o x,
  opts_ok o -> wf_field x -> inj ra -> inj rk -> cms_names_fixed ra x -> crs_refs_ok rk x ->
  field_eq New o x (ren_field ra rk ro x) = Some (Ok true).
Proof.
  intros. rewrite field_key_blind; auto. now apply field_copy_equal.
Qed.

(* ====================================================================== *)
(* I. the order in which the domain axes were inserted plays no part        *)
(* ====================================================================== *)
Definition set_axes (y : field) (ax : list (string * option Z)) : field :=
  mkF (f_isfield y) (f_props y) (f_data y) (f_daxes y) ax (f_cons y) (f_cms y) (f_crs y).

Lemma insert_comm x y l : insert x (insert y l) = insert y (insert x l).
Proof.
  induction l as [|z l IH]; simpl.
  - destruct (Z.leb_spec x y), (Z.leb_spec y x); simpl;
      repeat match goal with |- context [(?a <=? ?b)] => destruct (Z.leb_spec a b) end;
      try reflexivity; try lia. assert (x = y) by lia. now subst.
  - repeat (match goal with |- context [(?a <=? ?b)] => destruct (Z.leb_spec a b) end; simpl);
      try reflexivity; try lia; try (assert (x = y) by lia; now subst). now rewrite IH.
Qed.

Lemma sortZ_perm l l' : Permutation l l' -> sortZ l = sortZ l'.
Proof.
  unfold sortZ. induction 1; simpl; auto.
  - now rewrite IHPermutation.
  - apply insert_comm.
  - congruence.
Qed.

Lemma sizes_eq_perm x ax ax' : Permutation ax ax' -> sizes_eq New x ax' = sizes_eq New x ax.
Proof.
  intro P. unfold sizes_eq. cbn [fixE New negb andb]. f_equal. f_equal.
  apply sortZ_perm. apply Permutation_map. now apply Permutation_sym.
Qed.

Lemma mem_perm {V} (ax ax' : list (string * V)) k : Permutation ax ax' -> mem k (keys ax) = mem k (keys ax').
Proof.
  intro P. assert (Q : Permutation (keys ax) (keys ax')) by (unfold keys; now apply Permutation_map).
  destruct (mem k (keys ax)) eqn:A, (mem k (keys ax')) eqn:B; auto.
  - apply mem_in in A. apply (Permutation_in _ Q) in A. apply mem_in in A. congruence.
  - apply mem_in in B. apply (Permutation_in _ (Permutation_sym Q)) in B. apply mem_in in B. congruence.
Qed.

Lemma assoc_In {V} k (l : list (string * V)) v : assoc k l = Some v -> In (k, v) l.
Proof.
  induction l as [|[k' v'] r IH]; simpl; [discriminate|].
  destruct (String.eqb k k') eqn:E.
  - intro H; inversion H; subst. apply String.eqb_eq in E. subst. now left.
  - intro H. right. now apply IH.
Qed.

Lemma assoc_perm {V} (ax ax' : list (string * V)) k :
  NoDup (keys ax) -> Permutation ax ax' -> assoc k ax = assoc k ax'.
Proof.
  intros N P.
  assert (N' : NoDup (keys ax')).
  { eapply Permutation_NoDup; [|exact N]. unfold keys. now apply Permutation_map. }
  destruct (assoc k ax) as [v|] eqn:A.
  - apply assoc_In in A. apply (Permutation_in _ P) in A. symmetry. now apply assoc_nodup.
  - destruct (assoc k ax') as [v|] eqn:B; auto. apply assoc_In in B.
    apply (Permutation_in _ (Permutation_sym P)) in B. rewrite (assoc_nodup ax k v N B) in A. discriminate.
Qed.

Section AxesExt.
  Variables ax0 ax1 ax1' : list (string * option Z).
  Hypothesis Hm : forall k, mem k (keys ax1') = mem k (keys ax1).
  Hypothesis Hs : forall k, axsize ax1' k = axsize ax1 k.

  Lemma scan_axes1_ext orig axis0 fuel : forall a m i axes1 indices,
    scan_axes1 New ax0 ax1' a m orig axis0 fuel i axes1 indices
    = scan_axes1 New ax0 ax1 a m orig axis0 fuel i axes1 indices.
  Proof.
    induction fuel as [|fuel IH]; intros; cbn [scan_axes1]; auto.
    destruct (nth_error axes1 i); auto. rewrite Hm, Hs, !IH. reflexivity.
  Qed.

  Lemma scan_axes0_ext orig axes0 : forall a m axes1 indices,
    scan_axes0 New ax0 ax1' a m orig axes0 axes1 indices = scan_axes0 New ax0 ax1 a m orig axes0 axes1 indices.
  Proof.
    induction axes0 as [|axis0 r IH]; intros; cbn [scan_axes0]; auto.
    rewrite scan_axes1_ext. destruct (scan_axes1 New ax0 ax1 a m orig axis0 (S (length axes1)) 0 axes1 indices); auto.
  Qed.

  Lemma cms_zip_eq_ext o l0 : forall l1 a m,
    cms_zip_eq New o ax0 ax1' a m l0 l1 = cms_zip_eq New o ax0 ax1 a m l0 l1.
  Proof.
    induction l0 as [|[k0 c0] r0 IH]; intros l1 a m; cbn [cms_zip_eq]; auto.
    destruct l1 as [|[k1 c1] r1]; auto. unfold one_cm_eq. rewrite scan_axes0_ext.
    destruct (negb (Nat.eqb (length (m_axes c0)) (length (m_axes c1)))); auto.
    destruct (scan_axes0 New ax0 ax1 a m (m_axes c1) (m_axes c0) (m_axes c1) []) as [[[indices a'] m']|]; auto.
    destruct (negb (Nat.eqb (length (m_axes c1)) (length indices))); auto.
    destruct (sorted_intervals New c1 indices) as [iv|e]; cbn [rbind]; auto.
    destruct (cm_eq o c0 (mkM (m_axes c0) (m_method c1) (m_quals c1) iv)); auto.
  Qed.
End AxesExt.

Theorem field_axes_order_blind : forall o x y ax',
  NoDup (keys (f_axes y)) -> Permutation (f_axes y) ax' ->
  field_eq New o x (set_axes y ax') = field_eq New o x y.
Proof.
  intros o x y ax' N P. unfold field_eq, constructs_eq, set_axes.
  cbn [f_isfield f_props f_data f_daxes f_axes f_cons f_cms f_crs].
  rewrite (sizes_eq_perm (f_axes x) (f_axes y) ax' P).
  destruct (negb (Bool.eqb (f_isfield x) (f_isfield y))); auto. f_equal. f_equal. f_equal.
  destruct (negb (Nat.eqb (length (groups (f_cons x))) (length (groups (f_cons y))))); auto.
  destruct (match_groups New (nested o) (f_cons y) (groups (f_cons x)) (groups (f_cons y))) as [[[aps ps]|]|e]; auto.
  match goal with |- match map_all_axes New [] [] ?a with _ => _ end = _ =>
    destruct (map_all_axes New [] [] a) as [[[m01 m10]|]|e] end; auto.
  f_equal. unfold cms_eq. destruct (negb (Nat.eqb (length (f_cms x)) (length (f_cms y)))); auto.
  apply cms_zip_eq_ext.
  - intro k. symmetry. now apply mem_perm.
  - intro k. unfold axsize. now rewrite (assoc_perm (f_axes y) ax' k N P).
Qed.

(* ====================================================================== *)
(* J. the option forms of ignore_properties; the redundant-property rule    *)
(* ====================================================================== *)
(* the names Properties.equals drops are the given names, plus the fill-value names exactly
   when ignore_fill_value is set - whatever form (None / str / sequence) the option has *)
Theorem ignored_names : forall ifv ip,
  exists l, ign_list New ifv ip = Ok l /\
            forall n, In n l <-> (In n (ip_list ip) \/ (ifv = true /\ In n fill_names)).
Proof.
  intros ifv ip. unfold ign_list. cbn [fixB New]. destruct ifv.
  - eexists; split; [reflexivity|]. intro n. rewrite in_app_iff. intuition.
  - eexists; split; [reflexivity|]. intro n. intuition. discriminate.
Qed.

(* a single name given as a string is the same as a one-element sequence *)
Theorem ignore_forms_agree : forall ifv s, s <> EmptyString ->
  ign_list New ifv (IPStr s) = ign_list New ifv (IPSeq [s]) /\
  ip_list (IPStr s) = [s] /\ ip_list IPNone = [] /\ ip_list (IPStr EmptyString) = [].
Proof.
  intros ifv s N. unfold ign_list, ip_list. cbn [fixB New].
  destruct (String.eqb_spec s ""%string) as [E|_]; [contradiction|]. auto.
Qed.

Lemma keys_strip {A} ign (l : list (string * A)) p :
  In p (keys (strip ign l)) <-> (In p (keys l) /\ mem p ign = false).
Proof.
  unfold keys, strip. split.
  - intro H. apply in_map_iff in H. destruct H as [[k v] [<- H]]. apply filter_In in H. destruct H as [H M].
    simpl in *. split; [change k with (fst (k, v)); now apply in_map|]. now apply negb_true_iff in M.
  - intros [H M]. apply in_map_iff in H. destruct H as [[k v] [<- H]]. apply in_map_iff. exists (k, v).
    split; auto. apply filter_In. split; auto. simpl in *. now rewrite M.
Qed.

Lemma pd_eq_true_keys o ip u w ign p :
  pd_eq New o ip u w = Ok true -> (p_ext u = false \/ p_ext w = false) ->
  ign_list New (o_ifv o) ip = Ok ign -> mem p ign = false ->
  (In p (keys (p_props u)) <-> In p (keys (p_props w))).
Proof.
  intros H X E M. apply pd_equal_components in H. destruct H as (H1 & _ & H3).
  assert (Xu : p_ext u = false) by (destruct X as [X|X]; congruence).
  destruct (H3 Xu) as (ign' & E' & K & _). rewrite E in E'. inversion E'; subst ign'.
  specialize (K p). rewrite !keys_strip in K. tauto.
Qed.

Lemma inheritable_not_fill p : In p inheritable -> mem p fill_names = false.
Proof. simpl. intuition; subst; reflexivity. Qed.

Lemma mem_app p l1 l2 : mem p (l1 ++ l2) = mem p l1 || mem p l2.
Proof. unfold mem. apply existsb_app. Qed.

Lemma not_redundant_not_listed px bx py by_ p :
  redundant_on px bx p = false \/ redundant_on py by_ p = false -> mem p (redundant px bx py by_) = false.
Proof.
  intro H. destruct (mem p (redundant px bx py by_)) eqn:M; auto. apply mem_in in M.
  unfold redundant in M. apply filter_In in M. destruct M as [_ M].
  apply andb_true_iff in M. destruct M as [_ M]. apply andb_true_iff in M. destruct M as [M1 M2].
  destruct H; congruence.
Qed.

Lemma assoc_none_notin {A} p (l : list (string * A)) : assoc p l = None -> ~ In p (keys l).
Proof. intros H I. apply mem_in in I. rewrite mem_keys_assoc, H in I. discriminate. Qed.

Lemma assoc_some_in {A} p (l : list (string * A)) v : assoc p l = Some v -> In p (keys l).
Proof. intro H. apply mem_in. now rewrite mem_keys_assoc, H. Qed.

(* a bounds property that contradicts the parent (or that the parent has not), set on the bounds
   of one side only, makes the two constructs unequal - whichever is asked *)
Theorem bounds_contradiction_discriminates : forall o x y u w p b,
  c_bounds x = Some u -> c_bounds y = Some w -> p_ext u = false ->
  In p inheritable -> assoc p (p_props u) = Some b ->
  redundant_on (p_props (c_pd x)) (p_props u) p = false ->
  assoc p (p_props w) = None ->
  cons_body_eq New o x y <> Ok true /\ cons_body_eq New o y x <> Ok true.
Proof.
  intros o x y u w p b Hx Hy Xu Hp Au R Aw.
  assert (G : forall red, mem p red = false ->
              exists ign, ign_list New (o_ifv o) (IPSeq red) = Ok ign /\ mem p ign = false).
  { intros red M. unfold ign_list. cbn [fixB New ip_list]. destruct (o_ifv o); eexists; split; try reflexivity; auto.
    now rewrite mem_app, M, (inheritable_not_fill p Hp). }
  split; intro H; apply cons_equal_components in H; destruct H as (_ & _ & _ & Hb & _);
    unfold bounds_eq in Hb; rewrite Hx, Hy in Hb; cbn [fixR New] in Hb.
  - destruct (G _ (not_redundant_not_listed _ _ (p_props (c_pd y)) (p_props w) p (or_introl R))) as [ign [E M]].
    apply (assoc_none_notin p _ Aw).
    apply (proj1 (pd_eq_true_keys o _ u w ign p Hb (or_introl Xu) E M)). eapply assoc_some_in; eauto.
  - destruct (G _ (not_redundant_not_listed (p_props (c_pd y)) (p_props w) _ _ p (or_intror R))) as [ign [E M]].
    apply (assoc_none_notin p _ Aw).
    apply (proj2 (pd_eq_true_keys o _ w u ign p Hb (or_intror Xu) E M)). eapply assoc_some_in; eauto.
Qed.

(* ... whereas bounds that merely repeat the value the parent has are the same as bounds that do
   not set the property *)
Definition with_bprop (c : cons) (u : pd) (p : string) (v : pval) : cons :=
  mkC (c_cls c) (c_pd c) (c_geom c)
      (Some (mkP (p_props u ++ [(p, v)]) (p_data u) (p_ext u) (p_ncvar u))) (c_iring c) (c_meas c).

Lemma strip_app2 {A} ign (l l' : list (string * A)) : strip ign (l ++ l') = strip ign l ++ strip ign l'.
Proof. unfold strip. apply filter_app. Qed.

Lemma opt_data_eq_refl r a idt ifv icomp d : tol_ok r -> tol_ok a -> opt_data_eq r a idt ifv icomp d d = true.
Proof. intros; destruct d; simpl; auto. now apply data_eq_refl. Qed.

Lemma pd_eq_extra_ignored o ip u p v ign :
  opts_ok o -> wf_pd u -> ign_list New (o_ifv o) ip = Ok ign -> mem p ign = true ->
  let u' := mkP (p_props u ++ [(p, v)]) (p_data u) (p_ext u) (p_ncvar u) in
  pd_eq New o ip u u' = Ok true /\ pd_eq New o ip u' u = Ok true.
Proof.
  intros [Hr Ha] W E M u'. unfold pd_eq, u'. cbn [p_props p_data p_ext p_ncvar].
  rewrite bool_eqb_refl. cbn [negb]. destruct (p_ext u).
  - now rewrite (option_eqb_refl String.eqb _ String.eqb_refl).
  - rewrite E. cbn [rbind]. unfold props_eq. rewrite strip_app2.
    assert (S : strip ign [(p, v)] = []) by (unfold strip; simpl; now rewrite M).
    rewrite S, app_nil_r, dict_eq_refl, opt_data_eq_refl; auto using strip_nodup, pval_eq_refl.
Qed.

Theorem redundant_repeat_equal : forall o x u p v q,
  opts_ok o -> wf_cons x -> c_bounds x = Some u -> In p inheritable -> ~ In p (keys (p_props u)) ->
  assoc p (p_props (c_pd x)) = Some q -> pval_eq_default v q = true ->
  cons_body_eq New o x (with_bprop x u p v) = Ok true /\ cons_body_eq New o (with_bprop x u p v) x = Ok true.
Proof.
  intros o x u p v q Ho (W1 & W2 & W3) Hx Hp Nin Aq Eq.
  assert (Wu : wf_pd u) by (rewrite Hx in W2; exact W2).
  assert (An : assoc p (p_props u) = None).
  { destruct (assoc p (p_props u)) eqn:A; auto. exfalso. apply Nin. eapply assoc_some_in; eauto. }
  set (px := p_props (c_pd x)). set (bu := p_props u).
  assert (R : mem p (redundant px bu px (bu ++ [(p, v)])) = true).
  { apply mem_in. unfold redundant. apply filter_In. split; auto.
    assert (K : mem p (keys (bu ++ [(p, v)])) = true).
    { apply mem_in. unfold keys. rewrite map_app. apply in_or_app. right. now left. }
    rewrite K, orb_true_r. cbn [andb]. unfold redundant_on. rewrite assoc_app. subst bu px. rewrite An.
    simpl. rewrite String.eqb_refl, Aq. exact Eq. }
  assert (G : exists ign, ign_list New (o_ifv o) (IPSeq (redundant px bu px (bu ++ [(p, v)]))) = Ok ign
                          /\ mem p ign = true).
  { unfold ign_list. cbn [fixB New ip_list]. destruct (o_ifv o); eexists; split; try reflexivity; auto.
    now rewrite mem_app, R. }
  destruct G as [ign [E M]].
  destruct (pd_eq_extra_ignored o _ u p v ign Ho Wu E M) as [P1 P2].
  unfold cons_body_eq, bounds_eq, with_bprop.
  cbn [c_pd c_geom c_bounds c_iring c_meas p_props fixR New]. rewrite Hx.
  rewrite pd_eq_refl, !opt_pd_eq_refl, !(option_eqb_refl String.eqb _ String.eqb_refl); auto.
  cbn [andR]. subst px bu.
  rewrite (redundant_sym (p_props (c_pd x)) (p_props u ++ [(p, v)]) (p_props (c_pd x)) (p_props u)), P1, P2. auto.
Qed.

(* ====================================================================== *)
(* witnesses and non-vacuity                                               *)
(* ====================================================================== *)
From CfdmV Require Import C05.Refuted.

Lemma mid_short_intervals_refuted : exists o x,
  top_eq Mid o x x = Some (Err IndexErr) /\ top_eq New o x x = Some (Ok true).
Proof. eexists _, _. exact mid_short_intervals_witness. Qed.

Lemma mid_surplus_intervals_refuted : exists o x,
  top_eq Mid o x x = Some (Ok false) /\ top_eq New o x x = Some (Ok true).
Proof. eexists _, _. exact mid_surplus_intervals_witness. Qed.

Lemma mid_key_blind_unspanned_axis_refuted : exists o x y y',
  (* y' is y with one domain axis key renamed throughout *)
  top_eq Mid o x y = Some (Ok true) /\ top_eq Mid o x y' = Some (Ok false) /\
  top_eq New o x y' = Some (Ok true).
Proof. eexists _, _, _, _. exact mid_key_blind_unspanned_axis_witness. Qed.

Lemma order_blind_twin_axes_refuted : exists o x y y',
  (* y' is y with its two coordinate constructs inserted in the other order *)
  top_eq New o x y = Some (Ok true) /\ top_eq New o x y' = Some (Ok false).
Proof. eexists _, _, _, _. exact order_blind_twin_axes_witness. Qed.

Lemma o0_ok : opts_ok o0.
Proof. split; apply default_tol_ok. Qed.

(* a renaming that is injective: prefix every key *)
Definition pre (s : string) : string := String "r"%char s.
Lemma pre_inj : inj pre.
Proof. intros a b H. now inversion H. Qed.

Definition base_cm : field :=
  fld [a0; a1] (base_axes ++ [("domainaxis2"%string, Some 1)]) base_cons
      [("cellmethod0"%string, cm ["domainaxis2"%string]); ("cellmethod1"%string, cm [a0; a1])].

Lemma base_cm_wf : wf_field base_cm.
Proof.
  unfold wf_field, wf_cons, wf_pd, wf_opd, wf_cm, wf_cr; simpl.
  splits; repeat constructor; simpl; intuition discriminate.
Qed.

Lemma examples_nonvacuous :
  opts_ok o0 /\ wf_cons lat /\ wf_field base_cm /\
  exact (mkO (Some (0, 1)) (Some (0, 1)) false false IPNone true false) /\
  inj pre /\ cms_names_fixed pre base_cm /\ crs_refs_ok pre base_cm /\
  cons_eq New o0 lat lat = Some (Ok true) /\
  top_eq New o0 (TField base_cm) (TField base_cm) = Some (Ok true) /\
  top_eq New o0 (TField base_cm) (TField (ren_field pre pre pre base_cm)) = Some (Ok true).
Proof.
  splits; try (vm_compute; reflexivity).
  - exact o0_ok.
  - unfold wf_cons, wf_pd, wf_opd; simpl. splits; auto. repeat constructor; simpl; intuition discriminate.
  - exact base_cm_wf.
  - split; split; simpl; lia.
  - exact pre_inj.
  - intros kc x Hk Hx M. simpl in Hk.
    destruct Hk as [<-|[<-|[]]]; simpl in Hx;
      repeat match goal with H : _ \/ _ |- _ => destruct H as [<-|H] end; try contradiction;
      vm_compute in M; discriminate.
  - intros kr k [].
Qed.

(* a coordinate with bounds, for the redundant-property rule *)
Definition bnd : pd := mkP [] (Some (dat [3; 2] [0; 1; 1; 2; 2; 3])) false None.
Definition latb : cons :=
  mkC CDim (mkP [("standard_name"%string, PStr "latitude"); ("positive"%string, PStr "up")]
                (Some (dat [3] [1; 2; 3])) false None) None (Some bnd) None None.

Lemma examples_bounds_nonvacuous :
  wf_cons latb /\ c_bounds latb = Some bnd /\ In "positive"%string inheritable /\
  ~ In "positive"%string (keys (p_props bnd)) /\
  pval_eq_default (PStr "up") (PStr "up") = true /\
  redundant_on (p_props (c_pd latb)) (p_props bnd ++ [("positive"%string, PStr "down")]) "positive" = false /\
  cons_body_eq New o0 latb (with_bprop latb bnd "positive" (PStr "up")) = Ok true /\
  cons_body_eq New o0 latb (with_bprop latb bnd "positive" (PStr "down")) = Ok false /\
  cons_body_eq New o0 (with_bprop latb bnd "positive" (PStr "down")) latb = Ok false /\
  cons_body_eq New o0 (with_bprop latb bnd "positive" (PStr "down"))
                      (with_bprop latb bnd "positive" (PStr "down")) = Ok true /\
  cons_body_eq New o0 (with_bprop latb bnd "axis" (PStr "Y")) latb = Ok false.
Proof.
  splits; try (vm_compute; reflexivity).
  - unfold wf_cons, wf_pd, wf_opd; simpl. splits; repeat constructor; simpl; intuition discriminate.
  - simpl. tauto.
  - simpl. tauto.
Qed.

Lemma cross_class_asymmetry_refuted : exists o x y,
  exact o /\ wf_cons x /\ wf_cons y /\ cons_eq New o x y = Some (Ok true) /\ cons_eq New o y x = Some (Ok false).
Proof.
  eexists _, _, _. splits; try exact (proj1 cross_class_asymmetry_witness);
    try exact (proj2 cross_class_asymmetry_witness).
  - split; split; simpl; lia.
  - unfold wf_cons, wf_pd, wf_opd; simpl. splits; auto. repeat constructor; simpl; intuition.
  - unfold wf_cons, wf_pd, wf_opd; simpl. splits; auto. repeat constructor; simpl; intuition.
Qed.
