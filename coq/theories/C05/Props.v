(* C05 - the property theorems, nothing else.  Each is closed by [exact] of a lemma from
   Lemmas.v and followed by Print Assumptions.  [New] is the model of cfdm's equals with the
   repairs C05-fix-1..5 (in /repo) and C05-fix2-1..2; [Mid] is the code without the latter two;
   Refuted.v holds the witnesses against the code as it was. *)
From CfdmV Require Import Common.Base C05.Model C05.Lemmas.
From Coq Require Import Permutation.
Open Scope Z_scope.

(* The heart of Constructs.equals: greedy matching (take the first not yet used construct of
   the other collection that equals this one) under an equivalence relation succeeds exactly
   when the two collections are equal as multisets of equivalence classes - for lists of any
   length. *)
Theorem C05_greedy_decides_multiset :
  forall (A : Type) (eqb : A -> A -> bool),
  (forall x, eqb x x = true) -> (forall x y, eqb x y = eqb y x) ->
  (forall x y z, eqb x y = true -> eqb y z = true -> eqb x z = true) ->
  forall xs ys, matched (greedyR (eqR A eqb) xs ys) = true <-> (forall z, cnt A eqb z xs = cnt A eqb z ys).
Proof. exact greedy_counts. Qed.
Print Assumptions C05_greedy_decides_multiset.

(* ... hence the outcome of the matching does not depend on the order in which the constructs
   were inserted into either collection (keys play no part: they are not arguments). *)
Theorem C05_matching_order_blind :
  forall (A : Type) (eqb : A -> A -> bool),
  (forall x, eqb x x = true) -> (forall x y, eqb x y = eqb y x) ->
  (forall x y z, eqb x y = true -> eqb y z = true -> eqb x z = true) ->
  forall xs xs' ys ys', Permutation xs xs' -> Permutation ys ys' ->
  matched (greedyR (eqR A eqb) xs ys) = matched (greedyR (eqR A eqb) xs' ys').
Proof. exact greedy_order_blind. Qed.
Print Assumptions C05_matching_order_blind.

(* ... and the pairing it returns (from which the key map and the axis map are built) is a
   genuine one-to-one pairing of equal constructs (for any relation at all). *)
Theorem C05_matching_sound :
  forall (A : Type) (eqb : A -> A -> bool) xs ys ps, greedyR (eqR A eqb) xs ys = Ok (Some ps) ->
  map fst ps = xs /\ Permutation (map snd ps) ys /\ Forall (fun p => eqb (fst p) (snd p) = true) ps.
Proof. exact greedy_sound. Qed.
Print Assumptions C05_matching_sound.

(* Totality, unguarded: with every option combination, comparing anything with anything
   returns True or False ([Some (Ok _)]) or is outside the model ([None]: ignore_type between
   classes whose conversion is not modelled) - it never raises.  (The indices that
   CellMethod.sorted uses are proved to be positions in the axes of the cell method.) *)
Theorem C05_total :
  forall o x y, match top_eq New o x y with Some (Err _) => False | _ => True end.
Proof. exact top_eq_total. Qed.
Print Assumptions C05_total.

(* Before C05-fix2-1 the statement was false: CellMethod.sorted indexed the intervals by axis
   position (IndexError for fewer intervals than axes) and dropped surplus intervals (a field
   unequal to its own copy). *)
Theorem C05_mid_short_intervals_refuted :
  exists o x, top_eq Mid o x x = Some (Err IndexErr) /\ top_eq New o x x = Some (Ok true).
Proof. exact mid_short_intervals_refuted. Qed.
Print Assumptions C05_mid_short_intervals_refuted.

Theorem C05_mid_surplus_intervals_refuted :
  exists o x, top_eq Mid o x x = Some (Ok false) /\ top_eq New o x x = Some (Ok true).
Proof. exact mid_surplus_intervals_refuted. Qed.
Print Assumptions C05_mid_surplus_intervals_refuted.

(* A construct with data equals any structurally identical construct (its copy), for every
   option set with non-negative tolerances. *)
Theorem C05_copy_construct :
  forall o x, opts_ok o -> wf_cons x -> cons_eq New o x x = Some (Ok true).
Proof. exact cons_copy_equal. Qed.
Print Assumptions C05_copy_construct.

(* Symmetry whenever no numerical tolerance is in play (rtol = atol = 0), for constructs with
   data (properties, data, bounds, geometry, interior ring, measure, external variables) and
   for data. *)
Theorem C05_sym_exact_construct :
  forall o x y, exact o -> wf_cons x -> wf_cons y -> sym_scope o x y ->
  cons_eq New o x y = cons_eq New o y x.
Proof. exact cons_sym_exact. Qed.
Print Assumptions C05_sym_exact_construct.

Theorem C05_sym_exact_data :
  forall o x y, exact o -> top_eq New o (TData x) (TData y) = top_eq New o (TData y) (TData x).
Proof. exact data_sym_exact. Qed.
Print Assumptions C05_sym_exact_data.

(* Discrimination: if two data objects compare equal then shape, mask, units, calendar agree,
   fill value / data type / compression type agree unless the matching ignore option is set,
   and every pair of unmasked elements is within tolerance. *)
Theorem C05_discriminates_data :
  forall r a idt ifv icomp x y, data_eq r a idt ifv icomp x y = true ->
  a_shape (d_arr x) = a_shape (d_arr y) /\
  mask_of (d_arr x) = mask_of (d_arr y) /\
  d_units x = d_units y /\ d_cal x = d_cal y /\
  (ifv = false -> d_fill x = d_fill y) /\
  (idt = false -> a_tag (d_arr x) = a_tag (d_arr y) \/ (a_str (d_arr x) = true /\ a_str (d_arr y) = true)) /\
  (icomp = false -> d_ctype x = d_ctype y) /\
  forallb2 (elem_eq (if a_str (d_arr x) then (if a_str (d_arr y) then 1 else 2)
                     else (if a_str (d_arr y) then 2 else 0)) r a)
           (a_vals (d_arr x)) (a_vals (d_arr y)) = true.
Proof. exact data_equal_components. Qed.
Print Assumptions C05_discriminates_data.

(* ... if two constructs compare equal then geometry type, measure, presence of bounds and of
   an interior ring agree, the bounds and interior rings compare equal, and so does the
   PropertiesData part ... *)
Theorem C05_discriminates_construct :
  forall o x y, cons_body_eq New o x y = Ok true ->
  pd_eq New o (o_ip o) (c_pd x) (c_pd y) = Ok true /\
  c_geom x = c_geom y /\ c_meas x = c_meas y /\
  bounds_eq New o x y = Ok true /\
  opt_pd_eq New o (c_iring x) (c_iring y) = Ok true /\
  is_none (c_bounds x) = is_none (c_bounds y) /\ is_none (c_iring x) = is_none (c_iring y).
Proof. exact cons_equal_components. Qed.
Print Assumptions C05_discriminates_construct.

(* ... where the PropertiesData part being equal means: both or neither external (then the
   netCDF variable names agree); otherwise the same property names outside the ignore list,
   each with equal values, and equal data. *)
Theorem C05_discriminates_properties :
  forall o ip x y, pd_eq New o ip x y = Ok true ->
  p_ext x = p_ext y /\
  (p_ext x = true -> p_ncvar x = p_ncvar y) /\
  (p_ext x = false ->
     exists ign, ign_list New (o_ifv o) ip = Ok ign /\
       (forall k, In k (keys (strip ign (p_props x))) <-> In k (keys (strip ign (p_props y)))) /\
       (forall k v, In (k, v) (strip ign (p_props x)) ->
          exists w, assoc k (strip ign (p_props y)) = Some w /\ pval_eq (rt o) (at_ o) v w = true) /\
       opt_data_eq (rt o) (at_ o) (o_idt o) (o_ifv o) (o_icomp o) (p_data x) (p_data y) = true).
Proof. exact pd_equal_components. Qed.
Print Assumptions C05_discriminates_properties.

(* Each ignore option removes exactly the class of difference it names: comparing with the
   option set is the same as comparing, without it, the operands from which that component has
   been erased. *)
Theorem C05_ignore_options_exact :
  (forall r a idt icomp x y,
     data_eq r a idt true icomp x y = data_eq r a idt false icomp (no_fill x) (no_fill y)) /\
  (forall r a ifv icomp x y,
     data_eq r a true ifv icomp x y = data_eq r a false ifv icomp (no_tag x) (no_tag y)) /\
  (forall r a idt ifv x y,
     data_eq r a idt ifv true x y = data_eq r a idt ifv false (no_comp x) (no_comp y)) /\
  (forall r a ign p q, props_eq r a ign p q = props_eq r a [] (strip ign p) (strip ign q)).
Proof.
  exact (conj ignore_fill_value_exact (conj ignore_data_type_exact
        (conj ignore_compression_exact ignore_properties_exact))).
Qed.
Print Assumptions C05_ignore_options_exact.

(* The axes a construct spans: when Constructs.equals answers True there is ONE one-to-one
   correspondence of domain axes under which the axes of every pair of matched construct
   groups AND the axes spanned by the two fields' data correspond position by position. *)
Theorem C05_axis_map_sound :
  forall o x y, constructs_eq New o x y = Ok true ->
  exists aps ps m01 m10,
    match_groups New (nested o) (f_cons y) (groups (f_cons x)) (groups (f_cons y)) = Ok (Some (aps, ps)) /\
    (forall ax0 ax1 a b,
       (In (ax0, ax1) aps \/ (f_daxes x = Some ax0 /\ f_daxes y = Some ax1)) ->
       In (a, b) (zip ax0 ax1) -> assoc a m01 = Some b /\ assoc b m10 = Some a).
Proof. exact axis_map_sound. Qed.
Print Assumptions C05_axis_map_sound.

Theorem C05_data_axes_one_to_one :
  forall o x y d0 d1, constructs_eq New o x y = Ok true ->
  f_daxes x = Some d0 -> f_daxes y = Some d1 ->
  forall a b a' b', In (a, b) (zip d0 d1) -> In (a', b') (zip d0 d1) -> (a = a' <-> b = b').
Proof. exact data_axes_one_to_one. Qed.
Print Assumptions C05_data_axes_one_to_one.

(* Whole fields and domains.  Reflexivity / copy-equality: a field (properties, data, data
   axes, domain axes, metadata constructs, cell methods, coordinate references) equals every
   structurally identical field, for every option set with non-negative tolerances.
   Guard [wf_field]: names in each dictionary are unique (properties, qualifiers, parameters)
   and no cell method names the same axis twice. *)
Theorem C05_copy_field :
  forall o x, opts_ok o -> wf_field x -> field_eq New o x x = Some (Ok true).
Proof. exact field_copy_equal. Qed.
Print Assumptions C05_copy_field.

(* Key-blindness: renaming the domain axis keys (ra), the keys of the constructs with data (rk)
   and the keys of cell methods and coordinate references (ro: any function at all) of the
   other field, consistently in every place where a key is used (construct axes, data axes, cell
   method axes, coordinate reference coordinates and domain-ancillary terms), never changes the
   answer - True, False alike.  Exact guards: the renamings are injective;
   [cms_names_fixed]: a cell method axis that is not a domain axis key of the field (a standard
   name) is left alone; [crs_refs_ok]: a key named by a coordinate reference that is not a
   construct of the field (a dangling reference, compared by name) is left alone. *)
Theorem C05_key_blind_field :
  forall ra rk ro o x y, inj ra -> inj rk -> cms_names_fixed ra y -> crs_refs_ok rk y ->
  field_eq New o x (ren_field ra rk ro y) = field_eq New o x y.
Proof. exact field_key_blind. Qed.
Print Assumptions C05_key_blind_field.

(* ... hence a field equals every key-renamed copy of itself. *)
Theorem C05_equals_renamed_copy :
  forall ra rk ro o x, opts_ok o -> wf_field x -> inj ra -> inj rk ->
  cms_names_fixed ra x -> crs_refs_ok rk x ->
  field_eq New o x (ren_field ra rk ro x) = Some (Ok true).
Proof. exact field_equals_renamed_copy. Qed.
Print Assumptions C05_equals_renamed_copy.

(* Before C05-fix2-2 key-blindness was false for a cell method over a domain axis that no data
   span (the keys of such axes were compared as if they were standard names). *)
Theorem C05_mid_key_blind_unspanned_axis_refuted :
  exists o x y y', top_eq Mid o x y = Some (Ok true) /\ top_eq Mid o x y' = Some (Ok false) /\
                   top_eq New o x y' = Some (Ok true).
Proof. exact mid_key_blind_unspanned_axis_refuted. Qed.
Print Assumptions C05_mid_key_blind_unspanned_axis_refuted.

(* Insertion order, the part that holds unconditionally: the order in which the domain axis
   constructs of the other field were inserted plays no part (their keys are unique, as in a
   dictionary). *)
Theorem C05_axes_order_blind_field :
  forall o x y ax', NoDup (keys (f_axes y)) -> Permutation (f_axes y) ax' ->
  field_eq New o x (set_axes y ax') = field_eq New o x y.
Proof. exact field_axes_order_blind. Qed.
Print Assumptions C05_axes_order_blind_field.

(* Order-blindness of whole fields is NOT a theorem of the faithful model (open finding
   twin-axes-order): two domain axes carrying indistinguishable construct sets are paired in
   insertion order.  Full statement, not proved at field level (proved for the matching itself,
   C05_matching_order_blind): "if no two axes tuples of the same length of either field carry
   construct sets that match each other, permuting f_cons / f_axes / f_crs of either operand
   does not change the answer". *)
Theorem C05_order_blind_twin_axes_refuted :
  exists o x y y', top_eq New o x y = Some (Ok true) /\ top_eq New o x y' = Some (Ok false).
Proof. exact order_blind_twin_axes_refuted. Qed.
Print Assumptions C05_order_blind_twin_axes_refuted.

(* Non-vacuity: the hypotheses used above are met by concrete constructs / fields (a field with
   a cell method over a domain axis that no data span, and one over two spanned axes). *)
Theorem C05_examples :
  opts_ok C05.Refuted.o0 /\ wf_cons C05.Refuted.lat /\ wf_field base_cm /\
  exact (mkO (Some (0, 1)) (Some (0, 1)) false false IPNone true false) /\
  inj pre /\ cms_names_fixed pre base_cm /\ crs_refs_ok pre base_cm /\
  cons_eq New C05.Refuted.o0 C05.Refuted.lat C05.Refuted.lat = Some (Ok true) /\
  top_eq New C05.Refuted.o0 (TField base_cm) (TField base_cm) = Some (Ok true) /\
  top_eq New C05.Refuted.o0 (TField base_cm) (TField (ren_field pre pre pre base_cm)) = Some (Ok true).
Proof. exact examples_nonvacuous. Qed.
Print Assumptions C05_examples.

(* ---- second deepening round ---- *)

(* The option forms of ignore_properties: the names that Properties.equals drops are exactly the
   given names (None: none; a string: that one name; a sequence: its elements) together with
   _FillValue and missing_value exactly when ignore_fill_value is set. *)
Theorem C05_ignored_names :
  forall ifv ip, exists l, ign_list New ifv ip = Ok l /\
    forall n, In n l <-> (In n (ip_list ip) \/ (ifv = true /\ In n fill_names)).
Proof. exact ignored_names. Qed.
Print Assumptions C05_ignored_names.

Theorem C05_ignore_forms_agree :
  forall ifv s, s <> EmptyString ->
  ign_list New ifv (IPStr s) = ign_list New ifv (IPSeq [s]) /\
  ip_list (IPStr s) = [s] /\ ip_list IPNone = [] /\ ip_list (IPStr EmptyString) = [].
Proof. exact ignore_forms_agree. Qed.
Print Assumptions C05_ignore_forms_agree.

(* The redundant-property rule for bounds (PropertiesDataBounds.equals: an inheritable property is
   left out of the comparison of the bounds when on BOTH sides it is either not set on the bounds
   or set to the value the parent has).  Reflexivity and symmetry survive it: C05_copy_construct,
   C05_sym_exact_construct, C05_copy_field above are theorems about the model WITH the rule.
   It stays discriminating: a property set on the bounds of one side only, to a value that
   contradicts the parent (or that the parent has not), makes the constructs unequal - both ways. *)
Theorem C05_bounds_contradiction_discriminates :
  forall o x y u w p b,
  c_bounds x = Some u -> c_bounds y = Some w -> p_ext u = false ->
  In p inheritable -> assoc p (p_props u) = Some b ->
  redundant_on (p_props (c_pd x)) (p_props u) p = false ->
  assoc p (p_props w) = None ->
  cons_body_eq New o x y <> Ok true /\ cons_body_eq New o y x <> Ok true.
Proof. exact bounds_contradiction_discriminates. Qed.
Print Assumptions C05_bounds_contradiction_discriminates.

(* ... and a redundant repeat of the parent's value is not a difference - both ways. *)
Theorem C05_redundant_repeat_equal :
  forall o x u p v q,
  opts_ok o -> wf_cons x -> c_bounds x = Some u -> In p inheritable -> ~ In p (keys (p_props u)) ->
  assoc p (p_props (c_pd x)) = Some q -> pval_eq_default v q = true ->
  cons_body_eq New o x (with_bprop x u p v) = Ok true /\ cons_body_eq New o (with_bprop x u p v) x = Ok true.
Proof. exact redundant_repeat_equal. Qed.
Print Assumptions C05_redundant_repeat_equal.

Theorem C05_examples_bounds :
  wf_cons latb /\ c_bounds latb = Some bnd /\ In "positive"%string inheritable /\
  ~ In "positive"%string (keys (p_props bnd)) /\
  pval_eq_default (PStr "up") (PStr "up") = true /\
  redundant_on (p_props (c_pd latb)) (p_props bnd ++ [("positive"%string, PStr "down")]) "positive" = false /\
  cons_body_eq New C05.Refuted.o0 latb (with_bprop latb bnd "positive" (PStr "up")) = Ok true /\
  cons_body_eq New C05.Refuted.o0 latb (with_bprop latb bnd "positive" (PStr "down")) = Ok false /\
  cons_body_eq New C05.Refuted.o0 (with_bprop latb bnd "positive" (PStr "down")) latb = Ok false /\
  cons_body_eq New C05.Refuted.o0 (with_bprop latb bnd "positive" (PStr "down"))
                      (with_bprop latb bnd "positive" (PStr "down")) = Ok true /\
  cons_body_eq New C05.Refuted.o0 (with_bprop latb bnd "axis" (PStr "Y")) latb = Ok false.
Proof. exact examples_bounds_nonvacuous. Qed.
Print Assumptions C05_examples_bounds.

(* ---- cross-class pass ---- *)

(* Constructs of different classes: without ignore_type they are unequal; with ignore_type=True
   the answer is exactly that of comparing self, within its own class, with the operand converted
   to that class ([convert]: properties, data and the components the class of self has). *)
Theorem C05_cross_class_semantics :
  forall o x y,
  cls_eqb (c_cls x) (c_cls y) = false -> p_ext (c_pd x) = false -> p_ext (c_pd y) = false ->
  bounded (c_cls x) && bounded (c_cls y) = false ->
  (o_itype o = false -> cons_eq New o x y = Some (Ok false)) /\
  (o_itype o = true -> cons_eq New o x y = cons_eq New o x (convert (c_cls x) y) /\
                       c_cls (convert (c_cls x) y) = c_cls x).
Proof. exact cross_class_semantics. Qed.
Print Assumptions C05_cross_class_semantics.

(* Symmetry (C05_sym_exact_construct) carries the scope [sym_scope]: same class, or
   ignore_type=False, or two coordinate-like classes.  Outside it the statement is false of the
   faithful model (and of cfdm): the conversion is directional (open finding). *)
Theorem C05_cross_class_asymmetry_refuted :
  exists o x y, exact o /\ wf_cons x /\ wf_cons y /\
                cons_eq New o x y = Some (Ok true) /\ cons_eq New o y x = Some (Ok false).
Proof. exact cross_class_asymmetry_refuted. Qed.
Print Assumptions C05_cross_class_asymmetry_refuted.
