(* C05 - evaluation entry points for the correspondence harness. *)
From CfdmV Require Import Common.Base C05.Model.
Open Scope Z_scope.

(* outcome codes shared with harness/props/c05.py:
   1 True, 0 False, -1 TypeError, -2 ValueError, -3 KeyError, -4 IndexError,
   -9 any other exception, 99 outside the model *)
Definition code (r : option (result bool)) : Z :=
  match r with
  | None => 99
  | Some (Ok true) => 1
  | Some (Ok false) => 0
  | Some (Err TypeErr) => -1
  | Some (Err ValueErr) => -2
  | Some (Err KeyErr) => -3
  | Some (Err IndexErr) => -4
  | Some (Err OtherErr) => -9
  end.

(* a case: options, the two operands, what x.equals(y, options) did *)
Definition check_case (c : opts * top * top * Z) : bool :=
  let '(o, x, y, obs) := c in
  let m := code (top_eq New o x y) in
  (m =? 99) || (m =? obs).

(* the same against the code after C05-fix-1..5 and before C05-fix2-1..2 *)
Definition check_case_mid (c : opts * top * top * Z) : bool :=
  let '(o, x, y, obs) := c in
  let m := code (top_eq Mid o x y) in
  (m =? 99) || (m =? obs).

(* the same against the code as it was before the repairs *)
Definition check_case_old (c : opts * top * top * Z) : bool :=
  let '(o, x, y, obs) := c in
  let m := code (top_eq Old o x y) in
  (m =? 99) || (m =? obs).

Definition model_code (c : opts * top * top) : Z :=
  let '(o, x, y) := c in code (top_eq New o x y).
