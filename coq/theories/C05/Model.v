(* C05 - executable model of cfdm's equality tests, transcribed from
   cfdm/mixin/container.py (_equals, _equals_preprocess), mixin/properties.py,
   mixin/propertiesdata.py, mixin/propertiesdatabounds.py, data/data.py,
   cellmeasure.py, domainaxis.py, cellmethod.py, coordinatereference.py,
   mixin/parameters.py, mixin/parametersdomainancillaries.py,
   mixin/fielddomain.py and constructs.py (equals, _axes_to_constructs,
   _equals_domain_axis, _equals_cell_method, _equals_coordinate_reference).

   Definitions only.  A [variant] says which of the repairs proposed in
   /verif/handoff/C05-fix-*.diff are present, so that the same text models
   the code as it was ([Old]) and as repaired ([New]):
     fixA  logger(...) -> logger.info(...) when the numbers of cell methods differ
     fixB  Properties.equals normalises ignore_properties before adding the fill-value names
     fixC  the axes spanned by the field's data take part in the axis mapping
     fixD  an ambiguous axis mapping returns False (its log message used to raise)
     fixE  a domain axis without a size no longer raises in _equals_domain_axis
     fixG  break after matching a cell-method axis given by standard name
     fixH  a construct type with different counts can no longer be "matched"
           through the statement after the loop (for/else)
   and of the second round, /verif/handoff/C05-fix2-*.diff ([Mid] = with fixA..fixH only):
     fixI  CellMethod.sorted reorders the intervals only when there is one per axis
           (it raised IndexError for fewer, and dropped the surplus for more)
     fixU  _equals_cell_method pairs domain axes that no data span by size
           (it compared their construct keys as if they were standard names)
   and of commit 5dc6758 in /repo:
     fixR  PropertiesDataBounds.equals ignores, in the comparison of the bounds, the
           inheritable properties that are redundant on both sides (not set on the bounds,
           or set to the value the parent has)

   Numbers are integers (also in floating-point arrays: the harness generates
   exactly representable values); tolerances are non-negative rationals
   num/den; NaN and infinities are outside the model. *)
From CfdmV Require Import Common.Base.
Open Scope Z_scope.

Record variant := mkV { fixA : bool; fixB : bool; fixC : bool; fixD : bool;
                        fixE : bool; fixG : bool; fixH : bool; fixI : bool; fixU : bool;
                        fixR : bool }.
Definition New := mkV true true true true true true true true true true.
Definition Mid := mkV true true true true true true true false false false.
Definition Old := mkV false false false false false false false false false false.

(* ignore_properties: None, a string, or a sequence of strings *)
Inductive ignp := IPNone | IPStr (s : string) | IPSeq (l : list string).

Record opts := mkO {
  o_rtol : option (Z * Z);      (* None = the global default *)
  o_atol : option (Z * Z);
  o_idt : bool;                 (* ignore_data_type *)
  o_ifv : bool;                 (* ignore_fill_value *)
  o_ip : ignp;                  (* ignore_properties *)
  o_icomp : bool;               (* ignore_compression *)
  o_itype : bool }.             (* ignore_type *)

(* cfdm.atol() = cfdm.rtol() = sys.float_info.epsilon = 2^-52 *)
Definition default_tol : Z * Z := (1, 4503599627370496).
Definition tol_of (t : option (Z * Z)) : Z * Z :=
  match t with Some x => x | None => default_tol end.
Definition rt (o : opts) := tol_of (o_rtol o).
Definition at_ (o : opts) := tol_of (o_atol o).

(* short-circuit "and" of outcomes *)
Definition andR (a k : result bool) : result bool :=
  match a with Ok true => k | Ok false => Ok false | Err e => Err e end.

(* ---- numpy part of Container._equals --------------------------------- *)
(* |x - y| <= atol + rtol * |y|   (numpy.isclose; not symmetric) *)
Definition close (r a : Z * Z) (x y : Z) : bool :=
  let '(nr, dr) := r in let '(na, da) := a in
  Z.abs (x - y) * dr * da <=? na * dr + nr * da * Z.abs y.

(* an array: shape, string kind?, dtype identity tag, flat values (None = masked);
   elements of string arrays are codes of their strings *)
Record arr := mkA { a_shape : list Z; a_str : bool; a_tag : Z; a_vals : list (option Z) }.

Definition is_none {A} (v : option A) : bool := match v with None => true | Some _ => false end.
Definition mask_of (a : arr) : list bool := map is_none (a_vals a).

Fixpoint forallb2 {A B} (f : A -> B -> bool) (l1 : list A) (l2 : list B) : bool :=
  match l1, l2 with
  | [], [] => true
  | x :: r1, y :: r2 => f x y && forallb2 f r1 r2
  | _, _ => false
  end.

(* mode 0: both numeric (allclose); 1: both strings (==); 2: mixed (== is False) *)
Definition elem_eq (mode : Z) (r a : Z * Z) (x y : option Z) : bool :=
  match x, y with
  | None, None => true
  | Some u, Some w => if mode =? 0 then close r a u w else if mode =? 1 then u =? w else false
  | _, _ => false
  end.

Definition np_equals (idt : bool) (r a : Z * Z) (x y : arr) : bool :=
  if negb (list_eqb Z.eqb (a_shape x) (a_shape y)) then false
  else if negb idt && negb (a_tag x =? a_tag y) && negb (a_str x) && negb (a_str y) then false
  else if negb (list_eqb Bool.eqb (mask_of x) (mask_of y)) then false
  else forallb2 (elem_eq (if a_str x then (if a_str y then 1 else 2) else (if a_str y then 2 else 0)) r a)
                (a_vals x) (a_vals y).

(* ---- property / parameter values --------------------------------------- *)
Inductive pval := PStr (s : string) | PArr (a : arr).

Definition pval_eq (r a : Z * Z) (x y : pval) : bool :=
  match x, y with
  | PStr s, PStr t => String.eqb s t
  | PArr u, PArr w => np_equals true r a u w
  | _, _ => false
  end.

Definition mem (s : string) (l : list string) : bool := existsb (String.eqb s) l.
Definition keys {A} (l : list (string * A)) : list string := map fst l.

(* set(d0) != set(d1) on dictionaries, then the values key by key *)
Definition same_keys {A B} (p : list (string * A)) (q : list (string * B)) : bool :=
  forallb (fun k => mem k (keys q)) (keys p) && forallb (fun k => mem k (keys p)) (keys q).

Definition dict_eq {A} (veq : A -> A -> bool) (p q : list (string * A)) : bool :=
  same_keys p q &&
  forallb (fun kv => match assoc (fst kv) q with Some y => veq (snd kv) y | None => false end) p.

(* ---- Properties.equals -------------------------------------------------- *)
Definition ip_list (ip : ignp) : list string :=
  match ip with IPNone => [] | IPStr s => if String.eqb s ""%string then [] else [s] | IPSeq l => l end.

Definition fill_names := ["_FillValue"%string; "missing_value"%string].

(* the names to drop; `ignore_properties += (...)` raised TypeError on None and on a string *)
Definition ign_list (v : variant) (ifv : bool) (ip : ignp) : result (list string) :=
  if ifv then
    if fixB v then Ok (ip_list ip ++ fill_names)
    else match ip with IPSeq l => Ok (l ++ fill_names) | _ => Err TypeErr end
  else Ok (ip_list ip).

Definition strip {A} (ign : list string) (ps : list (string * A)) : list (string * A) :=
  filter (fun kv => negb (mem (fst kv) ign)) ps.

Definition props_eq (r a : Z * Z) (ign : list string) (p q : list (string * pval)) : bool :=
  dict_eq (pval_eq r a) (strip ign p) (strip ign q).

(* ---- Data.equals --------------------------------------------------------- *)
Record data := mkD { d_arr : arr; d_fill : option Z; d_units : option string;
                     d_cal : option string; d_ctype : string; d_carr : arr }.

Definition data_eq (r a : Z * Z) (idt ifv icomp : bool) (x y : data) : bool :=
  list_eqb Z.eqb (a_shape (d_arr x)) (a_shape (d_arr y)) &&
  (ifv || option_eqb Z.eqb (d_fill x) (d_fill y)) &&
  (idt || (a_tag (d_arr x) =? a_tag (d_arr y)) || (a_str (d_arr x) && a_str (d_arr y))) &&
  option_eqb String.eqb (d_units x) (d_units y) &&
  option_eqb String.eqb (d_cal x) (d_cal y) &&
  (icomp || (String.eqb (d_ctype x) (d_ctype y) &&
             (String.eqb (d_ctype x) ""%string || np_equals false r a (d_carr x) (d_carr y)))) &&
  np_equals idt r a (d_arr x) (d_arr y).

Definition opt_data_eq (r a : Z * Z) (idt ifv icomp : bool) (x y : option data) : bool :=
  match x, y with
  | None, None => true
  | Some u, Some w => data_eq r a idt ifv icomp u w
  | _, _ => false
  end.

(* ---- PropertiesData.equals (also Bounds, InteriorRing) ------------------- *)
Record pd := mkP { p_props : list (string * pval); p_data : option data;
                   p_ext : bool; p_ncvar : option string }.

Definition pd_eq (v : variant) (o : opts) (ip : ignp) (x y : pd) : result bool :=
  if negb (Bool.eqb (p_ext x) (p_ext y)) then Ok false
  else if p_ext x then Ok (option_eqb String.eqb (p_ncvar x) (p_ncvar y))
  else rbind (ign_list v (o_ifv o) ip) (fun ign =>
       Ok (props_eq (rt o) (at_ o) ign (p_props x) (p_props y) &&
           opt_data_eq (rt o) (at_ o) (o_idt o) (o_ifv o) (o_icomp o) (p_data x) (p_data y))).

(* ---- the redundant-property rule of PropertiesDataBounds.equals ------------ *)
Definition inheritable : list string :=
  ["units"; "standard_name"; "axis"; "positive"; "calendar"; "month_lengths"; "leap_year"; "leap_month"]%string.

(* self._equals(b, p) with every option at its default (data types are compared) *)
Definition pval_eq_default (x y : pval) : bool :=
  match x, y with
  | PStr s, PStr t => String.eqb s t
  | PArr u, PArr w => np_equals false default_tol default_tol u w
  | _, _ => false
  end.

(* not b.has_property(prop) or (p.has_property(prop) and _equals(b.prop, p.prop)) *)
Definition redundant_on (parent bounds : list (string * pval)) (p : string) : bool :=
  match assoc p bounds with
  | None => true
  | Some b => match assoc p parent with Some q => pval_eq_default b q | None => false end
  end.

Definition redundant (px bx py by_ : list (string * pval)) : list string :=
  filter (fun p => (mem p (keys bx) || mem p (keys by_)) && (redundant_on px bx p && redundant_on py by_ p))
         inheritable.

(* interior ring (and, before fixR, bounds): compared without ignore_properties *)
Definition opt_pd_eq (v : variant) (o : opts) (x y : option pd) : result bool :=
  match x, y with
  | None, None => Ok true
  | Some u, Some w => pd_eq v o IPNone u w
  | _, _ => Ok false
  end.

(* ---- metadata constructs with data ---------------------------------------- *)
Inductive cls := CDim | CAux | CDomAnc | CMeas | CFAnc | CDTop | CCConn.
Definition cls_eqb (a b : cls) : bool :=
  match a, b with
  | CDim, CDim | CAux, CAux | CDomAnc, CDomAnc | CMeas, CMeas | CFAnc, CFAnc
  | CDTop, CDTop | CCConn, CCConn => true
  | _, _ => false
  end.

(* geometry, bounds and interior ring exist for CDim/CAux/CDomAnc only, the
   measure for CMeas only; elsewhere they are None *)
Record cons := mkC { c_cls : cls; c_pd : pd; c_geom : option string;
                     c_bounds : option pd; c_iring : option pd; c_meas : option string }.

(* PropertiesDataBounds.equals / CellMeasure.equals / PropertiesData.equals after the type test *)
(* the bounds: compared ignoring the properties that are redundant on both sides *)
Definition bounds_eq (v : variant) (o : opts) (x y : cons) : result bool :=
  match c_bounds x, c_bounds y with
  | None, None => Ok true
  | Some u, Some w =>
      pd_eq v o (if fixR v
                 then IPSeq (redundant (p_props (c_pd x)) (p_props u) (p_props (c_pd y)) (p_props w))
                 else IPNone) u w
  | _, _ => Ok false
  end.

Definition cons_body_eq (v : variant) (o : opts) (x y : cons) : result bool :=
  andR (pd_eq v o (o_ip o) (c_pd x) (c_pd y))
  (andR (Ok (option_eqb String.eqb (c_geom x) (c_geom y)))
  (andR (bounds_eq v o x y)
  (andR (opt_pd_eq v o (c_iring x) (c_iring y))
        (Ok (option_eqb String.eqb (c_meas x) (c_meas y)))))).

Definition bounded (c : cls) : bool := match c with CDim | CAux | CDomAnc => true | _ => false end.

(* _equals_preprocess with ignore_type=True: `type(self)(source=other, copy=False)` keeps the
   properties, the data and those components that the class of self has (geometry, bounds and
   interior ring for the coordinate-like classes, the measure for a cell measure) and drops the
   others.  (Components a class lacks are None in this representation.) *)
Definition convert (cx : cls) (y : cons) : cons :=
  mkC cx (c_pd y)
      (if bounded cx then c_geom y else None)
      (if bounded cx then c_bounds y else None)
      (if bounded cx then c_iring y else None)
      (match cx with CMeas => c_meas y | _ => None end).

(* None = a conversion that is not modelled (external variables across classes) *)
Definition cons_eq (v : variant) (o : opts) (x y : cons) : option (result bool) :=
  if cls_eqb (c_cls x) (c_cls y) then Some (cons_body_eq v o x y)
  else if negb (o_itype o) then Some (Ok false)
  else if bounded (c_cls x) && bounded (c_cls y) then Some (cons_body_eq v o x y)
  else if p_ext (c_pd x) || p_ext (c_pd y) then None
  else Some (cons_body_eq v o x (convert (c_cls x) y)).

(* ---- DomainAxis.equals ----------------------------------------------------- *)
Definition axis_eq (x y : option Z) : bool := option_eqb Z.eqb x y.

(* ---- CellMethod.equals (the axes are not compared there) ------------------- *)
Record cmeth := mkM { m_axes : list string; m_method : option string;
                      m_quals : list (string * string);   (* all but "interval" *)
                      m_intervals : list data }.

Definition cm_eq (o : opts) (x y : cmeth) : bool :=
  option_eqb String.eqb (m_method x) (m_method y) &&
  dict_eq String.eqb (m_quals x) (m_quals y) &&
  match m_intervals x, m_intervals y with
  | [], [] => true
  | [], _ :: _ => false
  | _ :: _, [] => false
  | i0, i1 => (Nat.eqb (length i0) (length i1)) &&
              forallb2 (data_eq (rt o) (at_ o) true true true) i0 i1
  end.

(* ---- CoordinateReference.equals --------------------------------------------- *)
Record cref := mkR { r_coords : list string;
                     r_cparams : list (string * option pval);   (* coordinate conversion parameters *)
                     r_cdas : list (string * option string);    (* term -> domain ancillary key *)
                     r_dparams : list (string * option pval) }. (* datum parameters *)

Definition opval_eq (r a : Z * Z) (x y : option pval) : bool :=
  match x, y with
  | None, None => true
  | Some u, Some w => pval_eq r a u w
  | _, _ => false
  end.

Definition cref_eq (o : opts) (x y : cref) : bool :=
  Nat.eqb (length (r_coords x)) (length (r_coords y)) &&
  dict_eq (opval_eq (rt o) (at_ o)) (r_cparams x) (r_cparams y) &&
  dict_eq (fun u w => Bool.eqb (is_none u) (is_none w)) (r_cdas x) (r_cdas y) &&
  dict_eq (opval_eq (rt o) (at_ o)) (r_dparams x) (r_dparams y).

(* ---- generic greedy matching (Constructs.equals, _equals_coordinate_reference) *)
Fixpoint find_remove {B} (p : B -> result bool) (l : list B) : result (option (B * list B)) :=
  match l with
  | [] => Ok None
  | y :: r =>
      match p y with
      | Err e => Err e
      | Ok true => Ok (Some (y, r))
      | Ok false =>
          match find_remove p r with
          | Ok (Some (z, r')) => Ok (Some (z, y :: r'))
          | other => other
          end
      end
  end.

Fixpoint greedyR {A B} (eq : A -> B -> result bool) (xs : list A) (ys : list B)
  : result (option (list (A * B))) :=
  match xs with
  | [] => Ok (match ys with [] => Some [] | _ => None end)
  | x :: xs' =>
      match find_remove (eq x) ys with
      | Err e => Err e
      | Ok None => Ok None
      | Ok (Some (y, ys')) =>
          match greedyR eq xs' ys' with
          | Ok (Some ps) => Ok (Some ((x, y) :: ps))
          | other => other
          end
      end
  end.

(* ---- Field / Domain ------------------------------------------------------------ *)
Definition kcons := (string * (list string * cons))%type.   (* key, axes, construct *)

Record field := mkF {
  f_isfield : bool;
  f_props : list (string * pval);
  f_data : option data;
  f_daxes : option (list string);
  f_axes : list (string * option Z);
  f_cons : list kcons;                  (* insertion order *)
  f_cms : list (string * cmeth);
  f_crs : list (string * cref) }.

(* sorted() *)
Fixpoint insert (x : Z) (l : list Z) : list Z :=
  match l with [] => [x] | y :: r => if x <=? y then x :: l else y :: insert x r end.
Definition sortZ (l : list Z) : list Z := fold_right insert [] l.

(* _equals_domain_axis: d.get_size() raised on an axis without size *)
Definition sizes_eq (v : variant) (x y : list (string * option Z)) : result bool :=
  if negb (fixE v) && (existsb (fun kv => is_none (snd kv)) x || existsb (fun kv => is_none (snd kv)) y)
  then Err ValueErr
  else let sz l := sortZ (map (fun kv : string * option Z => match snd kv with Some n => n | None => -1 end) l) in
       Ok (list_eqb Z.eqb (sz x) (sz y)).

(* _axes_to_constructs: groups in order of first appearance of the axes tuple *)
Definition group := (list string * list (string * cons))%type.
Definition axes_eqb := list_eqb String.eqb.

Fixpoint add_group (k : string) (ax : list string) (c : cons) (gs : list group) : list group :=
  match gs with
  | [] => [(ax, [(k, c)])]
  | (ax', items) :: r => if axes_eqb ax ax' then (ax', items ++ [(k, c)]) :: r
                         else (ax', items) :: add_group k ax c r
  end.
Definition groups (cs : list kcons) : list group :=
  fold_left (fun gs kc => add_group (fst kc) (fst (snd kc)) (snd (snd kc)) gs) cs [].

(* iteration order of the set Constructs._array_constructs under PYTHONHASHSEED=0
   (matters for the old code only, see fixH) *)
Definition type_order := [CDim; CMeas; CDTop; CFAnc; CCConn; CAux; CDomAnc].

Definition role (t : cls) (items : list (string * cons)) : list (string * cons) :=
  filter (fun kc => cls_eqb (c_cls (snd kc)) t) items.
Definition present (t : cls) (cs : list kcons) : bool :=
  existsb (fun kc => cls_eqb (c_cls (snd (snd kc))) t) cs.

Definition kpairs := list (string * string).     (* (key0, key1) *)

(* the loop over construct types for one pair of axes groups.
   None = not matched. *)
Fixpoint match_types (v : variant) (o : opts) (other : list kcons) (tys : list cls)
         (i0 i1 : list (string * cons)) : result (option kpairs) :=
  match tys with
  | [] => Ok (Some [])
  | t :: rest =>
      let r0 := role t i0 in
      let r1 := role t i1 in
      if negb (Nat.eqb (length r0) (length r1)) then
        (* break; then `matched = not constructs1` *)
        Ok (if fixH v then None
            else if existsb (fun t' => present t' other) tys then None else Some [])
      else
        match greedyR (fun a b => cons_body_eq v o (snd a) (snd b)) r0 r1 with
        | Err e => Err e
        | Ok None => Ok None
        | Ok (Some ps) =>
            match match_types v o other rest i0 i1 with
            | Ok (Some qs) => Ok (Some (map (fun ab => (fst (fst ab), fst (snd ab))) ps ++ qs))
            | x => x
            end
        end
  end.

(* scan the remaining groups of the other collection for one that matches g0 *)
Fixpoint find_group (v : variant) (o : opts) (other : list kcons) (g0 : group) (gs1 : list group)
  : result (option (group * list group * kpairs)) :=
  match gs1 with
  | [] => Ok None
  | g1 :: r =>
      let continue_ :=
        match find_group v o other g0 r with
        | Ok (Some (g, r', ps)) => Ok (Some (g, g1 :: r', ps))
        | x => x
        end in
      if negb (Nat.eqb (length (fst g0)) (length (fst g1))) then continue_
      else match match_types v o other type_order (snd g0) (snd g1) with
           | Err e => Err e
           | Ok (Some ps) => Ok (Some (g1, r, ps))
           | Ok None => continue_
           end
  end.

Definition axpairs := list (list string * list string).

Fixpoint match_groups (v : variant) (o : opts) (other : list kcons) (gs0 gs1 : list group)
  : result (option (axpairs * kpairs)) :=
  match gs0 with
  | [] => Ok (Some ([], []))
  | g0 :: r0 =>
      match find_group v o other g0 gs1 with
      | Err e => Err e
      | Ok None => Ok None
      | Ok (Some (g1, gs1', ps)) =>
          match match_groups v o other r0 gs1' with
          | Ok (Some (aps, qs)) => Ok (Some ((fst g0, fst g1) :: aps, ps ++ qs))
          | x => x
          end
      end
  end.

(* axis0_to_axis1 / axis1_to_axis0, built pair by pair *)
Definition amap := list (string * string).

Fixpoint map_axes (v : variant) (m01 m10 : amap) (z : list (string * string))
  : result (option (amap * amap)) :=
  match z with
  | [] => Ok (Some (m01, m10))
  | (a0, a1) :: r =>
      if match assoc a0 m01 with Some b => negb (String.eqb a1 b) | None => false end then
        (* "Ambiguous axis mapping": the message called domain_axis_identity on a tuple *)
        (if fixD v then Ok None else Err ValueErr)
      else if match assoc a1 m10 with Some b0 => negb (String.eqb a0 b0) | None => false end then
        (* the message looked axis0 up in axis1_to_axis0, then did the same *)
        (if fixD v then Ok None else if mem a0 (keys m10) then Err ValueErr else Err KeyErr)
      else
        map_axes v (if mem a0 (keys m01) then m01 else m01 ++ [(a0, a1)])
                   (if mem a1 (keys m10) then m10 else m10 ++ [(a1, a0)]) r
  end.

Fixpoint zip {A B} (l1 : list A) (l2 : list B) : list (A * B) :=
  match l1, l2 with x :: r1, y :: r2 => (x, y) :: zip r1 r2 | _, _ => [] end.

Fixpoint map_all_axes (v : variant) (m01 m10 : amap) (aps : axpairs) : result (option (amap * amap)) :=
  match aps with
  | [] => Ok (Some (m01, m10))
  | (ax0, ax1) :: r =>
      match map_axes v m01 m10 (zip ax0 ax1) with
      | Ok (Some (m01', m10')) => map_all_axes v m01' m10' r
      | x => x
      end
  end.

(* ---- _equals_cell_method --------------------------------------------------------- *)
Fixpoint remove1 (s : string) (l : list string) : list string :=
  match l with [] => [] | x :: r => if String.eqb s x then r else x :: remove1 s r end.
Fixpoint index_of (s : string) (l : list string) : nat :=
  match l with [] => 0%nat | x :: r => if String.eqb s x then 0%nat else S (index_of s r) end.

Inductive scan := SFalse | SDone (axes1 : list string) (indices : list nat) (a0to1 m10 : amap).

(* DomainAxis.get_size(-1) of the domain axis with this key *)
Definition axsize (ax : list (string * option Z)) (k : string) : Z :=
  match assoc k ax with Some (Some n) => n | _ => -1 end.

(* `for axis1 in axes1:` with axes1 modified inside the loop: Python's list
   iterator is a position i that is re-checked against the current length.
   ax0 / ax1: the domain axes of the two collections (fixU). *)
Fixpoint scan_axes1 (v : variant) (ax0 ax1 : list (string * option Z)) (a0to1 m10 : amap)
         (orig : list string) (axis0 : string)
         (fuel : nat) (i : nat) (axes1 : list string) (indices : list nat) : scan :=
  match fuel with
  | O => SDone axes1 indices a0to1 m10
  | S fuel' =>
      match nth_error axes1 i with
      | None => SDone axes1 indices a0to1 m10
      | Some axis1 =>
          let in0 := mem axis0 (keys a0to1) in
          let in1 := mem axis1 (keys m10) in
          let k0 := mem axis0 (keys ax0) in
          let k1 := mem axis1 (keys ax1) in
          if in0 && in1 then
            if option_eqb String.eqb (Some axis1) (assoc axis0 a0to1)
            then SDone (remove1 axis1 axes1) (indices ++ [index_of axis1 orig]) a0to1 m10
            else scan_axes1 v ax0 ax1 a0to1 m10 orig axis0 fuel' (S i) axes1 indices
          else if in0 || in1 then SFalse
          else if fixU v && (k0 || k1) then
            (* at least one is a domain axis that no data span *)
            if k0 && k1 && (axsize ax0 axis0 =? axsize ax1 axis1)
            then SDone (remove1 axis1 axes1) (indices ++ [index_of axis1 orig])
                       (a0to1 ++ [(axis0, axis1)]) (m10 ++ [(axis1, axis0)])
            else scan_axes1 v ax0 ax1 a0to1 m10 orig axis0 fuel' (S i) axes1 indices
          else if String.eqb axis0 axis1 then
            if fixG v then SDone (remove1 axis1 axes1) (indices ++ [index_of axis1 orig]) a0to1 m10
            else scan_axes1 v ax0 ax1 a0to1 m10 orig axis0 fuel' (S i) (remove1 axis1 axes1)
                            (indices ++ [index_of axis1 orig])
          else scan_axes1 v ax0 ax1 a0to1 m10 orig axis0 fuel' (S i) axes1 indices
      end
  end.

Fixpoint scan_axes0 (v : variant) (ax0 ax1 : list (string * option Z)) (a0to1 m10 : amap)
         (orig : list string) (axes0 : list string) (axes1 : list string) (indices : list nat)
  : option (list nat * amap * amap) :=
  match axes0 with
  | [] => Some (indices, a0to1, m10)
  | axis0 :: r =>
      match scan_axes1 v ax0 ax1 a0to1 m10 orig axis0 (S (length axes1)) 0 axes1 indices with
      | SFalse => None
      | SDone axes1' indices' a' m' => scan_axes0 v ax0 ax1 a' m' orig r axes1' indices'
      end
  end.

(* CellMethod.sorted(indices): intervals[i] raises IndexError *)
Fixpoint pick {A} (l : list A) (idx : list nat) : option (list A) :=
  match idx with
  | [] => Some []
  | i :: r => match nth_error l i, pick l r with
              | Some x, Some xs => Some (x :: xs)
              | _, _ => None
              end
  end.

Definition sorted_intervals (v : variant) (c : cmeth) (indices : list nat) : result (list data) :=
  if Nat.eqb (length (m_axes c)) 1 then Ok (m_intervals c)
  else if (if fixI v then negb (Nat.eqb (length (m_intervals c)) (length (m_axes c)))
           else Nat.leb (length (m_intervals c)) 1) then Ok (m_intervals c)
  else match pick (m_intervals c) indices with Some l => Ok l | None => Err IndexErr end.

(* one pair of cell methods: None = different; Some = equal, with the axis maps as
   extended by the domain axes that no data span (fixU) *)
Definition one_cm_eq (v : variant) (o : opts) (ax0 ax1 : list (string * option Z)) (a0to1 m10 : amap)
           (c0 c1 : cmeth) : result (option (amap * amap)) :=
  if negb (Nat.eqb (length (m_axes c0)) (length (m_axes c1))) then Ok None
  else match scan_axes0 v ax0 ax1 a0to1 m10 (m_axes c1) (m_axes c0) (m_axes c1) [] with
       | None => Ok None
       | Some (indices, a', m') =>
           if negb (Nat.eqb (length (m_axes c1)) (length indices)) then Ok None
           else rbind (sorted_intervals v c1 indices) (fun iv =>
                Ok (if cm_eq o c0 (mkM (m_axes c0) (m_method c1) (m_quals c1) iv)
                    then Some (a', m') else None))
       end.

Fixpoint cms_zip_eq (v : variant) (o : opts) (ax0 ax1 : list (string * option Z)) (a0to1 m10 : amap)
         (l0 l1 : list (string * cmeth)) : result bool :=
  match l0, l1 with
  | (_, c0) :: r0, (_, c1) :: r1 =>
      match one_cm_eq v o ax0 ax1 a0to1 m10 c0 c1 with
      | Err e => Err e
      | Ok None => Ok false
      | Ok (Some (a', m')) => cms_zip_eq v o ax0 ax1 a' m' r0 r1
      end
  | _, _ => Ok true
  end.

Definition swap {A B} (p : A * B) : B * A := (snd p, fst p).

Definition cms_eq (v : variant) (o : opts) (ax0 ax1 : list (string * option Z)) (m10 : amap)
           (l0 l1 : list (string * cmeth)) : result bool :=
  if negb (Nat.eqb (length l0) (length l1)) then
    (if fixA v then Ok false else Err TypeErr)          (* logger(...) *)
  else cms_zip_eq v o ax0 ax1 (map swap m10) m10 l0 l1.

(* ---- _equals_coordinate_reference --------------------------------------------------- *)
Definition k1to0 (ps : kpairs) (k : string) : string :=
  match assoc k (map swap ps) with Some k0 => k0 | None => k end.

Definition set_eq (a b : list string) : bool :=
  forallb (fun k => mem k b) a && forallb (fun k => mem k a) b.

Definition cref_match (o : opts) (ps : kpairs) (r0 : string * cref) (r1 : string * cref) : result bool :=
  Ok (cref_eq o (snd r0) (snd r1) &&
      set_eq (r_coords (snd r0)) (map (k1to0 ps) (r_coords (snd r1))) &&
      dict_eq (option_eqb String.eqb) (r_cdas (snd r0))
              (map (fun tk => (fst tk, option_map (k1to0 ps) (snd tk))) (r_cdas (snd r1)))).

Definition crs_eq (o : opts) (ps : kpairs) (l0 l1 : list (string * cref)) : result bool :=
  if negb (Nat.eqb (length l0) (length l1)) then Ok false
  else match greedyR (cref_match o ps) l0 l1 with
       | Err e => Err e
       | Ok None => Ok false
       | Ok (Some _) => Ok true
       end.

(* ---- Constructs.equals ----------------------------------------------------------------- *)
(* the options with which Constructs.equals compares two metadata constructs:
   ignore_properties is not passed on (default None) and ignore_type is False *)
Definition nested (o : opts) : opts :=
  mkO (o_rtol o) (o_atol o) (o_idt o) (o_ifv o) IPNone (o_icomp o) false.

Definition constructs_eq (v : variant) (o : opts) (x y : field) : result bool :=
  andR (sizes_eq v (f_axes x) (f_axes y))
  (let g0 := groups (f_cons x) in
   let g1 := groups (f_cons y) in
   if negb (Nat.eqb (length g0) (length g1)) then Ok false
   else match match_groups v (nested o) (f_cons y) g0 g1 with
        | Err e => Err e
        | Ok None => Ok false
        | Ok (Some (aps, ps)) =>
            let aps' := if fixC v then
                          match f_daxes x, f_daxes y with
                          | Some d0, Some d1 => aps ++ [(d0, d1)]
                          | _, _ => aps
                          end
                        else aps in
            match map_all_axes v [] [] aps' with
            | Err e => Err e
            | Ok None => Ok false
            | Ok (Some (m01, m10)) =>
                andR (cms_eq v o (f_axes x) (f_axes y) m10 (f_cms x) (f_cms y))
                (andR (sizes_eq v (f_axes x) (f_axes y))
                      (crs_eq o ps (f_crs x) (f_crs y)))
            end
        end).

(* ---- FieldDomain.equals -------------------------------------------------------------------- *)
Definition field_ip (ip : ignp) : ignp :=
  match ip with
  | IPNone => IPSeq ["Conventions"%string]
  | IPStr s => if String.eqb s ""%string then IPSeq ["Conventions"%string] else IPSeq [s; "Conventions"%string]
  | IPSeq l => match l with [] => IPSeq ["Conventions"%string] | _ => IPSeq (l ++ ["Conventions"%string]) end
  end.

(* None: Field against Domain under ignore_type (conversion not modelled) *)
Definition field_eq (v : variant) (o : opts) (x y : field) : option (result bool) :=
  if negb (Bool.eqb (f_isfield x) (f_isfield y)) then
    (if o_itype o then None else Some (Ok false))
  else Some (
    andR (pd_eq v o (field_ip (o_ip o))
                (mkP (f_props x) (if f_isfield x then f_data x else None) false None)
                (mkP (f_props y) (if f_isfield y then f_data y else None) false None))
         (constructs_eq v o x y)).

(* ---- anything against anything ---------------------------------------------------------------- *)
Inductive top :=
| TCons (c : cons) | TBounds (p : pd) | TAxis (n : option Z) | TCm (c : cmeth)
| TCr (r : cref) | TData (d : data) | TField (f : field).

Definition top_eq (v : variant) (o : opts) (x y : top) : option (result bool) :=
  match x, y with
  | TCons a, TCons b => cons_eq v o a b
  | TBounds a, TBounds b => Some (pd_eq v o (o_ip o) a b)
  | TAxis a, TAxis b => Some (Ok (axis_eq a b))
  | TCm a, TCm b => Some (Ok (cm_eq o a b))
  | TCr a, TCr b => Some (Ok (cref_eq o a b))
  | TData a, TData b => Some (Ok (data_eq (rt o) (at_ o) (o_idt o) (o_ifv o) (o_icomp o) a b))
  | TField a, TField b => field_eq v o a b
  | _, _ => if o_itype o then None else Some (Ok false)
  end.
