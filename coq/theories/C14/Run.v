(* C14 - evaluation entry points for the correspondence harness (imports the model only). *)
From CfdmV Require Import Common.Base C14.Model.
Open Scope nat_scope.

Definition nats_eqb := list_eqb Nat.eqb.
Definition zs_eqb := list_eqb Z.eqb.
Definition ozs_eqb := list_eqb (option_eqb Z.eqb).

(* an observed array: (shape, flat list of optional values) *)
Definition oarr := (list nat * list (option Z))%type.

Definition oarr_eqb (a b : oarr) : bool :=
  nats_eqb (fst a) (fst b) && ozs_eqb (snd a) (snd b).

Definition ring_shape_gen bump (g : container) : list nat :=
  match g_pnc g with
  | Some parts => [n_cells g; max_parts (derive_index_gen bump (nodes_per_geometry g) parts)]
  | None => []
  end.

(* What the model says a reader presents for container g with node coordinate variables [datas]:
   None when the container is rejected, else per variable the bounds array, the interior ring
   array (if any) and the shape of a coordinate that has no data of its own. *)
Definition run_read_gen bump (g : container) (datas : list (list Z))
  : option (list oarr * option oarr * list nat) :=
  if accepted g then
    Some (map (fun d => (bounds_shape_gen bump g, concat (concat (read_bounds_gen bump g d)))) datas,
          option_map (fun r => (ring_shape_gen bump g, concat r)) (read_ring_gen bump g),
          coord_shape true (bounds_shape_gen bump g))
  else None.

Definition obs_read_eqb (a b : option (list oarr * option oarr * list nat)) : bool :=
  option_eqb (fun x y =>
    let '(b1, r1, s1) := x in let '(b2, r2, s2) := y in
    list_eqb oarr_eqb b1 b2 && option_eqb oarr_eqb r1 r2 && nats_eqb s1 s2) a b.

(* a read case: raw variables of the hand-encoded container, and what cfdm.read presented *)
Definition read_case :=
  (option (list nat) * option (list nat) * option (list Z) * nat * list (list Z)
   * option (list oarr * option oarr * list nat))%type.

(* the same with the rows of the indexed arrays taken over range(n_instances) *)
Definition run_read_range_gen bump (g : container) (datas : list (list Z))
  : option (list oarr * option oarr * list nat) :=
  if accepted g then
    Some (map (fun d => (bounds_shape_gen bump g, concat (concat (read_bounds_range_gen bump g d)))) datas,
          option_map (fun r => (ring_shape_gen bump g, concat r)) (read_ring_range_gen bump g),
          coord_shape true (bounds_shape_gen bump g))
  else None.

Definition container_of_case (cs : read_case) : container :=
  let '(nc, pnc, ring, nnodes, datas, obs) := cs in
  {| g_nc := nc; g_pnc := pnc; g_ring := ring; g_nnodes := nnodes |}.

(* rows by numpy.unique(index) - the tree without handoff/C06-fix-1.diff *)
Definition check_read_unique_gen bump (cs : read_case) : bool :=
  let '(nc, pnc, ring, nnodes, datas, obs) := cs in
  obs_read_eqb (run_read_gen bump (container_of_case cs) datas) obs.

(* rows by range(n_instances) - the tree with it *)
Definition check_read_range_gen bump (cs : read_case) : bool :=
  let '(nc, pnc, ring, nnodes, datas, obs) := cs in
  obs_read_eqb (run_read_range_gen bump (container_of_case cs) datas) obs.

(* Either is accepted: the two agree on every consistent container (Lemmas.read_bounds_range_cells);
   they differ only on malformed ones whose derived index skips an instance id. *)
Definition check_read_gen bump (cs : read_case) : bool :=
  check_read_unique_gen bump cs || check_read_range_gen bump cs.

Definition check_read := check_read_gen new_bump.
Definition check_read_unique := check_read_unique_gen new_bump.
Definition check_read_range := check_read_range_gen new_bump.
Definition check_read_old := check_read_gen old_bump.

(* a write case: the bounds arrays of the node coordinate constructs (same missing-data pattern),
   the interior ring array, and the raw variables netCDF4-python found in the written dataset
   (None = cfdm.write raised ValueError). *)
Definition write_case :=
  (list arr3 * option arr2
   * option (list nat * option (list nat) * option (list Z) * list (list Z)))%type.

Definition obs_write_eqb (a b : option (list nat * option (list nat) * option (list Z) * list (list Z))) : bool :=
  option_eqb (fun x y =>
    let '(n1, p1, r1, d1) := x in let '(n2, p2, r2, d2) := y in
    nats_eqb n1 n2 && option_eqb nats_eqb p1 p2 && option_eqb zs_eqb r1 r2 && list_eqb zs_eqb d1 d2) a b.

Definition run_write_gen wp (arrs : list arr3) (ring : option arr2) :=
  match arrs with
  | [] => None
  | a :: _ =>
      match write_gen wp a ring with
      | Ok w => Some (w_nc w, w_pnc w, w_ring w, map write_nodes arrs)
      | Err _ => None
      end
  end.

Definition check_write_gen wp (cs : write_case) : bool :=
  let '(arrs, ring, obs) := cs in obs_write_eqb (run_write_gen wp arrs ring) obs.

Definition check_write := check_write_gen write_part_node_count.
Definition check_write_old := check_write_gen write_part_node_count_old.

(* ------------------------------------------------------------------------- *)
(* second pass: several data variables / containers; several fields           *)
(* ------------------------------------------------------------------------- *)
Definition cont_lit := (option (list nat) * option (list nat) * option (list Z) * nat
                        * list (list Z) * nat * nat * nat)%type.

Definition cont_of_lit (l : cont_lit) : gcont :=
  let '(nc, pnc, ring, nnodes, datas, idim, ndim, pdim) := l in
  {| c_g := {| g_nc := nc; g_pnc := pnc; g_ring := ring; g_nnodes := nnodes |};
     c_datas := datas; c_idim := idim; c_ndim := ndim; c_pdim := pdim |}.

Definition var_obs := option (list oarr * option oarr * list nat).

(* a dataset case: containers, data variables (container index, own dimensions), and what
   cfdm.read presented for each data variable (None = cfdm.read raised ValueError) *)
Definition readm_case := (list cont_lit * list (nat * list nat) * option (list var_obs))%type.

Definition run_readm_gen (record_again own_counts : bool) (conts : list gcont) (dvs : list dvar)
  : option (list var_obs) :=
  match read_dataset_gen record_again own_counts true conts dvs with
  | Err _ => None
  | Ok l =>
      let vg := snd (parse_all_gen record_again conts dvs) in
      let parsed := fst (parse_all_gen record_again conts dvs) in
      Some (map (fun pc : nat * option (list arr3 * option arr2) =>
                   let '(p, cells) := pc in
                   match cells, lookup_geometry p vg with
                   | Some (bs, ring), Some gid =>
                       let k := if own_counts then gid else effective_cont_old conts parsed gid in
                       match nth_error conts k, nth_error conts gid with
                       | Some ck, Some c =>
                           Some (map (fun b => (bounds_shape (c_g ck), concat (concat b))) bs,
                                 option_map (fun r => (ring_shape_gen new_bump (c_g c), concat r)) ring,
                                 coord_shape true (bounds_shape (c_g ck)))
                       | _, _ => None
                       end
                   | _, _ => None
                   end) (combine (seq 0 (length l)) l))
  end.

Definition check_readm_gen (record_again own_counts : bool) (cs : readm_case) : bool :=
  let '(conts, dvs, obs) := cs in
  option_eqb (list_eqb (fun a b => obs_read_eqb a b))
    (run_readm_gen record_again own_counts (map cont_of_lit conts)
       (map (fun d : nat * list nat => {| d_gid := fst d; d_dims := snd d |}) dvs))
    obs.

Definition check_readm := check_readm_gen true true.

(* several fields in one cfdm.write call: per field its bounds arrays, ring array and geometry
   dimension; observed: per field the raw variables of the container its data variable names *)
Definition write2_case :=
  (list (list arr3 * option arr2 * nat)
   * list (option (list nat * option (list nat) * option (list Z) * list (list Z))))%type.

Definition run_write2_gen (use_partition : bool) (fs : list (list arr3 * option arr2 * nat)) :=
  let fields := map (fun f : list arr3 * option arr2 * nat =>
                       let '(arrs, ring, gd) := f in
                       {| f_a := match arrs with a :: _ => a | [] => [] end; f_ring := ring; f_gdim := gd |}) fs in
  map (fun fw : (list arr3 * option arr2 * nat) * result written =>
         let '((arrs, _, _), w) := fw in
         match w with
         | Ok w => Some (w_nc w, w_pnc w, w_ring w, w_nodes w :: tl (map write_nodes arrs))
         | Err _ => None
         end) (combine fs (write_fields_gen use_partition [] fields)).

Definition check_write2_gen (use_partition : bool) (cs : write2_case) : bool :=
  let '(fs, obs) := cs in list_eqb obs_write_eqb (run_write2_gen use_partition fs) obs.

Definition check_write2 := check_write2_gen true.
