(* C14 - executable model of cfdm's geometry-cell decoding and encoding.

   Transcribed from (paths relative to the cfdm tree):
     read_write/netcdf/netcdfread.py   NetCDFRead._parse_geometry           (part->cell index loop,
                                       node_count defaulting to ones, choice contiguous / indexed contiguous,
                                       rejection of interior_ring without part_node_count)
                                       _set_ragged_contiguous_parameters, _set_ragged_indexed_parameters,
                                       _parse_indexed_contiguous_compression (implied dimension sizes)
                                       _create_bounded_construct            (size-1 part dimension inserted)
     data/raggedcontiguousarray.py, data/raggedindexedcontiguousarray.py, data/raggedindexedarray.py
                                       subarrays(): which slice of the compressed data goes to which row
     data/subarray/raggedsubarray.py   padding of a row with missing data
     core/abstract/propertiesdatabounds.py  shape / ndim inferred from the bounds when there are no data
     read_write/netcdf/netcdfwrite.py  _write_node_coordinates, _write_node_count,
                                       _write_part_node_count, _write_interior_ring

   The model follows the code as REPAIRED by handoff/C14-fix-1..3.diff (in /repo since cf67fd3, 60053d9,
   70bb63f) and by handoff/C14-fix3-1..3.diff (second pass: sharing of node variables between fields,
   per-variable compression of node coordinates, registration of the interior ring variable); the
   behaviour before each repair is kept as [..._old] definitions / boolean switches (witnesses in
   Refuted.v).  The last two sections model a whole dataset: several data variables naming the
   same or different containers (NetCDFRead._parse_geometry called once per data variable), and
   several fields written by one cfdm.write call (_write_node_coordinates and its registry).
   Counts and index values are [nat] (they are lengths / positions), coordinate data and ring flags are [Z].
   Definitions only - no proofs here. *)
From CfdmV Require Import Common.Base.
Open Scope nat_scope.

(* ------------------------------------------------------------------------- *)
(* small list vocabulary                                                      *)
(* ------------------------------------------------------------------------- *)
Definition sum (l : list nat) : nat := fold_right Nat.add 0 l.

(* numpy: data[c0:c1], data[c1:c2], ... for the cumulative sums of [counts]; a slice that runs past
   the end is clipped (a[s:e] never raises).  Running split = the cumulative slices. *)
Fixpoint split_by {A} (counts : list nat) (data : list A) : list (list A) :=
  match counts with
  | [] => []
  | c :: r => firstn c data :: split_by r (skipn c data)
  end.

(* for j in numpy.where(index == v)[0]: xs[j]   (xs and index lie on the same netCDF dimension) *)
Definition select {A} (v : nat) (index : list nat) (xs : list A) : list A :=
  map snd (filter (fun p => Nat.eqb (fst p) v) (combine index xs)).

Definition mem (v : nat) (l : list nat) : bool := existsb (Nat.eqb v) l.

(* numpy.unique: the distinct values, ascending *)
Definition uniq (l : list nat) : list nat :=
  filter (fun v => mem v l) (seq 0 (S (list_max l))).

(* a row of the uncompressed array: the data followed by missing values up to width w
   (RaggedSubarray.__getitem__: u = masked_all; u[0:len(data)] = data) *)
Definition pad {A} (w : nat) (l : list A) : list (option A) :=
  map Some l ++ repeat None (w - length l).

(* set l[s : s+n] = v (positions past the end do not exist) *)
Fixpoint set_range {A} (l : list A) (s n : nat) (v : A) : list A :=
  match l with
  | [] => []
  | x :: r =>
      match s with
      | S s' => x :: set_range r s' n v
      | O => match n with
             | S n' => v :: set_range r O n' v
             | O => x :: r
             end
      end
  end.

(* ------------------------------------------------------------------------- *)
(* _parse_geometry: the part -> cell index                                    *)
(* ------------------------------------------------------------------------- *)
(* inner loop  `for k in range(i, total_number_of_parts)`: [rest] = part counts from position i.
   Returns the number of parts visited up to and including the one at which
   n_nodes >= n_nodes_in_this_cell, or None when the loop runs off the end without a break. *)
Fixpoint inner (rest : list nat) (need acc : nat) : option nat :=
  match rest with
  | [] => None
  | p :: r => if need <=? acc + p then Some 1 else option_map S (inner r need (acc + p))
  end.

(* one iteration of `for cell_no in range(...)`.  State: (index.data, instance_index, i).
   [bump i k] is the new value of i after the break at position k:
     repaired code  i = k + 1 ;  pinned commit  i += k + 1. *)
Definition cell_step (bump : nat -> nat -> nat) (parts : list nat)
           (st : list nat * nat * nat) (need : nat) : list nat * nat * nat :=
  let '(idx, inst, i) := st in
  match inner (skipn i parts) need 0 with
  | Some c => (set_range idx i c inst, S inst, bump i (i + c - 1))
  | None => (set_range idx i (length parts - i) inst, inst, i)
  end.

(* index is initialised with a copy of the part node counts (set_data(index, data=parts_data)):
   entries the loops never reach keep those values. *)
Definition derive_index_gen (bump : nat -> nat -> nat) (node_count parts : list nat) : list nat :=
  fst (fst (fold_left (cell_step bump parts) node_count (parts, 0, 0))).

Definition derive_index := derive_index_gen (fun _ k => k + 1).
Definition derive_index_old := derive_index_gen (fun i k => i + k + 1).

(* ------------------------------------------------------------------------- *)
(* decoding of a node coordinate variable into bounds (cell, part, node)      *)
(* ------------------------------------------------------------------------- *)
Definition arr3 := list (list (list (option Z))).
Definition arr2 := list (list (option Z)).

(* rows for the distinct index values in ascending order, each padded to w1 items with [fill];
   the zip over subarrays() pairs them with the rows 0,1,.. of the uncompressed array and stops at the
   shorter; rows that receive nothing stay missing. *)
Definition rows_of {B} (ncells w1 : nat) (fill : B) (rows : list (list B)) : list (list B) :=
  let rs := firstn ncells (map (fun r => r ++ repeat fill (w1 - length r)) rows) in
  rs ++ repeat (repeat fill w1) (ncells - length rs).

(* maximum number of parts of any cell = max of numpy.unique(index, return_counts=True)[1] *)
Definition max_parts (idx : list nat) : nat :=
  list_max (map (fun v => length (select v idx idx)) (uniq idx)).

(* RaggedIndexedContiguousArray with count variable [parts] and index variable [idx];
   uncompressed shape (ncells, max_parts idx, list_max parts).  [ids] = the instance ids whose parts
   fill rows 0, 1, ... in turn: numpy.unique(index) in the tree as pinned, range(n_instances) once
   the repair of F06a (handoff/C06-fix-1.diff) is in; the two coincide whenever the distinct index
   values are 0..k-1, in particular for every consistent container. *)
Definition decode_indexed_contiguous_ids (ids : list nat) (ncells : nat) (idx parts : list nat)
           (data : list Z) : arr3 :=
  let w1 := max_parts idx in
  let w2 := list_max parts in
  let slices := map (pad w2) (split_by parts data) in
  rows_of ncells w1 (repeat None w2) (map (fun v => select v idx slices) ids).

Definition decode_indexed_contiguous (ncells : nat) (idx parts : list nat) (data : list Z) : arr3 :=
  decode_indexed_contiguous_ids (uniq idx) ncells idx parts data.

(* RaggedContiguousArray with count variable [counts]; shape (ncells, list_max counts); then
   _create_bounded_construct inserts a size-1 part dimension at position 1. *)
Definition decode_contiguous (counts : list nat) (data : list Z) : arr3 :=
  let w := list_max counts in
  map (fun s => [pad w s]) (split_by counts data).

(* RaggedIndexedArray for the interior ring variable: shape (ncells, max_parts idx) *)
Definition decode_indexed_ids (ids : list nat) (ncells : nat) (idx : list nat) (ring : list Z) : arr2 :=
  let w1 := max_parts idx in
  rows_of ncells w1 None (map (fun v => map Some (select v idx ring)) ids).

Definition decode_indexed (ncells : nat) (idx : list nat) (ring : list Z) : arr2 :=
  decode_indexed_ids (uniq idx) ncells idx ring.

(* What _parse_geometry + _create_bounded_construct present for one container.
   node_count absent  => ones(size of the node dimension), cells lie on the node dimension;
   part_node_count absent => contiguous; present => indexed contiguous with the derived index;
   interior_ring without part_node_count => container rejected (no geometry at all). *)
Record container := {
  g_nc : option (list nat);
  g_pnc : option (list nat);
  g_ring : option (list Z);
  g_nnodes : nat
}.

Definition accepted (g : container) : bool :=
  match g_ring g, g_pnc g with Some _, None => false | _, _ => true end.

Definition nodes_per_geometry (g : container) : list nat :=
  match g_nc g with Some nc => nc | None => repeat 1 (g_nnodes g) end.

Definition n_cells (g : container) : nat := length (nodes_per_geometry g).

Definition read_index_gen bump (g : container) : option (list nat) :=
  match g_pnc g with
  | Some parts => Some (derive_index_gen bump (nodes_per_geometry g) parts)
  | None => None
  end.

Definition read_bounds_gen bump (g : container) (data : list Z) : arr3 :=
  match g_pnc g with
  | Some parts =>
      decode_indexed_contiguous (n_cells g) (derive_index_gen bump (nodes_per_geometry g) parts) parts data
  | None => decode_contiguous (nodes_per_geometry g) data
  end.

Definition read_ring_gen bump (g : container) : option arr2 :=
  match g_pnc g, g_ring g with
  | Some parts, Some ring =>
      Some (decode_indexed (n_cells g) (derive_index_gen bump (nodes_per_geometry g) parts) ring)
  | _, _ => None
  end.

(* the same with rows taken over range(n_instances) (after handoff/C06-fix-1.diff) *)
Definition read_bounds_range_gen bump (g : container) (data : list Z) : arr3 :=
  match g_pnc g with
  | Some parts =>
      decode_indexed_contiguous_ids (seq 0 (n_cells g)) (n_cells g)
        (derive_index_gen bump (nodes_per_geometry g) parts) parts data
  | None => decode_contiguous (nodes_per_geometry g) data
  end.

Definition read_ring_range_gen bump (g : container) : option arr2 :=
  match g_pnc g, g_ring g with
  | Some parts, Some ring =>
      Some (decode_indexed_ids (seq 0 (n_cells g)) (n_cells g)
              (derive_index_gen bump (nodes_per_geometry g) parts) ring)
  | _, _ => None
  end.

Definition new_bump := fun (_ k : nat) => k + 1.
Definition old_bump := fun (i k : nat) => i + k + 1.
Definition read_bounds := read_bounds_gen new_bump.
Definition read_ring := read_ring_gen new_bump.
Definition read_bounds_range := read_bounds_range_gen new_bump.
Definition read_ring_range := read_ring_range_gen new_bump.
Definition read_bounds_old := read_bounds_gen old_bump.
Definition read_ring_old := read_ring_gen old_bump.

(* shapes: data.shape of the bounds, and PropertiesDataBounds.shape when the coordinate has no data
   (geometry: the two trailing dimensions are dropped; otherwise one). *)
Definition bounds_shape_gen bump (g : container) : list nat :=
  match g_pnc g with
  | Some parts =>
      [n_cells g; max_parts (derive_index_gen bump (nodes_per_geometry g) parts); list_max parts]
  | None => [n_cells g; 1; list_max (nodes_per_geometry g)]
  end.
Definition bounds_shape := bounds_shape_gen new_bump.
Definition bounds_shape_old := bounds_shape_gen old_bump.

Definition coord_shape (has_geometry : bool) (bshape : list nat) : list nat :=
  if has_geometry then removelast (removelast bshape) else removelast bshape.

(* ------------------------------------------------------------------------- *)
(* the writer                                                                 *)
(* ------------------------------------------------------------------------- *)
Fixpoint compressed {A} (l : list (option A)) : list A :=
  match l with
  | [] => []
  | Some x :: r => x :: compressed r
  | None :: r => compressed r
  end.

Definition count_some {A} (l : list (option A)) : nat := length (compressed l).

(* _write_node_coordinates: numpy_compressed(bounds.array) - non-missing values in row-major order *)
Definition write_nodes (a : arr3) : list Z := compressed (concat (concat a)).

(* _write_node_count (3-d bounds): ma.count(array, axis=2).sum(axis=1) *)
Definition write_node_count (a : arr3) : list nat := map (fun cell => sum (map count_some cell)) a.

Definition part_counts (a : arr3) : list nat := concat (map (map count_some) a).

Definition nonzero (l : list nat) : list nat := filter (fun c => negb (Nat.eqb c 0)) l.

(* numpy.trim_zeros: strip leading and trailing zeros only *)
Fixpoint trim_front (l : list nat) : list nat :=
  match l with
  | 0 :: r => trim_front r
  | _ => l
  end.
Definition trim_zeros (l : list nat) : list nat := rev (trim_front (rev (trim_front l))).

Definition n_part_slots (a : arr3) : nat := match a with [] => 0 | c :: _ => length c end.

(* _write_part_node_count.
   repaired: no variable iff the part dimension has size 1 and there is no interior ring;
             all zero counts (padding parts) are dropped.
   pinned  : no variable iff the part dimension has size 1; numpy.trim_zeros. *)
Definition write_part_node_count (a : arr3) (has_ring : bool) : option (list nat) :=
  if Nat.eqb (n_part_slots a) 1 && negb has_ring then None else Some (nonzero (part_counts a)).

Definition write_part_node_count_old (a : arr3) (has_ring : bool) : option (list nat) :=
  if Nat.eqb (n_part_slots a) 1 then None else Some (trim_zeros (part_counts a)).

(* _write_interior_ring: numpy_compressed(interior_ring.array) *)
Definition write_ring (r : arr2) : list Z := compressed (concat r).

Record written := {
  w_nodes : list Z;
  w_nc : list nat;
  w_pnc : option (list nat);
  w_ring : option (list Z)
}.

(* The interior ring variable is put on the part dimension created for the part node count
   variable; netCDF4 refuses (ValueError) data of another length. *)
Definition write_gen (wp : arr3 -> bool -> option (list nat)) (a : arr3) (ring : option arr2)
  : result written :=
  let pnc := wp a (match ring with Some _ => true | None => false end) in
  let wr := option_map write_ring ring in
  match pnc, wr with
  | Some p, Some r =>
      if Nat.eqb (length p) (length r)
      then Ok {| w_nodes := write_nodes a; w_nc := write_node_count a; w_pnc := pnc; w_ring := wr |}
      else Err ValueErr
  | _, _ => Ok {| w_nodes := write_nodes a; w_nc := write_node_count a; w_pnc := pnc; w_ring := wr |}
  end.

Definition write := write_gen write_part_node_count.
Definition write_old := write_gen write_part_node_count_old.

(* the container an independent reader sees in a written dataset (node_count is always written) *)
Definition container_of (w : written) : container :=
  {| g_nc := Some (w_nc w); g_pnc := w_pnc w; g_ring := w_ring w; g_nnodes := length (w_nodes w) |}.

(* ------------------------------------------------------------------------- *)
(* several data variables and several containers in one dataset (second pass) *)
(* ------------------------------------------------------------------------- *)
(* A container as it sits in a dataset: its raw variables, the data of its node coordinate
   variables, and the netCDF dimensions it uses (instance dimension of node_count, node dimension,
   part dimension of part_node_count / interior_ring). *)
Record gcont := {
  c_g : container;
  c_datas : list (list Z);
  c_idim : nat;
  c_ndim : nat;
  c_pdim : nat
}.

(* a data variable: the container its geometry attribute names, and its own dimensions *)
Record dvar := { d_gid : nat; d_dims : list nat }.

(* the dimension the cells lie on: that of node_count, else the node dimension *)
Definition cont_celldim (c : gcont) : nat :=
  match g_nc (c_g c) with Some _ => c_idim c | None => c_ndim c end.

(* NetCDFRead._parse_geometry called for every data variable with a geometry attribute, in order.
   State: (containers held in read_vars["geometries"], read_vars["variable_geometry"] as an
   association list parent -> container, most recent first).
   - container already parsed: if its cell dimension is a dimension of this parent ([d_dims]: the
     netCDF dimensions of the variable and, for a domain variable, those named by its `dimensions`
     attribute - /repo f336e6e, bf35377) record that this parent has it; otherwise report
     "Geometry variable spans incorrect dimensions" and leave the parent without geometry.
     ([record_again] = false is the seeded variant of round 3 that returns without recording;
      [check_again] = false is the branch as it was before f336e6e: no dimension check.)
   - otherwise check it (attributes, and that the cell dimension is a dimension of the parent);
     a container that fails is forgotten, so that it is checked again for the next parent. *)
Definition parse_step_full (record_again check_again : bool) (conts : list gcont)
           (st : list nat * list (nat * nat)) (pv : nat * dvar) : list nat * list (nat * nat) :=
  let '(parsed, vg) := st in
  let '(p, d) := pv in
  let gid := d_gid d in
  if mem gid parsed then
    match nth_error conts gid with
    | None => st
    | Some c =>
        if negb check_again || mem (cont_celldim c) (d_dims d)
        then (parsed, if record_again then (p, gid) :: vg else vg)
        else st
    end
  else match nth_error conts gid with
       | None => st
       | Some c =>
           if accepted (c_g c) && mem (cont_celldim c) (d_dims d)
           then (gid :: parsed, (p, gid) :: vg)
           else st
       end.

Definition parse_step_gen (record_again : bool) := parse_step_full record_again true.

Definition parse_all_full (record_again check_again : bool) (conts : list gcont) (dvs : list dvar)
  : list nat * list (nat * nat) :=
  fold_left (parse_step_full record_again check_again conts) (combine (seq 0 (length dvs)) dvs) ([], []).

Definition parse_all_gen (record_again : bool) := parse_all_full record_again true.

Definition lookup_geometry (p : nat) (vg : list (nat * nat)) : option nat :=
  option_map snd (find (fun e => Nat.eqb (fst e) p) vg).

(* which container's count variables uncompress the node coordinate variables of container gid.
   repaired (handoff/C14-fix3-2.diff): its own.
   before: read_vars["compression"] is keyed by the node DIMENSION: every parse sets
   "ragged_contiguous"; a parse with part_node_count then moves it to "ragged_indexed_contiguous";
   _create_data looks for "ragged_indexed_contiguous" first.  So among the parsed containers on the
   same node dimension: the last parsed one with a part_node_count if there is one, else the last
   parsed one.  ([parsed] is most recent first.) *)
Definition effective_cont_old (conts : list gcont) (parsed : list nat) (gid : nat) : nat :=
  match nth_error conts gid with
  | None => gid
  | Some c =>
      let same := filter (fun k => match nth_error conts k with
                                   | Some c' => Nat.eqb (c_ndim c') (c_ndim c)
                                   | None => false end) parsed in
      let with_pnc := filter (fun k => match nth_error conts k with
                                       | Some c' => match g_pnc (c_g c') with Some _ => true | None => false end
                                       | None => false end) same in
      match with_pnc, same with
      | k :: _, _ => k
      | [], k :: _ => k
      | [], [] => gid
      end
  end.

(* The interior ring array is created while its container is parsed.  It is uncompressed only if
   its variable is in read_vars["compression"][part dimension]["netCDF_variables"] - or if that set
   does not exist yet.  Before handoff/C14-fix3-3.diff the variable was added to the set AFTER its
   array had been created: fine for the first container on a part dimension (no set yet), but the
   ring variable of a later container on the same part dimension was then presented as it is in
   the file, 1-d.  ([parsed] is most recent first: the containers parsed before gid follow it.) *)
Fixpoint parsed_before (gid : nat) (parsed : list nat) : list nat :=
  match parsed with
  | [] => []
  | k :: r => if Nat.eqb k gid then r else parsed_before gid r
  end.

Definition ring_array_gen (ring_fixed : bool) (conts : list gcont) (parsed : list nat) (gid : nat)
           (c : gcont) : option arr2 :=
  let earlier := existsb (fun k => match nth_error conts k with
                                   | Some c' => Nat.eqb (c_pdim c') (c_pdim c) &&
                                                match g_ring (c_g c'), g_pnc (c_g c') with
                                                | Some _, Some _ => true | _, _ => false end
                                   | None => false end) (parsed_before gid parsed) in
  if ring_fixed || negb earlier then read_ring (c_g c)
  else match g_pnc (c_g c), g_ring (c_g c) with
       | Some _, Some r => Some [map Some r]
       | _, _ => None
       end.

(* What one data variable is given: None = no geometry constructs at all; otherwise the bounds of
   every node coordinate variable of its container, and the interior ring array. *)
Definition var_cells_gen (own_counts ring_fixed : bool) (conts : list gcont) (parsed : list nat) (gid : nat)
  : option (list arr3 * option arr2) :=
  match nth_error conts gid with
  | None => None
  | Some c =>
      let k := if own_counts then gid else effective_cont_old conts parsed gid in
      match nth_error conts k with
      | None => None
      | Some ck => Some (map (read_bounds (c_g ck)) (c_datas c), ring_array_gen ring_fixed conts parsed gid c)
      end
  end.

(* Reading the dataset: every data variable in turn.  A variable recorded with a container whose
   cell dimension it does not span would make the read raise ValueError ("Geometry dimension ...
   is not in read_vars['ncdim_to_axis']", _create_field_or_domain).  Since f336e6e no variable is
   recorded that way (Lemmas.read_dataset_total: the result is always Ok); before, the
   already-parsed branch did record it (Refuted.C14_old_unchecked_parent_refuted). *)
Definition read_dataset_full (record_again check_again own_counts ring_fixed : bool)
           (conts : list gcont) (dvs : list dvar)
  : result (list (option (list arr3 * option arr2))) :=
  let '(parsed, vg) := parse_all_full record_again check_again conts dvs in
  let bad := existsb (fun pv : nat * dvar =>
               let '(p, d) := pv in
               match lookup_geometry p vg with
               | Some gid => match nth_error conts gid with
                             | Some c => negb (mem (cont_celldim c) (d_dims d))
                             | None => false end
               | None => false end) (combine (seq 0 (length dvs)) dvs) in
  if bad then Err ValueErr
  else Ok (map (fun p => match lookup_geometry p vg with
                         | Some gid => var_cells_gen own_counts ring_fixed conts parsed gid
                         | None => None end) (seq 0 (length dvs))).

Definition read_dataset_gen (record_again : bool) := read_dataset_full record_again true.
Definition read_dataset := read_dataset_gen true true true.

(* ------------------------------------------------------------------------- *)
(* several fields written to one dataset (second pass)                        *)
(* ------------------------------------------------------------------------- *)
(* Everything the writer produces for one coordinate is a function of: the flattened node values,
   the number of nodes in every (cell, part) slot, and the flattened ring flags. *)
Definition wkey := (list Z * list (list nat) * option (list Z))%type.

Definition key_of (a : arr3) (ring : option arr2) : wkey :=
  (write_nodes a, map (map count_some) a, option_map write_ring ring).

Definition write_key (k : wkey) : result written :=
  let '(nodes, counts, wr) := k in
  let slots := match counts with [] => 0 | c :: _ => length c end in
  let has_ring := match wr with Some _ => true | None => false end in
  let pnc := if Nat.eqb slots 1 && negb has_ring then None else Some (nonzero (concat counts)) in
  let w := {| w_nodes := nodes; w_nc := map sum counts; w_pnc := pnc; w_ring := wr |} in
  match pnc, wr with
  | Some p, Some r => if Nat.eqb (length p) (length r) then Ok w else Err ValueErr
  | _, _ => Ok w
  end.

Record wfield := { f_a : arr3; f_ring : option arr2; f_gdim : nat }.

(* write_vars["seen"] / ["geometry_encoding"] restricted to node coordinate variables:
   (flattened nodes, geometry dimension, partition, what was written), oldest first *)
Definition wentry := (list Z * nat * (list (list nat) * option (list Z)) * result written)%type.

Definition nats2_eqb := list_eqb (list_eqb Nat.eqb).
Definition part_eqb (a b : list (list nat) * option (list Z)) : bool :=
  nats2_eqb (fst a) (fst b) && option_eqb (list_eqb Z.eqb) (snd a) (snd b).

(* _write_node_coordinates for the fields of one cfdm.write call.
   _already_in_file returns the FIRST variable in the file with equal values; it is reused when its
   encoding variables span the same geometry dimension and - repaired, handoff/C14-fix3-1.diff -
   divide the nodes in the same way ([use_partition]); otherwise new variables are written. *)
Fixpoint write_fields_gen (use_partition : bool) (seen : list wentry) (fs : list wfield)
  : list (result written) :=
  match fs with
  | [] => []
  | f :: r =>
      let '(nodes, counts, wr) := key_of (f_a f) (f_ring f) in
      let fresh := write (f_a f) (f_ring f) in
      match find (fun e : wentry => let '(n, _, _, _) := e in list_eqb Z.eqb n nodes) seen with
      | Some (n, gd, part, w) =>
          if Nat.eqb gd (f_gdim f) && (negb use_partition || part_eqb part (counts, wr))
          then w :: write_fields_gen use_partition seen r
          else fresh :: write_fields_gen use_partition (seen ++ [(nodes, f_gdim f, (counts, wr), fresh)]) r
      | None => fresh :: write_fields_gen use_partition (seen ++ [(nodes, f_gdim f, (counts, wr), fresh)]) r
      end
  end.

Definition write_fields := write_fields_gen true [].
Definition write_fields_old := write_fields_gen false [].
