(* C14 - executable model of cfdm's geometry-cell decoding and encoding.

   Transcribed from (paths relative to the cfdm tree):
     read_write/netcdf/netcdfread.py   NetCDFRead._parse_geometry           (part->cell index loop,
                                       node_count defaulting to ones, choice contiguous / indexed contiguous,
                                       rejection of interior_ring without part_node_count)
                                       _set_ragged_contiguous_parameters, _set_ragged_indexed_parameters,
                                       _parse_indexed_contiguous_compression (implied dimension sizes)
                                       _create_bounded_construct            (size-1 part dimension inserted)
     data/raggedcontiguousarray.py, data/raggedindexedcontiguousarray.py, data/raggedindexedarray.py
                                       subarrays(): which slice of the compressed data goes to which row
     data/subarray/raggedsubarray.py   padding of a row with missing data
     core/abstract/propertiesdatabounds.py  shape / ndim inferred from the bounds when there are no data
     read_write/netcdf/netcdfwrite.py  _write_node_coordinates, _write_node_count,
                                       _write_part_node_count, _write_interior_ring

   The model follows the code as REPAIRED by handoff/C14-fix-1..3.diff; the behaviour at the pinned
   commit is kept as the [..._old] definitions (witnesses in Refuted.v).
   Counts and index values are [nat] (they are lengths / positions), coordinate data and ring flags are [Z].
   Definitions only - no proofs here. *)
From CfdmV Require Import Common.Base.
Open Scope nat_scope.

(* ------------------------------------------------------------------------- *)
(* small list vocabulary                                                      *)
(* ------------------------------------------------------------------------- *)
Definition sum (l : list nat) : nat := fold_right Nat.add 0 l.

(* numpy: data[c0:c1], data[c1:c2], ... for the cumulative sums of [counts]; a slice that runs past
   the end is clipped (a[s:e] never raises).  Running split = the cumulative slices. *)
Fixpoint split_by {A} (counts : list nat) (data : list A) : list (list A) :=
  match counts with
  | [] => []
  | c :: r => firstn c data :: split_by r (skipn c data)
  end.

(* for j in numpy.where(index == v)[0]: xs[j]   (xs and index lie on the same netCDF dimension) *)
Definition select {A} (v : nat) (index : list nat) (xs : list A) : list A :=
  map snd (filter (fun p => Nat.eqb (fst p) v) (combine index xs)).

Definition mem (v : nat) (l : list nat) : bool := existsb (Nat.eqb v) l.

(* numpy.unique: the distinct values, ascending *)
Definition uniq (l : list nat) : list nat :=
  filter (fun v => mem v l) (seq 0 (S (list_max l))).

(* a row of the uncompressed array: the data followed by missing values up to width w
   (RaggedSubarray.__getitem__: u = masked_all; u[0:len(data)] = data) *)
Definition pad {A} (w : nat) (l : list A) : list (option A) :=
  map Some l ++ repeat None (w - length l).

(* set l[s : s+n] = v (positions past the end do not exist) *)
Fixpoint set_range {A} (l : list A) (s n : nat) (v : A) : list A :=
  match l with
  | [] => []
  | x :: r =>
      match s with
      | S s' => x :: set_range r s' n v
      | O => match n with
             | S n' => v :: set_range r O n' v
             | O => x :: r
             end
      end
  end.

(* ------------------------------------------------------------------------- *)
(* _parse_geometry: the part -> cell index                                    *)
(* ------------------------------------------------------------------------- *)
(* inner loop  `for k in range(i, total_number_of_parts)`: [rest] = part counts from position i.
   Returns the number of parts visited up to and including the one at which
   n_nodes >= n_nodes_in_this_cell, or None when the loop runs off the end without a break. *)
Fixpoint inner (rest : list nat) (need acc : nat) : option nat :=
  match rest with
  | [] => None
  | p :: r => if need <=? acc + p then Some 1 else option_map S (inner r need (acc + p))
  end.

(* one iteration of `for cell_no in range(...)`.  State: (index.data, instance_index, i).
   [bump i k] is the new value of i after the break at position k:
     repaired code  i = k + 1 ;  pinned commit  i += k + 1. *)
Definition cell_step (bump : nat -> nat -> nat) (parts : list nat)
           (st : list nat * nat * nat) (need : nat) : list nat * nat * nat :=
  let '(idx, inst, i) := st in
  match inner (skipn i parts) need 0 with
  | Some c => (set_range idx i c inst, S inst, bump i (i + c - 1))
  | None => (set_range idx i (length parts - i) inst, inst, i)
  end.

(* index is initialised with a copy of the part node counts (set_data(index, data=parts_data)):
   entries the loops never reach keep those values. *)
Definition derive_index_gen (bump : nat -> nat -> nat) (node_count parts : list nat) : list nat :=
  fst (fst (fold_left (cell_step bump parts) node_count (parts, 0, 0))).

Definition derive_index := derive_index_gen (fun _ k => k + 1).
Definition derive_index_old := derive_index_gen (fun i k => i + k + 1).

(* ------------------------------------------------------------------------- *)
(* decoding of a node coordinate variable into bounds (cell, part, node)      *)
(* ------------------------------------------------------------------------- *)
Definition arr3 := list (list (list (option Z))).
Definition arr2 := list (list (option Z)).

(* rows for the distinct index values in ascending order, each padded to w1 items with [fill];
   the zip over subarrays() pairs them with the rows 0,1,.. of the uncompressed array and stops at the
   shorter; rows that receive nothing stay missing. *)
Definition rows_of {B} (ncells w1 : nat) (fill : B) (rows : list (list B)) : list (list B) :=
  let rs := firstn ncells (map (fun r => r ++ repeat fill (w1 - length r)) rows) in
  rs ++ repeat (repeat fill w1) (ncells - length rs).

(* maximum number of parts of any cell = max of numpy.unique(index, return_counts=True)[1] *)
Definition max_parts (idx : list nat) : nat :=
  list_max (map (fun v => length (select v idx idx)) (uniq idx)).

(* RaggedIndexedContiguousArray with count variable [parts] and index variable [idx];
   uncompressed shape (ncells, max_parts idx, list_max parts).  [ids] = the instance ids whose parts
   fill rows 0, 1, ... in turn: numpy.unique(index) in the tree as pinned, range(n_instances) once
   the repair of F06a (handoff/C06-fix-1.diff) is in; the two coincide whenever the distinct index
   values are 0..k-1, in particular for every consistent container. *)
Definition decode_indexed_contiguous_ids (ids : list nat) (ncells : nat) (idx parts : list nat)
           (data : list Z) : arr3 :=
  let w1 := max_parts idx in
  let w2 := list_max parts in
  let slices := map (pad w2) (split_by parts data) in
  rows_of ncells w1 (repeat None w2) (map (fun v => select v idx slices) ids).

Definition decode_indexed_contiguous (ncells : nat) (idx parts : list nat) (data : list Z) : arr3 :=
  decode_indexed_contiguous_ids (uniq idx) ncells idx parts data.

(* RaggedContiguousArray with count variable [counts]; shape (ncells, list_max counts); then
   _create_bounded_construct inserts a size-1 part dimension at position 1. *)
Definition decode_contiguous (counts : list nat) (data : list Z) : arr3 :=
  let w := list_max counts in
  map (fun s => [pad w s]) (split_by counts data).

(* RaggedIndexedArray for the interior ring variable: shape (ncells, max_parts idx) *)
Definition decode_indexed_ids (ids : list nat) (ncells : nat) (idx : list nat) (ring : list Z) : arr2 :=
  let w1 := max_parts idx in
  rows_of ncells w1 None (map (fun v => map Some (select v idx ring)) ids).

Definition decode_indexed (ncells : nat) (idx : list nat) (ring : list Z) : arr2 :=
  decode_indexed_ids (uniq idx) ncells idx ring.

(* What _parse_geometry + _create_bounded_construct present for one container.
   node_count absent  => ones(size of the node dimension), cells lie on the node dimension;
   part_node_count absent => contiguous; present => indexed contiguous with the derived index;
   interior_ring without part_node_count => container rejected (no geometry at all). *)
Record container := {
  g_nc : option (list nat);
  g_pnc : option (list nat);
  g_ring : option (list Z);
  g_nnodes : nat
}.

Definition accepted (g : container) : bool :=
  match g_ring g, g_pnc g with Some _, None => false | _, _ => true end.

Definition nodes_per_geometry (g : container) : list nat :=
  match g_nc g with Some nc => nc | None => repeat 1 (g_nnodes g) end.

Definition n_cells (g : container) : nat := length (nodes_per_geometry g).

Definition read_index_gen bump (g : container) : option (list nat) :=
  match g_pnc g with
  | Some parts => Some (derive_index_gen bump (nodes_per_geometry g) parts)
  | None => None
  end.

Definition read_bounds_gen bump (g : container) (data : list Z) : arr3 :=
  match g_pnc g with
  | Some parts =>
      decode_indexed_contiguous (n_cells g) (derive_index_gen bump (nodes_per_geometry g) parts) parts data
  | None => decode_contiguous (nodes_per_geometry g) data
  end.

Definition read_ring_gen bump (g : container) : option arr2 :=
  match g_pnc g, g_ring g with
  | Some parts, Some ring =>
      Some (decode_indexed (n_cells g) (derive_index_gen bump (nodes_per_geometry g) parts) ring)
  | _, _ => None
  end.

(* the same with rows taken over range(n_instances) (after handoff/C06-fix-1.diff) *)
Definition read_bounds_range_gen bump (g : container) (data : list Z) : arr3 :=
  match g_pnc g with
  | Some parts =>
      decode_indexed_contiguous_ids (seq 0 (n_cells g)) (n_cells g)
        (derive_index_gen bump (nodes_per_geometry g) parts) parts data
  | None => decode_contiguous (nodes_per_geometry g) data
  end.

Definition read_ring_range_gen bump (g : container) : option arr2 :=
  match g_pnc g, g_ring g with
  | Some parts, Some ring =>
      Some (decode_indexed_ids (seq 0 (n_cells g)) (n_cells g)
              (derive_index_gen bump (nodes_per_geometry g) parts) ring)
  | _, _ => None
  end.

Definition new_bump := fun (_ k : nat) => k + 1.
Definition old_bump := fun (i k : nat) => i + k + 1.
Definition read_bounds := read_bounds_gen new_bump.
Definition read_ring := read_ring_gen new_bump.
Definition read_bounds_range := read_bounds_range_gen new_bump.
Definition read_ring_range := read_ring_range_gen new_bump.
Definition read_bounds_old := read_bounds_gen old_bump.
Definition read_ring_old := read_ring_gen old_bump.

(* shapes: data.shape of the bounds, and PropertiesDataBounds.shape when the coordinate has no data
   (geometry: the two trailing dimensions are dropped; otherwise one). *)
Definition bounds_shape_gen bump (g : container) : list nat :=
  match g_pnc g with
  | Some parts =>
      [n_cells g; max_parts (derive_index_gen bump (nodes_per_geometry g) parts); list_max parts]
  | None => [n_cells g; 1; list_max (nodes_per_geometry g)]
  end.
Definition bounds_shape := bounds_shape_gen new_bump.
Definition bounds_shape_old := bounds_shape_gen old_bump.

Definition coord_shape (has_geometry : bool) (bshape : list nat) : list nat :=
  if has_geometry then removelast (removelast bshape) else removelast bshape.

(* ------------------------------------------------------------------------- *)
(* the writer                                                                 *)
(* ------------------------------------------------------------------------- *)
Fixpoint compressed {A} (l : list (option A)) : list A :=
  match l with
  | [] => []
  | Some x :: r => x :: compressed r
  | None :: r => compressed r
  end.

Definition count_some {A} (l : list (option A)) : nat := length (compressed l).

(* _write_node_coordinates: numpy_compressed(bounds.array) - non-missing values in row-major order *)
Definition write_nodes (a : arr3) : list Z := compressed (concat (concat a)).

(* _write_node_count (3-d bounds): ma.count(array, axis=2).sum(axis=1) *)
Definition write_node_count (a : arr3) : list nat := map (fun cell => sum (map count_some cell)) a.

Definition part_counts (a : arr3) : list nat := concat (map (map count_some) a).

Definition nonzero (l : list nat) : list nat := filter (fun c => negb (Nat.eqb c 0)) l.

(* numpy.trim_zeros: strip leading and trailing zeros only *)
Fixpoint trim_front (l : list nat) : list nat :=
  match l with
  | 0 :: r => trim_front r
  | _ => l
  end.
Definition trim_zeros (l : list nat) : list nat := rev (trim_front (rev (trim_front l))).

Definition n_part_slots (a : arr3) : nat := match a with [] => 0 | c :: _ => length c end.

(* _write_part_node_count.
   repaired: no variable iff the part dimension has size 1 and there is no interior ring;
             all zero counts (padding parts) are dropped.
   pinned  : no variable iff the part dimension has size 1; numpy.trim_zeros. *)
Definition write_part_node_count (a : arr3) (has_ring : bool) : option (list nat) :=
  if Nat.eqb (n_part_slots a) 1 && negb has_ring then None else Some (nonzero (part_counts a)).

Definition write_part_node_count_old (a : arr3) (has_ring : bool) : option (list nat) :=
  if Nat.eqb (n_part_slots a) 1 then None else Some (trim_zeros (part_counts a)).

(* _write_interior_ring: numpy_compressed(interior_ring.array) *)
Definition write_ring (r : arr2) : list Z := compressed (concat r).

Record written := {
  w_nodes : list Z;
  w_nc : list nat;
  w_pnc : option (list nat);
  w_ring : option (list Z)
}.

(* The interior ring variable is put on the part dimension created for the part node count
   variable; netCDF4 refuses (ValueError) data of another length. *)
Definition write_gen (wp : arr3 -> bool -> option (list nat)) (a : arr3) (ring : option arr2)
  : result written :=
  let pnc := wp a (match ring with Some _ => true | None => false end) in
  let wr := option_map write_ring ring in
  match pnc, wr with
  | Some p, Some r =>
      if Nat.eqb (length p) (length r)
      then Ok {| w_nodes := write_nodes a; w_nc := write_node_count a; w_pnc := pnc; w_ring := wr |}
      else Err ValueErr
  | _, _ => Ok {| w_nodes := write_nodes a; w_nc := write_node_count a; w_pnc := pnc; w_ring := wr |}
  end.

Definition write := write_gen write_part_node_count.
Definition write_old := write_gen write_part_node_count_old.

(* the container an independent reader sees in a written dataset (node_count is always written) *)
Definition container_of (w : written) : container :=
  {| g_nc := Some (w_nc w); g_pnc := w_pnc w; g_ring := w_ring w; g_nnodes := length (w_nodes w) |}.
