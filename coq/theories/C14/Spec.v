(* C14 - specification side, written from CF conventions section 7.5 ("Geometries"), not from the code.

   A geometry variable is a list of cells; a cell is a list of parts (>= 1); a part is a list of
   nodes (>= 1).  CF stores, for every node coordinate variable, the nodes of all parts of all cells
   one after the other (file order); node_count holds the number of nodes of each cell,
   part_node_count the number of nodes of each part, interior_ring one flag per part.

   The data model presents a cell array (cell, part, node) in which each cell's parts and each
   part's nodes come first, in file order, and the remainder is missing data. *)
From CfdmV Require Import Common.Base C14.Model.
Open Scope nat_scope.

Definition cells := list (list (list Z)).

Definition wf_cells (cs : cells) : Prop :=
  Forall (fun c => c <> [] /\ Forall (fun p : list Z => p <> []) c) cs.

Definition wf_cellsb (cs : cells) : bool :=
  forallb (fun c => negb (Nat.eqb (length c) 0) &&
                    forallb (fun p : list Z => negb (Nat.eqb (length p) 0)) c) cs.

(* CF 7.5 encoding of the cells of one node coordinate variable *)
Definition enc_node_count (cs : cells) : list nat := map (fun c => sum (map (@length Z) c)) cs.
Definition enc_part_node_count (cs : cells) : list nat := concat (map (map (@length Z)) cs).
Definition enc_nodes (cs : cells) : list Z := concat (concat cs).

(* cell number of every part, in file order: cell c repeated (number of parts of c) times *)
Fixpoint blocks (s : nat) (lens : list nat) : list nat :=
  match lens with
  | [] => []
  | n :: r => repeat s n ++ blocks (S s) r
  end.

Definition cell_of_part_spec (cs : cells) : list nat := blocks 0 (map (@length (list Z)) cs).

(* the cell array of the data model *)
Definition pad3 (cs : cells) : arr3 :=
  let w1 := list_max (map (@length (list Z)) cs) in
  let w2 := list_max (map (@length Z) (concat cs)) in
  map (fun c => map (pad w2) c ++ repeat (repeat None w2) (w1 - length c)) cs.

(* interior ring flags: one list of flags per cell, one flag per part *)
Definition pad2 (rs : list (list Z)) : arr2 :=
  let w1 := list_max (map (@length Z) rs) in
  map (pad w1) rs.

Definition same_parts (rs : list (list Z)) (cs : cells) : Prop :=
  map (@length Z) rs = map (@length (list Z)) cs.

(* the container a CF-conformant producer writes for cs *)
Definition container_for (cs : cells) (with_pnc : bool) (ring : option (list (list Z))) : container :=
  {| g_nc := Some (enc_node_count cs);
     g_pnc := if with_pnc then Some (enc_part_node_count cs) else None;
     g_ring := option_map (@concat Z) ring;
     g_nnodes := length (enc_nodes cs) |}.

Definition single_part (cs : cells) : Prop := Forall (fun c : list (list Z) => length c = 1) cs.

(* ------------------------------------------------------------------------- *)
(* an independent decoder of the raw variables, written from CF 7.5           *)
(* ------------------------------------------------------------------------- *)
(* the parts of one cell: the shortest run of parts whose node counts add up to the cell's
   node count exactly (a part that straddles two cells is an error) *)
Fixpoint take_parts (parts : list nat) (need acc : nat) : option (list nat * list nat) :=
  match parts with
  | [] => None
  | p :: r =>
      if Nat.eqb (acc + p) need then Some ([p], r)
      else if need <? acc + p then None
      else match take_parts r need (acc + p) with
           | Some (ps, rest) => Some (p :: ps, rest)
           | None => None
           end
  end.

(* part node counts grouped by cell; every part must be used *)
Fixpoint group (node_count parts : list nat) : option (list (list nat)) :=
  match node_count with
  | [] => match parts with [] => Some [] | _ => None end
  | n :: r =>
      match take_parts parts n 0 with
      | Some (ps, rest) => option_map (cons ps) (group r rest)
      | None => None
      end
  end.

Definition spec_decode (node_count parts : list nat) (nodes : list Z) : option cells :=
  option_map (fun g => split_by (map (@length nat) g) (split_by parts nodes)) (group node_count parts).

(* for a container: node_count absent = all ones, part_node_count absent = one part per cell *)
Definition spec_decode_container (g : container) (nodes : list Z) : option cells :=
  let nc := nodes_per_geometry g in
  spec_decode nc (match g_pnc g with Some p => p | None => nc end) nodes.

(* ------------------------------------------------------------------------- *)
(* datasets with several data variables (second pass)                         *)
(* ------------------------------------------------------------------------- *)
(* a data variable that names an existing, acceptable container and spans its cell dimension *)
Definition good_dvar (conts : list gcont) (d : dvar) : Prop :=
  exists c, nth_error conts (d_gid d) = Some c /\ accepted (c_g c) = true /\
            mem (cont_celldim c) (d_dims d) = true.

Definition good_dvarb (conts : list gcont) (d : dvar) : bool :=
  match nth_error conts (d_gid d) with
  | Some c => accepted (c_g c) && mem (cont_celldim c) (d_dims d)
  | None => false
  end.

(* what CF gives a data variable: the cells of the container it names, whatever else is in the file *)
Definition own_cells (conts : list gcont) (d : dvar) : option (list arr3 * option arr2) :=
  match nth_error conts (d_gid d) with
  | Some c => Some (map (read_bounds (c_g c)) (c_datas c), read_ring (c_g c))
  | None => None
  end.
