(* C14 - proofs. *)
From CfdmV Require Import Common.Base C14.Model C14.Spec.
Open Scope nat_scope.

Ltac splits := repeat match goal with |- _ /\ _ => split end.

(* ------------------------------------------------------------------------- *)
(* generic list facts                                                         *)
(* ------------------------------------------------------------------------- *)
Lemma list_max_ge : forall l x, In x l -> x <= list_max l.
Proof.
  intros l x H. assert (Forall (fun k => k <= list_max l) l) as F by (apply list_max_le; lia).
  rewrite Forall_forall in F. auto.
Qed.

Lemma filter_all {A} (f : A -> bool) l : (forall x, In x l -> f x = true) -> filter f l = l.
Proof.
  induction l as [|a r IH]; simpl; intro H; [reflexivity|].
  rewrite H by auto. f_equal. apply IH. auto.
Qed.

Lemma filter_none {A} (f : A -> bool) l : (forall x, In x l -> f x = false) -> filter f l = [].
Proof.
  induction l as [|a r IH]; simpl; intro H; [reflexivity|].
  rewrite H by auto. apply IH. auto.
Qed.

Lemma combine_app {A B} (a1 a2 : list A) (b1 b2 : list B) :
  length a1 = length b1 -> combine (a1 ++ a2) (b1 ++ b2) = combine a1 b1 ++ combine a2 b2.
Proof.
  revert b1; induction a1 as [|x r IH]; intros [|y s] H; simpl in *; try discriminate; auto.
  f_equal. apply IH. lia.
Qed.

Lemma sum_app l1 l2 : sum (l1 ++ l2) = sum l1 + sum l2.
Proof. induction l1; simpl; lia. Qed.

Lemma length_concat {A} (l : list (list A)) : length (concat l) = sum (map (@length A) l).
Proof. induction l; simpl; [reflexivity|]. rewrite app_length. lia. Qed.

(* ------------------------------------------------------------------------- *)
(* select                                                                     *)
(* ------------------------------------------------------------------------- *)
Lemma select_app {A} v i1 i2 (x1 x2 : list A) :
  length i1 = length x1 ->
  select v (i1 ++ i2) (x1 ++ x2) = select v i1 x1 ++ select v i2 x2.
Proof.
  intro H. unfold select. rewrite combine_app by assumption.
  rewrite filter_app, map_app. reflexivity.
Qed.

Lemma select_repeat_same {A} v (x : list A) : select v (repeat v (length x)) x = x.
Proof.
  unfold select. induction x as [|a r IH]; simpl; [reflexivity|].
  rewrite Nat.eqb_refl. simpl. f_equal. exact IH.
Qed.

Lemma select_absent {A} v idx (x : list A) : ~ In v idx -> select v idx x = [].
Proof.
  intro H. unfold select. rewrite filter_none; [reflexivity|].
  intros [i a] Hin. simpl. apply in_combine_l in Hin.
  apply Nat.eqb_neq. intro E. subst. auto.
Qed.

Lemma select_length_indep {A B} v idx (xs : list A) (ys : list B) :
  length xs = length idx -> length ys = length idx ->
  length (select v idx xs) = length (select v idx ys).
Proof.
  unfold select. revert xs ys. induction idx as [|i r IH]; intros [|x xs] [|y ys] H1 H2;
    simpl in *; try discriminate; try reflexivity.
  destruct (Nat.eqb i v); simpl; [f_equal|]; apply IH; lia.
Qed.

Lemma blocks_range s lens x : In x (blocks s lens) -> s <= x < s + length lens.
Proof.
  revert s. induction lens as [|n r IH]; simpl; intros s H; [contradiction|].
  apply in_app_or in H as [H|H].
  - apply repeat_spec in H. lia.
  - apply IH in H. lia.
Qed.

Lemma blocks_in s lens x :
  Forall (fun n => 1 <= n) lens -> s <= x < s + length lens -> In x (blocks s lens).
Proof.
  revert s. induction lens as [|n r IH]; simpl; intros s F H; [lia|].
  inversion F as [|? ? Hn Fr]; subst. apply in_or_app.
  destruct (Nat.eq_dec x s) as [->|Hne].
  - left. destruct n; [lia|]. simpl. auto.
  - right. apply IH; [assumption|lia].
Qed.

Lemma blocks_length s lens : length (blocks s lens) = sum lens.
Proof. revert s. induction lens; simpl; intro s; [reflexivity|]. rewrite app_length, repeat_length, IHlens. reflexivity. Qed.

(* selecting by cell number from the concatenation gives back the cells *)
Lemma select_blocks {B} (yss : list (list B)) s :
  map (fun v => select v (blocks s (map (@length B) yss)) (concat yss)) (seq s (length yss)) = yss.
Proof.
  revert s. induction yss as [|y r IH]; intro s; simpl; [reflexivity|].
  f_equal.
  - rewrite select_app by (rewrite repeat_length; reflexivity).
    rewrite select_repeat_same.
    rewrite select_absent; [apply app_nil_r|].
    intro H. apply blocks_range in H. lia.
  - rewrite <- (IH (S s)) at 2. apply map_ext_in. intros v Hv. apply in_seq in Hv.
    rewrite select_app by (rewrite repeat_length; reflexivity).
    rewrite (select_absent v (repeat s (length y))); [reflexivity|].
    intro H. apply repeat_spec in H. lia.
Qed.

(* ------------------------------------------------------------------------- *)
(* uniq                                                                       *)
(* ------------------------------------------------------------------------- *)
Lemma mem_true v l : mem v l = true <-> In v l.
Proof.
  unfold mem. rewrite existsb_exists. split.
  - intros [x [H E]]. apply Nat.eqb_eq in E. subst. exact H.
  - intro H. exists v. split; [exact H|apply Nat.eqb_refl].
Qed.

Lemma uniq_initial_segment l n : (forall v, In v l <-> v < n) -> uniq l = seq 0 n.
Proof.
  intro H. unfold uniq. destruct n as [|n].
  - assert (l = []) as -> by (destruct l as [|a r]; [reflexivity|exfalso; specialize (H a); simpl in H; destruct H as [H _]; specialize (H (or_introl eq_refl)); lia]).
    reflexivity.
  - assert (list_max l = n) as ->.
    { apply Nat.le_antisymm.
      - apply list_max_le. apply Forall_forall. intros x Hx. apply H in Hx. lia.
      - apply list_max_ge. apply H. lia. }
    apply filter_all. intros x Hx. apply in_seq in Hx. apply mem_true. apply H. lia.
Qed.

Lemma uniq_blocks lens :
  Forall (fun n => 1 <= n) lens -> uniq (blocks 0 lens) = seq 0 (length lens).
Proof.
  intro F. apply uniq_initial_segment. intro v. split.
  - intro H. apply blocks_range in H. lia.
  - intro H. apply blocks_in; [assumption|lia].
Qed.

Lemma max_parts_blocks {B} (yss : list (list B)) :
  Forall (fun y => y <> []) yss ->
  max_parts (blocks 0 (map (@length B) yss)) = list_max (map (@length B) yss).
Proof.
  intro F. unfold max_parts.
  rewrite uniq_blocks.
  2:{ apply Forall_map. eapply Forall_impl; [|exact F]. intros [|a r] Ha; simpl; [congruence|lia]. }
  rewrite map_length.
  transitivity (list_max (map (@length B)
     (map (fun v => select v (blocks 0 (map (@length B) yss)) (concat yss)) (seq 0 (length yss))))).
  2:{ rewrite select_blocks. reflexivity. }
  rewrite map_map.
  f_equal. apply map_ext. intro v.
  apply select_length_indep; [reflexivity|].
  rewrite blocks_length, length_concat. reflexivity.
Qed.

(* ------------------------------------------------------------------------- *)
(* the part -> cell index loop                                                *)
(* ------------------------------------------------------------------------- *)
Lemma inner_spec ls : forall rest acc need,
  ls <> [] -> Forall (fun n => 1 <= n) ls -> acc + sum ls = need ->
  inner (ls ++ rest) need acc = Some (length ls).
Proof.
  induction ls as [|p r IH]; intros rest acc need Hne F E; [congruence|].
  inversion F as [|? ? Hp Fr]; subst. simpl in *.
  destruct r as [|q r'].
  - simpl in *. replace (acc + (p + 0) <=? acc + p) with true by (symmetry; apply Nat.leb_le; lia).
    reflexivity.
  - assert (1 <= sum (q :: r')) by (inversion Fr; subst; simpl; lia).
    replace (acc + (p + sum (q :: r')) <=? acc + p) with false by (symmetry; apply Nat.leb_gt; lia).
    rewrite (IH rest (acc + p) (acc + (p + sum (q :: r')))); [reflexivity|congruence|assumption|lia].
Qed.

Lemma set_range_app {A} (pre mid suf : list A) v :
  set_range (pre ++ mid ++ suf) (length pre) (length mid) v = pre ++ repeat v (length mid) ++ suf.
Proof.
  induction pre as [|a r IH]; simpl.
  - induction mid as [|b m IHm]; simpl.
    + destruct suf; reflexivity.
    + f_equal. exact IHm.
  - f_equal. exact IH.
Qed.

Lemma set_range_app' {A} (pre mid suf : list A) v n :
  length mid = n ->
  set_range (pre ++ mid ++ suf) (length pre) n v = pre ++ repeat v n ++ suf.
Proof. intros <-. apply set_range_app. Qed.

Lemma skipn_app_exact {A} (l1 l2 : list A) : skipn (length l1) (l1 ++ l2) = l2.
Proof. induction l1; simpl; auto. Qed.

Lemma fold_cells (cs : cells) : forall (P1 I1 : list nat) inst,
  wf_cells cs -> length I1 = length P1 ->
  fold_left (cell_step new_bump (P1 ++ enc_part_node_count cs)) (enc_node_count cs)
            (I1 ++ enc_part_node_count cs, inst, length P1)
  = (I1 ++ blocks inst (map (@length (list Z)) cs), inst + length cs,
     length P1 + length (enc_part_node_count cs)).
Proof.
  induction cs as [|c r IH]; intros P1 I1 inst W L.
  - simpl. repeat rewrite Nat.add_0_r. reflexivity.
  - inversion W as [|? ? [Hc Fc] Wr]; subst.
    unfold enc_part_node_count, enc_node_count in *. simpl.
    fold (enc_part_node_count r) in *. fold (enc_node_count r) in *.
    rewrite skipn_app_exact.
    rewrite (inner_spec (map (@length Z) c)); [| | |reflexivity].
    2:{ destruct c; simpl; congruence. }
    2:{ apply Forall_map. eapply Forall_impl; [|exact Fc]. intros [|a p] Ha; simpl; [congruence|lia]. }
    rewrite map_length.
    rewrite <- L.
    rewrite (set_range_app' I1 (map (@length Z) c) (enc_part_node_count r) inst (length c))
      by apply map_length.
    assert (1 <= length c) by (destruct c; simpl; [congruence|lia]).
    replace (new_bump (length I1) (length I1 + length c - 1)) with (length (P1 ++ map (@length Z) c))
      by (unfold new_bump; rewrite app_length, map_length; lia).
    rewrite (app_assoc P1), (app_assoc I1).
    rewrite (IH (P1 ++ map (@length Z) c) (I1 ++ repeat inst (length c)) (S inst)); [|assumption|].
    2:{ rewrite !app_length, repeat_length, map_length. lia. }
    f_equal; [f_equal|].
    + rewrite <- app_assoc. reflexivity.
    + lia.
    + rewrite !app_length, map_length. lia.
Qed.

Lemma derive_index_cells (cs : cells) :
  wf_cells cs ->
  derive_index (enc_node_count cs) (enc_part_node_count cs) = cell_of_part_spec cs.
Proof.
  intro W. unfold derive_index, derive_index_gen.
  pose proof (fold_cells cs [] [] 0 W eq_refl) as H. simpl in H.
  unfold new_bump in H. rewrite H. reflexivity.
Qed.

(* ------------------------------------------------------------------------- *)
(* decoding                                                                   *)
(* ------------------------------------------------------------------------- *)
Lemma split_by_concat {A} (ps : list (list A)) extra :
  split_by (map (@length A) ps) (concat ps ++ extra) = ps.
Proof.
  induction ps as [|p r IH]; simpl; [reflexivity|].
  rewrite <- app_assoc.
  rewrite firstn_app, firstn_all, Nat.sub_diag. simpl. rewrite app_nil_r.
  f_equal. rewrite skipn_app_exact. exact IH.
Qed.

Lemma enc_pnc_as_map (cs : cells) : enc_part_node_count cs = map (@length Z) (concat cs).
Proof. unfold enc_part_node_count. rewrite concat_map. reflexivity. Qed.

Lemma rows_of_exact {B} (fill : B) w1 (rows : list (list B)) :
  rows_of (length rows) w1 fill rows = map (fun r => r ++ repeat fill (w1 - length r)) rows.
Proof.
  unfold rows_of. rewrite firstn_all2 by (rewrite map_length; lia).
  rewrite map_length, Nat.sub_diag. simpl. apply app_nil_r.
Qed.

Lemma wf_parts_nonempty (cs : cells) : wf_cells cs -> Forall (fun c : list (list Z) => c <> []) cs.
Proof. intro W. eapply Forall_impl; [|exact W]. intros c [H _]. exact H. Qed.

Lemma uniq_cell_index (cs : cells) :
  wf_cells cs -> uniq (cell_of_part_spec cs) = seq 0 (length cs).
Proof.
  intro W. unfold cell_of_part_spec. rewrite uniq_blocks.
  - rewrite map_length. reflexivity.
  - apply Forall_map. eapply Forall_impl; [|exact (wf_parts_nonempty cs W)].
    intros [|a r] Ha; simpl; [congruence|lia].
Qed.

Lemma decode_indexed_contiguous_ids_cells (cs : cells) :
  wf_cells cs ->
  decode_indexed_contiguous_ids (seq 0 (length cs)) (length cs) (cell_of_part_spec cs)
    (enc_part_node_count cs) (enc_nodes cs) = pad3 cs.
Proof.
  intro W. unfold decode_indexed_contiguous_ids, cell_of_part_spec, pad3.
  rewrite (max_parts_blocks cs) by (apply wf_parts_nonempty; exact W).
  rewrite enc_pnc_as_map.
  set (w2 := list_max (map (@length Z) (concat cs))).
  unfold enc_nodes. rewrite <- (app_nil_r (concat (concat cs))). rewrite split_by_concat.
  rewrite concat_map.
  replace (map (@length (list Z)) cs) with (map (@length (list (option Z))) (map (map (pad w2)) cs))
    by (rewrite map_map; apply map_ext; intro c; apply map_length).
  replace (length cs) with (length (map (map (pad w2)) cs)) at 1 2 by apply map_length.
  rewrite select_blocks. rewrite rows_of_exact.
  rewrite !map_map. apply map_ext. intro c. rewrite !map_length. reflexivity.
Qed.

Lemma decode_indexed_contiguous_cells (cs : cells) :
  wf_cells cs ->
  decode_indexed_contiguous (length cs) (cell_of_part_spec cs) (enc_part_node_count cs) (enc_nodes cs)
  = pad3 cs.
Proof.
  intro W. unfold decode_indexed_contiguous. rewrite uniq_cell_index by assumption.
  apply decode_indexed_contiguous_ids_cells. assumption.
Qed.

Lemma read_bounds_range_cells (cs : cells) ring :
  wf_cells cs ->
  read_bounds_range (container_for cs true ring) (enc_nodes cs) = pad3 cs.
Proof.
  intro W. unfold read_bounds_range, read_bounds_range_gen, container_for, n_cells, nodes_per_geometry. simpl.
  fold derive_index. rewrite derive_index_cells by assumption.
  unfold enc_node_count at 1 2. rewrite !map_length.
  apply decode_indexed_contiguous_ids_cells. assumption.
Qed.

Lemma read_bounds_cells (cs : cells) ring :
  wf_cells cs ->
  read_bounds (container_for cs true ring) (enc_nodes cs) = pad3 cs.
Proof.
  intro W. unfold read_bounds, read_bounds_gen, container_for, n_cells, nodes_per_geometry. simpl.
  fold derive_index. rewrite derive_index_cells by assumption.
  unfold enc_node_count at 1. rewrite map_length.
  apply decode_indexed_contiguous_cells. assumption.
Qed.

(* all cells have exactly one part: no part_node_count needed *)
Lemma list_max_ones {A} (l : list A) : list_max (map (fun _ => 1) l) - 1 = 0.
Proof. induction l; simpl; [reflexivity|]. destruct (list_max (map (fun _ => 1) l)); simpl in *; lia. Qed.

Lemma pad3_single (ps : list (list Z)) :
  pad3 (map (fun p => [p]) ps) = map (fun p => [pad (list_max (map (@length Z) ps)) p]) ps.
Proof.
  unfold pad3. rewrite !map_map. simpl.
  replace (concat (map (fun p : list Z => [p]) ps)) with ps
    by (induction ps; simpl; congruence).
  apply map_ext. intro p. rewrite list_max_ones. reflexivity.
Qed.

Lemma sum_single (p : list Z) : sum (map (@length Z) [p]) = length p.
Proof. simpl. lia. Qed.

Lemma decode_contiguous_single (ps : list (list Z)) :
  decode_contiguous (map (@length Z) ps) (concat ps) = pad3 (map (fun p => [p]) ps).
Proof.
  unfold decode_contiguous. rewrite <- (app_nil_r (concat ps)). rewrite split_by_concat.
  rewrite pad3_single. reflexivity.
Qed.

Lemma concat_singletons {A} (l : list A) : concat (map (fun x => [x]) l) = l.
Proof. induction l; simpl; congruence. Qed.

Lemma read_bounds_single_part (ps : list (list Z)) :
  read_bounds (container_for (map (fun p => [p]) ps) false None) (enc_nodes (map (fun p => [p]) ps))
  = pad3 (map (fun p => [p]) ps).
Proof.
  unfold read_bounds, read_bounds_gen, container_for, nodes_per_geometry. simpl.
  unfold enc_node_count, enc_nodes. rewrite map_map. rewrite concat_singletons.
  replace (map (fun x : list Z => sum (map (@length Z) [x])) ps) with (map (@length Z) ps)
    by (apply map_ext; intro; simpl; lia).
  apply decode_contiguous_single.
Qed.

(* points without a node_count variable *)
Lemma read_bounds_points (xs : list Z) :
  read_bounds {| g_nc := None; g_pnc := None; g_ring := None; g_nnodes := length xs |} xs
  = pad3 (map (fun x => [[x]]) xs).
Proof.
  unfold read_bounds, read_bounds_gen, nodes_per_geometry. simpl.
  replace (decode_contiguous (repeat 1 (length xs)) xs)
    with (decode_contiguous (map (@length Z) (map (fun x => [x]) xs)) (concat (map (fun x => [x]) xs))).
  2:{ rewrite concat_singletons. f_equal. rewrite map_map. simpl.
      induction xs; simpl; congruence. }
  rewrite decode_contiguous_single. rewrite map_map. reflexivity.
Qed.

(* interior rings *)
Lemma decode_indexed_ids_cells (cs : cells) (rs : list (list Z)) :
  wf_cells cs -> same_parts rs cs ->
  decode_indexed_ids (seq 0 (length cs)) (length cs) (cell_of_part_spec cs) (concat rs) = pad2 rs.
Proof.
  intros W S. unfold decode_indexed_ids, cell_of_part_spec, pad2.
  unfold same_parts in S. rewrite <- S.
  assert (Forall (fun y : list Z => y <> []) rs) as Fr.
  { assert (Forall (fun n => 1 <= n) (map (@length Z) rs)) as F1.
    { rewrite S. apply Forall_map. eapply Forall_impl; [|exact (wf_parts_nonempty cs W)].
      intros [|a r] Ha; simpl; [congruence|lia]. }
    rewrite Forall_map in F1. eapply Forall_impl; [|exact F1]. intros [|a r] Ha; simpl in *; [lia|congruence]. }
  rewrite (max_parts_blocks rs) by assumption.
  replace (length cs) with (length rs)
    by (rewrite <- (map_length (@length Z) rs), S; apply map_length).
  rewrite <- (map_map (fun v => select v (blocks 0 (map (@length Z) rs)) (concat rs)) (map Some)).
  rewrite select_blocks.
  replace (length rs) with (length (map (map (@Some Z)) rs)) by apply map_length.
  rewrite rows_of_exact. rewrite map_map. apply map_ext. intro r.
  unfold pad. rewrite map_length. reflexivity.
Qed.

Lemma read_ring_cells (cs : cells) (rs : list (list Z)) :
  wf_cells cs -> same_parts rs cs ->
  read_ring (container_for cs true (Some rs)) = Some (pad2 rs).
Proof.
  intros W S. unfold read_ring, read_ring_gen, container_for, n_cells, nodes_per_geometry. simpl.
  fold derive_index. rewrite derive_index_cells by assumption. f_equal.
  unfold enc_node_count. rewrite map_length.
  unfold decode_indexed. rewrite uniq_cell_index by assumption.
  apply decode_indexed_ids_cells; assumption.
Qed.

Lemma read_ring_range_cells (cs : cells) (rs : list (list Z)) :
  wf_cells cs -> same_parts rs cs ->
  read_ring_range (container_for cs true (Some rs)) = Some (pad2 rs).
Proof.
  intros W S. unfold read_ring_range, read_ring_range_gen, container_for, n_cells, nodes_per_geometry. simpl.
  fold derive_index. rewrite derive_index_cells by assumption. f_equal.
  unfold enc_node_count. rewrite !map_length.
  apply decode_indexed_ids_cells; assumption.
Qed.

(* shapes *)
Lemma bounds_shape_cells (cs : cells) ring :
  wf_cells cs ->
  bounds_shape (container_for cs true ring)
  = [length cs; list_max (map (@length (list Z)) cs); list_max (map (@length Z) (concat cs))].
Proof.
  intro W. unfold bounds_shape, bounds_shape_gen, container_for, n_cells, nodes_per_geometry. simpl.
  fold derive_index. rewrite derive_index_cells by assumption.
  unfold cell_of_part_spec. rewrite (max_parts_blocks cs) by (apply wf_parts_nonempty; exact W).
  unfold enc_node_count. rewrite map_length. rewrite enc_pnc_as_map. reflexivity.
Qed.

Lemma coord_shape_geometry (g : container) :
  coord_shape true (bounds_shape g) = [n_cells g].
Proof. unfold bounds_shape, bounds_shape_gen. destruct (g_pnc g); reflexivity. Qed.

(* ------------------------------------------------------------------------- *)
(* the writer                                                                 *)
(* ------------------------------------------------------------------------- *)
Lemma compressed_app {A} (l1 l2 : list (option A)) :
  compressed (l1 ++ l2) = compressed l1 ++ compressed l2.
Proof. induction l1 as [|[a|] r IH]; simpl; [reflexivity| |]; rewrite IH; reflexivity. Qed.

Lemma compressed_somes {A} (l : list A) : compressed (map Some l) = l.
Proof. induction l; simpl; congruence. Qed.

Lemma compressed_nones {A} n : compressed (repeat (@None A) n) = [].
Proof. induction n; simpl; auto. Qed.

Lemma compressed_pad {A} w (l : list A) : compressed (pad w l) = l.
Proof. unfold pad. rewrite compressed_app, compressed_somes, compressed_nones. apply app_nil_r. Qed.

Lemma compressed_concat {A} (ls : list (list (option A))) :
  compressed (concat ls) = concat (map compressed ls).
Proof. induction ls; simpl; [reflexivity|]. rewrite compressed_app, IHls. reflexivity. Qed.

Lemma map_repeat {A B} (f : A -> B) x n : map f (repeat x n) = repeat (f x) n.
Proof. induction n; simpl; congruence. Qed.

Lemma concat_repeat_nil {A} n : concat (repeat (@nil A) n) = [].
Proof. induction n; simpl; auto. Qed.

Definition padcell (w1 w2 : nat) (c : list (list Z)) : list (list (option Z)) :=
  map (pad w2) c ++ repeat (repeat None w2) (w1 - length c).

Lemma compressed_padcell w1 w2 c : compressed (concat (padcell w1 w2 c)) = concat c.
Proof.
  unfold padcell. rewrite compressed_concat, map_app, concat_app.
  rewrite map_map. rewrite (map_ext _ (fun p => p) (fun p => compressed_pad w2 p)). rewrite map_id.
  rewrite map_repeat. rewrite compressed_nones. rewrite concat_repeat_nil. apply app_nil_r.
Qed.

Lemma write_nodes_padcells w1 w2 (cs : cells) :
  compressed (concat (concat (map (padcell w1 w2) cs))) = concat (concat cs).
Proof.
  induction cs as [|c r IH]; [reflexivity|]. cbn [map concat].
  rewrite !concat_app, compressed_app, compressed_padcell, IH. reflexivity.
Qed.

Lemma write_nodes_pad3 (cs : cells) : write_nodes (pad3 cs) = enc_nodes cs.
Proof. exact (write_nodes_padcells _ _ cs). Qed.

Lemma count_some_pad w (p : list Z) : count_some (pad w p) = length p.
Proof. unfold count_some. rewrite compressed_pad. reflexivity. Qed.

Lemma count_some_nones n : count_some (repeat (@None Z) n) = 0.
Proof. unfold count_some. rewrite compressed_nones. reflexivity. Qed.

Lemma counts_padcell w1 w2 c :
  map count_some (padcell w1 w2 c) = map (@length Z) c ++ repeat 0 (w1 - length c).
Proof.
  unfold padcell. rewrite map_app, map_map, map_repeat, count_some_nones.
  f_equal. apply map_ext. intro p. apply count_some_pad.
Qed.

Lemma sum_repeat0 n : sum (repeat 0 n) = 0.
Proof. induction n; simpl; auto. Qed.

Lemma node_count_padcell w1 w2 c :
  sum (map count_some (padcell w1 w2 c)) = sum (map (@length Z) c).
Proof. rewrite counts_padcell, sum_app, sum_repeat0. lia. Qed.

Lemma write_node_count_pad3 (cs : cells) : write_node_count (pad3 cs) = enc_node_count cs.
Proof.
  unfold write_node_count, pad3, enc_node_count. rewrite map_map. apply map_ext. intro c.
  exact (node_count_padcell _ _ c).
Qed.

Lemma nonzero_app l1 l2 : nonzero (l1 ++ l2) = nonzero l1 ++ nonzero l2.
Proof. unfold nonzero. apply filter_app. Qed.

Lemma nonzero_zeros n : nonzero (repeat 0 n) = [].
Proof. induction n; simpl; auto. Qed.

Lemma nonzero_pos l : Forall (fun n => 1 <= n) l -> nonzero l = l.
Proof.
  intro F. unfold nonzero. apply filter_all. intros x Hx. rewrite Forall_forall in F.
  apply F in Hx. destruct x; [lia|reflexivity].
Qed.

Lemma part_counts_padcells w1 w2 (cs : cells) :
  wf_cells cs ->
  nonzero (concat (map (map count_some) (map (padcell w1 w2) cs))) = concat (map (map (@length Z)) cs).
Proof.
  intro W. induction cs as [|c r IH]; [reflexivity|]. cbn [map concat].
  inversion W as [|? ? [Hc Fc] Wr]; subst.
  rewrite nonzero_app, IH by assumption. f_equal.
  rewrite counts_padcell, nonzero_app, nonzero_zeros, app_nil_r.
  apply nonzero_pos. apply Forall_map. eapply Forall_impl; [|exact Fc].
  intros [|a p] Ha; simpl; [congruence|lia].
Qed.

Lemma part_counts_pad3 (cs : cells) :
  wf_cells cs -> nonzero (part_counts (pad3 cs)) = enc_part_node_count cs.
Proof. intro W. exact (part_counts_padcells _ _ cs W). Qed.

Lemma n_part_slots_pad3 (cs : cells) :
  cs <> [] -> n_part_slots (pad3 cs) = list_max (map (@length (list Z)) cs).
Proof.
  intro H. destruct cs as [|c r]; [congruence|].
  assert (length c <= list_max (map (@length (list Z)) (c :: r))) by (apply list_max_ge; simpl; auto).
  unfold n_part_slots, pad3. cbn [map].
  rewrite app_length, map_length, repeat_length. cbn [map] in H0. lia.
Qed.

Lemma write_ring_pad2 (rs : list (list Z)) : write_ring (pad2 rs) = concat rs.
Proof.
  unfold write_ring, pad2. rewrite compressed_concat, map_map.
  f_equal. rewrite <- (map_id rs) at 2. apply map_ext. intro r. apply compressed_pad.
Qed.

Lemma same_parts_lengths (rs : list (list Z)) (cs : cells) :
  same_parts rs cs -> length (concat rs) = length (enc_part_node_count cs).
Proof.
  intro S. rewrite length_concat. unfold enc_part_node_count. rewrite length_concat, map_map.
  unfold same_parts in S. rewrite S. f_equal. apply map_ext. intro c. symmetry. apply map_length.
Qed.

(* what the writer produces for well-formed cells *)
Lemma write_cells_no_ring (cs : cells) :
  wf_cells cs -> cs <> [] ->
  write (pad3 cs) None =
  Ok {| w_nodes := enc_nodes cs; w_nc := enc_node_count cs;
        w_pnc := if Nat.eqb (list_max (map (@length (list Z)) cs)) 1 then None
                 else Some (enc_part_node_count cs);
        w_ring := None |}.
Proof.
  intros W H. unfold write, write_gen, write_part_node_count. simpl.
  rewrite n_part_slots_pad3 by assumption.
  rewrite write_nodes_pad3, write_node_count_pad3, part_counts_pad3 by assumption.
  rewrite andb_true_r.
  destruct (Nat.eqb (list_max (map (@length (list Z)) cs)) 1); reflexivity.
Qed.

Lemma write_cells_ring (cs : cells) (rs : list (list Z)) :
  wf_cells cs -> cs <> [] -> same_parts rs cs ->
  write (pad3 cs) (Some (pad2 rs)) =
  Ok {| w_nodes := enc_nodes cs; w_nc := enc_node_count cs;
        w_pnc := Some (enc_part_node_count cs); w_ring := Some (concat rs) |}.
Proof.
  intros W H S. unfold write, write_gen, write_part_node_count. simpl.
  rewrite andb_false_r.
  rewrite write_nodes_pad3, write_node_count_pad3, part_counts_pad3, write_ring_pad2 by assumption.
  rewrite (same_parts_lengths rs cs S), Nat.eqb_refl. reflexivity.
Qed.

(* max number of parts = 1 together with well-formedness: every cell has one part *)
Lemma single_part_of_max (cs : cells) :
  wf_cells cs -> list_max (map (@length (list Z)) cs) = 1 ->
  cs = map (fun p => [p]) (concat cs).
Proof.
  intros W M. assert (Forall (fun k => k <= 1) (map (@length (list Z)) cs)) as F
    by (apply list_max_le; lia).
  clear M. induction cs as [|c r IH]; simpl; [reflexivity|].
  inversion W as [|? ? [Hc _] Wr]; subst. inversion F as [|? ? Hl Fr]; subst.
  destruct c as [|p [|q c']]; simpl in *; [congruence| |lia].
  f_equal. apply IH; assumption.
Qed.

(* round trip: the written variables, read again, present the same cells *)
Lemma roundtrip_no_ring (cs : cells) :
  wf_cells cs -> cs <> [] ->
  exists w, write (pad3 cs) None = Ok w /\
            accepted (container_of w) = true /\
            read_bounds (container_of w) (w_nodes w) = pad3 cs /\
            read_ring (container_of w) = None.
Proof.
  intros W H. rewrite write_cells_no_ring by assumption. eexists. split; [reflexivity|].
  destruct (Nat.eqb (list_max (map (@length (list Z)) cs)) 1) eqn:E.
  - apply Nat.eqb_eq in E. pose proof (single_part_of_max cs W E) as S.
    splits; try reflexivity. unfold container_of. simpl.
    rewrite S at 1 2 3.
    unfold read_bounds, read_bounds_gen, nodes_per_geometry. simpl.
    unfold enc_node_count, enc_nodes. rewrite map_map. rewrite concat_singletons.
    replace (map (fun x : list Z => sum (map (@length Z) [x])) (concat cs))
      with (map (@length Z) (concat cs)) by (apply map_ext; intro; simpl; lia).
    rewrite decode_contiguous_single. rewrite <- S. reflexivity.
  - splits; try reflexivity. unfold container_of. simpl.
    apply (read_bounds_cells cs None W).
Qed.

Lemma roundtrip_ring (cs : cells) (rs : list (list Z)) :
  wf_cells cs -> cs <> [] -> same_parts rs cs ->
  exists w, write (pad3 cs) (Some (pad2 rs)) = Ok w /\
            accepted (container_of w) = true /\
            read_bounds (container_of w) (w_nodes w) = pad3 cs /\
            read_ring (container_of w) = Some (pad2 rs).
Proof.
  intros W H S. rewrite write_cells_ring by assumption. eexists. split; [reflexivity|].
  splits; try reflexivity.
  - apply (read_bounds_cells cs (Some rs) W).
  - apply (read_ring_cells cs rs W S).
Qed.

(* consistency of what is written, for ANY array (any shape, any pattern of missing data) *)
Lemma length_compressed_concat {A} (ls : list (list (option A))) :
  length (compressed (concat ls)) = sum (map count_some ls).
Proof.
  induction ls as [|l r IH]; simpl; [reflexivity|].
  rewrite compressed_app, app_length, IH. reflexivity.
Qed.

Lemma sum_node_count (a : arr3) : sum (write_node_count a) = length (write_nodes a).
Proof.
  unfold write_node_count, write_nodes. induction a as [|c r IH]; simpl; [reflexivity|].
  rewrite concat_app, compressed_app, app_length, (length_compressed_concat c), IH. reflexivity.
Qed.

Lemma sum_part_counts (a : arr3) : sum (part_counts a) = length (write_nodes a).
Proof.
  unfold part_counts, write_nodes. induction a as [|c r IH]; simpl; [reflexivity|].
  rewrite sum_app, concat_app, compressed_app, app_length, (length_compressed_concat c), IH. reflexivity.
Qed.

Lemma sum_nonzero l : sum (nonzero l) = sum l.
Proof. induction l as [|[|n] r IH]; simpl; auto. Qed.

Lemma nonzero_all_pos l : Forall (fun n => 1 <= n) (nonzero l).
Proof.
  apply Forall_forall. intros x Hx. unfold nonzero in Hx. apply filter_In in Hx as [_ Hx].
  destruct x; simpl in Hx; [discriminate|lia].
Qed.

Lemma written_consistent (a : arr3) (ring : option arr2) (w : written) :
  write a ring = Ok w ->
  sum (w_nc w) = length (w_nodes w) /\
  length (w_nc w) = length a /\
  (forall p, w_pnc w = Some p -> sum p = length (w_nodes w) /\ Forall (fun n => 1 <= n) p) /\
  (forall r, w_ring w = Some r -> exists p, w_pnc w = Some p /\ length p = length r) /\
  (w_ring w = None <-> ring = None).
Proof.
  unfold write, write_gen, write_part_node_count. intro H.
  destruct ring as [r0|]; simpl in H.
  - rewrite andb_false_r in H.
    destruct (Nat.eqb (length (nonzero (part_counts a))) (length (write_ring r0))) eqn:E; [|discriminate].
    inversion H; subst; clear H. simpl. splits.
    + apply sum_node_count.
    + unfold write_node_count. apply map_length.
    + intros p Hp. inversion Hp; subst. split; [|apply nonzero_all_pos].
      rewrite sum_nonzero. apply sum_part_counts.
    + intros r Hr. inversion Hr; subst. eexists. split; [reflexivity|]. apply Nat.eqb_eq. exact E.
    + split; intro; discriminate.
  - rewrite andb_true_r in H.
    destruct (Nat.eqb (n_part_slots a) 1); inversion H; subst; clear H; simpl; splits;
      try apply sum_node_count; try (unfold write_node_count; apply map_length);
      try (intros p Hp; inversion Hp; subst; split; [rewrite sum_nonzero; apply sum_part_counts|apply nonzero_all_pos]);
      try (intros r Hr; discriminate); try (split; reflexivity).
Qed.

(* ------------------------------------------------------------------------- *)
(* non-vacuity                                                                *)
(* ------------------------------------------------------------------------- *)
Local Open Scope Z_scope.
Definition example_cells : cells :=
  [ [[1;2;3]; [4]]; [[5;6]]; [[7]]; [[8;9;10]; [11;12]; [13]] ].
Definition example_rings : list (list Z) := [[0;1]; [0]; [0]; [0;1;1]].
Definition example_bounds : arr3 :=
  [ [[Some 1; Some 2; Some 3]; [Some 4; None; None]; [None; None; None]];
    [[Some 5; Some 6; None]; [None; None; None]; [None; None; None]];
    [[Some 7; None; None]; [None; None; None]; [None; None; None]];
    [[Some 8; Some 9; Some 10]; [Some 11; Some 12; None]; [Some 13; None; None]] ].
Definition example_ring_array : arr2 :=
  [ [Some 0; Some 1; None]; [Some 0; None; None]; [Some 0; None; None]; [Some 0; Some 1; Some 1] ].
Local Close Scope Z_scope.

Lemma example_wf : wf_cells example_cells /\ example_cells <> [] /\ same_parts example_rings example_cells.
Proof.
  splits; [|discriminate|reflexivity].
  unfold example_cells. repeat (constructor; [split; [discriminate|repeat (constructor; [discriminate|])]; constructor|]).
  constructor.
Qed.

Lemma example_decode :
  exists cs rs, wf_cells cs /\ cs <> [] /\ same_parts rs cs /\
    read_bounds (container_for cs true (Some rs)) (enc_nodes cs) = example_bounds /\
    read_ring (container_for cs true (Some rs)) = Some example_ring_array.
Proof.
  exists example_cells, example_rings. destruct example_wf as [W [N S]].
  splits; try assumption; vm_compute; reflexivity.
Qed.

(* ------------------------------------------------------------------------- *)
(* the independent decoder of Spec.v recovers the cells from their encoding   *)
(* ------------------------------------------------------------------------- *)
Lemma take_parts_spec ls : forall rest acc need,
  ls <> [] -> Forall (fun n => 1 <= n) ls -> acc + sum ls = need ->
  take_parts (ls ++ rest) need acc = Some (ls, rest).
Proof.
  induction ls as [|p r IH]; intros rest acc need Hne F E; [congruence|].
  inversion F as [|? ? Hp Fr]; subst. simpl in *.
  destruct r as [|q r'].
  - simpl in *. replace (Nat.eqb (acc + p) (acc + (p + 0))) with true
      by (symmetry; apply Nat.eqb_eq; lia). reflexivity.
  - assert (1 <= sum (q :: r')) by (inversion Fr; subst; simpl; lia).
    replace (Nat.eqb (acc + p) (acc + (p + sum (q :: r')))) with false
      by (symmetry; apply Nat.eqb_neq; lia).
    replace (acc + (p + sum (q :: r')) <? acc + p) with false
      by (symmetry; apply Nat.ltb_ge; lia).
    rewrite (IH rest (acc + p) (acc + (p + sum (q :: r')))); [reflexivity|congruence|assumption|lia].
Qed.

Lemma group_cells (cs : cells) :
  wf_cells cs -> group (enc_node_count cs) (enc_part_node_count cs) = Some (map (map (@length Z)) cs).
Proof.
  intro W. induction cs as [|c r IH]; [reflexivity|].
  inversion W as [|? ? [Hc Fc] Wr]; subst.
  unfold enc_node_count, enc_part_node_count in *. cbn [map concat group].
  rewrite (take_parts_spec (map (@length Z) c)); [| | |reflexivity].
  2:{ destruct c; simpl; congruence. }
  2:{ apply Forall_map. eapply Forall_impl; [|exact Fc]. intros [|a p] Ha; simpl; [congruence|lia]. }
  rewrite IH by assumption. reflexivity.
Qed.

Lemma spec_decode_cells (cs : cells) :
  wf_cells cs -> spec_decode (enc_node_count cs) (enc_part_node_count cs) (enc_nodes cs) = Some cs.
Proof.
  intro W. unfold spec_decode. rewrite group_cells by assumption. simpl. f_equal.
  rewrite enc_pnc_as_map. unfold enc_nodes.
  rewrite <- (app_nil_r (concat (concat cs))), split_by_concat.
  rewrite map_map.
  replace (map (fun x : list (list Z) => length (map (@length Z) x)) cs) with (map (@length (list Z)) cs)
    by (apply map_ext; intro; symmetry; apply map_length).
  rewrite <- (app_nil_r (concat cs)). apply split_by_concat.
Qed.

Lemma single_part_counts (ps : list (list Z)) :
  enc_node_count (map (fun p => [p]) ps) = enc_part_node_count (map (fun p => [p]) ps).
Proof.
  unfold enc_node_count, enc_part_node_count. rewrite !map_map. simpl.
  induction ps as [|p r IH]; simpl; [reflexivity|]. rewrite IH. f_equal. lia.
Qed.

(* what the writer produces decodes, independently of the reader, to the cells *)
Lemma written_decodes (cs : cells) :
  wf_cells cs -> cs <> [] ->
  (exists w, write (pad3 cs) None = Ok w /\ spec_decode_container (container_of w) (w_nodes w) = Some cs) /\
  (forall rs, same_parts rs cs ->
   exists w, write (pad3 cs) (Some (pad2 rs)) = Ok w /\
             spec_decode_container (container_of w) (w_nodes w) = Some cs /\
             option_map (split_by (map (@length (list Z)) cs)) (w_ring w) = Some rs).
Proof.
  intros W H. split.
  - rewrite write_cells_no_ring by assumption. eexists. split; [reflexivity|].
    unfold spec_decode_container, container_of, nodes_per_geometry. simpl.
    destruct (Nat.eqb (list_max (map (@length (list Z)) cs)) 1) eqn:E; simpl.
    + apply Nat.eqb_eq in E. pose proof (single_part_of_max cs W E) as S.
      rewrite S at 2. rewrite single_part_counts. rewrite <- S. apply spec_decode_cells. assumption.
    + apply spec_decode_cells. assumption.
  - intros rs S. rewrite write_cells_ring by assumption. eexists. split; [reflexivity|].
    unfold spec_decode_container, container_of, nodes_per_geometry. simpl. split.
    + apply spec_decode_cells. assumption.
    + f_equal. unfold same_parts in S. rewrite <- S.
      rewrite <- (app_nil_r (concat rs)). apply split_by_concat.
Qed.

(* reading then writing a conformant container reproduces its raw variables *)
Lemma decode_encode (cs : cells) :
  wf_cells cs -> cs <> [] ->
  write (read_bounds (container_for cs true None) (enc_nodes cs)) None =
    Ok {| w_nodes := enc_nodes cs; w_nc := enc_node_count cs;
          w_pnc := if Nat.eqb (list_max (map (@length (list Z)) cs)) 1 then None
                   else Some (enc_part_node_count cs);
          w_ring := None |} /\
  forall rs, same_parts rs cs ->
  match read_ring (container_for cs true (Some rs)) with
  | Some r =>
      write (read_bounds (container_for cs true (Some rs)) (enc_nodes cs)) (Some r) =
        Ok {| w_nodes := enc_nodes cs; w_nc := enc_node_count cs;
              w_pnc := Some (enc_part_node_count cs); w_ring := Some (concat rs) |}
  | None => False
  end.
Proof.
  intros W H. split.
  - rewrite read_bounds_cells by assumption. apply write_cells_no_ring; assumption.
  - intros rs S. rewrite read_ring_cells by assumption. rewrite read_bounds_cells by assumption.
    apply write_cells_ring; assumption.
Qed.

(* ------------------------------------------------------------------------- *)
(* second pass: data variables sharing containers                             *)
(* ------------------------------------------------------------------------- *)
Lemma lookup_cons_other p q gid vg : q <> p ->
  lookup_geometry p ((q, gid) :: vg) = lookup_geometry p vg.
Proof.
  intro H. unfold lookup_geometry. simpl.
  destruct (Nat.eqb q p) eqn:E; [apply Nat.eqb_eq in E; congruence|reflexivity].
Qed.

Lemma lookup_cons_same p gid vg : lookup_geometry p ((p, gid) :: vg) = Some gid.
Proof. unfold lookup_geometry. simpl. rewrite Nat.eqb_refl. reflexivity. Qed.

Lemma lookup_none p vg : (forall e, In e vg -> fst e < p) -> lookup_geometry p vg = None.
Proof.
  intro H. unfold lookup_geometry. induction vg as [|e r IH]; [reflexivity|]. simpl.
  destruct (Nat.eqb (fst e) p) eqn:E.
  - apply Nat.eqb_eq in E. specialize (H e (or_introl eq_refl)). lia.
  - apply IH. intros x Hx. apply H. right. exact Hx.
Qed.

Lemma parse_step_other ra ca conts st q d p : q <> p ->
  lookup_geometry p (snd (parse_step_full ra ca conts st (q, d))) = lookup_geometry p (snd st).
Proof.
  intro H. destruct st as [parsed vg]. unfold parse_step_full.
  destruct (mem (d_gid d) parsed).
  - destruct (nth_error conts (d_gid d)) as [c|]; [|reflexivity].
    destruct (negb ca || mem (cont_celldim c) (d_dims d)); [|reflexivity].
    destruct ra; simpl; [apply lookup_cons_other; assumption|reflexivity].
  - destruct (nth_error conts (d_gid d)) as [c|]; [|reflexivity].
    destruct (accepted (c_g c) && mem (cont_celldim c) (d_dims d)); simpl;
      [apply lookup_cons_other; assumption|reflexivity].
Qed.

Lemma lookup_preserved ra ca conts : forall r s' st p, p < s' ->
  lookup_geometry p (snd (fold_left (parse_step_full ra ca conts) (combine (seq s' (length r)) r) st))
  = lookup_geometry p (snd st).
Proof.
  induction r as [|d r IH]; intros s' st p H; [reflexivity|].
  simpl. rewrite IH by lia. apply parse_step_other. lia.
Qed.

(* invariant of the parse: only acceptable containers are held, and only parents already met
   are recorded *)
Definition parse_inv (conts : list gcont) (s : nat) (st : list nat * list (nat * nat)) : Prop :=
  (forall k, In k (fst st) -> exists c, nth_error conts k = Some c /\ accepted (c_g c) = true) /\
  (forall e, In e (snd st) -> fst e < s).

Lemma parse_step_inv conts s st d :
  parse_inv conts s st -> parse_inv conts (S s) (parse_step_full true true conts st (s, d)).
Proof.
  intros [I1 I2]. destruct st as [parsed vg]. unfold parse_step_full. simpl in *.
  assert (forall e, In e vg -> fst e < S s) as I2' by (intros e He; specialize (I2 e He); lia).
  destruct (mem (d_gid d) parsed).
  - destruct (nth_error conts (d_gid d)) as [c|]; [|split; assumption].
    destruct (mem (cont_celldim c) (d_dims d)); simpl; (split; [assumption|]); [|assumption].
    intros e [<-|He]; simpl; [lia|auto].
  - destruct (nth_error conts (d_gid d)) as [c|] eqn:Hc; [|split; assumption].
    destruct (accepted (c_g c)) eqn:Ha; simpl; [|split; assumption].
    destruct (mem (cont_celldim c) (d_dims d)); simpl; [|split; assumption].
    split.
    + intros k [<-|Hk]; [exists c; auto|auto].
    + intros e [<-|He]; simpl; [lia|auto].
Qed.

(* one step, for the parent it is about: recorded iff the variable is good *)
Lemma parse_step_own conts s st d :
  parse_inv conts s st ->
  lookup_geometry s (snd (parse_step_full true true conts st (s, d)))
  = if good_dvarb conts d then Some (d_gid d) else None.
Proof.
  intros [I1 I2]. destruct st as [parsed vg]. unfold parse_step_full, good_dvarb. simpl in *.
  pose proof (lookup_none s vg I2) as LN.
  destruct (mem (d_gid d) parsed) eqn:M.
  - apply mem_true in M. destruct (I1 _ M) as [c [Hc Ha]]. rewrite Hc, Ha. simpl.
    destruct (mem (cont_celldim c) (d_dims d)); simpl; [apply lookup_cons_same|exact LN].
  - destruct (nth_error conts (d_gid d)) as [c|]; [|exact LN].
    destruct (accepted (c_g c) && mem (cont_celldim c) (d_dims d)); simpl;
      [apply lookup_cons_same|exact LN].
Qed.

Lemma lookup_after_fold conts : forall l s st i d,
  parse_inv conts s st -> nth_error l i = Some d ->
  lookup_geometry (s + i)
    (snd (fold_left (parse_step_full true true conts) (combine (seq s (length l)) l) st))
  = if good_dvarb conts d then Some (d_gid d) else None.
Proof.
  induction l as [|x r IH]; intros s st i d Inv Hn; [destruct i; discriminate|].
  destruct i as [|i]; simpl in Hn.
  - inversion Hn; subst. simpl. rewrite lookup_preserved by lia.
    rewrite Nat.add_0_r. apply parse_step_own. assumption.
  - simpl. replace (s + S i) with (S s + i) by lia. apply IH; [|assumption].
    apply parse_step_inv. assumption.
Qed.

(* Every data variable on the cell dimension of an acceptable container it names is recorded with
   that container; every other one (off the cell dimension, container missing or unacceptable) is
   recorded with none - whatever the order of the variables and whatever else names the container. *)
Lemma variable_geometry_total conts dvs i d :
  nth_error dvs i = Some d ->
  lookup_geometry i (snd (parse_all_gen true conts dvs))
  = if good_dvarb conts d then Some (d_gid d) else None.
Proof.
  intro H. unfold parse_all_gen, parse_all_full.
  apply (lookup_after_fold conts dvs 0 ([], []) i d); [|assumption].
  split; intros ? [].
Qed.

Lemma good_dvar_b conts d : good_dvar conts d <-> good_dvarb conts d = true.
Proof.
  unfold good_dvar, good_dvarb. split.
  - intros [c [Hc [Ha Hm]]]. rewrite Hc, Ha, Hm. reflexivity.
  - destruct (nth_error conts (d_gid d)) as [c|]; [|discriminate].
    intro H. apply andb_true_iff in H as [Ha Hm]. exists c. auto.
Qed.

Lemma variable_sees_its_container conts dvs i d :
  nth_error dvs i = Some d -> good_dvar conts d ->
  lookup_geometry i (snd (parse_all_gen true conts dvs)) = Some (d_gid d).
Proof.
  intros H G. rewrite (variable_geometry_total conts dvs i d H).
  apply good_dvar_b in G. rewrite G. reflexivity.
Qed.

Lemma map_seq_nth {A B} (f : nat -> B) (g : A -> B) (l : list A) :
  forall s, (forall i a, nth_error l i = Some a -> f (s + i) = g a) ->
  map f (seq s (length l)) = map g l.
Proof.
  induction l as [|a r IH]; intros s H; [reflexivity|].
  simpl. f_equal.
  - specialize (H 0 a eq_refl). rewrite Nat.add_0_r in H. exact H.
  - apply IH. intros i b Hb. replace (S s + i) with (s + S i) by lia. apply H. exact Hb.
Qed.

Lemma existsb_false_in {A} (f : A -> bool) l : (forall x, In x l -> f x = false) -> existsb f l = false.
Proof. induction l; simpl; intro H; [reflexivity|]. rewrite H by auto. apply IHl. auto. Qed.

Lemma in_combine_seq {A} (l : list A) s p d :
  In (p, d) (combine (seq s (length l)) l) -> exists i, p = s + i /\ nth_error l i = Some d.
Proof.
  revert s. induction l as [|a r IH]; intros s H; [contradiction|].
  simpl in H. destruct H as [H|H].
  - inversion H; subst. exists 0. split; [lia|reflexivity].
  - apply IH in H as [i [E N]]. exists (S i). split; [lia|exact N].
Qed.

(* Reading ANY dataset never raises, and every data variable is given the cells of the container
   it names if it lies on that container's cell dimension, and no geometry otherwise. *)
Lemma read_dataset_total conts dvs :
  read_dataset conts dvs
  = Ok (map (fun d => if good_dvarb conts d then own_cells conts d else None) dvs).
Proof.
  unfold read_dataset, read_dataset_gen, read_dataset_full.
  fold (parse_all_gen true conts dvs).
  destruct (parse_all_gen true conts dvs) as [parsed vg] eqn:P.
  assert (forall i d, nth_error dvs i = Some d ->
            lookup_geometry i vg = if good_dvarb conts d then Some (d_gid d) else None) as L.
  { intros i d H. replace vg with (snd (parse_all_gen true conts dvs)) by (rewrite P; reflexivity).
    apply variable_geometry_total. assumption. }
  rewrite existsb_false_in.
  2:{ intros [p d] Hin. apply in_combine_seq in Hin as [i [E N]]. simpl in E. subst p.
      rewrite (L i d N). unfold good_dvarb.
      destruct (nth_error conts (d_gid d)) as [c|] eqn:Hc; [|reflexivity].
      destruct (accepted (c_g c) && mem (cont_celldim c) (d_dims d)) eqn:G; [|reflexivity].
      rewrite Hc. apply andb_true_iff in G as [_ Hm]. rewrite Hm. reflexivity. }
  f_equal. apply map_seq_nth.
  intros i d N. simpl. rewrite (L i d N).
  destruct (good_dvarb conts d); [|reflexivity].
  unfold var_cells_gen, own_cells, ring_array_gen.
  destruct (nth_error conts (d_gid d)) as [c|] eqn:Hc; reflexivity.
Qed.

Lemma read_dataset_own conts dvs :
  Forall (good_dvar conts) dvs ->
  read_dataset conts dvs = Ok (map (own_cells conts) dvs).
Proof.
  intro F. rewrite read_dataset_total. f_equal. apply map_ext_in. intros d Hd.
  rewrite Forall_forall in F. specialize (F d Hd). apply good_dvar_b in F. rewrite F. reflexivity.
Qed.

(* ------------------------------------------------------------------------- *)
(* second pass: several fields written to one dataset                         *)
(* ------------------------------------------------------------------------- *)
Lemma write_key_of (a : arr3) (ring : option arr2) : write a ring = write_key (key_of a ring).
Proof.
  unfold write, write_gen, write_part_node_count, key_of, write_key, part_counts, write_node_count.
  assert (n_part_slots a = match map (map count_some) a with [] => 0 | c :: _ => length c end) as ->
    by (destruct a; simpl; [reflexivity|symmetry; apply map_length]).
  rewrite map_map. destruct ring; reflexivity.
Qed.

Definition wentry_ok (e : wentry) : Prop :=
  let '(n, _, part, w) := e in w = write_key (n, fst part, snd part).

Lemma zs_eqb_eq (l1 l2 : list Z) : list_eqb Z.eqb l1 l2 = true <-> l1 = l2.
Proof. apply list_eqb_eq. intros. apply Z.eqb_eq. Qed.

Lemma nats2_eqb_eq (l1 l2 : list (list nat)) : nats2_eqb l1 l2 = true <-> l1 = l2.
Proof. apply list_eqb_eq. intros. apply list_eqb_eq. intros. apply Nat.eqb_eq. Qed.

Lemma ozs_eqb_eq (a b : option (list Z)) : option_eqb (list_eqb Z.eqb) a b = true <-> a = b.
Proof.
  destruct a, b; simpl; split; intro H; try discriminate; try reflexivity.
  - f_equal. apply zs_eqb_eq. exact H.
  - inversion H; subst. apply zs_eqb_eq. reflexivity.
Qed.

Lemma write_fields_transparent : forall fs seen,
  Forall wentry_ok seen ->
  write_fields_gen true seen fs = map (fun f => write (f_a f) (f_ring f)) fs.
Proof.
  induction fs as [|f r IH]; intros seen Inv; [reflexivity|].
  cbn [write_fields_gen map].
  destruct (key_of (f_a f) (f_ring f)) as [[nodes counts] wr] eqn:K.
  assert (Forall wentry_ok (seen ++ [(nodes, f_gdim f, (counts, wr), write (f_a f) (f_ring f))])) as Inv'.
  { apply Forall_app. split; [exact Inv|]. constructor; [|constructor].
    unfold wentry_ok. simpl. rewrite write_key_of, K. reflexivity. }
  destruct (find _ seen) as [[[[n gd] part] w]|] eqn:Fd.
  - destruct (Nat.eqb gd (f_gdim f) && (negb true || part_eqb part (counts, wr))) eqn:C.
    + f_equal; [|apply IH; exact Inv].
      apply find_some in Fd as [Hin Hn]. apply zs_eqb_eq in Hn. subst n.
      apply andb_true_iff in C as [_ C]. simpl in C.
      unfold part_eqb in C. apply andb_true_iff in C as [C1 C2]. simpl in C1, C2.
      apply nats2_eqb_eq in C1. apply ozs_eqb_eq in C2.
      rewrite Forall_forall in Inv. specialize (Inv _ Hin). unfold wentry_ok in Inv.
      rewrite Inv, C1, C2, write_key_of, K. reflexivity.
    + f_equal. apply IH. exact Inv'.
  - f_equal. apply IH. exact Inv'.
Qed.

Lemma write_fields_independent (fs : list wfield) :
  write_fields fs = map (fun f => write (f_a f) (f_ring f)) fs.
Proof. apply write_fields_transparent. constructor. Qed.

(* corollaries in terms of cells *)
Lemma dataset_variable_cells conts dvs i d c (cs : cells) :
  Forall (good_dvar conts) dvs ->
  nth_error dvs i = Some d -> nth_error conts (d_gid d) = Some c ->
  c_g c = container_for cs true None -> c_datas c = [enc_nodes cs] -> wf_cells cs ->
  exists l, read_dataset conts dvs = Ok l /\ nth_error l i = Some (Some ([pad3 cs], None)).
Proof.
  intros F N Hc Hg Hd W. rewrite read_dataset_own by assumption. eexists. split; [reflexivity|].
  rewrite (map_nth_error (own_cells conts) i dvs N). unfold own_cells. rewrite Hc, Hg, Hd.
  cbn [map]. rewrite read_bounds_cells by assumption. reflexivity.
Qed.

Definition field_of_cells (x : cells * nat) : wfield :=
  {| f_a := pad3 (fst x); f_ring := None; f_gdim := snd x |}.

Lemma fields_decode_own_cells (css : list (cells * nat)) i cs gd :
  nth_error css i = Some (cs, gd) -> wf_cells cs -> cs <> [] ->
  exists w, nth_error (write_fields (map field_of_cells css)) i = Some (Ok w) /\
            accepted (container_of w) = true /\
            read_bounds (container_of w) (w_nodes w) = pad3 cs /\
            spec_decode_container (container_of w) (w_nodes w) = Some cs.
Proof.
  intros N W H. rewrite write_fields_independent. rewrite map_map.
  rewrite (map_nth_error _ i css N). cbn [field_of_cells f_a f_ring fst snd].
  destruct (roundtrip_no_ring cs W H) as [w [Hw [Ha [Hb _]]]].
  destruct (proj1 (written_decodes cs W H)) as [w' [Hw' Hs]].
  rewrite Hw in Hw'. inversion Hw'; subst w'.
  exists w. rewrite Hw. auto.
Qed.
