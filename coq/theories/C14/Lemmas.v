(* C14 - proofs. *)
From CfdmV Require Import Common.Base C14.Model C14.Spec.
Open Scope nat_scope.

Ltac splits := repeat match goal with |- _ /\ _ => split end.

(* ------------------------------------------------------------------------- *)
(* generic list facts                                                         *)
(* ------------------------------------------------------------------------- *)
Lemma list_max_ge : forall l x, In x l -> x <= list_max l.
Proof.
  intros l x H. assert (Forall (fun k => k <= list_max l) l) as F by (apply list_max_le; lia).
  rewrite Forall_forall in F. auto.
Qed.

Lemma filter_all {A} (f : A -> bool) l : (forall x, In x l -> f x = true) -> filter f l = l.
Proof.
  induction l as [|a r IH]; simpl; intro H; [reflexivity|].
  rewrite H by auto. f_equal. apply IH. auto.
Qed.

Lemma filter_none {A} (f : A -> bool) l : (forall x, In x l -> f x = false) -> filter f l = [].
Proof.
  induction l as [|a r IH]; simpl; intro H; [reflexivity|].
  rewrite H by auto. apply IH. auto.
Qed.

Lemma combine_app {A B} (a1 a2 : list A) (b1 b2 : list B) :
  length a1 = length b1 -> combine (a1 ++ a2) (b1 ++ b2) = combine a1 b1 ++ combine a2 b2.
Proof.
  revert b1; induction a1 as [|x r IH]; intros [|y s] H; simpl in *; try discriminate; auto.
  f_equal. apply IH. lia.
Qed.

Lemma sum_app l1 l2 : sum (l1 ++ l2) = sum l1 + sum l2.
Proof. induction l1; simpl; lia. Qed.

Lemma length_concat {A} (l : list (list A)) : length (concat l) = sum (map (@length A) l).
Proof. induction l; simpl; [reflexivity|]. rewrite app_length. lia. Qed.

(* ------------------------------------------------------------------------- *)
(* select                                                                     *)
(* ------------------------------------------------------------------------- *)
Lemma select_app {A} v i1 i2 (x1 x2 : list A) :
  length i1 = length x1 ->
  select v (i1 ++ i2) (x1 ++ x2) = select v i1 x1 ++ select v i2 x2.
Proof.
  intro H. unfold select. rewrite combine_app by assumption.
  rewrite filter_app, map_app. reflexivity.
Qed.

Lemma select_repeat_same {A} v (x : list A) : select v (repeat v (length x)) x = x.
Proof.
  unfold select. induction x as [|a r IH]; simpl; [reflexivity|].
  rewrite Nat.eqb_refl. simpl. f_equal. exact IH.
Qed.

Lemma select_absent {A} v idx (x : list A) : ~ In v idx -> select v idx x = [].
Proof.
  intro H. unfold select. rewrite filter_none; [reflexivity|].
  intros [i a] Hin. simpl. apply in_combine_l in Hin.
  apply Nat.eqb_neq. intro E. subst. auto.
Qed.

Lemma select_length_indep {A B} v idx (xs : list A) (ys : list B) :
  length xs = length idx -> length ys = length idx ->
  length (select v idx xs) = length (select v idx ys).
Proof.
  unfold select. revert xs ys. induction idx as [|i r IH]; intros [|x xs] [|y ys] H1 H2;
    simpl in *; try discriminate; try reflexivity.
  destruct (Nat.eqb i v); simpl; [f_equal|]; apply IH; lia.
Qed.

Lemma blocks_range s lens x : In x (blocks s lens) -> s <= x < s + length lens.
Proof.
  revert s. induction lens as [|n r IH]; simpl; intros s H; [contradiction|].
  apply in_app_or in H as [H|H].
  - apply repeat_spec in H. lia.
  - apply IH in H. lia.
Qed.

Lemma blocks_in s lens x :
  Forall (fun n => 1 <= n) lens -> s <= x < s + length lens -> In x (blocks s lens).
Proof.
  revert s. induction lens as [|n r IH]; simpl; intros s F H; [lia|].
  inversion F as [|? ? Hn Fr]; subst. apply in_or_app.
  destruct (Nat.eq_dec x s) as [->|Hne].
  - left. destruct n; [lia|]. simpl. auto.
  - right. apply IH; [assumption|lia].
Qed.

Lemma blocks_length s lens : length (blocks s lens) = sum lens.
Proof. revert s. induction lens; simpl; intro s; [reflexivity|]. rewrite app_length, repeat_length, IHlens. reflexivity. Qed.

(* selecting by cell number from the concatenation gives back the cells *)
Lemma select_blocks {B} (yss : list (list B)) s :
  map (fun v => select v (blocks s (map (@length B) yss)) (concat yss)) (seq s (length yss)) = yss.
Proof.
  revert s. induction yss as [|y r IH]; intro s; simpl; [reflexivity|].
  f_equal.
  - rewrite select_app by (rewrite repeat_length; reflexivity).
    rewrite select_repeat_same.
    rewrite select_absent; [apply app_nil_r|].
    intro H. apply blocks_range in H. lia.
  - rewrite <- (IH (S s)) at 2. apply map_ext_in. intros v Hv. apply in_seq in Hv.
    rewrite select_app by (rewrite repeat_length; reflexivity).
    rewrite (select_absent v (repeat s (length y))); [reflexivity|].
    intro H. apply repeat_spec in H. lia.
Qed.

(* ------------------------------------------------------------------------- *)
(* uniq                                                                       *)
(* ------------------------------------------------------------------------- *)
Lemma mem_true v l : mem v l = true <-> In v l.
Proof.
  unfold mem. rewrite existsb_exists. split.
  - intros [x [H E]]. apply Nat.eqb_eq in E. subst. exact H.
  - intro H. exists v. split; [exact H|apply Nat.eqb_refl].
Qed.

Lemma uniq_initial_segment l n : (forall v, In v l <-> v < n) -> uniq l = seq 0 n.
Proof.
  intro H. unfold uniq. destruct n as [|n].
  - assert (l = []) as -> by (destruct l as [|a r]; [reflexivity|exfalso; specialize (H a); simpl in H; destruct H as [H _]; specialize (H (or_introl eq_refl)); lia]).
    reflexivity.
  - assert (list_max l = n) as ->.
    { apply Nat.le_antisymm.
      - apply list_max_le. apply Forall_forall. intros x Hx. apply H in Hx. lia.
      - apply list_max_ge. apply H. lia. }
    apply filter_all. intros x Hx. apply in_seq in Hx. apply mem_true. apply H. lia.
Qed.

Lemma uniq_blocks lens :
  Forall (fun n => 1 <= n) lens -> uniq (blocks 0 lens) = seq 0 (length lens).
Proof.
  intro F. apply uniq_initial_segment. intro v. split.
  - intro H. apply blocks_range in H. lia.
  - intro H. apply blocks_in; [assumption|lia].
Qed.

Lemma max_parts_blocks {B} (yss : list (list B)) :
  Forall (fun y => y <> []) yss ->
  max_parts (blocks 0 (map (@length B) yss)) = list_max (map (@length B) yss).
Proof.
  intro F. unfold max_parts.
  rewrite uniq_blocks.
  2:{ apply Forall_map. eapply Forall_impl; [|exact F]. intros [|a r] Ha; simpl; [congruence|lia]. }
  rewrite map_length.
  transitivity (list_max (map (@length B)
     (map (fun v => select v (blocks 0 (map (@length B) yss)) (concat yss)) (seq 0 (length yss))))).
  2:{ rewrite select_blocks. reflexivity. }
  rewrite map_map.
  f_equal. apply map_ext. intro v.
  apply select_length_indep; [reflexivity|].
  rewrite blocks_length, length_concat. reflexivity.
Qed.

(* ------------------------------------------------------------------------- *)
(* the part -> cell index loop                                                *)
(* ------------------------------------------------------------------------- *)
Lemma inner_spec ls : forall rest acc need,
  ls <> [] -> Forall (fun n => 1 <= n) ls -> acc + sum ls = need ->
  inner (ls ++ rest) need acc = Some (length ls).
Proof.
  induction ls as [|p r IH]; intros rest acc need Hne F E; [congruence|].
  inversion F as [|? ? Hp Fr]; subst. simpl in *.
  destruct r as [|q r'].
  - simpl in *. replace (acc + (p + 0) <=? acc + p) with true by (symmetry; apply Nat.leb_le; lia).
    reflexivity.
  - assert (1 <= sum (q :: r')) by (inversion Fr; subst; simpl; lia).
    replace (acc + (p + sum (q :: r')) <=? acc + p) with false by (symmetry; apply Nat.leb_gt; lia).
    rewrite (IH rest (acc + p) (acc + (p + sum (q :: r')))); [reflexivity|congruence|assumption|lia].
Qed.

Lemma set_range_app {A} (pre mid suf : list A) v :
  set_range (pre ++ mid ++ suf) (length pre) (length mid) v = pre ++ repeat v (length mid) ++ suf.
Proof.
  induction pre as [|a r IH]; simpl.
  - induction mid as [|b m IHm]; simpl.
    + destruct suf; reflexivity.
    + f_equal. exact IHm.
  - f_equal. exact IH.
Qed.

Lemma set_range_app' {A} (pre mid suf : list A) v n :
  length mid = n ->
  set_range (pre ++ mid ++ suf) (length pre) n v = pre ++ repeat v n ++ suf.
Proof. intros <-. apply set_range_app. Qed.

Lemma skipn_app_exact {A} (l1 l2 : list A) : skipn (length l1) (l1 ++ l2) = l2.
Proof. induction l1; simpl; auto. Qed.

Lemma fold_cells (cs : cells) : forall (P1 I1 : list nat) inst,
  wf_cells cs -> length I1 = length P1 ->
  fold_left (cell_step new_bump (P1 ++ enc_part_node_count cs)) (enc_node_count cs)
            (I1 ++ enc_part_node_count cs, inst, length P1)
  = (I1 ++ blocks inst (map (@length (list Z)) cs), inst + length cs,
     length P1 + length (enc_part_node_count cs)).
Proof.
  induction cs as [|c r IH]; intros P1 I1 inst W L.
  - simpl. repeat rewrite Nat.add_0_r. reflexivity.
  - inversion W as [|? ? [Hc Fc] Wr]; subst.
    unfold enc_part_node_count, enc_node_count in *. simpl.
    fold (enc_part_node_count r) in *. fold (enc_node_count r) in *.
    rewrite skipn_app_exact.
    rewrite (inner_spec (map (@length Z) c)); [| | |reflexivity].
    2:{ destruct c; simpl; congruence. }
    2:{ apply Forall_map. eapply Forall_impl; [|exact Fc]. intros [|a p] Ha; simpl; [congruence|lia]. }
    rewrite map_length.
    rewrite <- L.
    rewrite (set_range_app' I1 (map (@length Z) c) (enc_part_node_count r) inst (length c))
      by apply map_length.
    unfold new_bump.
    assert (1 <= length c) by (destruct c; simpl; [congruence|lia]).
    replace (length I1 + length c - 1 + 1) with (length (P1 ++ map (@length Z) c))
      by (rewrite app_length, map_length; lia).
    rewrite (app_assoc P1), (app_assoc I1).
    rewrite (IH (P1 ++ map (@length Z) c) (I1 ++ repeat inst (length c)) (S inst)); [|assumption|].
    2:{ rewrite !app_length, repeat_length, map_length. lia. }
    f_equal; [f_equal|].
    + rewrite <- app_assoc. reflexivity.
    + lia.
    + rewrite !app_length, map_length. lia.
Qed.

Lemma derive_index_cells (cs : cells) :
  wf_cells cs ->
  derive_index (enc_node_count cs) (enc_part_node_count cs) = cell_of_part_spec cs.
Proof.
  intro W. unfold derive_index, derive_index_gen.
  pose proof (fold_cells cs [] [] 0 W eq_refl) as H. simpl in H.
  unfold new_bump in H. rewrite H. reflexivity.
Qed.
