(* C14 - the property theorems, nothing else.  Each is closed by [exact] of a lemma from Lemmas.v
   and followed by Print Assumptions.

   Vocabulary (Spec.v, written from CF section 7.5): [cells] = list of cells, a cell = list of parts,
   a part = list of node values; [wf_cells]: every cell has >= 1 part, every part >= 1 node;
   [enc_node_count / enc_part_node_count / enc_nodes]: the CF encoding; [pad3 cs]: the cell array
   (cell, part, node) with each cell's parts and each part's nodes first, in file order, the rest
   missing; [container_for cs with_pnc ring]: the raw variables of a conformant container.
   Model.v: [read_bounds], [read_ring], [bounds_shape], [coord_shape] model the reader
   (NetCDFRead._parse_geometry ... RaggedIndexedContiguousArray), [write] the writer
   (_write_node_coordinates / _write_node_count / _write_part_node_count / _write_interior_ring),
   both as repaired by handoff/C14-fix-1..3.diff; the pinned behaviour is refuted in Refuted.v. *)
From CfdmV Require Import Common.Base C14.Model C14.Spec C14.Lemmas.
Open Scope nat_scope.

(* The part -> cell index the reader derives from (node_count, part_node_count) is, for every
   layout of cells / parts / nodes, the cell each part belongs to. *)
Theorem C14_cell_of_part :
  forall cs : cells, wf_cells cs ->
  derive_index (enc_node_count cs) (enc_part_node_count cs) = cell_of_part_spec cs.
Proof. exact derive_index_cells. Qed.
Print Assumptions C14_cell_of_part.

(* Bounds presented for a container with node_count and part_node_count (with or without an
   interior ring variable): the cells' parts and nodes in file order, padded with missing data -
   for all numbers of cells, parts per cell and nodes per part. *)
Theorem C14_decode :
  forall (cs : cells) ring, wf_cells cs ->
  read_bounds (container_for cs true ring) (enc_nodes cs) = pad3 cs.
Proof. exact read_bounds_cells. Qed.
Print Assumptions C14_decode.

(* The same two statements hold when the rows of the ragged arrays are taken over
   range(number of cells) instead of numpy.unique(index) (the repair of F06a proposed for C06):
   the theorems do not depend on which of the two the tree contains. *)
Theorem C14_decode_rows_by_range :
  forall (cs : cells), wf_cells cs ->
  (forall ring, read_bounds_range (container_for cs true ring) (enc_nodes cs) = pad3 cs) /\
  (forall rs, same_parts rs cs -> read_ring_range (container_for cs true (Some rs)) = Some (pad2 rs)).
Proof.
  intros cs W. split.
  - intro ring. exact (read_bounds_range_cells cs ring W).
  - intros rs S. exact (read_ring_range_cells cs rs W S).
Qed.
Print Assumptions C14_decode_rows_by_range.

(* Without a part_node_count variable every cell has exactly one part (any node counts). *)
Theorem C14_decode_single_part :
  forall ps : list (list Z),
  read_bounds (container_for (map (fun p => [p]) ps) false None) (enc_nodes (map (fun p => [p]) ps))
  = pad3 (map (fun p => [p]) ps).
Proof. exact read_bounds_single_part. Qed.
Print Assumptions C14_decode_single_part.

(* Without a node_count variable every cell is a single point. *)
Theorem C14_decode_points :
  forall xs : list Z,
  read_bounds {| g_nc := None; g_pnc := None; g_ring := None; g_nnodes := length xs |} xs
  = pad3 (map (fun x => [[x]]) xs).
Proof. exact read_bounds_points. Qed.
Print Assumptions C14_decode_points.

(* The interior ring flags attach to the right parts: flag j of cell c is presented at (c, j). *)
Theorem C14_rings_aligned :
  forall (cs : cells) (rs : list (list Z)), wf_cells cs -> same_parts rs cs ->
  read_ring (container_for cs true (Some rs)) = Some (pad2 rs).
Proof. exact read_ring_cells. Qed.
Print Assumptions C14_rings_aligned.

(* Shape: the bounds have shape (cells, max parts, max nodes); a coordinate without representative
   values takes its shape from the bounds less the two trailing dimensions = (cells). *)
Theorem C14_shape :
  (forall (cs : cells) ring, wf_cells cs ->
     bounds_shape (container_for cs true ring)
     = [length cs; list_max (map (@length (list Z)) cs); list_max (map (@length Z) (concat cs))]) /\
  (forall g : container, coord_shape true (bounds_shape g) = [n_cells g]).
Proof. exact (conj bounds_shape_cells coord_shape_geometry). Qed.
Print Assumptions C14_shape.

(* Writing: the node, count and ring variables produced for a cell array are exactly the CF encoding
   of the cells (part_node_count omitted only when every cell has one part and there is no ring). *)
Theorem C14_encode :
  forall cs : cells, wf_cells cs -> cs <> [] ->
  write (pad3 cs) None =
    Ok {| w_nodes := enc_nodes cs; w_nc := enc_node_count cs;
          w_pnc := if Nat.eqb (list_max (map (@length (list Z)) cs)) 1 then None
                   else Some (enc_part_node_count cs);
          w_ring := None |} /\
  forall rs, same_parts rs cs ->
  write (pad3 cs) (Some (pad2 rs)) =
    Ok {| w_nodes := enc_nodes cs; w_nc := enc_node_count cs;
          w_pnc := Some (enc_part_node_count cs); w_ring := Some (concat rs) |}.
Proof.
  intros cs W H. split; [exact (write_cells_no_ring cs W H)|].
  intros rs S. exact (write_cells_ring cs rs W H S).
Qed.
Print Assumptions C14_encode.

(* Round trip: reading what was written presents the same cells and the same ring flags. *)
Theorem C14_encode_decode :
  forall cs : cells, wf_cells cs -> cs <> [] ->
  (exists w, write (pad3 cs) None = Ok w /\ accepted (container_of w) = true /\
             read_bounds (container_of w) (w_nodes w) = pad3 cs /\
             read_ring (container_of w) = None) /\
  (forall rs, same_parts rs cs ->
   exists w, write (pad3 cs) (Some (pad2 rs)) = Ok w /\ accepted (container_of w) = true /\
             read_bounds (container_of w) (w_nodes w) = pad3 cs /\
             read_ring (container_of w) = Some (pad2 rs)).
Proof.
  intros cs W H. split; [exact (roundtrip_no_ring cs W H)|].
  intros rs S. exact (roundtrip_ring cs rs W H S).
Qed.
Print Assumptions C14_encode_decode.

(* "...from which an independent decoder recovers the same cells": the decoder of Spec.v (written
   from CF 7.5, sharing nothing with the reader model) applied to the written variables returns the
   cells, and the written ring flags split by parts-per-cell are the ring flags. *)
Theorem C14_independent_decoder :
  forall cs : cells, wf_cells cs -> cs <> [] ->
  (exists w, write (pad3 cs) None = Ok w /\ spec_decode_container (container_of w) (w_nodes w) = Some cs) /\
  (forall rs, same_parts rs cs ->
   exists w, write (pad3 cs) (Some (pad2 rs)) = Ok w /\
             spec_decode_container (container_of w) (w_nodes w) = Some cs /\
             option_map (split_by (map (@length (list Z)) cs)) (w_ring w) = Some rs).
Proof. exact written_decodes. Qed.
Print Assumptions C14_independent_decoder.

(* The other direction: reading a conformant container and writing the result reproduces its raw
   variables (part_node_count being dropped only when no cell has a second part and there is no ring). *)
Theorem C14_decode_encode :
  forall cs : cells, wf_cells cs -> cs <> [] ->
  write (read_bounds (container_for cs true None) (enc_nodes cs)) None =
    Ok {| w_nodes := enc_nodes cs; w_nc := enc_node_count cs;
          w_pnc := if Nat.eqb (list_max (map (@length (list Z)) cs)) 1 then None
                   else Some (enc_part_node_count cs);
          w_ring := None |} /\
  forall rs, same_parts rs cs ->
  match read_ring (container_for cs true (Some rs)) with
  | Some r =>
      write (read_bounds (container_for cs true (Some rs)) (enc_nodes cs)) (Some r) =
        Ok {| w_nodes := enc_nodes cs; w_nc := enc_node_count cs;
              w_pnc := Some (enc_part_node_count cs); w_ring := Some (concat rs) |}
  | None => False
  end.
Proof. exact decode_encode. Qed.
Print Assumptions C14_decode_encode.

(* Mutual consistency of whatever is written, for ANY bounds array (any shape, any pattern of
   missing data) and any ring array: node_count sums to the node dimension and has one entry per
   cell; part_node_count sums to the node dimension and has no entry < 1; an interior ring variable
   is never written without a part_node_count variable of the same length. *)
Theorem C14_counts_consistent :
  forall (a : arr3) (ring : option arr2) (w : written), write a ring = Ok w ->
  sum (w_nc w) = length (w_nodes w) /\
  length (w_nc w) = length a /\
  (forall p, w_pnc w = Some p -> sum p = length (w_nodes w) /\ Forall (fun n => 1 <= n) p) /\
  (forall r, w_ring w = Some r -> exists p, w_pnc w = Some p /\ length p = length r) /\
  (w_ring w = None <-> ring = None).
Proof. exact written_consistent. Qed.
Print Assumptions C14_counts_consistent.

(* ---- second pass: datasets with several data variables, containers and fields ---- *)

(* A container is parsed once.  Every data variable that lies on the cell dimension of an acceptable
   container it names is recorded with that container; every other one (off the cell dimension -
   for a domain variable the dimensions named by its `dimensions` attribute count -, container
   missing or not acceptable) is recorded with none.  This holds for every dataset and every
   position i: it does not depend on the order of the variables, nor on how many other variables
   named the same or another container before or after. *)
Theorem C14_variable_sees_its_container :
  forall (conts : list gcont) (dvs : list dvar) i d,
  nth_error dvs i = Some d ->
  lookup_geometry i (snd (parse_all_gen true conts dvs))
  = if good_dvarb conts d then Some (d_gid d) else None.
Proof. exact variable_geometry_total. Qed.
Print Assumptions C14_variable_sees_its_container.

(* Reading a dataset with any number of containers and data variables (containers may share their
   instance, node and part dimensions; variables may be off the cell dimension): the read never
   raises; a data variable on the cell dimension of the container it names is presented with that
   container's cells, decoded with the container's own count variables, any other variable with no
   geometry.  In terms of cells: the bounds are the container's cells padded with missing data. *)
Theorem C14_shared_containers :
  (forall conts dvs,
     read_dataset conts dvs
     = Ok (map (fun d => if good_dvarb conts d then own_cells conts d else None) dvs)) /\
  (forall conts dvs, Forall (good_dvar conts) dvs ->
     read_dataset conts dvs = Ok (map (own_cells conts) dvs)) /\
  (forall conts dvs i d c (cs : cells),
     Forall (good_dvar conts) dvs ->
     nth_error dvs i = Some d -> nth_error conts (d_gid d) = Some c ->
     c_g c = container_for cs true None -> c_datas c = [enc_nodes cs] -> wf_cells cs ->
     exists l, read_dataset conts dvs = Ok l /\ nth_error l i = Some (Some ([pad3 cs], None))).
Proof. exact (conj read_dataset_total (conj read_dataset_own dataset_variable_cells)). Qed.
Print Assumptions C14_shared_containers.

(* Writing several fields to one dataset: node, count and ring variables are shared between
   fields only when that changes nothing - every field gets exactly the variables it would get
   if it were written alone (for ANY arrays); hence each field of well-formed cells decodes,
   by the reader and by the independent decoder, to its own cells, whatever the other fields are. *)
Theorem C14_fields_written_independently :
  (forall fs : list wfield, write_fields fs = map (fun f => write (f_a f) (f_ring f)) fs) /\
  (forall (css : list (cells * nat)) i cs gd,
     nth_error css i = Some (cs, gd) -> wf_cells cs -> cs <> [] ->
     exists w, nth_error (write_fields (map field_of_cells css)) i = Some (Ok w) /\
               accepted (container_of w) = true /\
               read_bounds (container_of w) (w_nodes w) = pad3 cs /\
               spec_decode_container (container_of w) (w_nodes w) = Some cs).
Proof. exact (conj write_fields_independent fields_decode_own_cells). Qed.
Print Assumptions C14_fields_written_independently.

(* Non-vacuity: concrete cells with parts-per-cell [2,1,1,3] and varying node counts meet the
   hypotheses, and the presented arrays are the expected non-trivial ones. *)
Theorem C14_decode_example :
  exists cs rs, wf_cells cs /\ cs <> [] /\ same_parts rs cs /\
    read_bounds (container_for cs true (Some rs)) (enc_nodes cs) = example_bounds /\
    read_ring (container_for cs true (Some rs)) = Some example_ring_array.
Proof. exact example_decode. Qed.
Print Assumptions C14_decode_example.
