(* C14 - the reader and the writer as they stood at the pinned commit do NOT satisfy the theorems of
   Props.v.  Witnesses, each replayed against the implementation before the "fix:" commits
   (handoff/C14-fix-1.diff, -2.diff, -3.diff). *)
From CfdmV Require Import Common.Base C14.Model C14.Spec.
Open Scope nat_scope.

Local Open Scope Z_scope.
(* four cells with parts-per-cell [2,1,1,1], three nodes per part *)
Definition f14a_cells : cells := [ [[1;2;3];[4;5;6]]; [[7;8;9]]; [[10;11;12]]; [[13;14;15]] ].
(* a one-part cell before a two-part cell *)
Definition f14b_cells : cells := [ [[1;2]]; [[3;4;5];[6;7]] ].
Definition f14b_rings : list (list Z) := [ [0]; [0;1] ].
(* polygons that all have one part, with an interior ring variable *)
Definition f14c_cells : cells := [ [[1;2;3]]; [[4;5;6;7]] ].
Definition f14c_rings : list (list Z) := [ [0]; [0] ].
Local Close Scope Z_scope.

(* F14a: `i += k + 1` - the derived index is [0;0;1;3;3]: cell 2 gets no part of its own. *)
Theorem C14_old_cell_of_part_refuted :
  exists cs : cells, wf_cellsb cs = true /\
    derive_index_old (enc_node_count cs) (enc_part_node_count cs) <> cell_of_part_spec cs.
Proof. exists f14a_cells. split; [reflexivity|]. vm_compute. discriminate. Qed.

(* ... so cell 2 is presented with cell 3's nodes and cell 3 is presented empty. *)
Theorem C14_old_decode_refuted :
  exists cs : cells, wf_cellsb cs = true /\
    read_bounds_old (container_for cs true None) (enc_nodes cs) <> pad3 cs /\
    nth 3 (read_bounds_old (container_for cs true None) (enc_nodes cs)) [] =
      [[None; None; None]; [None; None; None]].
Proof. exists f14a_cells. split; [reflexivity|]. split; [vm_compute; discriminate|reflexivity]. Qed.

(* F14b: numpy.trim_zeros keeps the zero counts of padding parts that are not at the two ends. *)
Theorem C14_old_part_node_count_refuted :
  exists (cs : cells) w p, wf_cellsb cs = true /\ write_old (pad3 cs) None = Ok w /\
    w_pnc w = Some p /\ In 0 p /\ sum (w_nc w) = length (w_nodes w).
Proof.
  exists f14b_cells. eexists. eexists. split; [reflexivity|]. split; [vm_compute; reflexivity|].
  split; [reflexivity|]. split; [simpl; auto|reflexivity].
Qed.

(* ... and with an interior ring variable the lengths differ and the write fails. *)
Theorem C14_old_write_fails_refuted :
  exists (cs : cells) rs, wf_cellsb cs = true /\ same_parts rs cs /\
    write_old (pad3 cs) (Some (pad2 rs)) = Err ValueErr.
Proof. exists f14b_cells, f14b_rings. split; [reflexivity|]. split; reflexivity. Qed.

(* F14c: one part per cell and an interior ring: interior_ring is written without part_node_count,
   a container the reader itself rejects. *)
Theorem C14_old_ring_without_part_node_count_refuted :
  exists (cs : cells) rs w, wf_cellsb cs = true /\ same_parts rs cs /\
    write_old (pad3 cs) (Some (pad2 rs)) = Ok w /\
    w_ring w <> None /\ w_pnc w = None /\ accepted (container_of w) = false.
Proof.
  exists f14c_cells, f14c_rings. eexists. split; [reflexivity|]. split; [reflexivity|].
  split; [vm_compute; reflexivity|]. split; [discriminate|]. split; reflexivity.
Qed.

(* ---- second pass ---- *)
Local Open Scope Z_scope.
Definition two_cells : cells := [ [[1;2;3]]; [[4;5;6]] ].
Definition two_cells_b : cells := [ [[11;12]]; [[13;14;15;16]] ].
Definition two_cells_c : cells := [ [[1;2]]; [[3;4;5;6]] ].
Local Close Scope Z_scope.

Definition cont_of (cs : cells) (idim ndim : nat) : gcont :=
  {| c_g := container_for cs false None; c_datas := [enc_nodes cs]; c_idim := idim; c_ndim := ndim;
     c_pdim := 200 |}.

(* Seeded change of round 3: the early return for an already-parsed container does not record the
   parent.  Two data variables naming one container: the second gets no geometry. *)
Theorem C14_seeded_early_return_refuted :
  exists conts dvs i d, nth_error dvs i = Some d /\ good_dvarb conts d = true /\
    lookup_geometry i (snd (parse_all_gen false conts dvs)) = None /\
    lookup_geometry i (snd (parse_all_gen true conts dvs)) = Some (d_gid d).
Proof.
  exists [cont_of two_cells 0 100], [ {| d_gid := 0; d_dims := [0] |}; {| d_gid := 0; d_dims := [0] |} ],
         1, {| d_gid := 0; d_dims := [0] |}.
  repeat split; reflexivity.
Qed.

(* F14e (HEAD before handoff/C14-fix3-2.diff): the compression is keyed by the node dimension, so
   of two containers on one node dimension the first is decoded with the counts of the second. *)
Theorem C14_old_shared_node_dimension_refuted :
  exists conts dvs, forallb (good_dvarb conts) dvs = true /\
    read_dataset_gen true false true conts dvs <> Ok (map (own_cells conts) dvs) /\
    read_dataset conts dvs = Ok (map (own_cells conts) dvs).
Proof.
  exists [cont_of two_cells 0 100; cont_of two_cells_b 0 100],
         [ {| d_gid := 0; d_dims := [0] |}; {| d_gid := 1; d_dims := [0] |} ].
  split; [reflexivity|]. split; [vm_compute; discriminate|reflexivity].
Qed.

(* F14d (HEAD before handoff/C14-fix3-1.diff): node coordinate variables are shared between fields
   on the strength of equal flattened values and equal geometry dimension alone; the second field
   is then written with (and decodes to) the cells of the first. *)
Theorem C14_old_fields_share_nodes_refuted :
  exists fs : list wfield,
    write_fields_old fs <> map (fun f => write (f_a f) (f_ring f)) fs /\
    nth 1 (write_fields_old fs) (Err OtherErr) = nth 0 (write_fields_old fs) (Err OtherErr) /\
    write_fields fs = map (fun f => write (f_a f) (f_ring f)) fs.
Proof.
  exists [ {| f_a := pad3 two_cells; f_ring := None; f_gdim := 0 |};
           {| f_a := pad3 two_cells_c; f_ring := None; f_gdim := 0 |} ].
  split; [vm_compute; discriminate|]. split; reflexivity.
Qed.

(* F14f (HEAD before handoff/C14-fix3-3.diff): the interior ring variable of the second container on
   a part dimension is presented as it is in the file (1-d), not attached to cells and parts. *)
Theorem C14_old_second_ring_not_uncompressed_refuted :
  exists conts dvs, forallb (good_dvarb conts) dvs = true /\
    read_dataset_gen true true false conts dvs <> Ok (map (own_cells conts) dvs) /\
    read_dataset conts dvs = Ok (map (own_cells conts) dvs).
Proof.
  exists [ {| c_g := container_for f14b_cells true (Some f14b_rings); c_datas := [enc_nodes f14b_cells];
              c_idim := 0; c_ndim := 100; c_pdim := 200 |};
           {| c_g := container_for f14b_cells true (Some [[0]; [0; 0]]%Z); c_datas := [enc_nodes f14b_cells];
              c_idim := 0; c_ndim := 101; c_pdim := 200 |} ],
         [ {| d_gid := 0; d_dims := [0] |}; {| d_gid := 1; d_dims := [0] |} ].
  split; [reflexivity|]. split; [vm_compute; discriminate|reflexivity].
Qed.

(* /repo before f336e6e: the already-parsed branch recorded a parent without looking at its
   dimensions; a second variable on another dimension of the same size made the whole read raise. *)
Theorem C14_old_unchecked_parent_refuted :
  exists conts dvs,
    read_dataset_full true false true true conts dvs = Err ValueErr /\
    read_dataset conts dvs = Ok [own_cells conts {| d_gid := 0; d_dims := [0] |}; None].
Proof.
  exists [cont_of two_cells 0 100], [ {| d_gid := 0; d_dims := [0] |}; {| d_gid := 0; d_dims := [7] |} ].
  split; reflexivity.
Qed.
