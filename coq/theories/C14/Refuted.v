(* C14 - the reader and the writer as they stood at the pinned commit do NOT satisfy the theorems of
   Props.v.  Witnesses, each replayed against the implementation before the "fix:" commits
   (handoff/C14-fix-1.diff, -2.diff, -3.diff). *)
From CfdmV Require Import Common.Base C14.Model C14.Spec.
Open Scope nat_scope.

Local Open Scope Z_scope.
(* four cells with parts-per-cell [2,1,1,1], three nodes per part *)
Definition f14a_cells : cells := [ [[1;2;3];[4;5;6]]; [[7;8;9]]; [[10;11;12]]; [[13;14;15]] ].
(* a one-part cell before a two-part cell *)
Definition f14b_cells : cells := [ [[1;2]]; [[3;4;5];[6;7]] ].
Definition f14b_rings : list (list Z) := [ [0]; [0;1] ].
(* polygons that all have one part, with an interior ring variable *)
Definition f14c_cells : cells := [ [[1;2;3]]; [[4;5;6;7]] ].
Definition f14c_rings : list (list Z) := [ [0]; [0] ].
Local Close Scope Z_scope.

(* F14a: `i += k + 1` - the derived index is [0;0;1;3;3]: cell 2 gets no part of its own. *)
Theorem C14_old_cell_of_part_refuted :
  exists cs : cells, wf_cellsb cs = true /\
    derive_index_old (enc_node_count cs) (enc_part_node_count cs) <> cell_of_part_spec cs.
Proof. exists f14a_cells. split; [reflexivity|]. vm_compute. discriminate. Qed.

(* ... so cell 2 is presented with cell 3's nodes and cell 3 is presented empty. *)
Theorem C14_old_decode_refuted :
  exists cs : cells, wf_cellsb cs = true /\
    read_bounds_old (container_for cs true None) (enc_nodes cs) <> pad3 cs /\
    nth 3 (read_bounds_old (container_for cs true None) (enc_nodes cs)) [] =
      [[None; None; None]; [None; None; None]].
Proof. exists f14a_cells. split; [reflexivity|]. split; [vm_compute; discriminate|reflexivity]. Qed.

(* F14b: numpy.trim_zeros keeps the zero counts of padding parts that are not at the two ends. *)
Theorem C14_old_part_node_count_refuted :
  exists (cs : cells) w p, wf_cellsb cs = true /\ write_old (pad3 cs) None = Ok w /\
    w_pnc w = Some p /\ In 0 p /\ sum (w_nc w) = length (w_nodes w).
Proof.
  exists f14b_cells. eexists. eexists. split; [reflexivity|]. split; [vm_compute; reflexivity|].
  split; [reflexivity|]. split; [simpl; auto|reflexivity].
Qed.

(* ... and with an interior ring variable the lengths differ and the write fails. *)
Theorem C14_old_write_fails_refuted :
  exists (cs : cells) rs, wf_cellsb cs = true /\ same_parts rs cs /\
    write_old (pad3 cs) (Some (pad2 rs)) = Err ValueErr.
Proof. exists f14b_cells, f14b_rings. split; [reflexivity|]. split; reflexivity. Qed.

(* F14c: one part per cell and an interior ring: interior_ring is written without part_node_count,
   a container the reader itself rejects. *)
Theorem C14_old_ring_without_part_node_count_refuted :
  exists (cs : cells) rs w, wf_cellsb cs = true /\ same_parts rs cs /\
    write_old (pad3 cs) (Some (pad2 rs)) = Ok w /\
    w_ring w <> None /\ w_pnc w = None /\ accepted (container_of w) = false.
Proof.
  exists f14c_cells, f14c_rings. eexists. split; [reflexivity|]. split; [reflexivity|].
  split; [vm_compute; reflexivity|]. split; [discriminate|]. split; reflexivity.
Qed.
