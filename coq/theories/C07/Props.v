(* C07 - the property theorems, nothing else. *)
From CfdmV Require Import Common.Base Tables.NcFill C07.Model C07.Spec C07.Lemmas.
Open Scope Z_scope.

(* The mask netcdf_indexer._mask accumulates (missing_value loop, _FillValue or default,
   valid_range else valid_min / valid_max, each behind its safe-cast test, under the
   _Unsigned view) marks exactly the elements the netCDF attribute conventions call
   missing - for every data type, attribute combination and array length. *)
Theorem C07_mask_spec :
  forall d A view data, mask_model d A view data = map (spec_masked d A view) data.
Proof. exact mask_model_spec. Qed.
Print Assumptions C07_mask_spec.

(* A read (any of the four mask / unpack settings) is element-wise: the presented data
   type does not depend on the values, and element k depends on raw element k only. *)
Theorem C07_read_elementwise :
  forall d A mask unpack raw,
  read_model d A mask unpack raw = (read_dt d A unpack, map (spec_elem d A mask unpack) raw).
Proof. exact read_model_elementwise. Qed.
Print Assumptions C07_read_elementwise.

(* Whole array or any subspace: reading the raw values at any list of positions (in any
   order, with repeats) presents exactly the whole-array read taken at those positions. *)
Theorem C07_subspace_commutes :
  forall d A mask unpack raw pos,
  Forall (fun i => (i < length raw)%nat) pos ->
  read_model d A mask unpack (map (fun i => nth i raw NaN) pos)
  = (fst (read_model d A mask unpack raw),
     map (fun i => nth i (snd (read_model d A mask unpack raw)) None) pos).
Proof. exact subspace_commutes. Qed.
Print Assumptions C07_subspace_commutes.

(* Masking and unpacking switched off: the raw values, in the variable's own type. *)
Theorem C07_mask_off_raw :
  forall d A raw, read_model d A false false raw = (d, map Some raw).
Proof. exact mask_off_raw. Qed.
Print Assumptions C07_mask_off_raw.

(* Masking switched off: nothing is missing, whatever the attributes. *)
Theorem C07_mask_off_nothing_missing :
  forall d A unpack raw, Forall (fun v => v <> None) (snd (read_model d A false unpack raw)).
Proof. exact mask_off_nothing_missing. Qed.
Print Assumptions C07_mask_off_nothing_missing.

(* The masked and the unmasked read have the same type and agree wherever the masked
   read has a value: masking only removes elements. *)
Theorem C07_masked_read_agrees_with_unmasked :
  forall d A unpack raw,
  fst (read_model d A true unpack raw) = fst (read_model d A false unpack raw) /\
  Forall2 (fun m u => m = None \/ m = u)
          (snd (read_model d A true unpack raw)) (snd (read_model d A false unpack raw)).
Proof. exact masked_read_agrees_with_unmasked. Qed.
Print Assumptions C07_masked_read_agrees_with_unmasked.

(* _Unsigned: the view keeps the bit pattern (value modulo 2^n), lands in [0, 2^n) and
   leaves non-negative values alone. *)
Theorem C07_unsigned_view :
  forall d z w, uview d (Fin z) = Fin w ->
  (0 <= w < 2 ^ nbits d) /\ w mod 2 ^ nbits d = z mod 2 ^ nbits d /\
  (0 <= z -> in_range d z = true -> is_signed d = true -> w = z).
Proof. exact uview_range. Qed.
Print Assumptions C07_unsigned_view.

(* ... so whether a stored value equals a missing / fill value does not depend on
   _Unsigned (only the valid-range tests do). *)
Theorem C07_unsigned_view_keeps_equality :
  forall d x m, is_signed d = true -> in_range d x = true -> in_range d m = true ->
  num_eqb (uview d (Fin x)) (uview d (Fin m)) = num_eqb (Fin x) (Fin m).
Proof. exact view_keeps_equality. Qed.
Print Assumptions C07_unsigned_view_keeps_equality.

(* Unpacking never changes which elements are missing, and does nothing at all without
   scale_factor and add_offset. *)
Theorem C07_unpack_keeps_mask :
  forall dd A vals, map is_none (snd (unpack_model dd A vals)) = map is_none vals.
Proof. exact unpack_keeps_mask. Qed.
Print Assumptions C07_unpack_keeps_mask.

Theorem C07_unpack_without_attributes :
  forall dd A vals, a_scale A = None -> a_offset A = None -> unpack_model dd A vals = (dd, vals).
Proof. exact unpack_without_attributes. Qed.
Print Assumptions C07_unpack_without_attributes.

(* A safely castable attribute value is used with its own numeric value; the default fill
   values (table regenerated from the code) are values of their types. *)
Theorem C07_safe_cast_exact :
  forall d v, safe_val d v = true -> cast d v = v.
Proof. exact cast_safe. Qed.
Print Assumptions C07_safe_cast_exact.

Theorem C07_default_fill_table :
  forall d, assoc (dt_tag d) nc_default_fillvals = Some (default_fill d) /\
            safe_val d (Fin (default_fill d)) = true.
Proof. intro d. split; [apply default_fill_is_table|apply default_fill_safe]. Qed.
Print Assumptions C07_default_fill_table.

(* Full statement wanted by the property:
     forall d A unpack raw, apply_masking_model d A unpack raw = Ok (read_model d A true unpack raw).
   It is false of the faithful model in three ways (the three _refuted theorems below,
   open findings); it holds - for every data type, every length, NaN and vector
   missing values included - under the guard: unpacking changes nothing (unpack off, or no
   scale_factor / add_offset / effective _Unsigned), every masking attribute present is
   numeric and safely castable, valid_range has two values and is not accompanied by
   valid_min / valid_max. *)
Theorem C07_apply_masking_reproduces :
  forall d A unpack raw,
  apply_guard d A unpack = true ->
  apply_masking_model d A unpack raw = Ok (read_model d A true unpack raw).
Proof. exact apply_masking_reproduces. Qed.
Print Assumptions C07_apply_masking_reproduces.

(* F07f: fill and valid values live in the packed space; apply_masking compares them with
   unpacked data. *)
Theorem C07_apply_masking_packed_refuted :
  exists d A raw, apply_masking_model d A true raw <> Ok (read_model d A true true raw).
Proof. exact apply_masking_packed_refuted. Qed.
Print Assumptions C07_apply_masking_packed_refuted.

(* F07g: an attribute that cannot be cast safely is ignored by the read, used by apply_masking. *)
Theorem C07_apply_masking_unsafe_attribute_refuted :
  exists d A raw, not_packed d A false = true /\
    apply_masking_model d A false raw <> Ok (read_model d A true false raw).
Proof. exact apply_masking_unsafe_attribute_refuted. Qed.
Print Assumptions C07_apply_masking_unsafe_attribute_refuted.

(* F07h: valid_range together with valid_min: the read uses valid_range, apply_masking raises. *)
Theorem C07_apply_masking_range_and_min_refuted :
  exists d A raw, not_packed d A false = true /\
    apply_masking_model d A false raw = Err ValueErr /\
    exists r, read_model d A true false raw = r.
Proof. exact apply_masking_range_and_min_refuted. Qed.
Print Assumptions C07_apply_masking_range_and_min_refuted.
