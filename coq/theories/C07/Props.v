(* C07 - the property theorems, nothing else. *)
From CfdmV Require Import Common.Base Tables.NcFill C07.Model C07.Spec C07.Lemmas.
Open Scope Z_scope.

(* The mask netcdf_indexer._mask accumulates (missing_value loop, _FillValue or default,
   valid_range else valid_min / valid_max, each behind its safe-cast test, under the
   _Unsigned view) marks exactly the elements the netCDF attribute conventions call
   missing - for every data type, attribute combination and array length. *)
Theorem C07_mask_spec :
  forall d A view data, mask_model d A view data = map (spec_masked d A view) data.
Proof. exact mask_model_spec. Qed.
Print Assumptions C07_mask_spec.

(* A read (any of the four mask / unpack settings) is element-wise: the presented data
   type does not depend on the values, and element k depends on raw element k only. *)
Theorem C07_read_elementwise :
  forall d A mask unpack raw,
  read_model d A mask unpack raw = (read_dt d A unpack, map (spec_elem d A mask unpack) raw).
Proof. exact read_model_elementwise. Qed.
Print Assumptions C07_read_elementwise.

(* Whole array or any subspace: reading the raw values at any list of positions (in any
   order, with repeats) presents exactly the whole-array read taken at those positions. *)
Theorem C07_subspace_commutes :
  forall d A mask unpack raw pos,
  Forall (fun i => (i < length raw)%nat) pos ->
  read_model d A mask unpack (map (fun i => nth i raw NaN) pos)
  = (fst (read_model d A mask unpack raw),
     map (fun i => nth i (snd (read_model d A mask unpack raw)) None) pos).
Proof. exact subspace_commutes. Qed.
Print Assumptions C07_subspace_commutes.

(* Masking and unpacking switched off: the raw values, in the variable's own type. *)
Theorem C07_mask_off_raw :
  forall d A raw, read_model d A false false raw = (d, map Some raw).
Proof. exact mask_off_raw. Qed.
Print Assumptions C07_mask_off_raw.

(* Masking switched off: nothing is missing, whatever the attributes. *)
Theorem C07_mask_off_nothing_missing :
  forall d A unpack raw, Forall (fun v => v <> None) (snd (read_model d A false unpack raw)).
Proof. exact mask_off_nothing_missing. Qed.
Print Assumptions C07_mask_off_nothing_missing.

(* The masked and the unmasked read have the same type and agree wherever the masked
   read has a value: masking only removes elements. *)
Theorem C07_masked_read_agrees_with_unmasked :
  forall d A unpack raw,
  fst (read_model d A true unpack raw) = fst (read_model d A false unpack raw) /\
  Forall2 (fun m u => m = None \/ m = u)
          (snd (read_model d A true unpack raw)) (snd (read_model d A false unpack raw)).
Proof. exact masked_read_agrees_with_unmasked. Qed.
Print Assumptions C07_masked_read_agrees_with_unmasked.

(* _Unsigned: the view keeps the bit pattern (value modulo 2^n), lands in [0, 2^n) and
   leaves non-negative values alone. *)
Theorem C07_unsigned_view :
  forall d z w, uview d (Fin z) = Fin w ->
  (0 <= w < 2 ^ nbits d) /\ w mod 2 ^ nbits d = z mod 2 ^ nbits d /\
  (0 <= z -> in_range d z = true -> is_signed d = true -> w = z).
Proof. exact uview_range. Qed.
Print Assumptions C07_unsigned_view.

(* ... so whether a stored value equals a missing / fill value does not depend on
   _Unsigned (only the valid-range tests do). *)
Theorem C07_unsigned_view_keeps_equality :
  forall d x m, is_signed d = true -> in_range d x = true -> in_range d m = true ->
  num_eqb (uview d (Fin x)) (uview d (Fin m)) = num_eqb (Fin x) (Fin m).
Proof. exact view_keeps_equality. Qed.
Print Assumptions C07_unsigned_view_keeps_equality.

(* Unpacking never changes which elements are missing, and does nothing at all without
   scale_factor and add_offset. *)
Theorem C07_unpack_keeps_mask :
  forall dd A vals, map is_none (snd (unpack_model dd A vals)) = map is_none vals.
Proof. exact unpack_keeps_mask. Qed.
Print Assumptions C07_unpack_keeps_mask.

Theorem C07_unpack_without_attributes :
  forall dd A vals, a_scale A = None -> a_offset A = None -> unpack_model dd A vals = (dd, vals).
Proof. exact unpack_without_attributes. Qed.
Print Assumptions C07_unpack_without_attributes.

(* A safely castable attribute value is used with its own numeric value; the default fill
   values (table regenerated from the code) are values of their types. *)
Theorem C07_safe_cast_exact :
  forall d v, safe_val d v = true -> cast d v = v.
Proof. exact cast_safe. Qed.
Print Assumptions C07_safe_cast_exact.

Theorem C07_default_fill_table :
  forall d, assoc (dt_tag d) nc_default_fillvals = Some (default_fill d) /\
            safe_val d (Fin (default_fill d)) = true.
Proof. intro d. split; [apply default_fill_is_table|apply default_fill_safe]. Qed.
Print Assumptions C07_default_fill_table.

(* Full statement wanted by the property:
     forall d A unpack raw, apply_masking_model d A unpack raw = Ok (read_model d A true unpack raw).
   After handoff/C07-fix2-3.diff (apply_masking uses the reader's safe-cast test and its
   valid_range precedence) it holds for every data type, every length and every combination
   of masking attributes - unsafe, NaN, vector- and text-valued ones, valid_range with
   valid_min / valid_max or with one or three values included - under one guard only:
   unpacking changes nothing (unpack off, or no scale_factor / add_offset / effective
   _Unsigned); fill_ok says that a _FillValue attribute has one value of the variable's
   type, which the netCDF library enforces.  Without not_packed it is false
   (C07_apply_masking_packed_refuted, open finding). *)
Theorem C07_apply_masking_reproduces :
  forall d A unpack raw,
  apply_guard d A unpack = true ->
  apply_masking_model d A unpack raw = Ok (read_model d A true unpack raw).
Proof. exact apply_masking_reproduces. Qed.
Print Assumptions C07_apply_masking_reproduces.

(* Bounds, node coordinates and any other variable that is masked through its parent
   construct, with a data type and attributes of their own: reproduced as long as no
   masking property is taken over from the parent (no_inherit) ... *)
Theorem C07_apply_masking_bounds_reproduces :
  forall db Ab Ap unpack raw,
  apply_guard db Ab unpack = true -> no_inherit Ab Ap = true ->
  apply_masking_bounds db db Ab Ap unpack raw = Ok (read_model db Ab true unpack raw).
Proof. exact apply_masking_bounds_reproduces. Qed.
Print Assumptions C07_apply_masking_bounds_reproduces.

(* ... and false otherwise: the masked read of the bounds looks at the attributes of the
   bounds variable only, apply_masking falls back on the parent's (open finding). *)
Theorem C07_apply_masking_bounds_inherit_refuted :
  exists db Ab Ap raw, apply_guard db Ab false = true /\
    apply_masking_bounds db db Ab Ap false raw <> Ok (read_model db Ab true false raw).
Proof. exact apply_masking_bounds_inherit_refuted. Qed.
Print Assumptions C07_apply_masking_bounds_inherit_refuted.

(* The field and all of its metadata constructs: Field.apply_masking after a mask=False
   read presents, for the field's data, for every construct with data, for their bounds
   and interior rings - any number of them, of any types and lengths - what the masked
   read presents. *)
Theorem C07_field_apply_masking_reproduces :
  forall unpack f,
  forallb (fvar_guard unpack) f = true ->
  field_apply_masking unpack f = map (@Ok _) (field_read true unpack f).
Proof. exact field_apply_masking_reproduces. Qed.
Print Assumptions C07_field_apply_masking_reproduces.

(* The default fill value that a mask=False read records on a variable without _FillValue
   has to be the one of that variable's own data type: any type with the same default
   does, the parent's type (an i4 coordinate with f8 bounds) does not. *)
Theorem C07_recorded_fill_same_default :
  forall rd d A unpack raw,
  default_fill rd = default_fill d -> is_float rd = is_float d ->
  apply_masking_recorded rd d A unpack raw = apply_masking_model d A unpack raw.
Proof. exact recorded_fill_same_default. Qed.
Print Assumptions C07_recorded_fill_same_default.

Theorem C07_recorded_fill_of_other_type_refuted :
  exists rd d A raw, apply_guard d A false = true /\
    apply_masking_recorded rd d A false raw <> Ok (read_model d A true false raw).
Proof. exact recorded_fill_of_other_type_refuted. Qed.
Print Assumptions C07_recorded_fill_of_other_type_refuted.

(* F07f: fill and valid values live in the packed space; apply_masking compares them with
   unpacked data. *)
Theorem C07_apply_masking_packed_refuted :
  exists d A raw, fill_ok d A = true /\ apply_masking_model d A true raw <> Ok (read_model d A true true raw).
Proof. exact apply_masking_packed_refuted. Qed.
Print Assumptions C07_apply_masking_packed_refuted.

(* Stored byte order.  The integer elements of a variable are modelled as their bytes in
   the stored order (little- or big-endian); the _Unsigned view re-reads those bytes with a
   view type that keeps the byte order of the data.  What a read presents - values, mask
   and type, for every data type, attribute combination, mask / unpack setting and length -
   is what the model on values presents, hence independent of the stored byte order. *)
Theorem C07_read_stored_values :
  forall bo d A mask unpack raw,
  Forall (fun v => safe_val d v = true) raw ->
  read_stored bo d A mask unpack (map (store bo d) raw) = read_model d A mask unpack raw.
Proof. exact read_stored_values. Qed.
Print Assumptions C07_read_stored_values.

Theorem C07_byte_order_independent :
  forall bo1 bo2 d A mask unpack raw,
  Forall (fun v => safe_val d v = true) raw ->
  read_stored bo1 d A mask unpack (map (store bo1 d) raw)
  = read_stored bo2 d A mask unpack (map (store bo2 d) raw).
Proof. exact byte_order_independent. Qed.
Print Assumptions C07_byte_order_independent.

(* A view type that does not carry the byte order of the data ("u<itemsize>") presents
   byte-swapped values and a wrong mask for big-endian data. *)
Theorem C07_native_view_refuted :
  exists d A raw, Forall (fun v => safe_val d v = true) raw /\
    read_stored_native_view BE d A true true (map (store BE d) raw) <> read_model d A true true raw.
Proof. exact native_view_refuted. Qed.
Print Assumptions C07_native_view_refuted.

(* Identity packing with one attribute (only scale_factor = 1, or only add_offset = 0, of
   any type, after handoff/C07-fix3-1.diff): every value of the (viewed) data is presented
   unchanged, as the netCDF4 library presents it.  (With both attributes the data are cast
   to the scale factor's type, as the library does.) *)
Theorem C07_identity_packing_keeps_values :
  forall dd ts to x, safe_val dd x = true ->
  unpack_elem dd (Some (ts, Fin 1)) None x = x /\
  unpack_elem dd None (Some (to, Fin 0)) x = x.
Proof. exact identity_packing_keeps_values. Qed.
Print Assumptions C07_identity_packing_keeps_values.

(* The fill, missing and valid values of an _Unsigned variable are compared with the viewed
   data after being created and viewed in ONE byte order (after handoff/C07-fix3-2.diff that
   of the data): they are then the values the value-level model and the specification use. *)
Theorem C07_attribute_view_same_order :
  forall bo d v, is_float d = false -> safe_val d v = true -> attr_view bo bo d v = vw d true v.
Proof. exact attr_view_same_order. Qed.
Print Assumptions C07_attribute_view_same_order.
