(* C07 - element-wise specification of netCDF masking, written from the netCDF
   user-guide attribute conventions (NUG appendix "Attribute Conventions") as the
   reference netCDF4 library reads them:

     missing_value   a scalar or vector of values indicating missing data
     _FillValue      the value a never-written element holds; when the attribute is
                     absent the default fill value of the data type plays that role
     valid_range     a vector of two numbers: smallest and largest valid value;
                     when it is defined valid_min / valid_max are not looked at
     valid_min, valid_max   smallest / largest valid value
     every attribute is used only if it can be represented exactly in the variable's
                     type ("safe cast"), otherwise it is ignored; a NaN value matches NaN data
     _Unsigned = "true" on a signed integer variable: data and attribute values are
                     reinterpreted as unsigned integers of the same width (bit pattern kept)

   An element is missing iff one of the clauses holds; nothing else is missing. *)
From CfdmV Require Import Common.Base C07.Model.
Open Scope Z_scope.

(* "x is the missing / fill value m" *)
Definition spec_is (m x : num) : bool :=
  if num_isnan m then num_isnan x else num_eqb x m.

(* the attribute's values, if the attribute is present, numeric and safely castable *)
Definition usable (d : dt) (a : option attrval) : option (list num) :=
  match a with
  | Some (ANum _ vs) => if forallb (safe_val d) vs then Some vs else None
  | _ => None
  end.

Definition spec_fill (d : dt) (A : attrs) : num :=
  match usable d (a_fill A) with
  | Some (v :: _) => v
  | Some [] => NaN
  | None => Fin (default_fill d)
  end.

Definition spec_vmin (d : dt) (A : attrs) : option num :=
  match usable d (a_vrange A) with
  | Some [a; b] => Some a
  | _ => match usable d (a_vmin A) with Some (v :: _) => Some v | Some [] => Some NaN | None => None end
  end.

Definition spec_vmax (d : dt) (A : attrs) : option num :=
  match usable d (a_vrange A) with
  | Some [a; b] => Some b
  | _ => match usable d (a_vmax A) with Some (v :: _) => Some v | Some [] => Some NaN | None => None end
  end.

(* x is an element as presented (after the unsigned view when [view]); attribute
   values are brought to the variable's type and viewed in the same way *)
Definition spec_masked (d : dt) (A : attrs) (view : bool) (x : num) : bool :=
  let tr v := vw d view (cast d v) in
  match usable d (a_missing A) with
  | Some vs => existsb (fun m => spec_is (tr m) x) vs
  | None => false
  end
  || spec_is (tr (spec_fill d A)) x
  || match spec_vmin d A with Some m => num_ltb x (tr m) | None => false end
  || match spec_vmax d A with Some m => num_ltb (tr m) x | None => false end.

(* one element of a read: the raw value as stored in the file to the presented value *)
Definition spec_elem (d : dt) (A : attrs) (mask unpack : bool) (x : num) : option num :=
  let view := do_view d A unpack in
  let dd := if view then view_dt d else d in
  let y := vw d view x in
  let v := if mask && spec_masked d A view y then None else Some y in
  if unpack then
    match pack_scalar (a_scale A), pack_scalar (a_offset A) with
    | Some s, Some o => option_map (unpack_elem dd s o) v
    | _, _ => v
    end
  else v.

(* conditions under which apply_masking after a mask=False read reproduces the masked
   read (after handoff/C07-fix2-3.diff) *)
Definition present {T} (a : option T) : bool := match a with Some _ => true | None => false end.

(* unpacking does not change the presented values or their type *)
Definition not_packed (d : dt) (A : attrs) (unpack : bool) : bool :=
  negb unpack || (negb (present (a_scale A)) && negb (present (a_offset A)) && negb (do_view d A unpack)).

(* _FillValue is absent, or one value of the variable's type (the netCDF library refuses
   to create any other _FillValue attribute) *)
Definition fill_ok (d : dt) (A : attrs) : bool :=
  match a_fill A with
  | None => true
  | Some (ANum _ [v]) => safe_val d v
  | _ => false
  end.

Definition apply_guard (d : dt) (A : attrs) (unpack : bool) : bool :=
  not_packed d A unpack && fill_ok d A.

(* bounds (and other children masked through their parent): no masking property is taken
   over from the parent, i.e. each one the parent has is also set on the bounds *)
Definition covers {T} (own parent : option T) : bool := present own || negb (present parent).

Definition no_inherit (Ab Ap : attrs) : bool :=
  covers (a_missing Ab) (a_missing Ap) && covers (a_vrange Ab) (a_vrange Ap)
  && covers (a_vmin Ab) (a_vmin Ap) && covers (a_vmax Ab) (a_vmax Ap).

(* the guard of the superseded code (before fix2-3), kept for Refuted.v *)
Definition absent_or_usable (d : dt) (a : option attrval) : bool :=
  match a with
  | None => true
  | Some _ => match usable d a with Some _ => true | None => false end
  end.

(* the stored values are values of the variable's type *)
Definition raw_ok (d : dt) (x : num) : bool := safe_val d x.
