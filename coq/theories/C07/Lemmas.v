(* C07 - proofs. *)
From CfdmV Require Import Common.Base Tables.NcFill C07.Model C07.Spec.
Open Scope Z_scope.

Ltac splits := repeat match goal with |- _ /\ _ => split end.

(* ------------------------------------------------------------------ tables *)
Lemma ranges_agree_with_numpy :
  forall d, is_float d = false -> assoc (dt_tag d) np_int_ranges = Some (lo d, hi d).
Proof. intros [] H; try discriminate H; vm_compute; reflexivity. Qed.

Lemma default_fill_safe : forall d, safe_val d (Fin (default_fill d)) = true.
Proof. intros []; vm_compute; reflexivity. Qed.

Lemma default_fill_is_table :
  forall d, assoc (dt_tag d) nc_default_fillvals = Some (default_fill d).
Proof. intros []; vm_compute; reflexivity. Qed.

Lemma pow_nbits_pos : forall d, 0 < 2 ^ nbits d.
Proof. intros []; vm_compute; reflexivity. Qed.

Lemma width : forall d, is_float d = false -> hi d - lo d + 1 = 2 ^ nbits d.
Proof. intros [] H; try discriminate H; vm_compute; reflexivity. Qed.

(* ------------------------------------------------------------------ casts *)
Lemma wrap_in_range : forall d z, in_range d z = true -> wrap d z = z.
Proof.
  intros d z H. unfold wrap, in_range in *. destruct (is_float d) eqn:F; [reflexivity|].
  apply andb_true_iff in H as [H1 H2]. apply Z.leb_le in H1, H2.
  pose proof (width d F). rewrite Z.mod_small; lia.
Qed.

Lemma cast_safe : forall d v, safe_val d v = true -> cast d v = v.
Proof.
  intros d [z|] H; simpl in *.
  - now rewrite wrap_in_range.
  - now rewrite H.
Qed.

Lemma safe_nan_float : forall d, safe_val d NaN = true -> is_float d = true.
Proof. intros d H; exact H. Qed.

(* ------------------------------------------------------------------ list helpers *)
Lemma zipw_map {A B C D} (h : B -> C -> D) (f : A -> B) (g : A -> C) (l : list A) :
  zipw h (map f l) (map g l) = map (fun x => h (f x) (g x)) l.
Proof. induction l as [|x r IH]; simpl; [reflexivity|now rewrite IH]. Qed.

Lemma anyb_map_false {A} (g : A -> bool) (l : list A) :
  anyb (map g l) = false -> forall x, In x l -> g x = false.
Proof.
  unfold anyb. induction l as [|y r IH]; simpl; intros H x Hin; [contradiction|].
  apply orb_false_iff in H as [H1 H2]. destruct Hin as [->|Hin]; auto.
Qed.

(* "tot represents the mask function f on data" *)
Definition repr {A} (tot : option (list bool)) (f : A -> bool) (data : list A) : Prop :=
  match tot with
  | None => forall x, In x data -> f x = false
  | Some t => t = map f data
  end.

Lemma repr_add_mask {A} tot (f g : A -> bool) data :
  repr tot f data -> repr (add_mask tot (map g data)) (fun x => f x || g x) data.
Proof.
  destruct tot as [t|]; simpl; intro H.
  - subst t. apply zipw_map.
  - apply map_ext_in. intros x Hx. now rewrite (H x Hx).
Qed.

Lemma repr_add_mask_if_any {A} tot (f g : A -> bool) data :
  repr tot f data -> repr (add_mask_if_any tot (map g data)) (fun x => f x || g x) data.
Proof.
  intro H. unfold add_mask_if_any. destruct (anyb (map g data)) eqn:E.
  - now apply repr_add_mask.
  - pose proof (anyb_map_false g data E) as G.
    destruct tot as [t|]; simpl in *.
    + subst t. apply map_ext_in. intros x Hx. rewrite (G x Hx). now rewrite orb_false_r.
    + intros x Hx. rewrite (H x Hx), (G x Hx). reflexivity.
Qed.

Lemma repr_ext {A} tot (f g : A -> bool) data :
  (forall x, f x = g x) -> repr tot f data -> repr tot g data.
Proof.
  intros E H. destruct tot as [t|]; simpl in *.
  - subst t. apply map_ext. exact E.
  - intros x Hx. rewrite <- E. now apply H.
Qed.

Lemma repr_final {A} tot (f : A -> bool) data :
  repr tot f data ->
  match tot with Some t => t | None => map (fun _ => false) data end = map f data.
Proof.
  destruct tot as [t|]; simpl; intro H; [exact H|].
  apply map_ext_in. intros x Hx. symmetry. now apply H.
Qed.

Lemma value_mask_spec : forall data m, value_mask data m = map (spec_is m) data.
Proof.
  intros data m. unfold value_mask, spec_is. destruct (num_isnan m); reflexivity.
Qed.

(* ------------------------------------------------------------------ the mask is the specification *)
Lemma missing_fold d view data :
  forall mv tot f,
  repr tot f data ->
  repr (fold_left (fun tot m => add_mask_if_any tot (value_mask data (vw d view (cast d m)))) mv tot)
       (fun x => f x || existsb (fun m => spec_is (vw d view (cast d m)) x) mv) data.
Proof.
  induction mv as [|m r IH]; intros tot f H; simpl.
  - eapply repr_ext; [|exact H]. intro x. now rewrite orb_false_r.
  - rewrite value_mask_spec.
    pose proof (repr_add_mask_if_any tot f (spec_is (vw d view (cast d m))) data H) as H1.
    specialize (IH _ _ H1). eapply repr_ext; [|exact IH].
    intro x. simpl. now rewrite orb_assoc.
Qed.

Lemma fill_used_spec : forall d A, fill_used d A = cast d (spec_fill d A).
Proof.
  intros d A. unfold fill_used, spec_fill, check_safecast, usable.
  destruct (a_fill A) as [[t vs|s]|]; try reflexivity.
  destruct (forallb (safe_val d) vs); [|reflexivity].
  destruct vs; reflexivity.
Qed.

Lemma valid_bounds_spec : forall d A,
  valid_bounds d A = (option_map (cast d) (spec_vmin d A), option_map (cast d) (spec_vmax d A)).
Proof.
  intros d A. unfold valid_bounds, spec_vmin, spec_vmax, check_safecast, usable.
  assert (MM : forall (P : bool) , True) by (intros; exact I).
  destruct (a_vrange A) as [[t vr|s]|].
  - destruct (forallb (safe_val d) vr) eqn:E.
    + destruct vr as [|a [|b [|c r]]]; cbn [andb length Nat.eqb nth].
      all: destruct (a_vmin A) as [[t1 v1|s1]|]; destruct (a_vmax A) as [[t2 v2|s2]|].
      all: try destruct (forallb (safe_val d) v1).
      all: try destruct (forallb (safe_val d) v2).
      all: try destruct v1. all: try destruct v2.
      all: reflexivity.
    + cbn [andb].
      destruct (a_vmin A) as [[t1 v1|s1]|]; destruct (a_vmax A) as [[t2 v2|s2]|].
      all: try destruct (forallb (safe_val d) v1).
      all: try destruct (forallb (safe_val d) v2).
      all: try destruct v1. all: try destruct v2.
      all: reflexivity.
  - cbn [andb].
    destruct (a_vmin A) as [[t1 v1|s1]|]; destruct (a_vmax A) as [[t2 v2|s2]|].
    all: try destruct (forallb (safe_val d) v1).
    all: try destruct (forallb (safe_val d) v2).
    all: try destruct v1. all: try destruct v2.
    all: reflexivity.
  - cbn [andb].
    destruct (a_vmin A) as [[t1 v1|s1]|]; destruct (a_vmax A) as [[t2 v2|s2]|].
    all: try destruct (forallb (safe_val d) v1).
    all: try destruct (forallb (safe_val d) v2).
    all: try destruct v1. all: try destruct v2.
    all: reflexivity.
Qed.

Theorem mask_model_spec : forall d A view data,
  mask_model d A view data = map (spec_masked d A view) data.
Proof.
  intros d A view data. unfold mask_model.
  rewrite valid_bounds_spec, fill_used_spec, value_mask_spec.
  set (fm := fun x : num => match usable d (a_missing A) with
                            | Some vs => existsb (fun m => spec_is (vw d view (cast d m)) x) vs
                            | None => false end).
  assert (R0 : repr (let (smiss, mv) := check_safecast d (a_missing A) in
                     if smiss then
                       fold_left (fun tot m => add_mask_if_any tot (value_mask data (vw d view (cast d m)))) mv None
                     else None) fm data).
  { unfold check_safecast, fm, usable.
    destruct (a_missing A) as [[t vs|s]|]; simpl; try (intros x _; reflexivity).
    destruct (forallb (safe_val d) vs); simpl; [|intros x _; reflexivity].
    eapply repr_ext; [|apply (missing_fold d view data vs None (fun _ => false))].
    - intro x. reflexivity.
    - simpl. intros x _. reflexivity. }
  destruct (check_safecast d (a_missing A)) as [smiss mv].
  set (tot0 := if smiss then _ else None) in *.
  pose proof (repr_add_mask_if_any tot0 fm (spec_is (vw d view (cast d (spec_fill d A)))) data R0) as R1.
  set (tot1 := add_mask_if_any tot0 _) in *.
  set (f1 := fun x => fm x || spec_is (vw d view (cast d (spec_fill d A))) x) in *.
  set (f2 := fun x => f1 x || match spec_vmin d A with Some m => num_ltb x (vw d view (cast d m)) | None => false end).
  set (f3 := fun x => f2 x || match spec_vmax d A with Some m => num_ltb (vw d view (cast d m)) x | None => false end).
  assert (R2 : repr (match option_map (cast d) (spec_vmin d A) with
                     | Some m => add_mask tot1 (map (fun x => num_ltb x (vw d view m)) data)
                     | None => tot1 end) f2 data).
  { unfold f2. destruct (spec_vmin d A) as [m|]; simpl.
    - apply repr_add_mask. exact R1.
    - eapply repr_ext; [|exact R1]. intro x. now rewrite orb_false_r. }
  set (tot2 := match option_map (cast d) (spec_vmin d A) with Some m => _ | None => tot1 end) in *.
  assert (R3 : repr (match option_map (cast d) (spec_vmax d A) with
                     | Some m => add_mask tot2 (map (fun x => num_ltb (vw d view m) x) data)
                     | None => tot2 end) f3 data).
  { unfold f3. destruct (spec_vmax d A) as [m|]; simpl.
    - apply repr_add_mask. exact R2.
    - eapply repr_ext; [|exact R2]. intro x. now rewrite orb_false_r. }
  rewrite (repr_final _ f3 data R3).
  apply map_ext. intro x. reflexivity.
Qed.

(* ------------------------------------------------------------------ reads are element-wise *)
Definition read_dt (d : dt) (A : attrs) (unpack : bool) : dt :=
  let dd := if do_view d A unpack then view_dt d else d in
  if unpack then
    match pack_scalar (a_scale A), pack_scalar (a_offset A) with
    | Some s, Some o => unpack_dt dd s o
    | _, _ => dd
    end
  else dd.

Theorem read_model_elementwise : forall d A mask unpack raw,
  read_model d A mask unpack raw = (read_dt d A unpack, map (spec_elem d A mask unpack) raw).
Proof.
  intros d A mask unpack raw. unfold read_model, read_dt, spec_elem.
  set (view := do_view d A unpack). set (dd := if view then view_dt d else d).
  assert (V : (if mask then apply_mask (map (vw d view) raw) (mask_model d A view (map (vw d view) raw))
               else map Some (map (vw d view) raw))
              = map (fun x => if mask && spec_masked d A view (vw d view x) then None else Some (vw d view x)) raw).
  { destruct mask; simpl.
    - rewrite mask_model_spec. unfold apply_mask. rewrite map_map.
      rewrite (zipw_map (fun x (b : bool) => if b then None else Some x) (vw d view)
                        (fun x => spec_masked d A view (vw d view x)) raw). reflexivity.
    - now rewrite map_map. }
  rewrite V. destruct unpack; [|reflexivity].
  unfold unpack_model.
  destruct (pack_scalar (a_scale A)) as [s|]; [destruct (pack_scalar (a_offset A)) as [o|]|];
    try reflexivity.
  now rewrite map_map.
Qed.

Theorem subspace_commutes : forall d A mask unpack raw pos,
  Forall (fun i => (i < length raw)%nat) pos ->
  read_model d A mask unpack (map (fun i => nth i raw NaN) pos)
  = (fst (read_model d A mask unpack raw),
     map (fun i => nth i (snd (read_model d A mask unpack raw)) None) pos).
Proof.
  intros d A mask unpack raw pos H. rewrite !read_model_elementwise. simpl. f_equal.
  rewrite map_map. apply map_ext_in. intros i Hi.
  rewrite Forall_forall in H. specialize (H i Hi).
  rewrite (nth_indep _ None (spec_elem d A mask unpack NaN)) by now rewrite map_length.
  now rewrite map_nth.
Qed.

(* ------------------------------------------------------------------ masking switched off *)
Theorem mask_off_raw : forall d A raw,
  read_model d A false false raw = (d, map Some raw).
Proof.
  intros d A raw. rewrite read_model_elementwise. unfold read_dt, spec_elem, do_view. simpl.
  f_equal.
Qed.

Theorem mask_off_nothing_missing : forall d A unpack raw,
  Forall (fun v => v <> None) (snd (read_model d A false unpack raw)).
Proof.
  intros d A unpack raw. rewrite read_model_elementwise. simpl.
  apply Forall_forall. intros v Hv. apply in_map_iff in Hv as [x [<- _]].
  unfold spec_elem. simpl. destruct unpack; [|discriminate].
  destruct (pack_scalar (a_scale A)) as [s|]; [destruct (pack_scalar (a_offset A)) as [o|]|];
    simpl; discriminate.
Qed.

(* the masked and the unmasked read agree on type and on every element that is not missing *)
Theorem masked_read_agrees_with_unmasked : forall d A unpack raw,
  fst (read_model d A true unpack raw) = fst (read_model d A false unpack raw) /\
  Forall2 (fun m u => m = None \/ m = u)
          (snd (read_model d A true unpack raw)) (snd (read_model d A false unpack raw)).
Proof.
  intros d A unpack raw. rewrite !read_model_elementwise. simpl. split; [reflexivity|].
  induction raw as [|x r IH]; simpl; constructor; [|exact IH].
  unfold spec_elem. simpl.
  destruct (spec_masked d A (do_view d A unpack) (vw d (do_view d A unpack) x)); [|now right].
  left. destruct unpack; [|reflexivity].
  destruct (pack_scalar (a_scale A)) as [s|]; [destruct (pack_scalar (a_offset A)) as [o|]|]; reflexivity.
Qed.

(* ------------------------------------------------------------------ _Unsigned *)
Lemma signed_half : forall d, is_signed d = true -> hi d = 2 ^ nbits d / 2 - 1 /\ hi d < 2 ^ nbits d.
Proof. intros [] H; try discriminate H; vm_compute; split; reflexivity. Qed.

Lemma uview_range : forall d z w, uview d (Fin z) = Fin w ->
  (0 <= w < 2 ^ nbits d) /\ w mod 2 ^ nbits d = z mod 2 ^ nbits d /\
  (0 <= z -> in_range d z = true -> is_signed d = true -> w = z).
Proof.
  intros d z w H. cbn [uview] in H. injection H as <-. pose proof (pow_nbits_pos d) as P.
  split; [|split].
  - apply Z.mod_pos_bound; lia.
  - apply Z.mod_mod; lia.
  - intros Hz Hr Hs. apply Z.mod_small. split; [lia|].
    destruct (signed_half d Hs) as [_ Hh].
    assert (F : is_float d = false) by (destruct d; try discriminate Hs; reflexivity).
    unfold in_range in Hr. rewrite F in Hr.
    apply andb_true_iff in Hr as [_ Hr]. apply Z.leb_le in Hr. lia.
Qed.

Lemma mod_inj : forall N x y, 0 < N -> x mod N = y mod N -> - N < x - y < N -> x = y.
Proof.
  intros N x y HN E B.
  pose proof (Z.div_mod x N ltac:(lia)). pose proof (Z.div_mod y N ltac:(lia)).
  assert (x - y = N * (x / N - y / N)) by lia.
  assert (x / N - y / N = 0) by nia. lia.
Qed.

Theorem view_keeps_equality : forall d x m,
  is_signed d = true -> in_range d x = true -> in_range d m = true ->
  num_eqb (uview d (Fin x)) (uview d (Fin m)) = num_eqb (Fin x) (Fin m).
Proof.
  intros d x m Hs Hx Hm. simpl.
  assert (F : is_float d = false) by (destruct d; try discriminate Hs; reflexivity).
  unfold in_range in *. rewrite F in *.
  apply andb_true_iff in Hx as [X1 X2]. apply andb_true_iff in Hm as [M1 M2].
  apply Z.leb_le in X1, X2, M1, M2. pose proof (width d F) as W. pose proof (pow_nbits_pos d) as P.
  destruct (x =? m) eqn:E.
  - apply Z.eqb_eq in E. subst. apply Z.eqb_refl.
  - apply Z.eqb_neq in E. apply Z.eqb_neq. intro C. apply E.
    apply (mod_inj (2 ^ nbits d)); [exact P|exact C|lia].
Qed.

(* ------------------------------------------------------------------ unpacking *)
Definition is_none {T} (o : option T) : bool := match o with None => true | Some _ => false end.

Theorem unpack_keeps_mask : forall dd A vals,
  map is_none (snd (unpack_model dd A vals)) = map is_none vals.
Proof.
  intros dd A vals. unfold unpack_model.
  destruct (pack_scalar (a_scale A)) as [s|]; [destruct (pack_scalar (a_offset A)) as [o|]|];
    try reflexivity.
  simpl. rewrite map_map. apply map_ext. intros [x|]; reflexivity.
Qed.

Theorem unpack_without_attributes : forall dd A vals,
  a_scale A = None -> a_offset A = None -> unpack_model dd A vals = (dd, vals).
Proof.
  intros dd A vals H1 H2. unfold unpack_model. rewrite H1, H2. simpl. f_equal.
  rewrite <- (map_id vals) at 2. apply map_ext. intros [x|]; reflexivity.
Qed.

(* an unmasked element of a read with both switches on is the unpacked (viewed) raw value *)
Theorem unpack_value : forall d A x s o,
  pack_scalar (a_scale A) = Some s -> pack_scalar (a_offset A) = Some o ->
  spec_elem d A false true x =
  Some (unpack_elem (if do_view d A true then view_dt d else d) s o (vw d (do_view d A true) x)).
Proof. intros d A x s o H1 H2. unfold spec_elem. simpl. now rewrite H1, H2. Qed.

(* ------------------------------------------------------------------ apply_masking reproduces the masked read *)
Lemma fv_match_cast : forall d m x, fv_match d (cast d m) x = spec_is (cast d m) x.
Proof.
  intros d m x. unfold fv_match, spec_is. destruct m as [z|]; simpl; [reflexivity|].
  destruct (is_float d); reflexivity.
Qed.

Lemma existsb_fv_match_cast : forall d vs x,
  existsb (fun fv => fv_match d fv x) (map (cast d) vs) = existsb (fun m => spec_is (cast d m) x) vs.
Proof.
  induction vs as [|v r IH]; intro x; simpl; [reflexivity|]. now rewrite fv_match_cast, IH.
Qed.

(* under the guard the masked read and the unmasked read are in "raw space" *)
Lemma not_packed_read : forall d A mask unpack raw, not_packed d A unpack = true ->
  read_model d A mask unpack raw =
  (d, map (fun x => if mask && spec_masked d A false x then None else Some x) raw).
Proof.
  intros d A mask unpack raw H. rewrite read_model_elementwise. unfold not_packed in H.
  unfold read_dt, spec_elem. destruct unpack; simpl in *.
  - apply andb_true_iff in H as [H Hv]. apply andb_true_iff in H as [Hs Ho].
    apply negb_true_iff in Hv. rewrite Hv.
    destruct (a_scale A); [discriminate|]. destruct (a_offset A); [discriminate|]. simpl.
    f_equal. apply map_ext. intro x. destruct (mask && spec_masked d A false x); reflexivity.
  - unfold do_view. simpl. reflexivity.
Qed.

(* the mask that apply_masking computes on an array of the variable's own type, with the
   variable's own default fill value recorded, is the specification's *)
Lemma apply_masking_on_spec : forall d A vals,
  fill_ok d A = true ->
  apply_masking_on d A d vals =
  Ok (d, map (fun v => match v with
                       | Some x => if spec_masked d A false x then None else Some x
                       | None => None end) vals).
Proof.
  intros d A vals FO. unfold apply_masking_on. rewrite valid_bounds_spec.
  assert (FILL : check_safecast d (Some (fill_property d A)) = (true, [spec_fill d A])).
  { unfold fill_property, fill_ok, spec_fill, usable in *.
    destruct (a_fill A) as [[t [|v [|w r]]|s]|]; try discriminate; unfold check_safecast; cbn [forallb].
    - rewrite FO. reflexivity.
    - rewrite default_fill_safe. reflexivity. }
  rewrite FILL.
  assert (MISS : forall x,
     existsb (fun fv => fv_match d fv x)
             (let (smiss, mvs) := check_safecast d (a_missing A) in
              if smiss then map (cast d) mvs else [])
     = match usable d (a_missing A) with
       | Some vs => existsb (fun m => spec_is (cast d m) x) vs | None => false end).
  { intro x. unfold check_safecast, usable.
    destruct (a_missing A) as [[t vs|s]|]; try reflexivity.
    destruct (forallb (safe_val d) vs); [apply existsb_fv_match_cast|reflexivity]. }
  destruct (check_safecast d (a_missing A)) as [smiss mvs].
  f_equal. f_equal. apply map_ext. intros [x|]; [|reflexivity].
  assert (E : (existsb (fun fv => fv_match d fv x)
                 (map (cast d) [spec_fill d A] ++ (if smiss then map (cast d) mvs else []))
               || match option_map (cast d) (spec_vmin d A) with Some m => num_ltb x m | None => false end
               || match option_map (cast d) (spec_vmax d A) with Some m => num_ltb m x | None => false end)
              = spec_masked d A false x).
  { unfold spec_masked. cbn [vw]. rewrite existsb_app, (MISS x). cbn [map existsb].
    rewrite orb_false_r, fv_match_cast.
    rewrite (orb_comm (spec_is (cast d (spec_fill d A)) x)).
    destruct (spec_vmin d A), (spec_vmax d A); reflexivity. }
  cbn [map] in E. cbn [map]. rewrite E. reflexivity.
Qed.

Theorem apply_masking_reproduces : forall d A unpack raw,
  apply_guard d A unpack = true ->
  apply_masking_model d A unpack raw = Ok (read_model d A true unpack raw).
Proof.
  intros d A unpack raw G. unfold apply_guard in G. apply andb_true_iff in G as [NP FO].
  unfold apply_masking_model, apply_masking_recorded.
  rewrite !(not_packed_read d A _ unpack raw NP). cbn [andb].
  rewrite (apply_masking_on_spec d A _ FO). f_equal. f_equal. rewrite map_map. reflexivity.
Qed.

(* bounds and other children: as long as nothing is inherited from the parent *)
Lemma inherit_covers {T} (own parent : option T) : covers own parent = true -> inherit own parent = own.
Proof. destruct own, parent; simpl; intro H; try reflexivity; discriminate. Qed.

Lemma bounds_attrs_no_inherit : forall Ab Ap, no_inherit Ab Ap = true -> bounds_attrs Ab Ap = Ab.
Proof.
  intros [m f vr vmn vmx s o u] Ap H. unfold no_inherit in H. cbn [a_missing a_vrange a_vmin a_vmax] in H.
  repeat (apply andb_true_iff in H; destruct H as [H ?]).
  unfold bounds_attrs. cbn [a_missing a_fill a_vrange a_vmin a_vmax a_scale a_offset a_unsigned].
  rewrite !inherit_covers by assumption. reflexivity.
Qed.

Theorem apply_masking_bounds_reproduces : forall db Ab Ap unpack raw,
  apply_guard db Ab unpack = true -> no_inherit Ab Ap = true ->
  apply_masking_bounds db db Ab Ap unpack raw = Ok (read_model db Ab true unpack raw).
Proof.
  intros db Ab Ap unpack raw G N. unfold apply_masking_bounds.
  rewrite (bounds_attrs_no_inherit Ab Ap N). exact (apply_masking_reproduces db Ab unpack raw G).
Qed.

(* the whole field: own data, every metadata construct, their bounds and interior rings *)
Definition fvar_guard (unpack : bool) (v : fvar) : bool :=
  match v with
  | Own d A _ => apply_guard d A unpack
  | Child db Ab Ap _ => apply_guard db Ab unpack && no_inherit Ab Ap
  end.

Theorem field_apply_masking_reproduces : forall unpack f,
  forallb (fvar_guard unpack) f = true ->
  field_apply_masking unpack f = map (@Ok _) (field_read true unpack f).
Proof.
  intros unpack f. unfold field_apply_masking, field_read.
  induction f as [|v r IH]; intro H; [reflexivity|].
  cbn [forallb] in H. apply andb_true_iff in H as [Hv Hr].
  cbn [map]. rewrite (IH Hr). f_equal.
  destruct v as [d A raw|db Ab Ap raw]; cbn [fvar_apply fvar_read fvar_guard] in *.
  - now apply apply_masking_reproduces.
  - apply andb_true_iff in Hv as [G N]. now apply apply_masking_bounds_reproduces.
Qed.

(* non-vacuity: guard-satisfying variables with every masking attribute kind, including an
   attribute that cannot be cast safely (valid_max = 70000 on an i2 variable), valid_range
   together with valid_min, a vector and a NaN missing_value *)
Example apply_guard_example :
  let A := mkAttrs (Some (ANum I4 [Fin 2; Fin 4])) (Some (ANum I2 [Fin 3])) (Some (ANum F8 [Fin 0; Fin 100]))
                   (Some (ANum I2 [Fin 50])) (Some (ANum I4 [Fin 70000])) (Some (ANum F4 [Fin 2])) None (Some "true"%string) in
  apply_guard I2 A false = true /\
  apply_masking_model I2 A false [Fin 1; Fin 2; Fin 3; Fin (-5); Fin (-32767); Fin 101]
  = Ok (I2, [Some (Fin 1); None; None; None; None; None]).
Proof. vm_compute. split; reflexivity. Qed.

Example apply_guard_example_nan :
  let A := mkAttrs (Some (ANum F8 [NaN])) None None (Some (ANum F8 [Fin 0])) None None None None in
  apply_guard F8 A true = true /\
  apply_masking_model F8 A true [Fin 1; NaN; Fin (-1)] = Ok (F8, [Some (Fin 1); None; None]).
Proof. vm_compute. split; reflexivity. Qed.

(* an i4 coordinate whose f8 bounds have a never-written (pre-filled) last cell *)
Example field_example :
  let none := mkAttrs None None None None None None None None in
  let f := [Own I4 none [Fin 1; Fin 2]; Child F8 none none [Fin 0; Fin 1; Fin (default_fill F8); Fin (default_fill F8)]] in
  forallb (fvar_guard true) f = true /\
  field_apply_masking true f
  = [Ok (I4, [Some (Fin 1); Some (Fin 2)]); Ok (F8, [Some (Fin 0); Some (Fin 1); None; None])].
Proof. vm_compute. split; reflexivity. Qed.

(* ------------------------------------------------------------------ where apply_masking does not reproduce it (open findings) *)
Theorem apply_masking_packed_refuted :
  exists d A raw, fill_ok d A = true /\ apply_masking_model d A true raw <> Ok (read_model d A true true raw).
Proof.
  exists I2, (mkAttrs None None None None None (Some (ANum F4 [Fin 2])) (Some (ANum F4 [Fin 1])) None),
         [Fin 1; Fin (-32767)].
  vm_compute. split; [reflexivity|discriminate].
Qed.

Theorem apply_masking_bounds_inherit_refuted :
  exists db Ab Ap raw, apply_guard db Ab false = true /\
    apply_masking_bounds db db Ab Ap false raw <> Ok (read_model db Ab true false raw).
Proof.
  exists F8, (mkAttrs None None None None None None None None),
         (mkAttrs (Some (ANum I4 [Fin 2])) None None None None None None None), [Fin 1; Fin 2].
  vm_compute. split; [reflexivity|discriminate].
Qed.

(* the default fill value that the reader records must be that of the variable itself:
   recording the parent's (an i4 coordinate with f8 bounds) loses the never-written cells *)
Theorem recorded_fill_of_other_type_refuted :
  exists rd d A raw, apply_guard d A false = true /\
    apply_masking_recorded rd d A false raw <> Ok (read_model d A true false raw).
Proof.
  exists I4, F8, (mkAttrs None None None None None None None None), [Fin 1; Fin (default_fill F8)].
  vm_compute. split; [reflexivity|discriminate].
Qed.

Theorem recorded_fill_same_default : forall rd d A unpack raw,
  default_fill rd = default_fill d -> is_float rd = is_float d ->
  apply_masking_recorded rd d A unpack raw = apply_masking_model d A unpack raw.
Proof.
  intros rd d A unpack raw E _. unfold apply_masking_model, apply_masking_recorded.
  destruct (read_model d A false unpack raw) as [dd vals].
  unfold apply_masking_on, fill_property. rewrite E.
  destruct (a_fill A); reflexivity.
Qed.

(* ------------------------------------------------------------------ stored byte order *)
Lemma of_le_to_le : forall k u, of_le (to_le k u) = u mod 256 ^ Z.of_nat k.
Proof.
  induction k as [|k IH]; intro u.
  - simpl. now rewrite Z.mod_1_r.
  - cbn [to_le of_le]. rewrite IH, Nat2Z.inj_succ, Z.pow_succ_r by lia.
    rewrite (Z.rem_mul_r u 256 (256 ^ Z.of_nat k)); [reflexivity|lia|].
    apply Z.pow_pos_nonneg; lia.
Qed.

Lemma order_order : forall bo bs, order bo (order bo bs) = bs.
Proof. intros [] bs; simpl; [reflexivity|apply rev_involutive]. Qed.

Lemma bytes_width : forall d, 256 ^ Z.of_nat (nbytes d) = 2 ^ nbits d.
Proof. intros []; vm_compute; reflexivity. Qed.

Lemma half_width : forall d, 2 ^ nbits d = 2 * 2 ^ (nbits d - 1).
Proof. intros []; vm_compute; reflexivity. Qed.

Lemma signed_bounds : forall d, is_signed d = true ->
  lo d = - 2 ^ (nbits d - 1) /\ hi d = 2 ^ (nbits d - 1) - 1 /\ is_float d = false.
Proof. intros [] H; try discriminate H; vm_compute; repeat split; reflexivity. Qed.

Lemma unsigned_bounds : forall d, is_signed d = false -> is_float d = false ->
  lo d = 0 /\ hi d = 2 ^ nbits d - 1.
Proof. intros [] H F; try discriminate H; try discriminate F; vm_compute; split; reflexivity. Qed.

Lemma decode_bytes : forall bo d z,
  of_le (order bo (order bo (to_le (nbytes d) (z mod 2 ^ nbits d)))) = z mod 2 ^ nbits d.
Proof.
  intros bo d z. rewrite order_order, of_le_to_le, bytes_width.
  apply Z.mod_mod. pose proof (pow_nbits_pos d). lia.
Qed.

(* the library's array has the stored values, whatever the byte order *)
Theorem load_store : forall bo d v, safe_val d v = true -> load bo d (store bo d v) = v.
Proof.
  intros bo d v S. unfold store. destruct (is_float d) eqn:F; [reflexivity|].
  destruct v as [z|]; [|simpl in S; congruence].
  cbn [load]. rewrite decode_bytes. f_equal.
  simpl in S. unfold in_range in S. rewrite F in S.
  apply andb_true_iff in S as [L H]. apply Z.leb_le in L, H.
  pose proof (half_width d) as HW. pose proof (pow_nbits_pos d) as P.
  destruct (is_signed d) eqn:Sg; cbn [andb].
  - destruct (signed_bounds d Sg) as [El [Eh _]]. rewrite El in L. rewrite Eh in H.
    destruct (z <? 0) eqn:Neg.
    + apply Z.ltb_lt in Neg.
      assert (E : z mod 2 ^ nbits d = z + 2 ^ nbits d)
        by (symmetry; apply Z.mod_unique with (q := -1); lia).
      rewrite E. destruct (2 ^ (nbits d - 1) <=? z + 2 ^ nbits d) eqn:C; [lia|].
      apply Z.leb_gt in C. lia.
    + apply Z.ltb_ge in Neg. rewrite Z.mod_small by lia.
      destruct (2 ^ (nbits d - 1) <=? z) eqn:C; [apply Z.leb_le in C; lia|reflexivity].
  - destruct (unsigned_bounds d Sg F) as [El Eh]. rewrite El in L. rewrite Eh in H.
    apply Z.mod_small. lia.
Qed.

(* the _Unsigned view with the byte order of the data is the view on values *)
Theorem view_store : forall bo d v, is_float d = false -> safe_val d v = true ->
  view_cell bo (store bo d v) = uview d v.
Proof.
  intros bo d v F S. unfold store. rewrite F.
  destruct v as [z|]; [|simpl in S; congruence].
  cbn [view_cell uview]. now rewrite decode_bytes.
Qed.

(* attribute values created and viewed in one byte order are the values the model uses *)
Theorem attr_view_same_order : forall bo d v, is_float d = false -> safe_val d v = true ->
  attr_view bo bo d v = vw d true v.
Proof. intros. unfold attr_view. now apply view_store. Qed.

Lemma read_model_tail : forall d A mask unpack raw,
  read_model d A mask unpack raw
  = read_tail d A mask unpack (do_view d A unpack) (map (vw d (do_view d A unpack)) raw).
Proof. reflexivity. Qed.

(* reading the stored cells gives what the model on values gives *)
Theorem read_stored_values : forall bo d A mask unpack raw,
  Forall (fun v => safe_val d v = true) raw ->
  read_stored bo d A mask unpack (map (store bo d) raw) = read_model d A mask unpack raw.
Proof.
  intros bo d A mask unpack raw H. rewrite read_model_tail.
  unfold read_stored, read_stored_with. f_equal. rewrite map_map.
  apply map_ext_in. intros v Hv. rewrite Forall_forall in H. specialize (H v Hv).
  unfold vw. destruct (do_view d A unpack) eqn:V.
  - apply view_store; [|exact H]. unfold do_view in V.
    apply andb_true_iff in V as [_ Sg]. destruct d; try discriminate Sg; reflexivity.
  - now apply load_store.
Qed.

(* ... so what a read presents does not depend on the stored byte order *)
Theorem byte_order_independent : forall bo1 bo2 d A mask unpack raw,
  Forall (fun v => safe_val d v = true) raw ->
  read_stored bo1 d A mask unpack (map (store bo1 d) raw)
  = read_stored bo2 d A mask unpack (map (store bo2 d) raw).
Proof. intros. now rewrite !read_stored_values. Qed.

(* a view type that loses the byte order is right for little-endian data and for data
   that are not viewed, and wrong otherwise *)
Theorem native_view_little_endian : forall d A mask unpack cells,
  read_stored_native_view LE d A mask unpack cells = read_stored LE d A mask unpack cells.
Proof. reflexivity. Qed.

Theorem native_view_refuted :
  exists d A raw, Forall (fun v => safe_val d v = true) raw /\
    read_stored_native_view BE d A true true (map (store BE d) raw) <> read_model d A true true raw.
Proof.
  exists I2, (mkAttrs None None None None (Some (ANum I2 [Fin 300])) None None (Some "true"%string)),
         [Fin 1; Fin 258].
  split; [repeat constructor|vm_compute; discriminate].
Qed.

(* ------------------------------------------------------------------ identity packing *)
Lemma promote_float_l : forall a b, is_float a = true -> is_float (promote a b) = true.
Proof. intros [] []; intro H; try discriminate H; reflexivity. Qed.

Lemma promote_contains : forall a b z, in_range a z = true -> in_range (promote a b) z = true.
Proof.
  intros a b z H. destruct (is_float (promote a b)) eqn:F; [unfold in_range; now rewrite F|].
  destruct a, b; try discriminate F; unfold in_range in *; cbn in *;
    apply andb_true_iff in H as [H1 H2]; apply Z.leb_le in H1, H2;
    apply andb_true_iff; split; apply Z.leb_le; lia.
Qed.

Lemma cast_promote : forall a b v, safe_val a v = true -> cast (promote a b) v = v.
Proof.
  intros a b v S. apply cast_safe. destruct v as [z|]; simpl in *.
  - now apply promote_contains.
  - now apply promote_float_l.
Qed.

(* only scale_factor = 1, or only add_offset = 0, of whatever type: the values are unchanged *)
Theorem identity_packing_keeps_values : forall dd ts to x, safe_val dd x = true ->
  unpack_elem dd (Some (ts, Fin 1)) None x = x /\
  unpack_elem dd None (Some (to, Fin 0)) x = x.
Proof. intros dd ts to x S. cbn. split; now apply cast_promote. Qed.

(* with one packing attribute the presented type does not depend on its value *)
Theorem unpack_dt_value_free : forall dd t v v',
  unpack_dt dd (Some (t, v)) None = unpack_dt dd (Some (t, v')) None /\
  unpack_dt dd None (Some (t, v)) = unpack_dt dd None (Some (t, v')).
Proof. split; reflexivity. Qed.
