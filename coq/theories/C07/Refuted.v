(* C07 - behaviour of the pinned tree that the repaired code (handoff/C07-fix-*.diff) no
   longer has.  Each witness was replayed against the implementation before the fix
   (corpus cases of harness/props/c07.py).  F07e (a vector- or text-valued scale_factor
   makes cfdm.read raise), F07i (a missing scalar read through h5netcdf cannot be
   presented) and F07j (Field.apply_masking() masks the constructs of the original, not
   of the copy it returns) concern code outside this model and have corpus cases only. *)
From CfdmV Require Import Common.Base C07.Model C07.Spec.
Open Scope Z_scope.
Open Scope string_scope.

Definition only_missing (a : attrval) : attrs :=
  mkAttrs (Some a) None None None None None None None.

(* F07a: missing_value = NaN: the masked read hides the NaN, apply_masking left it. *)
Theorem C07_old_apply_masking_nan_refuted :
  exists A raw,
    apply_fill_values_old A F8 raw <> Ok (snd (read_model F8 A true false raw)) /\
    apply_masking_model F8 A false raw = Ok (read_model F8 A true false raw).
Proof.
  exists (only_missing (ANum F8 [NaN])), [Fin 1; NaN; Fin 3].
  vm_compute. split; [discriminate|reflexivity].
Qed.

(* F07b: missing_value = [2, 4] on a variable of six values: apply_masking raised
   (array == vector cannot broadcast) where the masked read is fine. *)
Theorem C07_old_vector_missing_value_refuted :
  exists A raw,
    apply_fill_values_old A I2 raw = Err ValueErr /\
    apply_masking_model I2 A false raw = Ok (read_model I2 A true false raw) /\
    snd (read_model I2 A true false raw) = [Some (Fin 1); None; Some (Fin 3); None; Some (Fin 5); None].
Proof.
  exists (only_missing (ANum I2 [Fin 2; Fin 4])), [Fin 1; Fin 2; Fin 3; Fin 4; Fin 5; Fin (-32767)].
  vm_compute. repeat split; reflexivity.
Qed.

(* ... and with as many missing values as data values it compared position by position *)
Theorem C07_old_vector_missing_value_pairwise_refuted :
  exists A raw,
    apply_fill_values_old A I2 raw = Ok [Some (Fin 4); Some (Fin 2)] /\
    snd (read_model I2 A true false raw) = [None; None].
Proof.
  exists (only_missing (ANum I2 [Fin 2; Fin 4])), [Fin 4; Fin 2].
  vm_compute. split; reflexivity.
Qed.

(* F07c: _Unsigned = "true" on a float variable: the pinned tree presented the IEEE bit
   patterns as unsigned integers. *)
Theorem C07_old_unsigned_float_refuted :
  exists A raw,
    read_values_old_nomask F4 A true raw = (U4, [Fin 1065353216; Fin 1073741824]) /\
    read_model F4 A true true raw = (F4, [Some (Fin 1); Some (Fin 2)]).
Proof.
  exists (mkAttrs None None None None None None None (Some "true")), [Fin 1; Fin 2].
  vm_compute. split; reflexivity.
Qed.

(* F07g (before handoff/C07-fix2-3.diff): an attribute that cannot be cast safely
   (valid_min = 70000 on an i2 variable) is ignored by the masked read, as the netCDF
   library does, but was used by apply_masking; the repaired code reproduces the read. *)
Theorem C07_old_apply_masking_unsafe_attribute_refuted :
  exists d A raw, not_packed d A false = true /\
    apply_masking_model_old d A false raw <> Ok (read_model d A true false raw) /\
    apply_masking_model d A false raw = Ok (read_model d A true false raw).
Proof.
  exists I2, (mkAttrs None None None (Some (ANum I4 [Fin 70000])) None None None None), [Fin 1; Fin 2].
  vm_compute. split; [reflexivity|split; [discriminate|reflexivity]].
Qed.

(* F07h (before fix2-3): valid_range together with valid_min: the read uses valid_range,
   apply_masking raised ValueError. *)
Theorem C07_old_apply_masking_range_and_min_refuted :
  exists d A raw, not_packed d A false = true /\
    apply_masking_model_old d A false raw = Err ValueErr /\
    apply_masking_model d A false raw = Ok (read_model d A true false raw) /\
    snd (read_model d A true false raw) = [None; Some (Fin 2); Some (Fin 3)].
Proof.
  exists I2, (mkAttrs None None (Some (ANum I2 [Fin 2; Fin 4])) (Some (ANum I2 [Fin 3])) None None None None),
         [Fin 1; Fin 2; Fin 3].
  vm_compute. repeat split; reflexivity.
Qed.

(* before fix2-3 a valid_range of one or three values made apply_masking raise as well;
   the read falls back on valid_min / valid_max *)
Theorem C07_old_apply_masking_range_length_refuted :
  exists d A raw,
    apply_masking_model_old d A false raw = Err ValueErr /\
    apply_masking_model d A false raw = Ok (read_model d A true false raw).
Proof.
  exists I2, (mkAttrs None None (Some (ANum I2 [Fin 2; Fin 4; Fin 6])) None None None None None),
         [Fin 1; Fin 2; Fin 3].
  vm_compute. split; reflexivity.
Qed.

(* before handoff/C07-fix2-4.diff the interior ring variable of a geometry coordinate was
   not masked by apply_masking: a never-written (pre-filled) element stayed visible *)
Theorem C07_old_interior_ring_not_masked_refuted :
  exists A raw,
    apply_masking_interior_ring_old I4 A false raw <> Ok (read_model I4 A true false raw) /\
    apply_masking_model I4 A false raw = Ok (read_model I4 A true false raw).
Proof.
  exists (mkAttrs None None None None None None None None), [Fin 0; Fin 1; Fin (-2147483647)].
  vm_compute. split; [discriminate|reflexivity].
Qed.

(* before handoff/C07-fix3-1.diff: with only a scale_factor of exactly 1 (no arithmetic)
   the data were cast to the attribute's own type: the unsigned view 65531 of an int16
   variable with _Unsigned = "true" and scale_factor = 1s came back as -5 (the netCDF4 library
   keeps 65531), and int32 data with a scale_factor of type int16 wrapped around. *)
Theorem C07_old_identity_packing_changes_values_refuted :
  unpack_elem_old U2 (Some (I2, Fin 1)) None (Fin 65531) = Fin (-5) /\
  unpack_elem U2 (Some (I2, Fin 1)) None (Fin 65531) = Fin 65531 /\
  unpack_elem_old I4 None (Some (I2, Fin 0)) (Fin 70000) = Fin 4464 /\
  unpack_elem I4 None (Some (I2, Fin 0)) (Fin 70000) = Fin 70000.
Proof. vm_compute. repeat split; reflexivity. Qed.

(* before handoff/C07-fix3-2.diff: a zero-dimensional big-endian int64 variable with
   _Unsigned read through the netCDF4 library (value in native order, attribute values created
   big-endian and viewed natively): the default fill value was compared byte-swapped, so the
   never-written value was presented as data. *)
Theorem C07_old_attribute_view_other_order_refuted :
  attr_view BE LE I8 (Fin (default_fill I8)) <> vw I8 true (Fin (default_fill I8)) /\
  attr_view BE LE I8 (Fin (default_fill I8)) = Fin 144115188075856000 /\
  attr_view LE LE I8 (Fin (default_fill I8)) = vw I8 true (Fin (default_fill I8)).
Proof. vm_compute. repeat split; try reflexivity. discriminate. Qed.
