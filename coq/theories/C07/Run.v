(* C07 - evaluation entry points for the correspondence harness. *)
From CfdmV Require Import Common.Base C07.Model C07.Spec.
Open Scope Z_scope.

(* an observed array: data type and flat values; None = masked *)
Inductive onum := OFin (z : Z) | ONaN | OUnk.     (* OUnk: a float outside the model (inf, fraction) *)
Definition obs := result (dt * list (option onum)).

(* magnitude up to which a float type holds every integer exactly *)
Definition exact_bound (r : dt) : option Z :=
  match r with F4 => Some (2 ^ 24) | F8 => Some (2 ^ 53) | _ => None end.

Definition fits (r : dt) (v : num) : bool :=
  match v, exact_bound r with
  | Fin z, Some b => Z.abs z <=? b
  | _, _ => true
  end.

(* float -> integer conversion is only defined for in-range finite values *)
Definition conv_ok (src tgt : dt) (v : num) : bool :=
  if is_float src && negb (is_float tgt) then
    match v with Fin z => in_range tgt z | NaN => false end
  else true.

(* is every intermediate of unpacking x exactly representable? *)
Definition exact_unpack (dd : dt) (s o : option (dt * num)) (x : num) : bool :=
  match s, o with
  | Some (ts, sv), Some (to, ov) =>
    if num_neqb ov (Fin 0) || num_neqb sv (Fin 1) then
      let r1 := promote dd ts in let r := promote r1 to in
      let p := mul_num r1 x sv in
      fits r1 x && fits r1 sv && fits r1 p && conv_ok dd r1 x && conv_ok ts r1 sv &&
      fits r p && fits r ov && fits r (add_num r p ov) && conv_ok to r ov && conv_ok r1 r p
    else fits ts x && conv_ok dd ts x
  | Some (ts, sv), None =>
    if num_neqb sv (Fin 1) then
      let r1 := promote dd ts in
      fits r1 x && fits r1 sv && fits r1 (mul_num r1 x sv) && conv_ok dd r1 x && conv_ok ts r1 sv
    else fits (promote dd ts) x && conv_ok dd (promote dd ts) x
  | None, Some (to, ov) =>
    if num_neqb ov (Fin 0) then
      let r := promote dd to in
      fits r x && fits r ov && fits r (add_num r x ov) && conv_ok dd r x && conv_ok to r ov
    else fits (promote dd to) x && conv_ok dd (promote dd to) x
  | None, None => true
  end.

Definition exact_elem (d : dt) (A : attrs) (unpack : bool) (x : num) : bool :=
  let view := do_view d A unpack in
  let dd := if view then view_dt d else d in
  if unpack then
    match pack_scalar (a_scale A), pack_scalar (a_offset A) with
    | Some s, Some o => exact_unpack dd s o (vw d view x)
    | _, _ => true
    end
  else true.

(* model value against observed value; [exact] = the model's arithmetic is exact here *)
Definition elem_ok (exact : bool) (m : option num) (o : option onum) : bool :=
  match m, o with
  | None, None => true
  | Some _, Some _ =>
    if exact then
      match m, o with
      | Some (Fin a), Some (OFin b) => a =? b
      | Some NaN, Some ONaN => true
      | _, _ => false
      end
    else true
  | _, _ => false
  end.

Fixpoint elems_ok (ex : list bool) (ms : list (option num)) (os : list (option onum)) : bool :=
  match ex, ms, os with
  | [], [], [] => true
  | e :: er, m :: mr, o :: or => elem_ok e m o && elems_ok er mr or
  | _, _, _ => false
  end.

(* cfdm.read(mask=, unpack=)[...].array for a variable with raw values [raw] *)
(* the variable is stored with byte order bo: the model reads the stored cells *)
Definition check_read (c : border * dt * attrs * bool * bool * list num * obs) : bool :=
  let '(bo, d, A, mask, unpack, raw, o) := c in
  let (mdt, mvals) := read_stored bo d A mask unpack (map (store bo d) raw) in
  match o with
  | Ok (odt, ovals) =>
    dt_eqb mdt odt && elems_ok (map (exact_elem d A unpack) raw) mvals ovals
    (* the proved specification on the same input *)
    && list_eqb (option_eqb (fun a b => match a, b with
                                        | Fin x, Fin y => x =? y | NaN, NaN => true | _, _ => false end))
                mvals (map (spec_elem d A mask unpack) raw)
  | Err _ => false
  end.

(* read(mask=False, unpack=).apply_masking().array *)
Definition check_apply (c : dt * attrs * bool * list num * obs) : bool :=
  let '(d, A, unpack, raw, o) := c in
  match apply_masking_model d A unpack raw, o with
  | Ok (mdt, mvals), Ok (odt, ovals) =>
    dt_eqb mdt odt && elems_ok (map (exact_elem d A unpack) raw) mvals ovals
  | Err e1, Err e2 => errk_eqb e1 e2
  | _, _ => false
  end.

(* bounds / node coordinates / any variable masked through its parent construct:
   (data type, own attributes, parent's attributes, unpack, raw values,
    masked read as observed, read(mask=False).apply_masking() as observed).
   The masked read of the child is judged against read_model with the child's own
   attributes, the apply_masking result against the PropertiesDataBounds model with the
   child's own default fill value recorded. *)
Definition obs_ok (d : dt) (A : attrs) (unpack : bool) (raw : list num)
           (m : dt * list (option num)) (o : obs) : bool :=
  match o with
  | Ok (odt, ovals) => dt_eqb (fst m) odt && elems_ok (map (exact_elem d A unpack) raw) (snd m) ovals
  | Err _ => false
  end.

Definition check_child (c : border * dt * attrs * attrs * bool * list num * obs * obs) : bool :=
  let '(bo, db, Ab, Ap, unpack, raw, oread, oapp) := c in
  obs_ok db Ab unpack raw (read_stored bo db Ab true unpack (map (store bo db) raw)) oread
  && match apply_masking_bounds db db Ab Ap unpack raw, oapp with
     | Ok m, Ok _ => obs_ok db Ab unpack raw m oapp
     | Err e1, Err e2 => errk_eqb e1 e2
     | _, _ => false
     end.
