(* C07 - executable model of netCDF masking and unpacking in cfdm.

   Transcribed from
     cfdm/data/netcdfindexer.py   netcdf_indexer.__getitem__, _check_safecast,
                                  _default_FillValue, _mask, _unpack
     cfdm/read_write/netcdf/netcdfread.py  _set_default_FillValue (mask=False reads)
     cfdm/mixin/propertiesdata.py  PropertiesData.apply_masking
     cfdm/data/data.py             Data.apply_masking
   as repaired by handoff/C07-fix-1..5.diff and handoff/C07-fix2-3.diff (safe-cast test and
   valid_range precedence in apply_masking); the superseded behaviour is kept in the
   ..._old definitions (witnesses in Refuted.v).  handoff/C07-fix3-1.diff: identity packing.

   Values.  Integers are exact in Z with the range of their numpy type and
   two's-complement wrap-around.  A float value is either NaN or an integer-valued
   finite number (Fin z); the harness only generates float values that f4 / f8
   represent exactly, and Run.v skips elements whose unpacked value would leave
   that range.  Char / string variables are outside the model.  Definitions only. *)
From CfdmV Require Import Common.Base Tables.NcFill.
Open Scope Z_scope.

Inductive dt := I1 | I2 | I4 | I8 | U1 | U2 | U4 | U8 | F4 | F8.

Definition dt_tag (d : dt) : string :=
  match d with
  | I1 => "i1" | I2 => "i2" | I4 => "i4" | I8 => "i8"
  | U1 => "u1" | U2 => "u2" | U4 => "u4" | U8 => "u8"
  | F4 => "f4" | F8 => "f8"
  end.

Definition dt_eqb (a b : dt) : bool := String.eqb (dt_tag a) (dt_tag b).

Definition is_float (d : dt) : bool := match d with F4 | F8 => true | _ => false end.
Definition is_signed (d : dt) : bool := match d with I1 | I2 | I4 | I8 => true | _ => false end.

Definition nbits (d : dt) : Z :=
  match d with
  | I1 | U1 => 8 | I2 | U2 => 16 | I4 | U4 => 32 | I8 | U8 => 64
  | F4 => 32 | F8 => 64
  end.

(* numpy integer ranges (checked against np.iinfo by ranges_agree_with_numpy) *)
Definition lo (d : dt) : Z := if is_signed d then - 2 ^ (nbits d - 1) else 0.
Definition hi (d : dt) : Z := if is_signed d then 2 ^ (nbits d - 1) - 1 else 2 ^ nbits d - 1.

Definition in_range (d : dt) (z : Z) : bool :=
  if is_float d then true else (lo d <=? z) && (z <=? hi d).

(* C conversion between integer types: wrap around; floats hold the value *)
Definition wrap (d : dt) (z : Z) : Z :=
  if is_float d then z else (z - lo d) mod 2 ^ nbits d + lo d.

(* netcdf_indexer._default_FillValue: netCDF4.default_fillvals[dtype.str[1:]] *)
Definition default_fill (d : dt) : Z :=
  match assoc (dt_tag d) nc_default_fillvals with Some z => z | None => 0 end.

(* ------------------------------------------------------------------ values *)
Inductive num := Fin (z : Z) | NaN.

(* numpy ==, <, isnan *)
Definition num_eqb (a b : num) : bool :=
  match a, b with Fin x, Fin y => x =? y | _, _ => false end.
Definition num_ltb (a b : num) : bool :=
  match a, b with Fin x, Fin y => x <? y | _, _ => false end.
Definition num_isnan (a : num) : bool := match a with NaN => true | _ => false end.

(* np.array(value, dtype) / ndarray.astype(dtype) on one element.  NaN -> integer is
   undefined in C; it never reaches a comparison (the safe-cast test rejects it) and
   Run.v does not compare such elements. *)
Definition cast (d : dt) (v : num) : num :=
  match v with
  | Fin z => Fin (wrap d z)
  | NaN => if is_float d then NaN else Fin 0
  end.

(* ------------------------------------------------------------------ attributes *)
Inductive attrval :=
| ANum (t : dt) (vs : list num)      (* numeric attribute of netCDF type t, one or more values *)
| AStr (s : string).                 (* text attribute *)

Record attrs := mkAttrs {
  a_missing : option attrval;
  a_fill : option attrval;
  a_vrange : option attrval;
  a_vmin : option attrval;
  a_vmax : option attrval;
  a_scale : option attrval;
  a_offset : option attrval;
  a_unsigned : option string }.

(* netCDF4.utils._safecast(att, np.array(att, dtype)): every element equal to its cast,
   or both NaN *)
Definition safe_val (d : dt) (v : num) : bool :=
  match v with Fin z => in_range d z | NaN => is_float d end.

(* _check_safecast: (safe, values) *)
Definition check_safecast (d : dt) (a : option attrval) : bool * list num :=
  match a with
  | None => (false, [])
  | Some (AStr _) => (false, [])
  | Some (ANum _ vs) => (forallb (safe_val d) vs, vs)
  end.

(* ------------------------------------------------------------------ _Unsigned *)
Definition is_unsigned_attr (u : option string) : bool :=
  match u with
  | Some s => String.eqb s "true" || String.eqb s "True"
  | None => false
  end.

Definition view_dt (d : dt) : dt :=
  match d with I1 => U1 | I2 => U2 | I4 => U4 | I8 => U8 | x => x end.

(* data.view(unsigned dtype of the same size) on one element of a signed type *)
Definition uview (d : dt) (v : num) : num :=
  match v with Fin z => Fin (z mod 2 ^ nbits d) | NaN => NaN end.

(* repaired (fix-3): only signed integer data are viewed *)
Definition do_view (d : dt) (A : attrs) (unpack : bool) : bool :=
  unpack && is_unsigned_attr (a_unsigned A) && is_signed d.

Definition vw (d : dt) (view : bool) (v : num) : num := if view then uview d v else v.

(* ------------------------------------------------------------------ _mask *)
Fixpoint zipw {A B C} (f : A -> B -> C) (l1 : list A) (l2 : list B) : list C :=
  match l1, l2 with
  | x :: r1, y :: r2 => f x y :: zipw f r1 r2
  | _, _ => []
  end.

Definition anyb (m : list bool) : bool := existsb (fun b => b) m.

(* totalmask: None, or the accumulated mask *)
Definition add_mask (tot : option (list bool)) (m : list bool) : option (list bool) :=
  match tot with None => Some m | Some t => Some (zipw orb t m) end.

Definition add_mask_if_any (tot : option (list bool)) (m : list bool) : option (list bool) :=
  if anyb m then add_mask tot m else tot.

(* mask of one missing / fill value m (already cast and viewed) *)
Definition value_mask (data : list num) (m : num) : list bool :=
  if num_isnan m then map num_isnan data else map (fun x => num_eqb x m) data.

Definition head_or (l : list num) (dflt : num) : num :=
  match l with x :: _ => x | [] => dflt end.

(* the valid minimum and maximum that are used (before the unsigned view) *)
Definition valid_bounds (d : dt) (A : attrs) : option num * option num :=
  let (srange, vr) := check_safecast d (a_vrange A) in
  let (smin, vmin) := check_safecast d (a_vmin A) in
  let (smax, vmax) := check_safecast d (a_vmax A) in
  if srange && (length vr =? 2)%nat then
    (Some (cast d (nth 0 vr NaN)), Some (cast d (nth 1 vr NaN)))
  else
    ((if smin then Some (cast d (head_or vmin NaN)) else None),
     (if smax then Some (cast d (head_or vmax NaN)) else None)).

(* the fill value that is used: _FillValue when it casts safely, else the default *)
Definition fill_used (d : dt) (A : attrs) : num :=
  let (sfill, fv) := check_safecast d (a_fill A) in
  if sfill then cast d (head_or fv NaN) else cast d (Fin (default_fill d)).

Definition mask_model (d : dt) (A : attrs) (view : bool) (data : list num) : list bool :=
  (* missing_value *)
  let (smiss, mv) := check_safecast d (a_missing A) in
  let tot0 : option (list bool) :=
    if smiss then
      fold_left (fun tot m => add_mask_if_any tot (value_mask data (vw d view (cast d m)))) mv None
    else None in
  (* _FillValue, or the default fill value *)
  let tot1 := add_mask_if_any tot0 (value_mask data (vw d view (fill_used d A))) in
  (* valid_range, else valid_min / valid_max  (numeric data only) *)
  let (vmin, vmax) := valid_bounds d A in
  let tot2 := match vmin with
              | Some m => add_mask tot1 (map (fun x => num_ltb x (vw d view m)) data)
              | None => tot1 end in
  let tot3 := match vmax with
              | Some m => add_mask tot2 (map (fun x => num_ltb (vw d view m) x) data)
              | None => tot2 end in
  match tot3 with
  | Some t => t
  | None => map (fun _ => false) data
  end.

(* ------------------------------------------------------------------ _unpack *)
(* numpy.result_type of two array dtypes *)
Definition promote (a b : dt) : dt :=
  if dt_eqb a b then a else
  match is_float a, is_float b with
  | true, true => F8
  | true, false =>
    match a, b with
    | F4, (I1 | I2 | U1 | U2) => F4
    | _, _ => F8
    end
  | false, true =>
    match b, a with
    | F4, (I1 | I2 | U1 | U2) => F4
    | _, _ => F8
    end
  | false, false =>
    match is_signed a, is_signed b with
    | true, true | false, false => if nbits a <? nbits b then b else a
    | true, false =>
      if nbits b <? nbits a then a else
      match b with U1 => I2 | U2 => I4 | U4 => I8 | _ => F8 end
    | false, true =>
      if nbits a <? nbits b then b else
      match a with U1 => I2 | U2 => I4 | U4 => I8 | _ => F8 end
    end
  end.

(* np.array(attr); a vector gives its first element; float(attr) must succeed *)
Definition pack_scalar (a : option attrval) : option (option (dt * num)) :=
  match a with
  | None => Some None
  | Some (AStr _) => None                       (* ValueError: no unpacking done *)
  | Some (ANum t []) => None
  | Some (ANum t (v :: _)) => Some (Some (t, v))
  end.

Definition mul_num (r : dt) (a b : num) : num :=
  match cast r a, cast r b with
  | Fin x, Fin y => Fin (wrap r (x * y))
  | _, _ => NaN
  end.

Definition add_num (r : dt) (a b : num) : num :=
  match cast r a, cast r b with
  | Fin x, Fin y => Fin (wrap r (x + y))
  | _, _ => NaN
  end.

Definition num_neqb (a b : num) : bool := negb (num_eqb a b).

(* one unmasked element; dd is the data type after the _Unsigned view.  When the scale
   factor is 1 and the offset 0 no arithmetic is done, and (handoff/C07-fix3-1.diff) the
   element of a variable with only one of the two attributes is converted to the type the
   arithmetic would have given; with both attributes it is cast to the scale factor's type,
   which is what the netCDF4 library does. *)
Definition unpack_elem (dd : dt) (s o : option (dt * num)) (x : num) : num :=
  match s, o with
  | Some (ts, sv), Some (to, ov) =>
    if num_neqb ov (Fin 0) || num_neqb sv (Fin 1) then
      add_num (promote (promote dd ts) to) (mul_num (promote dd ts) x sv) ov
    else cast ts x                      (* as the netCDF4 library does *)
  | Some (ts, sv), None =>
    if num_neqb sv (Fin 1) then mul_num (promote dd ts) x sv else cast (promote dd ts) x
  | None, Some (to, ov) =>
    if num_neqb ov (Fin 0) then add_num (promote dd to) x ov else cast (promote dd to) x
  | None, None => x
  end.

Definition unpack_dt (dd : dt) (s o : option (dt * num)) : dt :=
  match s, o with
  | Some (ts, sv), Some (to, ov) =>
    if num_neqb ov (Fin 0) || num_neqb sv (Fin 1) then promote (promote dd ts) to else ts
  | Some (ts, sv), None => promote dd ts
  | None, Some (to, ov) => promote dd to
  | None, None => dd
  end.

(* before fix3-1: the identity branches cast to the attribute's own type *)
Definition unpack_elem_old (dd : dt) (s o : option (dt * num)) (x : num) : num :=
  match s, o with
  | Some (ts, sv), Some (to, ov) =>
    if num_neqb ov (Fin 0) || num_neqb sv (Fin 1) then
      add_num (promote (promote dd ts) to) (mul_num (promote dd ts) x sv) ov
    else cast ts x
  | Some (ts, sv), None =>
    if num_neqb sv (Fin 1) then mul_num (promote dd ts) x sv else cast ts x
  | None, Some (to, ov) =>
    if num_neqb ov (Fin 0) then add_num (promote dd to) x ov else cast to x
  | None, None => x
  end.

Definition unpack_model (dd : dt) (A : attrs) (vals : list (option num)) : dt * list (option num) :=
  match pack_scalar (a_scale A), pack_scalar (a_offset A) with
  | Some s, Some o => (unpack_dt dd s o, map (option_map (unpack_elem dd s o)) vals)
  | _, _ => (dd, vals)
  end.

(* ------------------------------------------------------------------ __getitem__ *)
Definition apply_mask (data : list num) (m : list bool) : list (option num) :=
  zipw (fun x (b : bool) => if b then None else Some x) data m.

(* what a read presents: (data type, values with None = missing) for the raw values
   of the variable (or of any subspace of it) *)
Definition read_model (d : dt) (A : attrs) (mask unpack : bool) (raw : list num)
  : dt * list (option num) :=
  let view := do_view d A unpack in
  let dd := if view then view_dt d else d in
  let data := map (vw d view) raw in
  let vals := if mask then apply_mask data (mask_model d A view data) else map Some data in
  if unpack then unpack_model dd A vals else (dd, vals).

(* ------------------------------------------------------------------ stored byte order *)
(* A netCDF-4 variable is stored little- or big-endian (createVariable(endian=)).  The
   library hands netcdf_indexer an array whose dtype carries that byte order, so element
   VALUES do not depend on it; the one place where the bytes themselves matter is the
   _Unsigned view, data.view(f"{byteorder}u{itemsize}"): the bytes are kept and re-read as
   unsigned integers in the byte order of the VIEW type, which __getitem__ takes from the
   data.  Integer elements are therefore modelled as their stored bytes; float elements
   (never viewed) stay values. *)
Inductive border := LE | BE.

Definition nbytes (d : dt) : nat := Z.to_nat (nbits d / 8).

Fixpoint to_le (k : nat) (u : Z) : list Z :=
  match k with O => [] | S k' => u mod 256 :: to_le k' (u / 256) end.

Fixpoint of_le (bs : list Z) : Z :=
  match bs with [] => 0 | b :: r => b + 256 * of_le r end.

Definition order (bo : border) (bs : list Z) : list Z :=
  match bo with LE => bs | BE => rev bs end.

Inductive cell := CInt (bs : list Z) | CFlt (v : num).

(* the bytes on disk / in the array buffer of value v of type d stored in order bo *)
Definition store (bo : border) (d : dt) (v : num) : cell :=
  if is_float d then CFlt v else
  match v with
  | Fin z => CInt (order bo (to_le (nbytes d) (z mod 2 ^ nbits d)))
  | NaN => CFlt NaN
  end.

(* the value of an element of an array of type d and byte order bo *)
Definition load (bo : border) (d : dt) (c : cell) : num :=
  match c with
  | CFlt v => v
  | CInt bs =>
    let u := of_le (order bo bs) in
    Fin (if is_signed d && (2 ^ (nbits d - 1) <=? u) then u - 2 ^ nbits d else u)
  end.

(* ndarray.view(unsigned type of the same size and of byte order vbo) *)
Definition view_cell (vbo : border) (c : cell) : num :=
  match c with CFlt v => v | CInt bs => Fin (of_le (order vbo bs)) end.

(* a fill, missing or valid value under the _Unsigned view: np.array(value, dtype) is created
   with the byte order abo of [dtype] and then viewed with the view type of the data, of byte
   order dbo.  After handoff/C07-fix3-2.diff [dtype] is the data's own type (abo = dbo);
   before, it was the variable's, and the netCDF4 library returns a zero-dimensional
   big-endian variable in native byte order (abo = BE, dbo = LE). *)
Definition attr_view (abo dbo : border) (d : dt) (v : num) : num := view_cell dbo (store abo d v).

(* __getitem__ after the raw view *)
Definition read_tail (d : dt) (A : attrs) (mask unpack view : bool) (data : list num)
  : dt * list (option num) :=
  let dd := if view then view_dt d else d in
  let vals := if mask then apply_mask data (mask_model d A view data) else map Some data in
  if unpack then unpack_model dd A vals else (dd, vals).

(* __getitem__ on stored cells; [vbo] gives the byte order of the view type from the byte
   order of the data *)
Definition read_stored_with (vbo : border -> border) (bo : border) (d : dt) (A : attrs)
           (mask unpack : bool) (cells : list cell) : dt * list (option num) :=
  let view := do_view d A unpack in
  read_tail d A mask unpack view
            (map (fun c => if view then view_cell (vbo bo) c else load bo d c) cells).

(* the code as it is: the view type keeps the byte order of the data *)
Definition read_stored := read_stored_with (fun bo => bo).

(* a view type built as "u<itemsize>" has the native byte order (little-endian here) *)
Definition read_stored_native_view := read_stored_with (fun _ => LE).

(* ------------------------------------------------------------------ apply_masking *)
(* the properties a mask=False read leaves on the construct: _FillValue is set to the
   default fill value of the data type of the netCDF variable [rd] that the reader passes
   to _set_default_FillValue when the variable has none.  The reader passes the variable
   itself (rd = d), also for bounds, node coordinates, interior rings and the other
   children of a construct; the parameter is kept so that "which variable's default is
   recorded" is part of the correspondence. *)
Definition fill_property (rd : dt) (A : attrs) : attrval :=
  match a_fill A with Some a => a | None => ANum rd [Fin (default_fill rd)] end.

(* repaired Data.apply_masking comparison (fix-1): NaN matches NaN in float data *)
Definition fv_match (dd : dt) (fv x : num) : bool :=
  if num_isnan fv && is_float dd then num_isnan x else num_eqb x fv.

(* PropertiesData.apply_masking followed by Data.apply_masking(safe_cast=True) on the
   array (data type dd) of a mask=False read, as repaired by handoff/C07-fix2-3.diff:
   each of _FillValue and missing_value is one attribute that is used only if all of its
   values cast safely to the array's type; valid_range (safe, two values) is preferred to
   valid_min / valid_max; the values are cast to the array's type; vectors are flattened. *)
Definition apply_masking_on (rd : dt) (A : attrs) (dd : dt) (vals : list (option num))
  : result (dt * list (option num)) :=
  let (sfill, fvs) := check_safecast dd (Some (fill_property rd A)) in
  let (smiss, mvs) := check_safecast dd (a_missing A) in
  let fill_values := (if sfill then map (cast dd) fvs else [])
                     ++ (if smiss then map (cast dd) mvs else []) in
  let (vmin', vmax') := valid_bounds dd A in
  let masked (x : num) : bool :=
    existsb (fun fv => fv_match dd fv x) fill_values
    || match vmin' with Some m => num_ltb x m | None => false end
    || match vmax' with Some m => num_ltb m x | None => false end in
  Ok (dd, map (fun v => match v with
                        | Some x => if masked x then None else Some x
                        | None => None end) vals).

(* read(mask=False, unpack=) then apply_masking() of a variable whose recorded default
   fill value is that of type rd *)
Definition apply_masking_recorded (rd d : dt) (A : attrs) (unpack : bool) (raw : list num)
  : result (dt * list (option num)) :=
  let (dd, vals) := read_model d A false unpack raw in
  apply_masking_on rd A dd vals.

(* the reader as it is: every variable records its own default *)
Definition apply_masking_model (d : dt) (A : attrs) (unpack : bool) (raw : list num)
  : result (dt * list (option num)) :=
  apply_masking_recorded d d A unpack raw.

(* PropertiesDataBounds.apply_masking on the bounds (any child that is masked through its
   parent): a masking property missing on the bounds is taken from the parent construct -
   b.get_property(prop, c.get_property(prop, None)).  After a mask=False read the bounds
   always carry a _FillValue of their own (recorded), so that one is never inherited. *)
Definition inherit {T} (own parent : option T) : option T :=
  match own with Some x => Some x | None => parent end.

Definition bounds_attrs (Ab Ap : attrs) : attrs :=
  mkAttrs (inherit (a_missing Ab) (a_missing Ap)) (a_fill Ab)
          (inherit (a_vrange Ab) (a_vrange Ap)) (inherit (a_vmin Ab) (a_vmin Ap))
          (inherit (a_vmax Ab) (a_vmax Ap)) (a_scale Ab) (a_offset Ab) (a_unsigned Ab).

Definition apply_masking_bounds (rd db : dt) (Ab Ap : attrs) (unpack : bool) (raw : list num)
  : result (dt * list (option num)) :=
  let (dd, vals) := read_model db Ab false unpack raw in
  apply_masking_on rd (bounds_attrs Ab Ap) dd vals.

(* Field.apply_masking: the field's own data, then every metadata construct that has data
   (_apply_masking_constructs -> PropertiesData / PropertiesDataBounds.apply_masking), each
   with its bounds and (fix2-4) its interior ring.  A field is the list of its variables. *)
Inductive fvar :=
| Own (d : dt) (A : attrs) (raw : list num)                 (* data of the field, of a construct, of an interior ring *)
| Child (db : dt) (Ab Ap : attrs) (raw : list num).         (* bounds / node coordinates, masked through the parent *)

Definition fvar_apply (unpack : bool) (v : fvar) : result (dt * list (option num)) :=
  match v with
  | Own d A raw => apply_masking_model d A unpack raw
  | Child db Ab Ap raw => apply_masking_bounds db db Ab Ap unpack raw
  end.

Definition fvar_read (mask unpack : bool) (v : fvar) : dt * list (option num) :=
  match v with
  | Own d A raw => read_model d A mask unpack raw
  | Child db Ab _ raw => read_model db Ab mask unpack raw
  end.

Definition field_apply_masking (unpack : bool) (f : list fvar) := map (fvar_apply unpack) f.
Definition field_read (mask unpack : bool) (f : list fvar) := map (fvar_read mask unpack) f.

(* ------------------------------------------------------------------ pinned-tree behaviour *)
(* F07c: the pinned tree viewed data of every type as unsigned integers; the IEEE-754
   single-precision bit pattern of a small positive integer *)
Definition f4_bits (z : Z) : Z :=
  if (0 <? z) && (z <? 2 ^ 24) then
    let k := Z.log2 z in (k + 127) * 2 ^ 23 + (z - 2 ^ k) * 2 ^ (23 - k)
  else 0.

Definition do_view_old (d : dt) (A : attrs) (unpack : bool) : bool :=
  unpack && is_unsigned_attr (a_unsigned A).

Definition vw_old (d : dt) (view : bool) (v : num) : num :=
  if view then
    match d, v with
    | F4, Fin z => Fin (f4_bits z)
    | _, _ => uview d v
    end
  else v.

Definition view_dt_old (d : dt) : dt :=
  match d with F4 => U4 | F8 => U8 | x => view_dt x end.

(* mask=True, no masking attribute hits: the values a pinned-tree read presents *)
Definition read_values_old_nomask (d : dt) (A : attrs) (unpack : bool) (raw : list num)
  : dt * list num :=
  let view := do_view_old d A unpack in
  ((if view then view_dt_old d else d), map (vw_old d view) raw).

(* F07a: Data.apply_masking compared with == only *)
Definition fv_match_old (fv x : num) : bool := num_eqb x fv.

(* F07b: a vector missing_value was one "fill value": array == vector broadcasts
   (element k against value k) and raises unless the lengths agree or one of them is 1 *)
Definition apply_fill_values_old (A : attrs) (d : dt) (vals : list num) : result (list (option num)) :=
  let fvs := match fill_property d A with ANum _ vs => vs | AStr _ => [] end in
  let mvs := match a_missing A with Some (ANum _ vs) => vs | _ => [] end in
  let fmask := map (fun x => existsb (fun fv => fv_match_old fv x) fvs) vals in
  match mvs with
  | [] => Ok (apply_mask vals fmask)
  | [m] => Ok (apply_mask vals (zipw orb fmask (map (fv_match_old m) vals)))
  | _ =>
    if (length mvs =? length vals)%nat then
      Ok (apply_mask vals (zipw orb fmask (zipw (fun x m => fv_match_old m x) vals mvs)))
    else if (length vals =? 1)%nat then Err ValueErr   (* the mask changes shape: outside the model *)
    else Err ValueErr
  end.

(* F07g, F07h: before handoff/C07-fix2-3.diff the property values were used as they are
   (no safe-cast test, compared as numbers) and valid_range together with valid_min or
   valid_max raised *)
Definition attr_values (a : option attrval) : option (list num) :=
  match a with
  | None => Some []
  | Some (ANum _ vs) => Some vs
  | Some (AStr _) => None
  end.

Definition apply_masking_on_old (d : dt) (A : attrs) (dd : dt) (vals : list (option num))
  : result (dt * list (option num)) :=
  match attr_values (Some (fill_property d A)), attr_values (a_missing A),
        attr_values (a_vmin A), attr_values (a_vmax A), attr_values (a_vrange A) with
  | Some fvs, Some mvs, Some vmin, Some vmax, Some vrange =>
    let has_range := match a_vrange A with Some _ => true | None => false end in
    let has_min := match a_vmin A with Some _ => true | None => false end in
    let has_max := match a_vmax A with Some _ => true | None => false end in
    if has_range && (has_min || has_max) then Err ValueErr
    else if has_range && negb (length vrange =? 2)%nat then Err ValueErr
    else
      let fill_values := fvs ++ mvs in
      let vmin' := if has_range then Some (nth 0 vrange NaN)
                   else if has_min then Some (head_or vmin NaN) else None in
      let vmax' := if has_range then Some (nth 1 vrange NaN)
                   else if has_max then Some (head_or vmax NaN) else None in
      let masked (x : num) : bool :=
        existsb (fun fv => fv_match dd fv x) fill_values
        || match vmin' with Some m => num_ltb x m | None => false end
        || match vmax' with Some m => num_ltb m x | None => false end in
      Ok (dd, map (fun v => match v with
                            | Some x => if masked x then None else Some x
                            | None => None end) vals)
  | _, _, _, _, _ => Err TypeErr
  end.

Definition apply_masking_model_old (d : dt) (A : attrs) (unpack : bool) (raw : list num)
  : result (dt * list (option num)) :=
  let (dd, vals) := read_model d A false unpack raw in
  apply_masking_on_old d A dd vals.

(* before handoff/C07-fix2-4.diff PropertiesDataBounds.apply_masking left the interior
   ring of a geometry coordinate alone: it stayed as the mask=False read presented it *)
Definition apply_masking_interior_ring_old (d : dt) (A : attrs) (unpack : bool) (raw : list num)
  : result (dt * list (option num)) :=
  Ok (read_model d A false unpack raw).
