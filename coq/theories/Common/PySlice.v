(* Python slice semantics on Z: CPython's PySlice_Unpack / PySlice_AdjustIndices
   and the range length formula.  Definitions and their basic lemmas. *)
From Coq Require Import ZArith List Bool Lia.
Import ListNotations.
Open Scope Z_scope.

(* PySlice_AdjustIndices applied to one end point *)
Definition clip (len step v : Z) : Z :=
  if v <? 0 then
    let v' := v + len in
    if v' <? 0 then (if step <? 0 then -1 else 0) else v'
  else if v >=? len then (if step <? 0 then len - 1 else len)
  else v.

Definition slice_start (len : Z) (start : option Z) (step : Z) : Z :=
  match start with
  | Some v => clip len step v
  | None => if step <? 0 then len - 1 else 0
  end.

Definition slice_stop (len : Z) (stop : option Z) (step : Z) : Z :=
  match stop with
  | Some v => clip len step v
  | None => if step <? 0 then -1 else len
  end.

(* len(range(start, stop, step)), step <> 0 *)
Definition range_len (start stop step : Z) : Z :=
  if step >? 0 then
    if start <? stop then (stop - start - 1) / step + 1 else 0
  else
    if stop <? start then (start - stop - 1) / (- step) + 1 else 0.

Definition range_list (start stop step : Z) : list Z :=
  map (fun k => start + Z.of_nat k * step) (seq 0 (Z.to_nat (range_len start stop step))).

(* list(range( *slice(a, b, c).indices(len))) ; None when the step is 0 *)
Definition slice_positions (len : Z) (a b c : option Z) : option (list Z) :=
  let step := match c with Some s => s | None => 1 end in
  if step =? 0 then None
  else Some (range_list (slice_start len a step) (slice_stop len b step) step).

(* ---------------------------------------------------------------- lemmas *)
Lemma range_len_nonneg s e st : st <> 0 -> 0 <= range_len s e st.
Proof.
  intros H. unfold range_len.
  destruct (st >? 0) eqn:E1.
  - destruct (s <? e) eqn:E2; [|lia].
    assert (0 <= (e - s - 1) / st) by (apply Z.div_pos; lia). lia.
  - destruct (e <? s) eqn:E2; [|lia].
    assert (0 <= (s - e - 1) / (- st)) by (apply Z.div_pos; lia). lia.
Qed.

Lemma range_list_length s e st :
  st <> 0 -> Z.of_nat (length (range_list s e st)) = range_len s e st.
Proof.
  intros H. unfold range_list. rewrite map_length, seq_length.
  apply Z2Nat.id. now apply range_len_nonneg.
Qed.

(* every element of a range lies between start (inclusive) and stop (exclusive) *)
Lemma range_list_bounds s e st x :
  st <> 0 -> In x (range_list s e st) ->
  (st > 0 -> s <= x < e) /\ (st < 0 -> e < x <= s).
Proof.
  intros H Hin. unfold range_list in Hin. apply in_map_iff in Hin as [k [Hk Hin]].
  apply in_seq in Hin. subst x.
  assert (Hk : Z.of_nat k < range_len s e st).
  { pose proof (range_len_nonneg s e st H). lia. }
  unfold range_len in Hk. split; intros Hs.
  - assert (E : st >? 0 = true) by lia. rewrite E in Hk.
    destruct (s <? e) eqn:E2; [|lia].
    assert (Z.of_nat k <= (e - s - 1) / st) by lia.
    assert (st * ((e - s - 1) / st) <= e - s - 1) by (apply Z.mul_div_le; lia).
    nia.
  - assert (E : st >? 0 = false) by lia. rewrite E in Hk.
    destruct (e <? s) eqn:E2; [|lia].
    assert (Z.of_nat k <= (s - e - 1) / (- st)) by lia.
    assert ((- st) * ((s - e - 1) / (- st)) <= s - e - 1) by (apply Z.mul_div_le; lia).
    nia.
Qed.

Lemma clip_range len step v :
  0 <= len -> (step > 0 -> 0 <= clip len step v <= len) /\
              (step < 0 -> -1 <= clip len step v <= len - 1).
Proof.
  intros Hl. unfold clip.
  destruct (v <? 0) eqn:E1; [destruct (v + len <? 0) eqn:E2|destruct (v >=? len) eqn:E3];
    destruct (step <? 0) eqn:E4; lia.
Qed.

(* every position selected by a slice is a valid index *)
Lemma slice_positions_in_range len a b c l x :
  0 <= len -> slice_positions len a b c = Some l -> In x l -> 0 <= x < len.
Proof.
  intros Hl. unfold slice_positions.
  set (step := match c with Some s => s | None => 1 end).
  destruct (step =? 0) eqn:E0; [discriminate|]. intros H; inversion H; subst l; clear H.
  intros Hin. assert (Hs : step <> 0) by lia.
  destruct (range_list_bounds _ _ _ _ Hs Hin) as [Hp Hn].
  assert (Hstart : (step > 0 -> 0 <= slice_start len a step <= len) /\
                   (step < 0 -> -1 <= slice_start len a step <= len - 1)).
  { unfold slice_start. destruct a; [now apply clip_range|].
    destruct (step <? 0) eqn:E; lia. }
  assert (Hstop : (step > 0 -> 0 <= slice_stop len b step <= len) /\
                  (step < 0 -> -1 <= slice_stop len b step <= len - 1)).
  { unfold slice_stop. destruct b; [now apply clip_range|].
    destruct (step <? 0) eqn:E; lia. }
  destruct (Z_lt_ge_dec 0 step); [specialize (Hp ltac:(lia))|specialize (Hn ltac:(lia))]; lia.
Qed.

(* the k-th element *)
Lemma range_list_nth s e st k d :
  (k < length (range_list s e st))%nat ->
  nth k (range_list s e st) d = s + Z.of_nat k * st.
Proof.
  intros Hk. unfold range_list in *. rewrite map_length, seq_length in Hk.
  set (f := fun k0 : nat => s + Z.of_nat k0 * st).
  rewrite nth_indep with (d' := f 0%nat) by (rewrite map_length, seq_length; exact Hk).
  rewrite (map_nth f). rewrite seq_nth by exact Hk. reflexivity.
Qed.
