(* Shared vocabulary: results, small list helpers.  Stdlib only. *)
From Coq Require Export String Ascii ZArith Bool List Lia.
Export ListNotations.

(* Outcome classes of an API call, as canonicalised by the harness. *)
Inductive errk := ValueErr | IndexErr | TypeErr | KeyErr | OtherErr.

Inductive result (A : Type) :=
| Ok (a : A)
| Err (e : errk).
Arguments Ok {A} a.
Arguments Err {A} e.

Definition errk_eqb (a b : errk) : bool :=
  match a, b with
  | ValueErr, ValueErr | IndexErr, IndexErr | TypeErr, TypeErr
  | KeyErr, KeyErr | OtherErr, OtherErr => true
  | _, _ => false
  end.

Definition rbind {A B} (r : result A) (f : A -> result B) : result B :=
  match r with Ok a => f a | Err e => Err e end.

Definition obind {A B} (o : option A) (f : A -> option B) : option B :=
  match o with Some a => f a | None => None end.

Fixpoint assoc {A} (k : string) (l : list (string * A)) : option A :=
  match l with
  | [] => None
  | (k', v) :: r => if String.eqb k k' then Some v else assoc k r
  end.

Fixpoint list_eqb {A} (eqb : A -> A -> bool) (l1 l2 : list A) : bool :=
  match l1, l2 with
  | [], [] => true
  | x :: r1, y :: r2 => eqb x y && list_eqb eqb r1 r2
  | _, _ => false
  end.

Definition option_eqb {A} (eqb : A -> A -> bool) (a b : option A) : bool :=
  match a, b with
  | Some x, Some y => eqb x y
  | None, None => true
  | _, _ => false
  end.

Lemma list_eqb_eq {A} (eqb : A -> A -> bool) :
  (forall x y, eqb x y = true <-> x = y) ->
  forall l1 l2, list_eqb eqb l1 l2 = true <-> l1 = l2.
Proof.
  intros H l1; induction l1 as [|x r IH]; intros [|y r2]; simpl; split; intro E;
    try reflexivity; try discriminate.
  - apply andb_true_iff in E as [E1 E2]. apply H in E1. apply IH in E2. congruence.
  - inversion E; subst. apply andb_true_iff; split; [apply H|apply IH]; reflexivity.
Qed.

(* ASCII upper-casing, as str.upper() on ASCII strings. *)
Definition upper_ascii (c : ascii) : ascii :=
  let n := nat_of_ascii c in
  if (97 <=? n)%nat && (n <=? 122)%nat then ascii_of_nat (n - 32) else c.

Fixpoint upper (s : string) : string :=
  match s with
  | EmptyString => EmptyString
  | String c r => String (upper_ascii c) (upper r)
  end.
