(* C17 - the property theorems, nothing else.  Each is closed by [exact] of a
   lemma from Lemmas.v (or a witness from Refuted.v) and followed by
   Print Assumptions.  [new_code] is the append branch with C17-fix-1..4 and
   C08-fix-6 applied; [old_code] the branch as it was at the pinned commit. *)
From CfdmV Require Import Common.Base Tables.AppendConstants C17.Model C17.Spec C17.Lemmas C17.Refuted.
Open Scope string_scope.
Open Scope list_scope.

(* Whatever is in the file E, whatever cfdm reads from it, whatever is
   appended, whichever way the call ends (done, refused, failed half-way) and
   for either version of the code: every dimension and variable of E is still
   there, unchanged and in place, and the global attributes are the same. *)
Theorem C17_preserve :
  forall vr nc4 e orig new, extends e (fst (append vr nc4 e orig new)).
Proof. exact preserve. Qed.
Print Assumptions C17_preserve.

(* A refused request leaves the file as it was: the decision is taken before
   anything is opened for writing (the trace is: read, raise). *)
Theorem C17_refuse_first :
  forall vr nc4 e orig new, refuse vr nc4 orig new = true ->
  let s := append_run vr nc4 e orig new in
  w_file s = e /\ w_log s = [ERead; ERaise] /\ no_modification (w_log s) /\
  append vr nc4 e orig new = (e, Refused).
Proof. exact refuse_first. Qed.
Print Assumptions C17_refuse_first.

(* The (repaired) decision is exactly what the documentation calls
   unsupported: a field with groups, or a field whose featureType is not the
   featureType of the file. *)
Theorem C17_refusal_is_documented :
  forall nc4 orig new, refuse new_code nc4 orig new = unsupported (orig_ft orig) new.
Proof. exact refusal_is_documented. Qed.
Print Assumptions C17_refusal_is_documented.

(* The old fields.  FULL STATEMENT WANTED: for E' = append E (read E) S1,
   every field read from E is read from E' and is equal.  PROVED HERE (partial):
   the frame property of the abstract reader - if E' extends E by variables
   that do not refer to an old data variable v and do not take a name that
   v's field looked up without success, then v is still a data variable and
   is assembled from exactly the same variables, dimensions and global
   attributes, to any depth.  That the writer's new variables meet the two
   side conditions when [orig] really is what cfdm reads from E, and that
   cfdm.read is the abstract reader, rest on the oracle (old fields compared
   with cfdm.equals before / after on every generated case). *)
Theorem C17_old_fields_partial :
  forall fuel e e' vv v,
  extends e e' -> d_vars e' = d_vars e ++ vv ->
  In v (data_vars e) ->
  (forall d, In d (v_dims v) -> assoc d (d_dims e) <> None) ->
  stable fuel e vv (ref_names v ++ v_dims v) ->
  (forall w, In w vv -> ~ In (v_name v) (ref_names w)) ->
  In v (data_vars e') /\ view fuel e' v = view fuel e v.
Proof. exact old_fields_frame. Qed.
Print Assumptions C17_old_fields_partial.

(* Every property of an appended field is either written on its data variable
   (not in the set left off) or held by the file as a global attribute with
   that very value. *)
Theorem C17_props_kept_or_held :
  forall gatts fs f a x, In f fs -> prop_of (f_props f) a = Some x ->
  kept_or_held gatts (compute_gl new_code gatts fs) a x.
Proof. exact props_kept_or_held. Qed.
Print Assumptions C17_props_kept_or_held.

(* Coordinate variables are shared only where the constructs are equal: an
   auxiliary coordinate / cell measure / domain ancillary / dimension
   coordinate either takes the variable of a registered construct with equal
   content (and the same netCDF dimensions), changing nothing, or gets a
   variable registered under its own content. *)
Theorem C17_aux_shared_only_if_equal :
  forall m k d s nv s', write_aux m k d s = (nv, s') ->
  (exists e, In e (w_seen s) /\ e_ncvar e = nv /\ content_eqb false (k_c k) (e_c e) = true /\
             list_eqb String.eqb d (e_ncdims e) = true /\ s' = s)
  \/ (find_seen false (k_c k) (Some d) s = None /\
      In {| e_c := k_c k; e_ncvar := nv; e_ncdims := d |} (w_seen s')).
Proof. exact aux_shared_only_if_equal. Qed.
Print Assumptions C17_aux_shared_only_if_equal.

Theorem C17_dimcoord_shared_only_if_equal :
  forall m ax k c s nv nd s', write_dimcoord m ax k c s = ((nv, nd), s') ->
  (exists e, In e (w_seen s) /\ e_ncvar e = nv /\ content_eqb false c (e_c e) = true /\ s' = s)
  \/ (nd = nv /\ In {| e_c := c; e_ncvar := nv; e_ncdims := [nv] |} (w_seen s')).
Proof. exact dimcoord_shared_only_if_equal. Qed.
Print Assumptions C17_dimcoord_shared_only_if_equal.

Theorem C17_anc_shared_only_if_equal :
  forall m k d df s nv s', write_anc m k d df s = (nv, s') ->
  (exists e, In e (w_seen s) /\ e_ncvar e = nv /\ content_eqb true (k_c k) (e_c e) = true /\
             list_eqb String.eqb d (e_ncdims e) = true /\ s' = s)
  \/ (find_seen true (k_c k) (Some d) s = None /\
      In {| e_c := k_c k; e_ncvar := nv; e_ncdims := d |} (w_seen s')).
Proof. exact anc_shared_only_if_equal. Qed.
Print Assumptions C17_anc_shared_only_if_equal.

(* The formula_terms of an appended field are written on its owning
   coordinate variable - under the exact guard that this variable is created
   by the append (not shared with the file). *)
Theorem C17_formula_terms_written :
  forall m f dims x av s r ko ov,
  f_ref f = Some r -> nth_error dims (r_owner r) = Some ko ->
  prop_of (c_props (k_c ko)) "standard_name" = Some (r_sn r) ->
  ft_terms f r ko av s <> [] ->
  lookup_nat (r_owner r) (x_dimvar x) = Some ov ->
  m_dry m = false -> w_err s = false -> fx_formula (m_var m) = true ->
  In ov (w_created s) ->
  assoc ov (w_bnds s) <> Some ov ->
  forall v, In v (d_vars (w_file s)) -> v_name v = ov ->
  exists v', In v' (d_vars (w_file (write_formula m f dims x av s))) /\ v_name v' = ov /\
             In ("formula_terms", map fst (ft_terms f r ko av s)) (v_refs v').
Proof. exact formula_terms_written. Qed.
Print Assumptions C17_formula_terms_written.

(* Without the guard it is false, also of the repaired code (OPEN finding):
   the owning coordinate equals one already in the file, its variable is
   shared, the terms end up as extra data variables. *)
Theorem C17_formula_terms_on_shared_coordinate_refuted :
  snd (append new_code true file_z [fz_plain] [fz]) = Done /\
  refs_of (fst (append new_code true file_z [fz_plain] [fz])) "z" = [] /\
  map v_name (data_vars file_z) = ["tb"] /\
  map v_name (data_vars (fst (append new_code true file_z [fz_plain] [fz]))) = ["tb"; "a"; "ta"].
Proof. exact formula_terms_on_shared_coordinate_refuted. Qed.
Print Assumptions C17_formula_terms_on_shared_coordinate_refuted.

(* Any sequence of appends (whatever is re-read in between): everything of
   the first file is still there at the end; a refused step changes nothing. *)
Theorem C17_iterated :
  forall vr nc4 reread news e, extends e (append_seq vr nc4 reread e news).
Proof. exact iterated. Qed.
Print Assumptions C17_iterated.

Theorem C17_iterated_refused_step :
  forall vr nc4 reread e n r, refuse vr nc4 (reread e) n = true ->
  append_seq vr nc4 reread e (n :: r) = append_seq vr nc4 reread e r.
Proof. exact iterated_refused_step. Qed.
Print Assumptions C17_iterated_refused_step.

(* A completed append has created at least one variable per appended field
   (each field gets its own data variable), for any number of fields. *)
Theorem C17_one_variable_per_field :
  forall vr nc4 e orig new, snd (append vr nc4 e orig new) = Done ->
  (length (d_vars e) + length new <= length (d_vars (fst (append vr nc4 e orig new))))%nat.
Proof. exact one_variable_per_field. Qed.
Print Assumptions C17_one_variable_per_field.
