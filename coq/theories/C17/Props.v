(* C17 - the property theorems, nothing else.  Each is closed by [exact] of a
   lemma from Lemmas.v (or a witness from Refuted.v) and followed by
   Print Assumptions.  [new_code] is the append branch with C17-fix-1..4 and
   C08-fix-6 applied; [old_code] the branch as it was at the pinned commit. *)
From CfdmV Require Import Common.Base Tables.AppendConstants C17.Model C17.Spec C17.Lemmas C17.Refuted.
Open Scope string_scope.
Open Scope list_scope.

(* Whatever is in the file E, whatever cfdm reads from it, whatever is
   appended, whichever way the call ends (done, refused, failed half-way) and
   for either version of the code: every dimension and variable of E is still
   there, unchanged and in place, and the global attributes are the same. *)
Theorem C17_preserve :
  forall vr nc4 o e orig new, extends e (fst (append vr nc4 o e orig new)).
Proof. exact preserve. Qed.
Print Assumptions C17_preserve.

(* In particular the Conventions attribute, whatever Conventions option or
   forced Conventions value comes with the request.  The model transcribes
   _write_global_attributes with its guard (written only when the pass is
   neither the dry run nor the one after it): [le_write_globals] is the
   proof obligation that a change of that guard breaks. *)
Theorem C17_conventions_kept :
  forall vr nc4 o e orig new,
  assoc "Conventions" (d_gatts (fst (append vr nc4 o e orig new))) = assoc "Conventions" (d_gatts e).
Proof. exact conventions_kept. Qed.
Print Assumptions C17_conventions_kept.

(* A refused request leaves the file as it was: the decision is taken before
   anything is opened for writing (the trace is: read, raise). *)
Theorem C17_refuse_first :
  forall vr nc4 o e orig new, refuse vr nc4 orig new = true ->
  let s := append_run vr nc4 o e orig new in
  w_file s = e /\ w_log s = [ERead; ERaise] /\ no_modification (w_log s) /\
  append vr nc4 o e orig new = (e, Refused).
Proof. exact refuse_first. Qed.
Print Assumptions C17_refuse_first.

(* The (repaired) decision is exactly what the documentation calls
   unsupported: a field with groups, or a field whose featureType is not the
   featureType of the file. *)
Theorem C17_refusal_is_documented :
  forall nc4 orig new, refuse new_code nc4 orig new = unsupported (orig_ft orig) new.
Proof. exact refusal_is_documented. Qed.
Print Assumptions C17_refusal_is_documented.

(* The old fields.  For E' = append E (re-read of E) S1: every data variable
   of E is still a data variable of E' and the field assembled from it by the
   reader of the model (the variable with its attributes, the global
   attributes, the sizes of its dimensions, and the whole closure of the
   variables named by reference attributes or standing as coordinate
   variables, to any depth [fuel]) is the same.  Hypothesis [covers]: the dry
   run over the re-read has registered every name of E as in use and no data
   variable of E as a coordinate-like variable - a computable condition on
   (E, re-read), evaluated on every generated case with the real cfdm.read
   (Run.check_covers); [C17_old_fields_needs_covers_refuted] shows that it
   cannot be dropped.  Proved by an invariant carried through every function
   of the appending pass (new variables get names that are not names of E and
   never refer to a data variable of E).  Code version: any with the
   dimension-name repair e0a05b9 (without it a new coordinate variable may
   take a name of E unchecked). *)
Theorem C17_old_fields :
  forall vr nc4 o e orig new fuel v,
  fx_dimname vr = true -> covers vr e orig = true -> In v (data_vars e) ->
  In v (data_vars (fst (append vr nc4 o e orig new))) /\
  view fuel (fst (append vr nc4 o e orig new)) v = view fuel e v.
Proof. exact old_fields_kept. Qed.
Print Assumptions C17_old_fields.

(* The first pass (dry run over the re-read fields) only fills the registry:
   the file is untouched, whatever was read. *)
Theorem C17_dry_run_reads_only :
  forall vr e orig, w_file (dry_run vr e orig) = e.
Proof. exact dry_run_file. Qed.
Print Assumptions C17_dry_run_reads_only.

Theorem C17_old_fields_iterated :
  forall vr nc4 reread fuel news e v,
  fx_dimname vr = true -> (forall e', covers vr e' (reread e') = true) -> In v (data_vars e) ->
  In v (data_vars (append_seq vr nc4 reread e news)) /\
  view fuel (append_seq vr nc4 reread e news) v = view fuel e v.
Proof. exact old_fields_kept_seq. Qed.
Print Assumptions C17_old_fields_iterated.

Theorem C17_old_fields_needs_covers_refuted :
  covers new_code file_z [f_lying] = false /\
  snd (append new_code true no_opts file_z [f_lying] [f_newaux]) = Done /\
  map v_name (data_vars file_z) = ["tb"] /\
  map v_name (data_vars (fst (append new_code true no_opts file_z [f_lying] [f_newaux]))) = ["new"].
Proof. exact old_fields_needs_covers_refuted. Qed.
Print Assumptions C17_old_fields_needs_covers_refuted.

(* FOUND BY THIS CHECK (C17-fix2-1): at /repo HEAD the dry run could register
   the re-read variables under netCDF dimensions they do not have in the file
   (then [covers] fails and an appended field is given a coordinate variable
   on another dimension); with the repair the same request is written
   correctly and [covers] holds. *)
Theorem C17_dry_run_dimension_refuted :
  let bad := fst (append head_code true no_opts file_two [fq; fr] [fnew]) in
  let good := fst (append new_code true no_opts file_two [fq; fr] [fnew]) in
  dims_of_var bad "n" = ["time"] /\ refs_of bad "n" = [("coordinates", [("", "A_t"); ("", "B_d")])] /\
  dims_of_var bad "B_d" = ["d_time"] /\
  dims_of_var good "n" = ["time"] /\ refs_of good "n" = [("coordinates", [("", "A_t"); ("", "auxiliary")])] /\
  dims_of_var good "auxiliary" = ["time"] /\
  covers head_code file_two [fq; fr] = false /\ covers new_code file_two [fq; fr] = true.
Proof. exact dry_run_dimension_refuted. Qed.
Print Assumptions C17_dry_run_dimension_refuted.

(* The frame property of the reader that the theorem above rests on, for any
   extension of a file (not only the writer's). *)
Theorem C17_old_fields_frame :
  forall fuel e e' vv v,
  extends e e' -> d_vars e' = d_vars e ++ vv ->
  In v (data_vars e) ->
  (forall d, In d (v_dims v) -> assoc d (d_dims e) <> None) ->
  stable fuel e vv (ref_names v ++ v_dims v) ->
  (forall w, In w vv -> ~ In (v_name v) (ref_names w)) ->
  In v (data_vars e') /\ view fuel e' v = view fuel e v.
Proof. exact old_fields_frame. Qed.
Print Assumptions C17_old_fields_frame.

(* _netcdf_name always finds a name that is in use neither as a variable nor
   as a dimension (the search cannot run out: pigeonhole), registers it and
   changes nothing else. *)
Theorem C17_netcdf_name_fresh :
  forall base s, exists n, netcdf_name base s = (n, upd_names (cons n) s) /\ ~ In n (existing s).
Proof. exact netcdf_name_fresh. Qed.
Print Assumptions C17_netcdf_name_fresh.

(* Every property of an appended field is either written on its data variable
   (not in the set left off) or held by the file as a global attribute with
   that very value. *)
Theorem C17_props_kept_or_held :
  forall o gatts fs f a x, In f fs -> prop_of (f_props f) a = Some x ->
  kept_or_held gatts (compute_gl new_code o gatts fs) a x.
Proof. exact props_kept_or_held. Qed.
Print Assumptions C17_props_kept_or_held.

(* Coordinate variables are shared only where the constructs are equal: an
   auxiliary coordinate / cell measure / domain ancillary / dimension
   coordinate either takes the variable of a registered construct with equal
   content (and the same netCDF dimensions), changing nothing, or gets a
   variable registered under its own content. *)
Theorem C17_aux_shared_only_if_equal :
  forall m k d s nv s', write_aux m k d s = (nv, s') ->
  (exists e, In e (w_seen s) /\ e_ncvar e = nv /\ content_eqb false (k_c k) (e_c e) = true /\
             list_eqb String.eqb d (e_ncdims e) = true /\ s' = s)
  \/ (find_seen false (k_c k) (Some d) s = None /\
      In {| e_c := k_c k; e_ncvar := nv; e_ncdims := d |} (w_seen s')).
Proof. exact aux_shared_only_if_equal. Qed.
Print Assumptions C17_aux_shared_only_if_equal.

Theorem C17_dimcoord_shared_only_if_equal :
  forall m used ax k c s nv nd s', write_dimcoord m used ax k c s = ((nv, nd), s') ->
  (exists e, In e (w_seen s) /\ e_ncvar e = nv /\ content_eqb false c (e_c e) = true /\ s' = s)
  \/ (nd = nv /\ In {| e_c := c; e_ncvar := nv; e_ncdims := [nv] |} (w_seen s')).
Proof. exact dimcoord_shared_only_if_equal. Qed.
Print Assumptions C17_dimcoord_shared_only_if_equal.

Theorem C17_anc_shared_only_if_equal :
  forall m k d df s nv s', write_anc m k d df s = (nv, s') ->
  (exists e, In e (w_seen s) /\ e_ncvar e = nv /\ content_eqb true (k_c k) (e_c e) = true /\
             list_eqb String.eqb d (e_ncdims e) = true /\ s' = s)
  \/ (find_seen true (k_c k) (Some d) s = None /\
      In {| e_c := k_c k; e_ncvar := nv; e_ncdims := d |} (w_seen s')).
Proof. exact anc_shared_only_if_equal. Qed.
Print Assumptions C17_anc_shared_only_if_equal.

(* The formula_terms of an appended field are written on its owning
   coordinate variable - under the exact guard that this variable is created
   by the append (not shared with the file). *)
Theorem C17_formula_terms_written :
  forall m f dims x av s r ko ov,
  f_ref f = Some r -> nth_error dims (r_owner r) = Some ko ->
  prop_of (c_props (k_c ko)) "standard_name" = Some (r_sn r) ->
  ft_terms f r ko av s <> [] ->
  lookup_nat (r_owner r) (x_dimvar x) = Some ov ->
  m_dry m = false -> w_err s = false -> fx_formula (m_var m) = true ->
  In ov (w_created s) ->
  assoc ov (w_bnds s) <> Some ov ->
  forall v, In v (d_vars (w_file s)) -> v_name v = ov ->
  exists v', In v' (d_vars (w_file (write_formula m f dims x av s))) /\ v_name v' = ov /\
             In ("formula_terms", map fst (ft_terms f r ko av s)) (v_refs v').
Proof. exact formula_terms_written. Qed.
Print Assumptions C17_formula_terms_written.

(* Without the guard it is false, also of the repaired code (OPEN finding):
   the owning coordinate equals one already in the file, its variable is
   shared, the terms end up as extra data variables. *)
Theorem C17_formula_terms_on_shared_coordinate_refuted :
  snd (append new_code true no_opts file_z [fz_plain] [fz]) = Done /\
  refs_of (fst (append new_code true no_opts file_z [fz_plain] [fz])) "z" = [] /\
  map v_name (data_vars file_z) = ["tb"] /\
  map v_name (data_vars (fst (append new_code true no_opts file_z [fz_plain] [fz]))) = ["tb"; "a"; "ta"].
Proof. exact formula_terms_on_shared_coordinate_refuted. Qed.
Print Assumptions C17_formula_terms_on_shared_coordinate_refuted.

(* Any sequence of appends (whatever is re-read in between): everything of
   the first file is still there at the end; a refused step changes nothing. *)
Theorem C17_iterated :
  forall vr nc4 reread news e, extends e (append_seq vr nc4 reread e news).
Proof. exact iterated. Qed.
Print Assumptions C17_iterated.

Theorem C17_iterated_refused_step :
  forall vr nc4 reread e n r, refuse vr nc4 (reread e) (snd n) = true ->
  append_seq vr nc4 reread e (n :: r) = append_seq vr nc4 reread e r.
Proof. exact iterated_refused_step. Qed.
Print Assumptions C17_iterated_refused_step.

(* A completed append has created at least one variable per appended field
   (each field gets its own data variable), for any number of fields. *)
Theorem C17_one_variable_per_field :
  forall vr nc4 o e orig new, snd (append vr nc4 o e orig new) = Done ->
  (length (d_vars e) + length new <= length (d_vars (fst (append vr nc4 o e orig new))))%nat.
Proof. exact one_variable_per_field. Qed.
Print Assumptions C17_one_variable_per_field.

(* ---- third pass -------------------------------------------------------------------------- *)
(* The mode argument: 'a' and its documented alias 'r+' are the accepted
   spellings of append mode, and the outcome of a call - file and result - is
   the same for every accepted spelling; so C17_preserve and all the other
   theorems about [append] hold for either.  Any other spelling is rejected
   with the file as it was. *)
Theorem C17_append_spellings :
  forall sp, parse_mode sp = Some ModeA <-> sp = "a" \/ sp = "r+".
Proof. exact append_spellings. Qed.
Print Assumptions C17_append_spellings.

Theorem C17_mode_spelling_irrelevant :
  forall vr sp1 sp2 nc4 o e orig new,
  parse_mode sp1 = Some ModeA -> parse_mode sp2 = Some ModeA ->
  write_call vr sp1 nc4 o e orig new = write_call vr sp2 nc4 o e orig new.
Proof. exact mode_spelling_irrelevant. Qed.
Print Assumptions C17_mode_spelling_irrelevant.

Theorem C17_mode_alias :
  forall vr nc4 o e orig new,
  write_call vr "r+" nc4 o e orig new = write_call vr "a" nc4 o e orig new /\
  fst (write_call vr "r+" nc4 o e orig new) = fst (append vr nc4 o e orig new).
Proof. exact mode_alias. Qed.
Print Assumptions C17_mode_alias.

Theorem C17_alias_preserves :
  forall vr sp nc4 o e orig new,
  parse_mode sp = Some ModeA -> extends e (fst (write_call vr sp nc4 o e orig new)).
Proof. exact alias_preserves. Qed.
Print Assumptions C17_alias_preserves.

Theorem C17_bad_mode_untouched :
  forall vr sp nc4 o e orig new,
  parse_mode sp = None -> write_call vr sp nc4 o e orig new = (e, CBadMode).
Proof. exact bad_mode_untouched. Qed.
Print Assumptions C17_bad_mode_untouched.

(* seeded variant (alias validated but not resolved): global attributes
   rewritten, a request that has to be refused carried out *)
Theorem C17_mode_alias_unresolved_refuted :
  d_gatts (write_call_unresolved new_code "r+" true no_opts file_acdd [fz_plain] [commented2])
    = [("Conventions", "CF-1.11"); ("comment", "hello")] /\
  d_gatts (fst (write_call new_code "r+" true no_opts file_acdd [fz_plain] [commented2])) = d_gatts file_acdd /\
  write_call_unresolved new_code "a" true no_opts file_acdd [fz_plain] [commented2]
    = fst (write_call new_code "r+" true no_opts file_acdd [fz_plain] [commented2]) /\
  snd (write_call new_code "r+" true no_opts file_z [fz_plain] [dsg]) = CAppend Refused /\
  map v_name (d_vars (write_call_unresolved new_code "r+" true no_opts file_z [fz_plain] [dsg])) = ["z"; "tb"; "p"].
Proof. exact mode_alias_unresolved_refuted. Qed.
Print Assumptions C17_mode_alias_unresolved_refuted.

(* C17-fix3-2.  With every variable and dimension name of the dataset
   registered as in use between the two passes, no variable created by an
   append takes one of these names - whatever the re-read returned (no
   [covers] hypothesis): a domain variable, or a variable that is part of no
   field, can not be collided with. *)
Theorem C17_dataset_names_not_reused :
  forall vr nc4 o e orig new,
  fx_dimname vr = true -> fx_names vr = true ->
  exists vv, d_vars (fst (append vr nc4 o e orig new)) = d_vars e ++ vv /\
             forall w, In w vv -> ~ In (v_name w) (file_names e).
Proof. exact dataset_names_not_reused. Qed.
Print Assumptions C17_dataset_names_not_reused.

Theorem C17_dataset_names_head3_refuted :
  snd (append head3_code true no_opts file_z [] [fz_plain]) = Failed /\
  snd (append new_code true no_opts file_z [] [fz_plain]) = Done /\
  map v_name (d_vars (fst (append new_code true no_opts file_z [] [fz_plain]))) = ["z"; "tb"; "z_1"; "tb_1"].
Proof. exact dataset_names_head3_refuted. Qed.
Print Assumptions C17_dataset_names_head3_refuted.

(* C17-fix3-4.  In the dry run the names are those of the dataset and are
   registered as they are (a variable or dimension met a second time, through
   another construct, is not given a name the dataset does not have); the
   appending pass still allocates fresh names (C17_netcdf_name_fresh). *)
Theorem C17_dry_run_keeps_names :
  forall vr b s, fx_norename vr = true ->
  netcdf_name_m (dry_mode vr) b s = (b, upd_names (cons b) s) /\
  netcdf_name_m (post_mode vr) b s = netcdf_name b s.
Proof. exact dry_run_keeps_names. Qed.
Print Assumptions C17_dry_run_keeps_names.

Theorem C17_dry_run_rename_refuted :
  refs_of (fst (append renaming_code true no_opts file_ts [f_ts "q" 1] [f_ts "r" 2])) "r" = [("coordinates", [("", "time_1")])] /\
  lookup_var (fst (append renaming_code true no_opts file_ts [f_ts "q" 1] [f_ts "r" 2])) "time_1" = None /\
  refs_of (fst (append new_code true no_opts file_ts [f_ts "q" 1] [f_ts "r" 2])) "r" = [("coordinates", [("", "time")])] /\
  map v_name (d_vars (fst (append new_code true no_opts file_ts [f_ts "q" 1] [f_ts "r" 2]))) = ["time"; "q"; "r"].
Proof. exact dry_run_rename_refuted. Qed.
Print Assumptions C17_dry_run_rename_refuted.
