(* C17 - executable model of cfdm's append-mode writer
   (cfdm/read_write/netcdf/netcdfwrite.py: NetCDFWrite.write, append branch,
   _file_io_iteration, _write_global_attributes, _write_field_or_domain and
   the construct writers it calls, _netcdf_name, _already_in_file).

   Definitions only.  The writer is run twice over one registry [wst]:
   pass 1 ("dry run") over the fields re-read from the existing file, which
   only fills the registry (names in use, netCDF dimension sizes, the [seen]
   list of constructs with their netCDF variable and dimensions); pass 2
   ("post dry run") over the new fields, which creates dimensions and
   variables in the file.  The refusal decision is evaluated before pass 1.

   Data are opaque tokens: two arrays are equal iff shape and token agree.
   The fragment covered: fields (not domains) without groups, compression,
   geometries, cell methods, field ancillaries or grid mappings; every axis
   that the data do not span has size 1 and carries only a dimension
   coordinate (written as a scalar coordinate variable).

   [variant] selects between the code as it was at the pinned commit
   ([old_code]) and the code with handoff/C17-fix-1..4 applied ([new_code]). *)
From CfdmV Require Import Common.Base Tables.AppendConstants.
From Coq Require Import DecimalString.
Open Scope string_scope.
Open Scope list_scope.

Definition smem (x : string) (l : list string) : bool := existsb (String.eqb x) l.

Definition nat_str (n : nat) : string := NilEmpty.string_of_uint (Nat.to_uint n).

(* ---- constructs ---------------------------------------------------------- *)
Inductive kind := KDim | KAux | KAnc | KMsr | KBnd.

Definition kind_eqb (a b : kind) : bool :=
  match a, b with
  | KDim, KDim | KAux, KAux | KAnc, KAnc | KMsr, KMsr | KBnd, KBnd => true
  | _, _ => false
  end.

Definition props := list (string * string).

Definition pair_eqb (a b : string * string) : bool :=
  String.eqb (fst a) (fst b) && String.eqb (snd a) (snd b).
Definition props_incl (p q : props) : bool := forallb (fun a => existsb (pair_eqb a) q) p.
Definition props_eqb (p q : props) : bool := props_incl p q && props_incl q p.
Definition has_prop (p : props) (k : string) : bool := existsb (fun a => String.eqb (fst a) k) p.

Record bcontent := { b_props : props; b_shape : list Z; b_tok : Z }.

Record content := {
  c_kind : kind; c_props : props; c_shape : list Z; c_tok : Z;
  c_measure : string;             (* cell measures only, "" otherwise *)
  c_bnd : option bcontent }.

Definition bnd_content (b : bcontent) : content :=
  {| c_kind := KBnd; c_props := b_props b; c_shape := b_shape b; c_tok := b_tok b;
     c_measure := ""; c_bnd := None |}.

Definition bcontent_eqb (a b : bcontent) : bool :=
  props_eqb (b_props a) (b_props b) && list_eqb Z.eqb (b_shape a) (b_shape b) &&
  Z.eqb (b_tok a) (b_tok b).

(* construct.equals(other, ignore_type=...): with ignore_type the classes may
   differ (used for domain ancillaries only); a Bounds object is only ever
   compared with Bounds objects. *)
Definition kind_match (ignore : bool) (a b : kind) : bool :=
  if ignore then negb (kind_eqb a KBnd) && negb (kind_eqb b KBnd) else kind_eqb a b.

Definition content_eqb (ignore : bool) (a b : content) : bool :=
  kind_match ignore (c_kind a) (c_kind b) && props_eqb (c_props a) (c_props b) &&
  list_eqb Z.eqb (c_shape a) (c_shape b) && Z.eqb (c_tok a) (c_tok b) &&
  String.eqb (c_measure a) (c_measure b) &&
  option_eqb bcontent_eqb (c_bnd a) (c_bnd b).

Record cst := {
  k_ncvar : option string;        (* nc_get_variable *)
  k_c : content;
  k_axes : list nat;              (* positions of the field's axes spanned *)
  k_bvar : option string;         (* bounds: nc_get_variable *)
  k_bdim : option string }.       (* bounds: nc_get_dimension *)

Record axis := { a_size : Z; a_ncdim : option string }.

(* one formula-terms coordinate reference: the position (in f_dim) of its
   only coordinate, standard_name / computed_standard_name parameters, and
   the terms pointing at positions in f_anc *)
Record fref := { r_owner : nat; r_sn : string; r_csn : option string;
                 r_terms : list (string * option nat) }.

Record field := {
  f_ncvar : option string; f_props : props;
  f_gl : list (string * option string);      (* nc_global_attributes *)
  f_groups : list string;                    (* nc_variable_groups *)
  f_axes : list axis; f_daxes : list nat; f_tok : Z;
  f_dim : list cst; f_aux : list cst; f_anc : list cst; f_msr : list cst;
  f_ref : option fref }.

(* ---- the dataset --------------------------------------------------------- *)
(* reference attributes are kept structured: attribute -> [(label, variable)],
   label "" for plain lists ("coordinates", "bounds"), the term or measure
   otherwise ("formula_terms", "cell_measures") *)
Record var := { v_name : string; v_dims : list string; v_attrs : props;
                v_refs : list (string * list (string * string)) }.

Record file := { d_dims : list (string * Z); d_vars : list var; d_gatts : props }.

Inductive event := ERead | EOpenR | EOpenA | EClose | ECreateDim (n : string)
                 | ECreateVar (n : string) | ESetAttr (n : string) | ESetGlobals | ERaise.

Definition modifying (e : event) : bool :=
  match e with EOpenA | ECreateDim _ | ECreateVar _ | ESetAttr _ | ESetGlobals => true | _ => false end.

(* ---- the writer's registry (write_vars) ------------------------------------ *)
Record sentry := { e_c : content; e_ncvar : string; e_ncdims : list string }.

Record wst := {
  w_names : list string;                  (* g['ncvar_names'] *)
  w_dimsz : list (string * Z);            (* g['ncdim_to_size'] *)
  w_bdims : list string;                  (* g['dimensions_with_role']['bounds'] *)
  w_seen : list sentry;                   (* g['seen'] *)
  w_bnds : list (string * string);        (* g['bounds'] *)
  w_span : list (string * Z * list (content * nat)); (* g['ncdim_size_to_spanning_constructs'] *)
  w_created : list string;                (* keys of g['nc'] *)
  w_gl : list string;                     (* g['global_attributes'] *)
  w_file : file;
  w_log : list event;
  w_err : bool }.

(* fx_formula: C17-fix-1; fx_ft: C17-fix-3 (refusal decision); fx_global:
   C17-fix-4; fx_dimname: /repo commits e0a05b9 and 52c62c8 (from C08 and C01:
   how a new coordinate variable is named after the dimension of its axis).  C17-fix-2 (metadata of the original
   fields brought into memory) has no counterpart here: it removes a crash
   of the netCDF library, which the model does not represent. *)
Record variant := { fx_formula : bool; fx_global : bool; fx_ft : bool; fx_dimname : bool;
                    fx_dryname : bool;    (* C17-fix2-1 (1c79b1c): the dry run keeps the file's own dimension of a bare axis *)
                    fx_names : bool;      (* C17-fix3-2: every variable / dimension name of the dataset is in use *)
                    fx_norename : bool }. (* C17-fix3-4: the dry run registers the names of the dataset as they are *)
Definition old_code := {| fx_formula := false; fx_global := false; fx_ft := false; fx_dimname := false;
                          fx_dryname := false; fx_names := false; fx_norename := false |}.
(* /repo as it was before C17-fix2-1 (witness of C17_dry_run_dimension_refuted) *)
Definition head_code := {| fx_formula := true; fx_global := true; fx_ft := true; fx_dimname := true;
                           fx_dryname := false; fx_names := false; fx_norename := false |}.
(* /repo HEAD cbe0f54, third pass: without C17-fix3-2 *)
Definition head3_code := {| fx_formula := true; fx_global := true; fx_ft := true; fx_dimname := true;
                            fx_dryname := true; fx_names := false; fx_norename := false |}.
Definition new_code := {| fx_formula := true; fx_global := true; fx_ft := true; fx_dimname := true;
                          fx_dryname := true; fx_names := true; fx_norename := true |}.

Record mode := { m_dry : bool; m_post : bool; m_var : variant }.

Definition upd_names f s := {| w_names := f (w_names s); w_dimsz := w_dimsz s; w_bdims := w_bdims s;
  w_seen := w_seen s; w_bnds := w_bnds s; w_span := w_span s; w_created := w_created s;
  w_gl := w_gl s; w_file := w_file s; w_log := w_log s; w_err := w_err s |}.
Definition upd_dimsz f s := {| w_names := w_names s; w_dimsz := f (w_dimsz s); w_bdims := w_bdims s;
  w_seen := w_seen s; w_bnds := w_bnds s; w_span := w_span s; w_created := w_created s;
  w_gl := w_gl s; w_file := w_file s; w_log := w_log s; w_err := w_err s |}.
Definition upd_bdims f s := {| w_names := w_names s; w_dimsz := w_dimsz s; w_bdims := f (w_bdims s);
  w_seen := w_seen s; w_bnds := w_bnds s; w_span := w_span s; w_created := w_created s;
  w_gl := w_gl s; w_file := w_file s; w_log := w_log s; w_err := w_err s |}.
Definition upd_seen f s := {| w_names := w_names s; w_dimsz := w_dimsz s; w_bdims := w_bdims s;
  w_seen := f (w_seen s); w_bnds := w_bnds s; w_span := w_span s; w_created := w_created s;
  w_gl := w_gl s; w_file := w_file s; w_log := w_log s; w_err := w_err s |}.
Definition upd_bnds f s := {| w_names := w_names s; w_dimsz := w_dimsz s; w_bdims := w_bdims s;
  w_seen := w_seen s; w_bnds := f (w_bnds s); w_span := w_span s; w_created := w_created s;
  w_gl := w_gl s; w_file := w_file s; w_log := w_log s; w_err := w_err s |}.
Definition upd_span f s := {| w_names := w_names s; w_dimsz := w_dimsz s; w_bdims := w_bdims s;
  w_seen := w_seen s; w_bnds := w_bnds s; w_span := f (w_span s); w_created := w_created s;
  w_gl := w_gl s; w_file := w_file s; w_log := w_log s; w_err := w_err s |}.
Definition set_err s := {| w_names := w_names s; w_dimsz := w_dimsz s; w_bdims := w_bdims s;
  w_seen := w_seen s; w_bnds := w_bnds s; w_span := w_span s; w_created := w_created s;
  w_gl := w_gl s; w_file := w_file s; w_log := w_log s ++ [ERaise]; w_err := true |}.
(* the only ways the file is touched: create_dim, create_var, set_created_ref
   and (mode 'w' only) write_globals *)
Definition set_file fl cr ev s := {| w_names := w_names s; w_dimsz := w_dimsz s; w_bdims := w_bdims s;
  w_seen := w_seen s; w_bnds := w_bnds s; w_span := w_span s; w_created := cr;
  w_gl := w_gl s; w_file := fl; w_log := w_log s ++ [ev]; w_err := w_err s |}.

(* ---- _netcdf_name ---------------------------------------------------------- *)
Definition existing (s : wst) : list string := w_names s ++ map fst (w_dimsz s).

Fixpoint first_free (base : string) (ex : list string) (k fuel : nat) : option string :=
  match fuel with
  | O => None
  | S f => let c := (base ++ "_" ++ nat_str k)%string in
           if smem c ex then first_free base ex (S k) f else Some c
  end.

Definition netcdf_name (base : string) (s : wst) : string * wst :=
  let ex := existing s in
  if smem base ex then
    match first_free base ex 1 (S (length ex)) with
    | Some n => (n, upd_names (cons n) s)
    | None => (base, set_err s)
    end
  else (base, upd_names (cons base) s).

(* C17-fix3-4: in the dry run the constructs come from the dataset and their
   names are the dataset's: a name met again (one variable seen through two
   constructs, a dimension and a scalar variable of one name) is registered as
   it is, not replaced by a name that the dataset does not have *)
Definition netcdf_name_m (m : mode) (base : string) (s : wst) : string * wst :=
  if m_dry m && fx_norename (m_var m) then (base, upd_names (cons base) s) else netcdf_name base s.

(* ---- file primitives -------------------------------------------------------- *)
Definition create_dim (m : mode) (n : string) (size : Z) (s : wst) : wst :=
  if m_dry m || w_err s then s
  else if smem n (map fst (d_dims (w_file s))) then set_err s
  else set_file {| d_dims := d_dims (w_file s) ++ [(n, size)]; d_vars := d_vars (w_file s);
                   d_gatts := d_gatts (w_file s) |} (w_created s) (ECreateDim n) s.

Definition create_var (m : mode) (v : var) (s : wst) : wst :=
  if m_dry m || w_err s then s
  else if smem (v_name v) (map v_name (d_vars (w_file s))) then set_err s
  else set_file {| d_dims := d_dims (w_file s); d_vars := d_vars (w_file s) ++ [v];
                   d_gatts := d_gatts (w_file s) |} (v_name v :: w_created s) (ECreateVar (v_name v)) s.

Definition add_ref (a : string) (l : list (string * string)) (v : var) : var :=
  {| v_name := v_name v; v_dims := v_dims v; v_attrs := v_attrs v;
     v_refs := filter (fun r => negb (String.eqb (fst r) a)) (v_refs v) ++ [(a, l)] |}.

(* g['nc'][ncvar].setncattr(...) inside try/except KeyError: only variables
   created in this pass can be reached *)
Definition set_created_ref (m : mode) (n a : string) (l : list (string * string)) (s : wst) : wst :=
  if m_dry m || w_err s then s
  else if smem n (w_created s) then
    set_file {| d_dims := d_dims (w_file s);
                d_vars := map (fun v => if String.eqb (v_name v) n then add_ref a l v else v) (d_vars (w_file s));
                d_gatts := d_gatts (w_file s) |} (w_created s) (ESetAttr n) s
  else s.

(* ---- _already_in_file -------------------------------------------------------- *)
Definition find_seen (ignore : bool) (c : content) (ncdims : option (list string)) (s : wst) : option sentry :=
  find (fun e => match ncdims with None => true | Some d => list_eqb String.eqb d (e_ncdims e) end
                 && content_eqb ignore c (e_c e)) (w_seen s).

(* _write_netcdf_variable: register in seen; create unless this is the dry run *)
Definition write_var (m : mode) (n : string) (dims : list string) (c : content) (attrs : props)
           (refs : list (string * list (string * string))) (s : wst) : wst :=
  create_var m {| v_name := n; v_dims := dims; v_attrs := attrs; v_refs := refs |}
             (upd_seen (fun l => l ++ [{| e_c := c; e_ncvar := n; e_ncdims := dims |}]) s).

Definition prop_of (p : props) (k : string) : option string := assoc k p.

Definition name_of (k : cst) (c : content) (default : option string) : option string :=
  match k_ncvar k with
  | Some n => Some n
  | None => match prop_of (c_props c) "standard_name" with Some n => Some n | None => default end
  end.

Definition dim_size (s : wst) (d : string) : option Z := assoc d (w_dimsz s).

(* ---- _write_bounds ------------------------------------------------------------ *)
Definition write_bounds (m : mode) (k : cst) (c : content) (cdims : list string) (cvar : string)
           (s : wst) : list (string * list (string * string)) * wst :=
  match c_bnd c with
  | None => ([], s)
  | Some b =>
    let size := last (b_shape b) 0%Z in
    let base := match k_bdim k with Some d => d | None => ("bounds" ++ nat_str (Z.to_nat size))%string end in
    let '(bdim, s1) :=
      (* a name set on the bounds: only a bounds dimension of that name is reused (commit c147c03) *)
      match find (fun d => match k_bdim k with Some n => String.eqb d n | None => true end &&
                           option_eqb Z.eqb (dim_size s d) (Some size)) (w_bdims s) with
      | Some d => (d, s)
      | None => let '(n, s') := netcdf_name_m m base s in (n, upd_bdims (fun l => l ++ [n]) s')
      end in
    let nd := cdims ++ [bdim] in
    let bc := bnd_content b in
    match find_seen false bc (Some nd) s1 with
    | Some e => ([("bounds", [("", e_ncvar e)])], upd_bnds (cons (cvar, e_ncvar e)) s1)
    | None =>
      let isnew := negb (smem bdim (map fst (w_dimsz s1))) in
      let s2 := if isnew then create_dim m bdim size (upd_dimsz (cons (bdim, size)) s1) else s1 in
      let default := if isnew then (cvar ++ "_bounds")%string else "bounds" in
      let '(bv, s3) := netcdf_name_m m (match k_bvar k with Some n => n | None => default end) s2 in
      (* a property is left to the parent only if the parent has it with the same value (commit c07ad3c) *)
      let attrs := filter (fun p => negb (smem (fst p) c17_omit_bounds_props &&
                                          option_eqb String.eqb (prop_of (c_props c) (fst p)) (Some (snd p))))
                          (b_props b) in
      let s4 := write_var m bv nd bc attrs [] s3 in
      ([("bounds", [("", bv)])], upd_bnds (cons (cvar, bv)) s4)
    end
  end.

(* ---- _write_dimension_coordinate ------------------------------------------------ *)
(* the name of a new coordinate variable (and of its dimension).  Current
   code: the netCDF dimension name of the axis when the coordinate has no
   netCDF variable name of its own, else that name or the standard_name, else
   "coordinate" - always made unique.  Pinned commit ([fx_dimname] false):
   variable name or standard_name first, and the dimension name was taken as
   it was, without the uniqueness test. *)
Definition dimcoord_name (m : mode) (ax : axis) (k : cst) (c : content) (s : wst) : string * wst :=
  if fx_dimname (m_var m) then
    match a_ncdim ax, k_ncvar k with
    | Some d, None => netcdf_name_m m d s
    | _, _ => match name_of k c None with
              | Some base => netcdf_name_m m base s
              | None => netcdf_name_m m "coordinate" s
              end
    end
  else
    match name_of k c None with
    | Some base => netcdf_name_m m base s
    | None => match a_ncdim ax with
              | Some d => (d, s)
              | None => netcdf_name_m m "coordinate" s
              end
    end.

(* returns (netCDF variable, netCDF dimension of the axis) *)
(* [used]: the netCDF dimensions of the other axes of this field (commit
   a6b4a67: an equal coordinate variable whose dimension another axis of the
   field already has is not taken again) *)
Definition write_dimcoord (m : mode) (used : list string) (ax : axis) (k : cst) (c : content) (s : wst)
  : (string * string) * wst :=
  let create :=
    match find_seen false c None s with
    | None => None
    | Some e => match e_ncdims e with
                | d0 :: _ => if String.eqb (e_ncvar e) d0 && negb (smem d0 used) then Some (e_ncvar e, d0) else None
                | [] => Some (e_ncvar e, "")
                end
    end in
  match create with
  | Some r => (r, s)
  | None =>
    let '(nv, s1) := dimcoord_name m ax k c s in
    let s2 := create_dim m nv (a_size ax) (upd_dimsz (cons (nv, a_size ax)) s1) in
    let '(extra, s3) := write_bounds m k c [nv] nv s2 in
    ((nv, nv), write_var m nv [nv] c (c_props c) extra s3)
  end.

(* ---- _write_scalar_coordinate ---------------------------------------------------- *)
Definition squeeze (c : content) : content :=
  {| c_kind := c_kind c; c_props := c_props c; c_shape := tl (c_shape c); c_tok := c_tok c;
     c_measure := c_measure c;
     c_bnd := match c_bnd c with
              | Some b => Some {| b_props := b_props b; b_shape := tl (b_shape b); b_tok := b_tok b |}
              | None => None end |}.

Definition write_scalar (m : mode) (k : cst) (c : content) (s : wst) : string * wst :=
  let c0 := squeeze c in
  match find_seen false c0 (Some []) s with
  | Some e => (e_ncvar e, s)
  | None =>
    let '(nv, s1) := netcdf_name_m m (match name_of k c0 None with Some n => n | None => "scalar" end) s in
    let '(extra, s2) := write_bounds m k c0 [] nv s1 in
    (nv, write_var m nv [] c0 (c_props c0) extra s2)
  end.

(* ---- auxiliary coordinates, domain ancillaries, cell measures ---------------------- *)
Definition write_aux (m : mode) (k : cst) (dims : list string) (s : wst) : string * wst :=
  let c := k_c k in
  match find_seen false c (Some dims) s with
  | Some e => (e_ncvar e, s)
  | None =>
    let '(nv, s1) := netcdf_name_m m (match name_of k c None with Some n => n | None => "auxiliary" end) s in
    let '(extra, s2) := write_bounds m k c dims nv s1 in
    (nv, write_var m nv dims c (c_props c) extra s2)
  end.

(* the 'bounds' attribute returned by _write_bounds is passed on for a domain
   ancillary too (commit 32b7c9f; before, the bounds variable was written but
   not referenced) *)
Definition write_anc (m : mode) (k : cst) (dims : list string) (default : string) (s : wst) : string * wst :=
  let c := k_c k in
  match find_seen true c (Some dims) s with
  | Some e => (e_ncvar e, s)
  | None =>
    let '(nv, s1) := netcdf_name_m m (match name_of k c None with Some n => n | None => default end) s in
    let '(extra, s2) := write_bounds m k c dims nv s1 in
    (nv, write_var m nv dims c (c_props c) extra s2)
  end.

Definition write_msr (m : mode) (k : cst) (dims : list string) (s : wst) : string * wst :=
  let c := k_c k in
  match find_seen false c (Some dims) s with
  | Some e => (e_ncvar e, s)
  | None =>
    let '(nv, s1) := netcdf_name_m m (match name_of k c None with Some n => n | None => "cell_measure" end) s in
    (nv, write_var m nv dims c (c_props c) [] s1)
  end.

(* ---- _write_field_or_domain ---------------------------------------------------------- *)
Definition nmem (i : nat) (l : list nat) : bool := existsb (Nat.eqb i) l.

Fixpoint index_of (i : nat) (l : list nat) (p : nat) : option nat :=
  match l with [] => None | x :: r => if Nat.eqb x i then Some p else index_of i r (S p) end.

(* constructs with data spanning axis i, with the position of i in their axes *)
Definition spanning (f : field) (i : nat) : list (content * nat) :=
  concat (map (fun k => match index_of i (k_axes k) 0 with Some p => [(k_c k, p)] | None => [] end)
              (f_aux f ++ f_anc f ++ f_msr f)).

Definition span_match (sp : list (content * nat)) (entry : list (content * nat)) : bool :=
  existsb (fun a => existsb (fun b => Nat.eqb (snd a) (snd b) && content_eqb false (fst a) (fst b)) entry) sp.

(* the computed_standard_name of a formula-terms reference is placed on the
   owning coordinate before anything is written *)
Definition add_csn (f : field) : list cst * bool :=
  match f_ref f with
  | Some r =>
    match r_csn r, nth_error (f_dim f) (r_owner r) with
    | Some csn, Some k =>
      if option_eqb String.eqb (prop_of (c_props (k_c k)) "standard_name") (Some (r_sn r)) then
        match prop_of (c_props (k_c k)) "computed_standard_name" with
        | None =>
          let c := k_c k in
          let c' := {| c_kind := c_kind c; c_props := c_props c ++ [("computed_standard_name", csn)];
                       c_shape := c_shape c; c_tok := c_tok c; c_measure := c_measure c; c_bnd := c_bnd c |} in
          let k' := {| k_ncvar := k_ncvar k; k_c := c'; k_axes := k_axes k; k_bvar := k_bvar k; k_bdim := k_bdim k |} in
          (firstn (r_owner r) (f_dim f) ++ k' :: skipn (S (r_owner r)) (f_dim f), false)
        | Some x => (f_dim f, negb (String.eqb x csn))
        end
      else (f_dim f, false)
    | _, _ => (f_dim f, false)
    end
  | None => (f_dim f, false)
  end.

Record fst8 := {                      (* per-field maps of the writer *)
  x_a2d : list (nat * string);        (* g['axis_to_ncdim'] *)
  x_dimvar : list (nat * string);     (* position in f_dim -> netCDF variable *)
  x_coords : list string;             (* 'coordinates' attribute under construction *)
  x_span : list (string * Z * list (content * nat)) }.

Definition lookup_nat {A} (i : nat) (l : list (nat * A)) : option A :=
  match find (fun p => Nat.eqb (fst p) i) l with Some p => Some (snd p) | None => None end.

Definition dims_of (x : fst8) (axes : list nat) : list string :=
  map (fun i => match lookup_nat i (x_a2d x) with Some d => d | None => "" end) axes.

(* position in dims of the dimension coordinate whose only axis is i *)
Fixpoint dim_for (i : nat) (dims : list cst) (p : nat) : option (nat * cst) :=
  match dims with
  | [] => None
  | k :: r => match k_axes k with
              | [j] => if Nat.eqb i j then Some (p, k) else dim_for i r (S p)
              | _ => dim_for i r (S p)
              end
  end.

(* an axis without dimension coordinate: the existing netCDF dimension it
   is given, if any.  Normally the first registered dimension of the same
   size that is spanned, at the same position, by a construct equal to one of
   this axis' constructs, and that no other axis of this field uses (commit
   30b0fd4).  In the dry run (C17-fix2-1) the axis has been read from the file
   and keeps the dimension it has there, when that one is registered. *)
Definition pick_dim (m : mode) (f : field) (i : nat) (ax : axis) (x : fst8) (s : wst) : option string :=
  let free := fun d => negb (smem d (map snd (x_a2d x))) in
  match (if m_dry m && fx_dryname (m_var m) then a_ncdim ax else None) with
  | Some d => if option_eqb Z.eqb (dim_size s d) (Some (a_size ax)) && free d then Some d else None
  | None =>
    let sp := spanning f i in
    match sp with
    | [] => None
    | _ => match find (fun b => Z.eqb (snd (fst b)) (a_size ax) && span_match sp (snd b) && free (fst (fst b)))
                      (w_span s) with
           | Some b => Some (fst (fst b))
           | None => None
           end
    end
  end.

Definition write_axis (m : mode) (f : field) (dims : list cst) (i : nat) (ax : axis)
           (xs : fst8 * wst) : fst8 * wst :=
  let '(x, s) := xs in
  match dim_for i dims 0 with
  | Some (p, k) =>
    if nmem i (f_daxes f) then
      let '((nv, nd), s1) := write_dimcoord m (map snd (x_a2d x)) ax k (k_c k) s in
      ({| x_a2d := (i, nd) :: x_a2d x; x_dimvar := (p, nv) :: x_dimvar x; x_coords := x_coords x;
          x_span := x_span x |}, s1)
    else
      let '(nv, s1) := write_scalar m k (k_c k) s in
      ({| x_a2d := x_a2d x; x_dimvar := (p, nv) :: x_dimvar x; x_coords := x_coords x ++ [nv];
          x_span := x_span x |}, s1)
  | None =>
    if nmem i (f_daxes f) then
      match pick_dim m f i ax x s with
      | Some d => ({| x_a2d := (i, d) :: x_a2d x; x_dimvar := x_dimvar x;
                      x_coords := x_coords x; x_span := x_span x |}, s)
      | None =>
        let '(nd, s1) := netcdf_name_m m (match a_ncdim ax with Some d => d | None => "dim" end) s in
        let s2 := create_dim m nd (a_size ax) (upd_dimsz (cons (nd, a_size ax)) s1) in
        ({| x_a2d := (i, nd) :: x_a2d x; x_dimvar := x_dimvar x; x_coords := x_coords x;
            x_span := x_span x ++ [(nd, a_size ax, spanning f i)] |}, s2)
      end
    else (x, s)
  end.

Fixpoint write_axes (m : mode) (f : field) (dims : list cst) (i : nat) (axs : list axis)
         (xs : fst8 * wst) : fst8 * wst :=
  match axs with
  | [] => xs
  | ax :: r => write_axes m f dims (S i) r (write_axis m f dims i ax xs)
  end.

Fixpoint write_auxs (m : mode) (x : fst8) (l : list cst) (acc : list string) (s : wst) : list string * wst :=
  match l with
  | [] => (acc, s)
  | k :: r => let '(nv, s1) := write_aux m k (dims_of x (k_axes k)) s in write_auxs m x r (acc ++ [nv]) s1
  end.

Definition anc_default (f : field) (p : nat) : string :=
  match f_ref f with
  | Some r => match find (fun t => option_eqb Nat.eqb (snd t) (Some p)) (r_terms r) with
              | Some t => fst t
              | None => "domain_ancillary"
              end
  | None => "domain_ancillary"
  end.

Fixpoint write_ancs (m : mode) (f : field) (x : fst8) (l : list cst) (p : nat) (acc : list string) (s : wst)
  : list string * wst :=
  match l with
  | [] => (acc, s)
  | k :: r => let '(nv, s1) := write_anc m k (dims_of x (k_axes k)) (anc_default f p) s in
              write_ancs m f x r (S p) (acc ++ [nv]) s1
  end.

Fixpoint write_msrs (m : mode) (x : fst8) (l : list cst) (acc : list (string * string)) (s : wst)
  : list (string * string) * wst :=
  match l with
  | [] => (acc, s)
  | k :: r => let '(nv, s1) := write_msr m k (dims_of x (k_axes k)) s in
              write_msrs m x r (acc ++ [(c_measure (k_c k), nv)]) s1
  end.

(* formula_terms on the owning coordinate variable and on its bounds variable:
   per term, (term, variable) for the coordinate and (term, bounds variable
   or variable) for the coordinate's bounds *)
Definition ft_terms (f : field) (r : fref) (ko : cst) (ancvars : list string) (s : wst)
  : list ((string * string) * (string * string)) :=
  let z := hd 0%nat (k_axes ko) in
  concat (map (fun t =>
    match snd t with
    | None => []
    | Some j => match nth_error ancvars j, nth_error (f_anc f) j with
                | Some nv, Some ka =>
                  let b := match assoc nv (w_bnds s) with
                           | Some bn => if nmem z (k_axes ka) then Some bn else None
                           | None => None end in
                  [((fst t, nv), (fst t, match b with Some bn => bn | None => nv end))]
                | _, _ => []
                end
    end) (r_terms r)).

Definition write_formula (m : mode) (f : field) (dims : list cst) (x : fst8) (ancvars : list string)
           (s : wst) : wst :=
  match f_ref f with
  | None => s
  | Some r =>
    match nth_error dims (r_owner r) with
    | None => s
    | Some ko =>
      if option_eqb String.eqb (prop_of (c_props (k_c ko)) "standard_name") (Some (r_sn r)) then
        match ft_terms f r ko ancvars s with
        | [] => s
        | terms =>
          let enabled := negb (m_post m) || fx_formula (m_var m) in
          match lookup_nat (r_owner r) (x_dimvar x) with
          | None => s
          | Some ov =>
            let s1 := if enabled then set_created_ref m ov "formula_terms" (map fst terms) s else s in
            match assoc ov (w_bnds s) with
            | Some bv => if enabled then set_created_ref m bv "formula_terms" (map snd terms) s1 else s1
            | None => s1
            end
          end
        end
      else s
    end
  end.

Definition write_field (m : mode) (f : field) (s : wst) : wst :=
  let '(dims, bad) := add_csn f in
  let s := if bad then set_err s else s in
  let x0 := {| x_a2d := []; x_dimvar := []; x_coords := []; x_span := [] |} in
  let '(x, s1) := write_axes m f dims 0 (f_axes f) (x0, s) in
  let '(coords, s2) := write_auxs m x (f_aux f) (x_coords x) s1 in
  let '(ancvars, s3) := write_ancs m f x (f_anc f) 0 [] s2 in
  let '(msrs, s4) := write_msrs m x (f_msr f) [] s3 in
  let s5 := write_formula m f dims x ancvars s4 in
  let '(nv, s6) := netcdf_name_m m (match f_ncvar f with
                                | Some n => n
                                | None => match prop_of (f_props f) "standard_name" with
                                          | Some n => n | None => "data" end
                                end) s5 in
  let refs := (match msrs with [] => [] | _ => [("cell_measures", msrs)] end) ++
              (match coords with [] => [] | _ => [("coordinates", map (fun n => ("", n)) coords)] end) in
  let attrs := filter (fun p => negb (smem (fst p) (w_gl s6))) (f_props f) in
  let s7 := create_var m {| v_name := nv; v_dims := dims_of x (f_daxes f); v_attrs := attrs; v_refs := refs |} s6 in
  upd_span (fun l => l ++ x_span x) s7.

Definition write_fields (m : mode) (fs : list field) (s : wst) : wst :=
  fold_left (fun s f => write_field m f s) fs s.

(* ---- _write_global_attributes ---------------------------------------------------- *)
(* the options of cfdm.write that the method reads: Conventions,
   file_descriptors, global_attributes, variable_attributes *)
Record gopts := { o_conv : list string; o_desc : props; o_glob : list string; o_vatt : list string }.
Definition no_opts : gopts := {| o_conv := []; o_desc := []; o_glob := []; o_vatt := [] |}.

Definition gl_value (f : field) (a : string) : option (option string) := assoc a (f_gl f).

(* attribute [a] is forced (nc_set_global_attribute with a value) on every
   field with one and the same value *)
Definition forced (fs : list field) (a : string) : bool :=
  match fs with
  | [] => false
  | f0 :: _ => match gl_value f0 a with
               | Some (Some v0) => forallb (fun f => option_eqb (option_eqb String.eqb) (gl_value f a) (Some (Some v0))) fs
               | _ => false
               end
  end.

Definition forced_value (fs : list field) (a : string) : option string :=
  match fs with
  | f0 :: _ => if forced fs a then match gl_value f0 a with Some (Some v) => Some v | _ => None end else None
  | [] => None
  end.

(* the set g['global_attributes'] as computed for the fields [fs]: requested
   names, description-of-file-contents attributes and marked properties;
   minus variable_attributes, file descriptors and forced attributes; only
   those that the first field has and every other field has with that value *)
Definition compute_gl0 (o : gopts) (fs : list field) : list string :=
  match fs with
  | [] => []
  | f0 :: rest =>
    let base := o_glob o ++ c17_description_attrs ++
                concat (map (fun f => concat (map (fun p => match snd p with None => [fst p] | Some _ => [] end) (f_gl f))) fs) in
    let g0 := filter (fun a => negb (smem a (o_vatt o)) && negb (has_prop (o_desc o) a) && negb (forced fs a)) base in
    filter (fun a => match prop_of (f_props f0) a with
                     | None => false
                     | Some p0 => forallb (fun f => option_eqb String.eqb (prop_of (f_props f) a) (Some p0)) rest
                     end) g0
  end.

(* the append pass (C17-fix-4): a property is left off the new variables only
   if the file holds it, with the same value, as a global attribute *)
Definition compute_gl (vr : variant) (o : gopts) (gatts : props) (fs : list field) : list string :=
  match fs with
  | [] => []
  | f0 :: _ =>
    if fx_global vr then
      filter (fun a => option_eqb String.eqb (assoc a gatts) (prop_of (f_props f0) a)) (compute_gl0 o fs)
    else compute_gl0 o fs
  end.

(* the value of the Conventions attribute; a name that contains CF- followed
   by a digit anywhere (the regular expression search of the code) is a CF
   version and is dropped *)
Definition is_digit (c : Ascii.ascii) : bool :=
  let n := Ascii.nat_of_ascii c in Nat.leb 48 n && Nat.leb n 57.
Definition cf_at (s : string) : bool :=
  match s with
  | String "C"%char (String "F"%char (String "-"%char (String d _))) => is_digit d
  | _ => false
  end.
Fixpoint has_cf_version (s : string) : bool :=
  match s with EmptyString => false | String _ r => cf_at s || has_cf_version r end.
Fixpoint has_char (c : Ascii.ascii) (s : string) : bool :=
  match s with EmptyString => false | String d r => Ascii.eqb c d || has_char c r end.
Fixpoint split_on (p : Ascii.ascii -> bool) (s cur : string) : list string :=
  match s with
  | EmptyString => [cur]
  | String c r => if p c then cur :: split_on p r "" else split_on p r (cur ++ String c "")
  end.
Definition is_space (c : Ascii.ascii) : bool :=
  let n := Ascii.nat_of_ascii c in Nat.eqb n 32 || (Nat.leb 9 n && Nat.leb n 13).

Definition conv_list (o : gopts) (fs : list field) : list string :=
  let l := match o_conv o with
           | _ :: _ => o_conv o
           | [] => match forced_value fs "Conventions" with
                   | Some v => if has_char ","%char v then split_on (Ascii.eqb ","%char) v ""
                               else filter (fun x => negb (String.eqb x "")) (split_on is_space v "")
                   | None => []
                   end
           end in
  filter (fun c => negb (has_cf_version c)) l.

(* None: ValueError (a name with a comma) *)
Definition conv_value (o : gopts) (fs : list field) : option string :=
  let l := conv_list o fs in
  if existsb (has_char ","%char) l then None
  else let l' := ("CF-" ++ c17_cf_version)%string :: l in
       Some (String.concat (if existsb (has_char " "%char) l' then "," else " ") l').

Definition set_gatt (p : props) (av : string * string) : props :=
  filter (fun q => negb (String.eqb (fst q) (fst av))) p ++ [av].

(* forced attributes written as such: not a file descriptor, not Conventions *)
Definition forced_attrs (o : gopts) (fs : list field) : props :=
  match fs with
  | [] => []
  | f0 :: _ => concat (map (fun p => match snd p with
                                     | Some v => if forced fs (fst p) && negb (has_prop (o_desc o) (fst p))
                                                    && negb (String.eqb (fst p) "Conventions")
                                                 then [(fst p, v)] else []
                                     | None => [] end) (f_gl f0))
  end.

Definition globals_to_write (o : gopts) (fs : list field) (cv : string) : props :=
  match fs with
  | [] => []
  | f0 :: _ =>
    [("Conventions", cv)] ++ o_desc o ++
    concat (map (fun a => if String.eqb a "Conventions" then [] else
                          match prop_of (f_props f0) a with Some v => [(a, v)] | None => [] end)
                (compute_gl0 o fs)) ++
    forced_attrs o fs
  end.

Definition set_gl (gl : list string) (s : wst) : wst :=
  {| w_names := w_names s; w_dimsz := w_dimsz s; w_bdims := w_bdims s; w_seen := w_seen s;
     w_bnds := w_bnds s; w_span := w_span s; w_created := w_created s; w_gl := gl;
     w_file := w_file s; w_log := w_log s; w_err := w_err s |}.

(* the method itself.  The global attributes of the file are written only
   when this is neither the dry run nor the pass that follows it
   ("if not g['dry_run'] and not g['post_dry_run']"): Conventions, the file
   descriptors, the global attributes (values of the first field), the forced
   ones.  In the append pass the set is instead reduced to what the file
   holds (read from the open file). *)
Definition write_globals (m : mode) (o : gopts) (fs : list field) (s : wst) : wst :=
  match fs, conv_value o fs with
  | [], _ => set_err s
  | _, None => set_err s
  | _ :: _, Some cv =>
    let s1 := if negb (m_dry m) && negb (m_post m) && negb (w_err s) then
                set_file {| d_dims := d_dims (w_file s); d_vars := d_vars (w_file s);
                            d_gatts := fold_left set_gatt (globals_to_write o fs cv) (d_gatts (w_file s)) |}
                         (w_created s) ESetGlobals s
              else s in
    set_gl (if m_post m then compute_gl (m_var m) o (d_gatts (w_file s1)) fs else compute_gl0 o fs) s1
  end.

(* ---- the refusal decision (append branch of NetCDFWrite.write) ------------------------ *)
Definition has_groups (fs : list field) : bool :=
  existsb (fun f => match f_groups f with [] => false | _ => true end) fs.

(* the featureType test as it was at the pinned commit: only values forced
   through nc_set_global_attribute count for the new fields; the marker of
   the original file is whatever nc_global_attributes() holds (None when the
   attribute was simply read from the file) *)
Definition refuse_ft_old (orig new : list field) : bool :=
  let original_ft : option (option string) :=
    fold_left (fun acc f => match gl_value f "featureType" with Some v => Some v | None => acc end) orig None in
  let fts := concat (map (fun f => match gl_value f "featureType" with Some (Some v) => [v] | _ => [] end) new) in
  match fts with
  | [] => false
  | [v] => match original_ft with
           | None => false
           | Some _ => true
           end
  | _ => true
  end.

Definition field_ft (f : field) : option string :=
  match gl_value f "featureType" with
  | Some (Some v) => Some v
  | _ => prop_of (f_props f) "featureType"
  end.

Definition orig_ft (orig : list field) : option string :=
  fold_left (fun acc f => match gl_value f "featureType" with
                          | Some _ => prop_of (f_props f) "featureType"
                          | None => acc end) orig None.

Definition refuse_ft_new (orig new : list field) : bool :=
  let fts := concat (map (fun f => match field_ft f with Some v => [v] | None => [] end) new) in
  match fts with
  | [] => false
  | _ => negb (forallb (fun v => option_eqb String.eqb (orig_ft orig) (Some v)) fts)
  end.

Definition refuse (vr : variant) (netcdf4 : bool) (orig new : list field) : bool :=
  ((fx_ft vr || netcdf4) && has_groups new) ||
  (if fx_ft vr then refuse_ft_new orig new else refuse_ft_old orig new).

(* ---- NetCDFWrite.write(mode='a') ------------------------------------------------------- *)
Inductive outcome := Done | Refused | Failed.

Definition init (e : file) : wst :=
  {| w_names := []; w_dimsz := []; w_bdims := []; w_seen := []; w_bnds := []; w_span := [];
     w_created := []; w_gl := []; w_file := e; w_log := [ERead]; w_err := false |}.

Definition log (ev : list event) (s : wst) : wst :=
  {| w_names := w_names s; w_dimsz := w_dimsz s; w_bdims := w_bdims s; w_seen := w_seen s;
     w_bnds := w_bnds s; w_span := w_span s; w_created := w_created s; w_gl := w_gl s;
     w_file := w_file s; w_log := w_log s ++ ev; w_err := w_err s |}.

(* _file_io_iteration opens the file: g['nc'] (variables created so far) starts empty *)
Definition reopen (s : wst) : wst :=
  {| w_names := w_names s; w_dimsz := w_dimsz s; w_bdims := w_bdims s; w_seen := w_seen s;
     w_bnds := w_bnds s; w_span := w_span s; w_created := []; w_gl := w_gl s;
     w_file := w_file s; w_log := w_log s; w_err := w_err s |}.

Definition dry_mode (vr : variant) : mode := {| m_dry := true; m_post := false; m_var := vr |}.
Definition post_mode (vr : variant) : mode := {| m_dry := false; m_post := true; m_var := vr |}.
Definition w_mode (vr : variant) : mode := {| m_dry := false; m_post := false; m_var := vr |}.

(* the state after the dry run over the fields re-read from the file
   (_write_global_attributes is not called in the dry run) *)
Definition dry_run (vr : variant) (e : file) (orig : list field) : wst :=
  log [EClose] (write_fields (dry_mode vr) orig (log [EOpenR] (init e))).

(* the names of the variables and dimensions of the dataset (C17-fix3-2:
   registered as in use between the two passes, whether or not the dry run
   came across them) *)
Definition file_names (e : file) : list string := map v_name (d_vars e) ++ map fst (d_dims e).

Definition register_names (vr : variant) (e : file) (s : wst) : wst :=
  if fx_names vr then upd_names (fun l => file_names e ++ l) s else s.

Definition append_run (vr : variant) (netcdf4 : bool) (o : gopts) (e : file) (orig new : list field) : wst :=
  if refuse vr netcdf4 orig new then set_err (init e)
  else
    let s1 := dry_run vr e orig in
    if w_err s1 then s1
    else log [EClose] (write_fields (post_mode vr) new
                         (write_globals (post_mode vr) o new (reopen (log [EOpenA] (register_names vr e s1))))).

Definition append (vr : variant) (netcdf4 : bool) (o : gopts) (e : file) (orig new : list field) : file * outcome :=
  let s := append_run vr netcdf4 o e orig new in
  (w_file s, if refuse vr netcdf4 orig new then Refused else if w_err s then Failed else Done).

(* a sequence of appends; [reread] stands for cfdm.read of the current file *)
Fixpoint append_seq (vr : variant) (netcdf4 : bool) (reread : file -> list field) (e : file)
         (news : list (gopts * list field)) : file :=
  match news with
  | [] => e
  | n :: r => append_seq vr netcdf4 reread (fst (append vr netcdf4 (fst n) e (reread e) (snd n))) r
  end.

(* ---- the mode argument of cfdm.write ---------------------------------------------------- *)
(* accepted spellings (docstring of cfdm.write): 'w', 'a', and 'r+' as an
   alias of 'a'; anything else is a ValueError before the file is looked at.
   The alias is resolved once, before any of the tests on the mode. *)
Inductive wmode := ModeW | ModeA.
Definition parse_mode (spelling : string) : option wmode :=
  if String.eqb spelling "w" then Some ModeW
  else if String.eqb spelling "a" then Some ModeA
  else if String.eqb spelling "r+" then Some ModeA
  else None.

Inductive call_outcome := CAppend (o : outcome) | CBadMode | CNotAppend.

(* a call of cfdm.write on an existing file with the given spelling of the
   mode; mode 'w' replaces the file and is no concern of this property *)
Definition write_call (vr : variant) (spelling : string) (netcdf4 : bool) (o : gopts) (e : file)
           (orig new : list field) : file * call_outcome :=
  match parse_mode spelling with
  | None => (e, CBadMode)
  | Some ModeW => (e, CNotAppend)
  | Some ModeA => let '(fl, out) := append vr netcdf4 o e orig new in (fl, CAppend out)
  end.

(* cfdm.write(mode='w') to a new file: one pass, global attributes written *)
Definition empty_file : file := {| d_dims := []; d_vars := []; d_gatts := [] |}.
Definition create_run (vr : variant) (o : gopts) (fs : list field) : wst :=
  log [EClose] (write_fields (w_mode vr) fs (write_globals (w_mode vr) o fs (log [EOpenA] (init empty_file)))).

(* ---- an abstract reader: which variables are data variables, and what a
        data variable's field is built from --------------------------------------------- *)
Definition ref_names (v : var) : list string := concat (map (fun r => map snd (snd r)) (v_refs v)).
Definition referenced (fl : file) : list string := concat (map ref_names (d_vars fl)).
Definition is_coordvar (v : var) : bool :=
  match v_dims v with [d] => String.eqb d (v_name v) | _ => false end.
Definition is_data_var (fl : file) (v : var) : bool :=
  negb (smem (v_name v) (referenced fl)) && negb (is_coordvar v).
Definition data_vars (fl : file) : list var := filter (is_data_var fl) (d_vars fl).

Definition lookup_var (fl : file) (n : string) : option var :=
  find (fun v => String.eqb (v_name v) n) (d_vars fl).

(* the variables a field is assembled from: those named by reference
   attributes and the coordinate variables of the dimensions, to any depth
   allowed by the fuel *)
Fixpoint reach (fuel : nat) (fl : file) (names : list string) : list (string * option var) :=
  match fuel with
  | O => []
  | S k => concat (map (fun n =>
             match lookup_var fl n with
             | Some v => (n, Some v) :: reach k fl (ref_names v ++ v_dims v)
             | None => [(n, None)]
             end) names)
  end.

Definition view (fuel : nat) (fl : file) (v : var) :=
  (v, d_gatts fl, map (fun d => assoc d (d_dims fl)) (v_dims v), reach fuel fl (ref_names v ++ v_dims v)).
